// translate: a small Go → Lean 4 translator for the leaf functions of go-sse.
//
//	translate <repo dir> <out dir>
//
// For every function named in `targets` it writes a Lean definition over the prelude GoSSE/GoRT.lean
// (shallow embedding: Go statements become a term of the monad GoM; a loop becomes loopM with fuel; a
// run-time panic of an index or slice expression becomes Fault.panic). The output is regenerated from the
// repository's current source on every run; the theorems of GoSSE/Proofs/GenEquiv.lean state that each
// generated definition computes the hand-written model's function for every input and never panics.
//
// The accepted subset is deliberately small (see DESIGN.md §3a). Anything outside it makes the translator
// stop with an error naming the construct: the tie between source and model is then reported as broken,
// never silently skipped.
package main

import (
	"strconv"
	"fmt"
	"go/ast"
	"go/constant"
	"go/importer"
	"go/parser"
	"go/token"
	"go/types"
	"os"
	"path/filepath"
	"runtime"
	"sort"
	"strings"
)

type target struct {
	std   bool     // dir is relative to GOROOT/src (the installed toolchain's standard library) instead of the repository
	dir   string   // package directory relative to the repository root
	files []string // files to parse (the whole package is not needed: only these are type-checked)
	funcs []string // functions (or Recv.Method) to translate, in dependency order
	out   string   // Lean module name under GoSSE.Gen
	joins bool     // code after an `if` that both branches reach becomes a definition of its own when it is more than one statement
	prune []string // structs declared with only the fields the target's functions select (the others: Unit)
	opaque []string // callees that stay outside: each becomes a parameter `<name>P` of the translated function that calls it
	chanLog string  // a (pruned) struct that gets the ghost field `chlog`: the channel operations its methods perform, in order
	regions []regionSpec // statements of a function translated as definitions of their own
	fieldFuncs []string  // function-valued struct fields (callbacks of the package's users): each a parameter `<name>P` of the function that reads it (none = nil)
	dynRW   bool         // an http.ResponseWriter is a GoRT.DynRW here (its identity, the extra methods its dynamic type has, what Unwrap returns): type switches over it
	callLog string       // a (pruned) struct that gets the ghost field `cblog`: the calls its methods make through callback values (numbers), in order
}

// mapRangeCtx: for k, v := range m — the value variable, the key's Lean name, the map expression
type mapRangeCtx struct {
	val types.Object
	key string
	m   ast.Expr
}

// regionSpec: the first `range` statement of function fn, as a definition `name` of the variables it uses
// regionSpec: a piece of a function translated as a definition of its own. kind "" = its first range statement;
// kind "retlit" = the body of the function literal it returns (the captured variables become parameters)
type regionSpec struct{ fn, name, kind string }

var targets = []target{
	{dir: "internal/parser", files: []string{"chunk.go", "field.go", "field_parser.go", "parser.go"},
		funcs: []string{"isNewlineChar", "NewlineIndex", "NextChunk", "trimFirstSpace", "getFieldName", "splitFunc",
			"FieldParser.scanSegment", "FieldParser.doRemoveBOM", "FieldParser.Next", "FieldParser.Reset", "FieldParser.RemoveBOM",
			"FieldParser.KeepComments", "FieldParser.Started", "FieldParser.Err", "NewFieldParser"},
		out: "Parser"},
	{dir: ".", files: []string{"message.go", "replay.go"}, funcs: []string{"isSingleLine", "topicsIntersect",
		"queue.enqueue", "queue.dequeue", "queue.resize"}, out: "Root"},
	// bufio.Scanner as shipped with the toolchain the harness is built with: what go-sse's parser reads through
	{std: true, dir: "bufio", files: []string{"scan.go", "bufio.go"},
		funcs: []string{"Scanner.setErr", "Scanner.advance", "Scanner.Err", "Scanner.Scan"}, out: "Bufio"},
	{dir: ".", files: []string{"message.go", "message_fields.go"}, funcs: []string{"newMessageField", "messageField.IsSet",
		"messageField.String", "messageField.UnmarshalText", "NewID", "NewType",
		"Message.appendText", "Message.AppendData", "Message.AppendComment"}, out: "Fields"},
	{dir: ".", files: []string{"message.go", "message_fields.go"}, funcs: []string{"writeString", "chunk.WriteTo",
		"Message.writeMessageField", "Message.writeID", "Message.writeType", "Message.writeRetry", "Message.WriteTo",
			"Message.MarshalText", "Message.String"}, out: "Write"},
	// the replayers: everything of replay.go but the two constructors' use of time.Now
	{dir: ".", files: []string{"message.go", "message_fields.go", "replay.go", "server.go", "session.go", "joe.go"},
		funcs: []string{"must", "ID", "Message.Clone", "ensureID", "queue.each", "messageWithTopics.ID", "findIDInQueue",
			"NewFiniteReplayer", "FiniteReplayer.Put", "FiniteReplayer.Replay",
			"ValidReplayer.shouldGC", "ValidReplayer.doGC", "ValidReplayer.GC", "ValidReplayer.Put", "ValidReplayer.Replay"}, out: "Replay", joins: true},
	// decoding one event from its wire form
	{dir: ".", files: []string{"message.go", "message_fields.go"}, funcs: []string{"Message.reset", "Message.UnmarshalText"}, out: "Unmarshal", joins: true},
	// the interpreter of the event stream: fields in, events out
	{dir: ".", files: []string{"event.go"}, funcs: []string{"read"}, out: "Event", joins: true},
	// the MessageWriter a provider is handed: Session over any response writer
	{dir: ".", files: []string{"message.go", "message_fields.go", "session.go"}, funcs: []string{"Session.doUpgrade", "Session.Send", "Session.Flush"}, out: "Session", joins: true},
	// the other construction routes of an ID / type: database/sql, encoding/json, text
	{dir: ".", files: []string{"message.go", "message_fields.go"}, funcs: []string{"messageField.Scan", "messageField.UnmarshalJSON", "messageField.MarshalText"}, out: "FieldRoutes"},
	// sse.Upgrade: which writer the session gets is getResponseWriter's answer (a parameter), the Last-Event-ID header
	{dir: ".", files: []string{"message.go", "message_fields.go", "session.go"}, funcs: []string{"Upgrade"}, out: "Upgrade", opaque: []string{"getResponseWriter"}},
	// … and getResponseWriter itself: the loop over Unwrap() with its type switch on what the writer's dynamic type can do
	{dir: ".", files: []string{"message.go", "message_fields.go", "session.go"}, funcs: []string{"getResponseWriter"}, out: "Writers", dynRW: true},
	// Server.Publish's topic defaulting; the subscription a session gets (OnSession, a callback of the caller's, is a parameter)
	{dir: ".", files: []string{"message.go", "message_fields.go", "session.go", "server.go"}, funcs: []string{"getTopics", "Server.getSubscription"}, out: "Server",
		prune: []string{"Server"}, fieldFuncs: []string{"OnSession"}},
	// what a reconnection attempt does to the request: the body re-obtained, the Last-Event-ID header set or removed
	{dir: ".", files: []string{"client.go", "client_connection.go", "event.go"}, funcs: []string{"resetRequestBody", "Connection.resetRequest",
		"Connection.addSubscriberToAll", "Connection.addSubscriber", "Connection.dispatch"}, out: "Reset", prune: []string{"Connection"}, callLog: "Connection",
		regions: []regionSpec{{fn: "Connection.addSubscriberToAll", name: "Connection_removeFromAll", kind: "retlit"},
			{fn: "Connection.addSubscriber", name: "Connection_removeFromType", kind: "retlit"}}},
	// Joe's loop, the parts that touch the subscribers: removeSubscriber, closeSubscribers and the fan-out of a published
	// message (the `range` statement of start's message case, as a definition of its own)
	{dir: ".", files: []string{"message.go", "message_fields.go", "replay.go", "server.go", "session.go", "joe.go"},
		funcs: []string{"Joe.removeSubscriber", "Joe.closeSubscribers"}, out: "JoeLoop", prune: []string{"Joe"}, chanLog: "Joe",
		regions: []regionSpec{{fn: "Joe.start", name: "Joe_fanout"}}},
	// the client's back-off controller (float64 as an abstract carrier, the PRNG as the list of its draws, the clock as a parameter)
	{dir: ".", files: []string{"client.go", "client_connection.go", "event.go"}, funcs: []string{"nextInterval", "growInterval", "backoffController.reset", "backoffController.next"}, out: "Backoff"},
}

func die(pos token.Position, format string, a ...any) {
	fmt.Fprintf(os.Stderr, "translate: %s: unsupported: %s\n", pos, fmt.Sprintf(format, a...))
	os.Exit(3)
}

// ---------------------------------------------------------------------------------------------

type tr struct {
	fset    *token.FileSet
	info    *types.Info
	pkg     *types.Package
	names   map[types.Object]string // Lean name of every local object
	used    map[string]int
	tmp     int
	known   map[string]bool // functions translated so far (callable)
	nilable map[types.Object]bool
	// current function
	results        []*types.Var
	recv           *types.Var // pointer receiver treated as in/out state
	inouts         []*types.Var
	structs        map[string]*types.Struct
	generic        map[string]int // generic structs: number of type parameters
	genericBinders map[string]string
	tpDecl         string // type-parameter binders of the current function
	aux            *em    // loop bodies of the current function, emitted before it
	fname          string // Lean name of the current function
	nloop          int
	njoin          int
	sigs           map[string]*fsig
	usesWriter     bool
	files          []*ast.File
	sigmaStructs   map[string]bool       // structs with a MessageWriter inside: structure S (σ : Type)
	phiStructs     map[string]bool       // structs with a float64 inside: structure S (φ : Type)
	pruned         map[string]map[string]bool // structs declared with only the fields the target's functions select (the rest: Unit)
	opaque         map[string]bool            // callees of this target that are parameters of their callers
	chanLog        string                     // the struct that carries the ghost channel log
	orderParam     string                     // the current function ranges over a map: the order of its keys is this parameter
	orderOf        map[*ast.RangeStmt]string  // … one parameter per range over a map (order, order2, …)
	callLog        string                     // the struct that carries the ghost log of callback calls
	dynRW          bool                       // http.ResponseWriter is GoRT.DynRW in this target
	ifaceConv      map[string]string          // … of the current function: struct types stored as a MessageWriter (conversion parameters)
	fieldFuncs     map[string]bool            // function-valued fields that are parameters of the functions reading them
	dynIfaces      map[string][]string        // interfaces that are cases of a type switch over such a writer: the methods they ask for
	callArgTy      string                     // … Lean type of the argument the callbacks take
	retEnv         []*types.Var               // the current function returns a function literal: the variables it captures (closure conversion)
	retEnvTy       string
	sigOverride    *types.Signature           // set while a region of a function is translated
	mapRanges      []mapRangeCtx              // enclosing ranges over maps, innermost last
	opaqueParams   []string                   // … of the current function: binders to add
	nowParam       bool                  // the current function reads the clock once: parameter (now : Int)
	extraTy        map[*types.Var]string // Lean types of synthetic variables (the accumulator of an iterator)
	yieldVar       *types.Var            // in an iterator: the yield parameter …
	accVar         *types.Var            // … and the state threaded through it
	dicts          []dictParam           // method dictionaries of the current generic function's type parameters
	inClosure      bool
	joins          bool
	closures       map[types.Object]*closureInfo // local function literals bound to a variable
	effParams      map[*types.Var]bool           // in an iterator: function-typed parameters without results (effects on the consumer's state)
	breakables     []breakable       // innermost last: what an unlabelled break leaves
	labels         map[string]*loopCtx // labelled loops
	pendingLabel   string
	rebound        map[*types.Var]bool // pointer parameters assigned as a whole: plain inputs, not in/out
}

// closureInfo: x := func(a A) R { … } inside a translated function: a Lean function of its parameters, of the outer
// variables it reads (passed at every call: they may have changed since) and of the tuple of outer variables it
// assigns (its state, handed back)
type closureInfo struct {
	lean  string
	reads []*types.Var
	state []*types.Var
}

// breakable: a loop or a switch
type breakable struct {
	lc *loopCtx // a loop …
	k  *kont    // … or a switch: the code after it
}

// dictParam: a method the constraint of a type parameter demands, passed as a function
type dictParam struct {
	tp, method, leanType string
	tpIndex              int
}

// fsig: how a translated function is called — results first, then the in/out values it hands back
type fsig struct {
	nres     int
	recvIO   bool   // pointer receiver: passed in and returned
	recvMod  bool   // … and possibly changed
	paramIO  []bool // per parameter: in/out (pointer, io.Writer)
	paramMod []bool
	resNil   []bool // per result: an Option (a pointer or slice that may be nil)
	paramNil []bool // per parameter: an Option
	iter     bool   // an iterator: called as f(args…)(func literal)
	dicts    []dictParam
	spread   int // number of parameters (for f(g()) with a multi-valued g)
	phi      bool // computes with floats: takes the float operations `fo` before the fuel
}

func (t *tr) pos(n ast.Node) token.Position {
	if n == nil {
		return token.Position{Filename: "(a declaration)"}
	}
	return t.fset.Position(n.Pos())
}

func (t *tr) fresh(base string) string {
	t.tmp++
	return fmt.Sprintf("%s_%d", base, t.tmp)
}

func (t *tr) nameOf(o types.Object) string {
	if n, ok := t.names[o]; ok {
		return n
	}
	base := o.Name()
	if base == "_" {
		base = "blank"
	}
	switch base { // Lean keywords / prelude names
	case "end", "from", "at", "have", "show", "fun", "then", "open", "in", "do", "len", "idx", "slice", "min", "max", "some", "none", "default", "by", "this", "local":
		base += "'"
	}
	n := base
	if k := t.used[base]; k > 0 {
		n = fmt.Sprintf("%s_%d", base, k)
	}
	t.used[base]++
	t.names[o] = n
	return n
}

// ------------------------------------------------------------------ types

func (t *tr) leanType(ty types.Type, at ast.Node) string {
	switch u := ty.(type) {
	case *types.TypeParam:
		return u.Obj().Name()
	case *types.Named:
		if u.Obj().Pkg() != nil && u.Obj().Pkg().Path() == "io" && u.Obj().Name() == "Reader" {
			return "Reader" // the byte source of GoRT
		}
		if u.Obj().Pkg() != nil && u.Obj().Pkg().Path() == "io" && u.Obj().Name() == "Writer" {
			t.usesWriter = true
			return "(Writer σ)" // any writer: a state and a transition function
		}
		if u.Obj().Pkg() != nil && u.Obj().Pkg().Path() == "time" && (u.Obj().Name() == "Duration" || u.Obj().Name() == "Time") {
			return "Int" // a Duration in nanoseconds; a Time as nanoseconds since the zero Time (GoRT: the time assumptions)
		}
		if u.Obj().Pkg() != nil && strings.HasSuffix(u.Obj().Pkg().Path(), "internal/parser") && u.Obj().Name() == "Parser" && u.Obj().Pkg() != t.pkg {
			return "(ParserI Field π)" // the field source of event.go: a state and what Next / Err answer
		}
		if isByteSinkType(u) {
			return "Bytes" // a strings.Builder / bytes.Buffer: the bytes written so far
		}
		if u.Obj().Pkg() == t.pkg && u.Obj().Name() == "MessageWriter" {
			if _, isIface := u.Underlying().(*types.Interface); isIface {
				return "(MsgWriter Message σ)" // any subscriber: a state and what Send / Flush answer and become
			}
		}
		if t.dynRW && t.isResW(u) {
			return "(String × DynRW)" // the wrapper type chosen, and the writer it wraps
		}
		if t.isResW(u) {
			return "(ResW σ)" // any response writer: a state and what Write / Flush / Header()[k] = v do
		}
		if u.Obj().Pkg() != nil && u.Obj().Pkg().Path() == "net/http" && u.Obj().Name() == "Request" {
			return "HttpReq" // GoRT.HttpReq: body, GetBody, header
		}
		if t.dynRW && u.Obj().Pkg() != nil && u.Obj().Pkg().Path() == "net/http" && u.Obj().Name() == "ResponseWriter" {
			return "DynRW" // its identity, the extra methods of its dynamic type, what Unwrap() returns
		}
		if t.dynRW && t.isResW(u) {
			return "(String × DynRW)" // the wrapper type chosen, and the writer it wraps
		}
		if t.dynRW && u.Obj().Pkg() == t.pkg && t.dynIfaces[u.Obj().Name()] != nil {
			return "DynRW" // a writer known to have the methods of this interface
		}
		if u.Obj().Pkg() != nil && u.Obj().Pkg().Path() == "net/http" && u.Obj().Name() == "ResponseWriter" {
			return "HttpRW" // an http.ResponseWriter of whatever dynamic type: an opaque identity (GoRT.HttpRW)
		}
		if u.Obj().Pkg() != nil && u.Obj().Pkg().Path() == "net/http" && u.Obj().Name() == "Header" {
			return "(List (Bytes × List Bytes))"
		}
		if isMutex(u) {
			return "Unit" // mutual exclusion is assumed, not modelled
		}
		if u.Obj().Pkg() != nil && u.Obj().Pkg().Path() == "io" && u.Obj().Name() == "ReadCloser" {
			return "BodyV" // a request body: nil, http.NoBody, or a reader identified by a tag
		}
		if u.Obj().Pkg() != nil && u.Obj().Pkg().Path() == "bufio" && u.Obj().Name() == "SplitFunc" {
			return "(Bytes → Bool → GoM (Int × (Option Bytes) × (Option String)))"
		}
		if st, ok := u.Underlying().(*types.Struct); ok {
			name := u.Obj().Name()
			if u.TypeParams().Len() > 0 || u.TypeArgs().Len() > 0 {
				// a generic struct: structure name (T : Type); its fields are read off the generic declaration
				og := u.Origin()
				t.structs[name] = og.Underlying().(*types.Struct)
				t.generic[name] = og.TypeParams().Len()
				var bs []string
				for i := 0; i < og.TypeParams().Len(); i++ {
					bs = append(bs, "("+og.TypeParams().At(i).Obj().Name()+" : Type)")
				}
				t.genericBinders[name] = strings.Join(bs, " ")
				var args []string
				for i := 0; i < u.TypeArgs().Len(); i++ {
					args = append(args, t.leanType(u.TypeArgs().At(i), at))
				}
				if len(args) == 0 {
					for i := 0; i < u.TypeParams().Len(); i++ {
						args = append(args, u.TypeParams().At(i).Obj().Name())
					}
				}
				return "(" + name + " " + strings.Join(args, " ") + ")"
			}
			t.structs[name] = st
			if t.pruned[name] != nil {
				if t.prunedSigma(name, st) {
					return "(" + name + " σ)"
				}
				return name
			}
			if t.hasSigma(st, map[*types.Struct]bool{}) {
				t.sigmaStructs[name] = true
				return "(" + name + " σ)"
			}
			if t.hasPhi(st, map[*types.Struct]bool{}) {
				t.phiStructs[name] = true
				return "(" + name + " φ)"
			}
			return name
		}
		if u.Obj().Name() == "error" {
			return "(Option String)"
		}
		if t.isCallbackType(u) {
			return "Nat" // a callback value is its identity; the calls made through it are logged (cblog)
		}
		if sg, ok := u.Underlying().(*types.Signature); ok && t.retEnvTy != "" && sg.Params().Len() == 0 && sg.Results().Len() == 0 {
			return t.retEnvTy // the function literal this function returns: its environment (closure conversion)
		}
		return t.leanType(u.Underlying(), at)
	case *types.Basic:
		switch u.Kind() {
		case types.Int, types.Int64, types.Int32, types.UntypedInt:
			return "Int"
		case types.Uint8, types.UntypedRune:
			return "UInt8"
		case types.Uint64:
			return "UInt64"
		case types.Bool, types.UntypedBool:
			return "Bool"
		case types.String, types.UntypedString:
			return "Bytes"
		case types.Float64, types.UntypedFloat:
			return "φ" // float64: an abstract carrier with the operations of GoRT.FloatI (`fo`)
		}
	case *types.Slice:
		if b, ok := u.Elem().Underlying().(*types.Basic); ok && b.Kind() == types.Uint8 {
			return "Bytes"
		}
		return "(List " + t.leanType(u.Elem(), at) + ")"
	case *types.Array:
		if bb, ok := u.Elem().Underlying().(*types.Basic); ok && bb.Kind() == types.Uint8 {
			return "Bytes" // a fixed-size byte array, as a list of that length
		}
	case *types.Pointer:
		if isRandRand(u.Elem()) {
			return "(List φ)" // *rand.Rand: the draws still to come (GoRT.rngFloat64)
		}
		if _, basic := u.Elem().Underlying().(*types.Basic); basic {
			return "(Option " + t.leanType(u.Elem(), at) + ")" // *uint64: nil or a cell
		}
		return t.leanType(u.Elem(), at)
	case *types.Chan:
		return "Nat" // a channel is its identity; what is done to it is logged (ChanOp)
	case *types.Map:
		return "(List (" + t.leanType(u.Key(), at) + " × " + t.leanType(u.Elem(), at) + "))" // an association list; iteration order is a parameter
	case *types.Signature:
		// a function value without parameters (ValidReplayer.Now): a computation
		if u.Params().Len() == 0 && u.Results().Len() == 1 {
			return "(GoM " + t.leanType(u.Results().At(0).Type(), at) + ")"
		}
	case *types.Interface:
		if ty.String() == "error" {
			return "(Option String)"
		}
		if u.NumMethods() == 0 {
			return "AnyV" // interface{}: nil, a []byte, a string, or a value of some other dynamic type (GoRT.AnyV)
		}
	}
	die(t.pos(at), "type %s", ty)
	return ""
}

// isCallbackType: a named function type with parameters and without results (EventCallback), in a target with a call log
func (t *tr) isCallbackType(ty types.Type) bool {
	if t.callLog == "" {
		return false
	}
	n, ok := ty.(*types.Named)
	if !ok {
		return false
	}
	sg, ok := n.Underlying().(*types.Signature)
	if ok && sg.Params().Len() == 1 && sg.Results().Len() == 0 {
		if t.callArgTy == "" {
			t.callArgTy = t.leanType(sg.Params().At(0).Type(), nil)
		}
		return true
	}
	return false
}

// returnedLit: the function literal a function returns (`return func() { … }`), if it does
func returnedLit(body *ast.BlockStmt) *ast.FuncLit {
	var lit *ast.FuncLit
	ast.Inspect(body, func(n ast.Node) bool {
		if _, ok := n.(*ast.FuncLit); ok {
			return false
		}
		if rs, ok := n.(*ast.ReturnStmt); ok && len(rs.Results) == 1 && lit == nil {
			if l, ok := rs.Results[0].(*ast.FuncLit); ok {
				lit = l
			}
		}
		return true
	})
	return lit
}

// litEnv: the variables a function literal captures, the receiver of the enclosing method apart
func (t *tr) litEnv(lit *ast.FuncLit, recv *types.Var) []*types.Var {
	var out []*types.Var
	for _, fv := range t.freeVars(lit.Body, lit.Body) {
		if recv != nil && fv == recv {
			continue
		}
		out = append(out, fv)
	}
	return out
}

// fieldFunc: x.F where F is a function-valued field that is a parameter here
func (t *tr) fieldFunc(x ast.Expr) (string, *types.Signature, bool) {
	sel, ok := x.(*ast.SelectorExpr)
	if !ok || !t.fieldFuncs[sel.Sel.Name] {
		return "", nil, false
	}
	s, ok := t.info.Selections[sel]
	if !ok || s.Kind() != types.FieldVal {
		return "", nil, false
	}
	sg, ok := s.Type().Underlying().(*types.Signature)
	if !ok {
		return "", nil, false
	}
	return sel.Sel.Name, sg, true
}

// isMutex: sync.Mutex / sync.RWMutex
func isMutex(ty types.Type) bool {
	if p, ok := ty.(*types.Pointer); ok {
		ty = p.Elem()
	}
	n, ok := ty.(*types.Named)
	return ok && n.Obj().Pkg() != nil && n.Obj().Pkg().Path() == "sync" && (n.Obj().Name() == "Mutex" || n.Obj().Name() == "RWMutex")
}

// mutexCall: x.mu.Lock() and friends
func (t *tr) mutexCall(c *ast.CallExpr) bool {
	sel, ok := c.Fun.(*ast.SelectorExpr)
	if !ok {
		return false
	}
	tv, ok := t.info.Types[sel.X]
	return ok && isMutex(tv.Type)
}

// chanOp: a channel operation of the current function, appended to the log its receiver carries
func (t *tr) chanOp(e *em, at ast.Node, op string) {
	if t.recv == nil || t.chanLog == "" {
		die(t.pos(at), "channel operation outside a method of the struct that carries the channel log")
	}
	r := t.nameOf(t.recv)
	e.line("let %s := { %s with chlog := (%s).chlog ++ [%s] }", r, r, r, op)
}

// prunedSigma: a selected field of the pruned struct mentions σ
func (t *tr) prunedSigma(name string, st *types.Struct) bool {
	for i := 0; i < st.NumFields(); i++ {
		if t.pruned[name][st.Field(i).Name()] && strings.Contains(t.fieldType(st.Field(i), nil), "σ") {
			return true
		}
	}
	return false
}

// isHTTPReq: an expression of type *http.Request
func (t *tr) isHTTPReq(x ast.Expr) bool {
	tv, ok := t.info.Types[x]
	if !ok {
		return false
	}
	pt, ok := tv.Type.(*types.Pointer)
	if !ok {
		return false
	}
	n, ok := pt.Elem().(*types.Named)
	return ok && n.Obj().Pkg() != nil && n.Obj().Pkg().Path() == "net/http" && n.Obj().Name() == "Request"
}

// isRandRand: math/rand.Rand
func isRandRand(ty types.Type) bool {
	n, ok := ty.(*types.Named)
	return ok && n.Obj().Pkg() != nil && n.Obj().Pkg().Path() == "math/rand" && n.Obj().Name() == "Rand"
}

// hasPhi: the struct holds a float64 or a *rand.Rand (directly, in a nested struct or behind a pointer)
func (t *tr) hasPhi(st *types.Struct, seen map[*types.Struct]bool) bool {
	if seen[st] {
		return false
	}
	seen[st] = true
	for i := 0; i < st.NumFields(); i++ {
		ft := st.Field(i).Type()
		if p, ok := ft.(*types.Pointer); ok {
			ft = p.Elem()
		}
		if b, ok := ft.Underlying().(*types.Basic); ok && b.Kind() == types.Float64 {
			return true
		}
		if isRandRand(ft) {
			return true
		}
		if n, ok := ft.(*types.Named); ok {
			if s2, ok := n.Underlying().(*types.Struct); ok && t.hasPhi(s2, seen) {
				return true
			}
		}
	}
	return false
}

// isResW: the package's ResponseWriter interface
func (t *tr) isResW(ty types.Type) bool {
	n, ok := ty.(*types.Named)
	if !ok || n.Obj().Pkg() != t.pkg || n.Obj().Name() != "ResponseWriter" {
		return false
	}
	_, isIface := n.Underlying().(*types.Interface)
	return isIface
}

// isResWArg: an expression of that type handed to a callee as its io.Writer
func (t *tr) isResWArg(a ast.Expr) bool {
	tv, ok := t.info.Types[a]
	return ok && t.isResW(tv.Type)
}

// hasSigma: the struct holds a MessageWriter (directly or in a nested struct)
func (t *tr) hasSigma(st *types.Struct, seen map[*types.Struct]bool) bool {
	if seen[st] {
		return false
	}
	seen[st] = true
	for i := 0; i < st.NumFields(); i++ {
		ft := st.Field(i).Type()
		if n, ok := ft.(*types.Named); ok {
			if n.Obj().Pkg() == t.pkg && n.Obj().Name() == "MessageWriter" {
				return true
			}
			if t.isResW(n) {
				return true
			}
			if s2, ok := n.Underlying().(*types.Struct); ok && t.hasSigma(s2, seen) {
				return true
			}
		}
	}
	return false
}

// fieldType: the Lean type of a struct field — a pointer to a struct is nil or a value there
func (t *tr) fieldType(f *types.Var, at ast.Node) string {
	if p, ok := f.Type().(*types.Pointer); ok {
		if n, ok := p.Elem().(*types.Named); ok && n.Obj().Pkg() != nil && n.Obj().Pkg().Path() == "net/http" {
			if n.Obj().Name() == "Request" {
				return "(Option HttpReq)"
			}
			return "Unit"
		}
		if isRandRand(p.Elem()) {
			return "(List φ)"
		}
		if _, basic := p.Elem().Underlying().(*types.Basic); !basic {
			return "(Option " + t.leanType(p.Elem(), at) + ")"
		}
	}
	return t.leanType(f.Type(), at)
}

func (t *tr) varType(v *types.Var, at ast.Node) string {
	if ty, ok := t.extraTy[v]; ok {
		return ty
	}
	ty := t.leanType(v.Type(), at)
	if t.nilable[v] {
		return "(Option " + ty + ")"
	}
	return ty
}

func (t *tr) zero(ty types.Type, at ast.Node) string {
	if arr, ok := ty.Underlying().(*types.Array); ok {
		return fmt.Sprintf("(List.replicate %d (0 : UInt8))", arr.Len())
	}
	if _, ok := ty.(*types.Pointer); ok {
		return "none"
	}
	if _, ok := ty.Underlying().(*types.Signature); ok {
		return "(throw (Fault.panic \"nil function\"))"
	}
	switch t.leanType(ty, at) {
	case "Int":
		return "(0 : Int)"
	case "UInt64":
		return "(0 : UInt64)"
	case "UInt8":
		return "(0 : UInt8)"
	case "Bool":
		return "false"
	case "Bytes":
		return "([] : Bytes)"
	case "(Option String)":
		return "(none : Option String)"
	}
	if strings.HasPrefix(t.leanType(ty, at), "(List ") {
		return "[]"
	}
	if _, ok := ty.(*types.TypeParam); ok {
		return "default"
	}
	if n, ok := ty.(*types.Named); ok {
		if st, ok := n.Underlying().(*types.Struct); ok {
			return t.structLit(n, st, nil, at)
		}
	}
	die(t.pos(at), "zero value of %s", ty)
	return ""
}

// fieldName: Lean name of a struct field (Lean keywords get a prime)
func fieldName(n string) string {
	switch n {
	case "Type", "Sort", "Prop", "end", "from", "at", "fun", "then", "open", "in", "do", "by", "this", "local", "instance", "structure", "class", "where", "with", "match", "if", "else", "let", "have", "show":
		return n + "'"
	}
	return n
}

// pkgVarBytes: the constant value of a package-level []byte variable
func (t *tr) pkgVarBytes(v *types.Var) (string, bool) {
	for _, f := range t.files {
		for _, d := range f.Decls {
			gd, ok := d.(*ast.GenDecl)
			if !ok || gd.Tok != token.VAR {
				continue
			}
			for _, sp := range gd.Specs {
				vs := sp.(*ast.ValueSpec)
				for i, id := range vs.Names {
					if t.info.Defs[id] != types.Object(v) || i >= len(vs.Values) {
						continue
					}
					switch init := vs.Values[i].(type) {
					case *ast.CallExpr: // []byte(constant string)
						if len(init.Args) == 1 {
							if tv, ok := t.info.Types[init.Args[0]]; ok && tv.Value != nil && tv.Value.Kind() == constant.String {
								return bytesLit(constant.StringVal(tv.Value)), true
							}
						}
					case *ast.CompositeLit: // []byte{'a', 'b'}, or []string{"a", "b"}
						if sl, ok := v.Type().Underlying().(*types.Slice); ok {
							if b, ok := sl.Elem().Underlying().(*types.Basic); ok && b.Kind() == types.String {
								var ss []string
								for _, el := range init.Elts {
									tv, ok := t.info.Types[el]
									if !ok || tv.Value == nil || tv.Value.Kind() != constant.String {
										return "", false
									}
									ss = append(ss, bytesLit(constant.StringVal(tv.Value)))
								}
								return "[" + strings.Join(ss, ", ") + "]", true
							}
						}
						var bs []byte
						for _, el := range init.Elts {
							tv, ok := t.info.Types[el]
							if !ok || tv.Value == nil {
								return "", false
							}
							n, _ := constant.Int64Val(tv.Value)
							bs = append(bs, byte(n))
						}
						return bytesLit(string(bs)), true
					}
				}
			}
		}
	}
	return "", false
}

// structLit: a struct value with the given field values, zero values elsewhere
func (t *tr) structLit(n *types.Named, st *types.Struct, vals map[string]string, at ast.Node) string {
	t.leanType(n, at) // records the structure
	var fs []string
	for i := 0; i < st.NumFields(); i++ {
		f := st.Field(i)
		v, ok := vals[f.Name()]
		if !ok {
			v = t.zero(f.Type(), at)
		}
		fs = append(fs, fieldName(f.Name())+" := "+v)
	}
	tyName := n.Obj().Name()
	if t.sigmaStructs[tyName] {
		tyName += " σ"
	}
	if n.TypeArgs().Len() > 0 {
		tyName = strings.Trim(t.leanType(n, at), "()")
	}
	return "({ " + strings.Join(fs, ", ") + " } : " + tyName + ")"
}

func bytesLit(s string) string {
	if s == "" {
		return "([] : Bytes)"
	}
	parts := make([]string, len(s))
	for i := 0; i < len(s); i++ {
		parts[i] = fmt.Sprint(s[i])
	}
	return "([" + strings.Join(parts, ", ") + "] : Bytes)"
}

func (t *tr) constLit(tv types.TypeAndValue, at ast.Node) string {
	switch tv.Value.Kind() {
	case constant.Bool:
		if constant.BoolVal(tv.Value) {
			return "true"
		}
		return "false"
	case constant.String:
		return bytesLit(constant.StringVal(tv.Value))
	case constant.Float:
		num, den := constant.Num(tv.Value), constant.Denom(tv.Value)
		return fmt.Sprintf("(fo.lit (%s) %s)", num.ExactString(), den.ExactString())
	case constant.Int:
		lt := t.leanType(tv.Type, at)
		if lt == "φ" {
			return fmt.Sprintf("(fo.lit (%s) 1)", tv.Value.ExactString()) // an integer constant used as a float64
		}
		v := tv.Value.ExactString()
		if strings.HasPrefix(v, "-") {
			return fmt.Sprintf("(%s : %s)", v, lt)
		}
		return fmt.Sprintf("(%s : %s)", v, lt)
	}
	die(t.pos(at), "constant %s", tv.Value)
	return ""
}

// ------------------------------------------------------------------ emitter

type em struct {
	sb  strings.Builder
	ind int
}

func (e *em) line(format string, a ...any) {
	e.sb.WriteString(strings.Repeat("  ", e.ind))
	fmt.Fprintf(&e.sb, format, a...)
	e.sb.WriteString("\n")
}

// ------------------------------------------------------------------ expressions
//
// expr returns a pure Lean term; the effects (index / slice checks, calls) it needs first are emitted as
// `let x ← …` lines, in Go's left-to-right evaluation order.

func (t *tr) expr(e *em, x ast.Expr) string {
	if tv, ok := t.info.Types[x]; ok && tv.Value != nil {
		return t.constLit(tv, x)
	}
	switch v := x.(type) {
	case *ast.ParenExpr:
		return t.expr(e, v.X)
	case *ast.Ident:
		if v.Name == "nil" {
			return "none"
		}
		o := t.info.Uses[v]
		if o == nil {
			o = t.info.Defs[v]
		}
		if vv, ok := o.(*types.Var); ok {
			if !vv.IsField() && vv.Parent() == t.pkg.Scope() {
				// a package-level error value is identified by its name
				if t.leanType(vv.Type(), x) == "(Option String)" {
					return fmt.Sprintf("(some %q)", v.Name)
				}
				// a package-level byte slice with a constant initialiser ([]byte("…"), []byte{'…'}) is its value
				if val, ok := t.pkgVarBytes(vv); ok {
					return val
				}
				die(t.pos(x), "package-level variable %s", v.Name)
			}
			return t.nameOf(o)
		}
		die(t.pos(x), "identifier %s", v.Name)
	case *ast.SelectorExpr:
		// field of the receiver / an in-out struct
		if sel, ok := t.info.Selections[v]; ok && sel.Kind() == types.FieldVal {
			return t.derefIfOpt(e, v.X) + t.embedPath(sel) + "." + fieldName(v.Sel.Name)
		}
		// pkg.ErrX: an error value of another package is identified by its qualified name
		if id, ok := v.X.(*ast.Ident); ok {
			if pn, isPkg := t.info.Uses[id].(*types.PkgName); isPkg && pn.Imported().Path() == "net/http" && v.Sel.Name == "NoBody" {
				return "BodyV.noBody"
			}
			if _, isPkg := t.info.Uses[id].(*types.PkgName); isPkg {
				if vv, ok := t.info.Uses[v.Sel].(*types.Var); ok && t.leanType(vv.Type(), x) == "(Option String)" {
					return fmt.Sprintf("(some %q)", id.Name+"."+v.Sel.Name)
				}
			}
		}
		die(t.pos(x), "selector %s", types.ExprString(x))
	case *ast.UnaryExpr:
		switch v.Op {
		case token.NOT:
			return "(!" + t.expr(e, v.X) + ")"
		case token.SUB:
			return "(-" + t.expr(e, v.X) + ")"
		case token.AND:
			// &E{…} where *E is an error: identified by its type name and, if it has one, the text of its Reason
			if cl, ok := v.X.(*ast.CompositeLit); ok {
				if n, ok := t.info.Types[cl].Type.(*types.Named); ok {
					if m, _, _ := types.LookupFieldOrMethod(types.NewPointer(n), true, t.pkg, "Error"); m != nil {
						if _, isFn := m.(*types.Func); isFn {
							reason := "none"
							for _, el := range cl.Elts {
								if kv, ok := el.(*ast.KeyValueExpr); ok {
									val := t.expr(e, kv.Value) // evaluated for its checks
									if kv.Key.(*ast.Ident).Name == "Reason" {
										reason = val
									}
								}
							}
							return fmt.Sprintf("(errStruct %q %s)", n.Obj().Name(), reason)
						}
					}
				}
			}
			// &T{…}: the value; &place (an argument handed in and back): the place's value
			return t.expr(e, v.X)
		}
		die(t.pos(x), "unary %s", v.Op)
	case *ast.BinaryExpr:
		switch v.Op {
		case token.LAND, token.LOR:
			l := t.expr(e, v.X)
			// the right operand is evaluated only if needed: its effects go inside the branch
			sub := &em{ind: e.ind + 2}
			r := t.expr(sub, v.Y)
			if sub.sb.Len() == 0 {
				if v.Op == token.LAND {
					return "(" + l + " && " + r + ")"
				}
				return "(" + l + " || " + r + ")"
			}
			n := t.fresh("c")
			if v.Op == token.LAND {
				e.line("let %s ← (if %s then do", n, l)
				e.sb.WriteString(sub.sb.String())
				e.line("    pure %s", r)
				e.line("  else pure false)")
			} else {
				e.line("let %s ← (if %s then pure true else do", n, l)
				e.sb.WriteString(sub.sb.String())
				e.line("    pure %s)", r)
			}
			return n
		}
		if id, ok := v.Y.(*ast.Ident); ok && id.Name == "nil" && (v.Op == token.EQL || v.Op == token.NEQ) {
			if fname, _, ok := t.fieldFunc(v.X); ok {
				if v.Op == token.NEQ {
					return "(" + fname + "P).isSome"
				}
				return "(" + fname + "P).isNone"
			}
			if xi, ok := v.X.(*ast.Ident); ok {
				if o, ok := t.info.Uses[xi].(*types.Var); ok && t.nilable[o] && t.isResW(o.Type()) {
					if v.Op == token.NEQ {
						return "(" + t.nameOf(o) + ").isSome"
					}
					return "(" + t.nameOf(o) + ").isNone"
				}
			}
			if n, ok := t.info.Types[v.X].Type.(*types.Named); ok && n.Obj().Pkg() != nil && n.Obj().Pkg().Path() == "io" && n.Obj().Name() == "ReadCloser" {
				if v.Op == token.NEQ {
					return "(" + t.expr(e, v.X) + " != BodyV.nil)"
				}
				return "(" + t.expr(e, v.X) + " == BodyV.nil)"
			}
			if iface, ok := t.info.Types[v.X].Type.Underlying().(*types.Interface); ok && iface.NumMethods() == 0 {
				if v.Op == token.NEQ {
					return "(!(anyIsNil " + t.expr(e, v.X) + "))"
				}
				return "(anyIsNil " + t.expr(e, v.X) + ")"
			}
			if _, isFn := t.info.Types[v.X].Type.Underlying().(*types.Signature); isFn {
				if v.Op == token.NEQ {
					return "(" + t.expr(e, v.X) + ").isSome"
				}
				return "(!(" + t.expr(e, v.X) + ").isSome)"
			}
		}
		l, r := t.expr(e, v.X), t.expr(e, v.Y)
		lt := t.leanType(t.info.Types[v.X].Type, v.X)
		if t.isFloat(v.X) || t.isFloat(v.Y) {
			// float64: the operations of `fo` (a comparison with NaN is false, != is the negation of ==)
			switch v.Op {
			case token.EQL:
				return "(fo.eq " + l + " " + r + ")"
			case token.NEQ:
				return "(!(fo.eq " + l + " " + r + "))"
			case token.LSS:
				return "(fo.lt " + l + " " + r + ")"
			case token.LEQ:
				return "(fo.le " + l + " " + r + ")"
			case token.GTR:
				return "(fo.lt " + r + " " + l + ")"
			case token.GEQ:
				return "(fo.le " + r + " " + l + ")"
			case token.ADD:
				return "(fo.add " + l + " " + r + ")"
			case token.SUB:
				return "(fo.sub " + l + " " + r + ")"
			case token.MUL:
				return "(fo.mul " + l + " " + r + ")"
			case token.QUO:
				return "(fo.div " + l + " " + r + ")"
			}
			die(t.pos(v), "float operator %s", v.Op)
		}
		switch v.Op {
		case token.EQL:
			return "(" + l + " == " + r + ")"
		case token.NEQ:
			return "(" + l + " != " + r + ")"
		case token.LSS:
			return "(decide (" + l + " < " + r + "))"
		case token.LEQ:
			return "(decide (" + l + " ≤ " + r + "))"
		case token.GTR:
			return "(decide (" + l + " > " + r + "))"
		case token.GEQ:
			return "(decide (" + l + " ≥ " + r + "))"
		case token.ADD:
			if lt == "Bytes" {
				return "(" + l + " ++ " + r + ")"
			}
			if lt == "Int" || lt == "UInt8" || lt == "UInt64" {
				return "(" + l + " + " + r + ")"
			}
		case token.SUB:
			if lt == "Int" || lt == "UInt64" { // (uint64: modulo 2^64, as in Go)
				return "(" + l + " - " + r + ")"
			}
		case token.MUL:
			if lt == "Int" {
				if b, ok := t.info.Types[v.X].Type.Underlying().(*types.Basic); ok && b.Kind() == types.Int64 {
					return "(wrapInt64 (" + l + " * " + r + "))" // int64 (time.Duration): two's complement wrap-around
				}
				return "(" + l + " * " + r + ")"
			}
		case token.REM:
			if tv, ok := t.info.Types[v.Y]; ok && tv.Value != nil && lt == "Int" && constant.Sign(tv.Value) > 0 {
				return "(Int.tmod " + l + " " + r + ")"
			}
		case token.QUO:
			// integer division by a positive constant (Go truncates toward zero)
			if tv, ok := t.info.Types[v.Y]; ok && tv.Value != nil && lt == "Int" && constant.Sign(tv.Value) > 0 {
				return "(Int.tdiv " + l + " " + r + ")"
			}
		}
		die(t.pos(x), "binary %s on %s", v.Op, lt)
	case *ast.IndexExpr:
		if tv, ok := t.info.Types[v.X]; ok {
			if hn, ok := tv.Type.(*types.Named); ok && hn.Obj().Pkg() != nil && hn.Obj().Pkg().Path() == "net/http" && hn.Obj().Name() == "Header" {
				return "(headerGet " + t.expr(e, v.X) + " " + t.expr(e, v.Index) + ")" // h[key]: the values stored under exactly that key
			}
		}
		if mt, ok := t.info.Types[v.X].Type.Underlying().(*types.Map); ok {
			// m[k] of a map of maps: the inner map, nil (= no entries, for a reader) when k is absent
			if _, inner := mt.Elem().Underlying().(*types.Map); inner {
				return "((mapGet " + t.expr(e, v.X) + " " + t.expr(e, v.Index) + ").getD [])"
			}
			die(t.pos(x), "map index whose value is not a map (use v, ok := m[k])")
		}
		s, i := t.expr(e, v.X), t.expr(e, v.Index)
		n := t.fresh("b")
		e.line("let %s ← idx %s %s", n, s, i)
		return n
	case *ast.FuncLit:
		if t.retEnv != nil {
			var ns []string
			for _, ev := range t.retEnv {
				ns = append(ns, t.nameOf(ev))
			}
			if len(ns) == 0 {
				return "()"
			}
			return "(" + strings.Join(ns, ", ") + ")"
		}
		die(t.pos(x), "function literal")
	case *ast.SliceExpr:
		if v.Slice3 && (v.High == nil || types.ExprString(v.Max) != types.ExprString(v.High)) {
			// s[a:b:b] only limits the capacity: the value is s[a:b] (capacities are not part of a value here)
			die(t.pos(x), "3-index slice whose capacity bound differs from its length bound")
		}
		s := t.expr(e, v.X)
		n := t.fresh("s")
		switch {
		case v.Low != nil && v.High != nil:
			e.line("let %s ← slice %s %s %s", n, s, t.expr(e, v.Low), t.expr(e, v.High))
		case v.Low != nil:
			e.line("let %s ← sliceFrom %s %s", n, s, t.expr(e, v.Low))
		case v.High != nil:
			e.line("let %s ← sliceTo %s %s", n, s, t.expr(e, v.High))
		default:
			return s
		}
		return n
	case *ast.CompositeLit:
		if _, isMap := t.info.Types[v].Type.Underlying().(*types.Map); isMap && len(v.Elts) == 0 {
			return "[]" // an empty, non-nil map
		}
		n, ok := t.info.Types[v].Type.(*types.Named)
		if !ok {
			die(t.pos(x), "composite literal of %s", t.info.Types[v].Type)
		}
		if isByteSinkType(n) && len(v.Elts) == 0 {
			return "([] : Bytes)"
		}
		st, ok := n.Underlying().(*types.Struct)
		if !ok {
			die(t.pos(x), "composite literal of %s", n)
		}
		if t.dynRW && st.NumFields() == 1 && st.Field(0).Embedded() && len(v.Elts) == 1 {
			if fn, ok := st.Field(0).Type().(*types.Named); ok && t.dynIfaces[fn.Obj().Name()] != nil {
				if _, kv := v.Elts[0].(*ast.KeyValueExpr); !kv {
					return "(" + strconv.Quote(n.Obj().Name()) + ", " + t.expr(e, v.Elts[0]) + ")" // wrapper{v}: which wrapper, around which writer
				}
			}
		}
		vals := map[string]string{}
		fieldByName := func(name string) *types.Var {
			for i := 0; i < st.NumFields(); i++ {
				if st.Field(i).Name() == name {
					return st.Field(i)
				}
			}
			return nil
		}
		for i, el := range v.Elts {
			f, val := st.Field(i), el
			if kv, ok := el.(*ast.KeyValueExpr); ok {
				f, val = fieldByName(kv.Key.(*ast.Ident).Name), kv.Value
			}
			_, ptrField := f.Type().(*types.Pointer)
			if vi, ok := val.(*ast.Ident); ok && !ptrField {
				if o, ok := t.info.Uses[vi].(*types.Var); ok && t.nilable[o] && t.isResW(o.Type()) {
					// an interface value that may be nil stored where the translated struct holds a plain one: nil panics here
					// (stricter than Go, where the panic would come at the first method call)
					d := t.fresh("p")
					e.line("let %s ← derefPtr %s", d, t.nameOf(o))
					vals[f.Name()] = d
					continue
				}
			}
			if fnm, ok := f.Type().(*types.Named); ok && fnm.Obj().Pkg() == t.pkg && fnm.Obj().Name() == "MessageWriter" {
				if vt, ok := t.info.Types[val]; ok {
					if pt, ok := vt.Type.(*types.Pointer); ok {
						if sn, ok := pt.Elem().(*types.Named); ok {
							if _, isSt := sn.Underlying().(*types.Struct); isSt {
								// a *T stored where a MessageWriter is held: how the T is seen through that interface is a parameter
								// of the translated function (any function: the methods of T are not consulted here)
								t.ifaceConv[sn.Obj().Name()] = t.leanType(vt.Type, val)
								vals[f.Name()] = "(as" + sn.Obj().Name() + "WriterP " + t.expr(e, val) + ")"
								continue
							}
						}
					}
				}
			}
			vals[f.Name()] = t.optExpr(e, val, ptrField)
		}
		return t.structLit(n, st, vals, x)
	case *ast.StarExpr:
		// *new(T): the zero value
		if c, ok := v.X.(*ast.CallExpr); ok && types.ExprString(c.Fun) == "new" && len(c.Args) == 1 {
			return t.zero(t.info.Types[c.Args[0]].Type, x)
		}
		// *p of a pointer to a basic value (nil or a cell)
		if pt, ok := t.info.Types[v.X].Type.(*types.Pointer); ok {
			if _, basic := pt.Elem().Underlying().(*types.Basic); basic {
				n := t.fresh("d")
				e.line("let %s ← derefPtr %s", n, t.expr(e, v.X))
				return n
			}
		}
		die(t.pos(x), "dereference %s", types.ExprString(x))
	case *ast.CallExpr:
		return t.call(e, v)
	}
	die(t.pos(x), "expression %T %s", x, types.ExprString(x))
	return ""
}

// isOptPtr: x is a pointer to a struct that is represented as an Option — a pointer-typed struct field, or a variable
// that may hold nil
func (t *tr) isOptPtr(x ast.Expr) bool {
	tv, ok := t.info.Types[x]
	if !ok {
		return false
	}
	pt, ok := tv.Type.(*types.Pointer)
	if !ok {
		return false
	}
	if _, basic := pt.Elem().Underlying().(*types.Basic); basic {
		return false
	}
	if isRandRand(pt.Elem()) {
		return false // the generator is the list of its draws: never nil
	}
	switch d := x.(type) {
	case *ast.ParenExpr:
		return t.isOptPtr(d.X)
	case *ast.SelectorExpr:
		s, ok := t.info.Selections[d]
		return ok && s.Kind() == types.FieldVal
	case *ast.Ident:
		o, ok := t.info.Uses[d].(*types.Var)
		return ok && t.nilable[o]
	}
	return false
}

// derefIfOpt: x as a struct value, through a nil check when x is such a pointer
func (t *tr) derefIfOpt(e *em, x ast.Expr) string {
	base := t.expr(e, x)
	if t.isOptPtr(x) {
		n := t.fresh("p")
		e.line("let %s ← derefPtr %s", n, base)
		return n
	}
	return "(" + base + ")"
}

// embedPath: the embedded fields a promoted field or method is reached through
func (t *tr) embedPath(sel *types.Selection) string {
	ix := sel.Index()
	if len(ix) <= 1 {
		return ""
	}
	cur := sel.Recv()
	out := ""
	for _, i := range ix[:len(ix)-1] {
		if p, ok := cur.(*types.Pointer); ok {
			cur = p.Elem()
		}
		st, ok := cur.Underlying().(*types.Struct)
		if !ok {
			return out
		}
		out += "." + fieldName(st.Field(i).Name())
		cur = st.Field(i).Type()
	}
	return out
}

func (t *tr) call(e *em, v *ast.CallExpr) string {
	// conversions: string(x), []byte(x), FieldName(x)
	if tv, ok := t.info.Types[v.Fun]; ok && tv.IsType() {
		if len(v.Args) != 1 {
			die(t.pos(v), "conversion")
		}
		from := t.leanType(t.info.Types[v.Args[0]].Type, v)
		to := t.leanType(tv.Type, v)
		if from == "Int" && to == "UInt8" {
			return "(UInt8.ofNat (Int.toNat (Int.emod " + t.expr(e, v.Args[0]) + " 256)))" // byte(x): the low 8 bits
		}
		if from == "UInt8" && to == "Int" {
			return "((" + t.expr(e, v.Args[0]) + ").toNat : Int)"
		}
		if from == "Int" && to == "UInt64" {
			return "(u64OfInt " + t.expr(e, v.Args[0]) + ")" // modulo 2^64
		}
		if from == "UInt64" && to == "Int" {
			return "(intOfU64 " + t.expr(e, v.Args[0]) + ")" // two's complement
		}
		if from == "Int" && to == "φ" {
			return "(fo.ofInt " + t.expr(e, v.Args[0]) + ")" // float64(n)
		}
		if from == "φ" && to == "Int" {
			return "(fo.toInt " + t.expr(e, v.Args[0]) + ")" // int64(x), time.Duration(x)
		}
		if from != to {
			die(t.pos(v), "conversion %s → %s", from, to)
		}
		return t.expr(e, v.Args[0])
	}
	if sel, ok := v.Fun.(*ast.SelectorExpr); ok && len(v.Args) == 0 && sel.Sel.Name == "GetBody" && t.isHTTPReq(sel.X) {
		// r.GetBody(): the request's own function; the request counts its calls
		r := t.fresh("gb")
		e.line("let %s ← httpGetBody %s", r, t.derefIfOpt(e, sel.X))
		t.assignTo(e, sel.X, r+".2.2", false)
		res := t.fresh("gbr")
		e.line("let %s : BodyV × (Option String) := (%s.1, %s.2.1)", res, r, r)
		return res
	}
	if fname, _, ok := t.fieldFunc(v.Fun); ok {
		// s.F(args): the callback the field holds (calling a nil one panics)
		f := t.fresh("fn")
		e.line("let %s ← derefPtr %sP", f, fname)
		var args []string
		for _, a := range v.Args {
			args = append(args, t.expr(e, a))
		}
		r := t.fresh("fr")
		e.line("let %s := %s %s", r, f, strings.Join(args, " "))
		return r
	}
	if sel, ok := v.Fun.(*ast.SelectorExpr); ok && t.dynRW && sel.Sel.Name == "Unwrap" && len(v.Args) == 0 {
		if xn, ok := t.info.Types[sel.X].Type.(*types.Named); ok && t.dynIfaces[xn.Obj().Name()] != nil {
			u := t.fresh("uw")
			e.line("let %s ← dynUnwrap %s", u, t.expr(e, sel.X))
			return u
		}
	}
	if sel, ok := v.Fun.(*ast.SelectorExpr); ok && (sel.Sel.Name == "Del" || sel.Sel.Name == "Set") {
		if tv, ok := t.info.Types[sel.X]; ok {
			if n, ok := tv.Type.(*types.Named); ok && n.Obj().Pkg() != nil && n.Obj().Pkg().Path() == "net/http" && n.Obj().Name() == "Header" {
				h := t.expr(e, sel.X)
				if sel.Sel.Name == "Del" && len(v.Args) == 1 {
					t.assignTo(e, sel.X, "(headerDel "+h+" "+t.expr(e, v.Args[0])+")", false)
					return "()"
				}
				if sel.Sel.Name == "Set" && len(v.Args) == 2 {
					t.assignTo(e, sel.X, "(headerSet "+h+" "+t.expr(e, v.Args[0])+" "+t.expr(e, v.Args[1])+")", false)
					return "()"
				}
			}
		}
	}
	if t.isPkgFunc(v, "encoding/json", "Unmarshal") && len(v.Args) == 2 {
		// json.Unmarshal(data, &s) into a string: what encoding/json decodes is a parameter of the translated function
		dst := stripAddr(v.Args[1])
		j := t.fresh("js")
		e.line("let %s := jsonDecode %s", j, t.expr(e, v.Args[0]))
		t.assignTo(e, dst, "("+j+".getD "+t.expr(e, dst)+")", false)
		return "(if " + j + ".isSome then none else some \"json.Unmarshal\")"
	}
	if t.isTimeFunc(v, "Now") {
		return "now" // the clock reading this call of the function was given
	}
	if t.isTimeFunc(v, "Since") {
		return "(now - " + t.expr(e, v.Args[0]) + ")"
	}
	// rng.Float64() on a *rand.Rand: the next draw
	if sel, ok := v.Fun.(*ast.SelectorExpr); ok && sel.Sel.Name == "Float64" && len(v.Args) == 0 {
		if tv, ok := t.info.Types[sel.X]; ok {
			if pt, ok := tv.Type.(*types.Pointer); ok && isRandRand(pt.Elem()) {
				r := t.fresh("draw")
				e.line("let %s ← rngFloat64 %s", r, t.expr(e, sel.X))
				t.assignTo(e, sel.X, r+".2", false)
				return r + ".1"
			}
		}
	}
	// an iterator applied to a function literal: q.each(i)(func(j int, m T) bool { … })
	if inner, ok := v.Fun.(*ast.CallExpr); ok {
		return t.iterCall(e, inner, v)
	}
	// inside an iterator: yield(a, b) threads the accumulated state of the function literal it stands for
	if id, ok := v.Fun.(*ast.Ident); ok && t.yieldVar != nil && t.info.Uses[id] == types.Object(t.yieldVar) {
		args := []string{"yield"}
		for _, a := range v.Args {
			args = append(args, t.expr(e, a))
		}
		y := t.fresh("y")
		e.line("let %s ← %s %s", y, strings.Join(args, " "), t.nameOf(t.accVar))
		e.line("let %s := %s.2", t.nameOf(t.accVar), y)
		return y + ".1"
	}
	if id, ok := v.Fun.(*ast.Ident); ok {
		if o, ok := t.info.Uses[id].(*types.Var); ok {
			if ci := t.closures[o]; ci != nil {
				return t.closureCall(e, ci, v)
			}
			if sg, ok := o.Type().Underlying().(*types.Signature); ok {
				if t.effParams[o] {
					fn := t.fresh("fn")
					e.line("let %s ← derefPtr %s", fn, t.nameOf(o))
					args := []string{fn}
					for _, a := range v.Args {
						args = append(args, t.expr(e, a))
					}
					e.line("let %s ← %s %s", t.nameOf(t.accVar), strings.Join(args, " "), t.nameOf(t.accVar))
					return "()"
				}
				if sg.Params().Len() == 0 && sg.Results().Len() == 1 && len(v.Args) == 0 {
					r := t.fresh("th")
					e.line("let %s ← %s", r, t.nameOf(o))
					return r
				}
			}
		}
	}
	if r, ok := t.specialMethod(e, v); ok {
		return r
	}
	name := types.ExprString(v.Fun)
	switch name {
	case "new":
		if len(v.Args) == 1 {
			if b, ok := t.info.Types[v.Args[0]].Type.Underlying().(*types.Basic); ok {
				return "(some " + t.zero(b, v) + ")"
			}
		}
	case "strconv.ParseUint":
		// base 10, 64 bits only
		if len(v.Args) == 3 && t.isConstInt(v.Args[1], 10) && t.isConstInt(v.Args[2], 64) {
			return "(strconvParseUint " + t.expr(e, v.Args[0]) + ")"
		}
	case "strconv.ParseInt":
		if len(v.Args) == 3 && t.isConstInt(v.Args[1], 10) && t.isConstInt(v.Args[2], 64) {
			return "(strconvParseInt " + t.expr(e, v.Args[0]) + ")"
		}
	case "utf8.DecodeRuneInString":
		// (its result is only ever used inside error texts, which are not modelled)
		return "(utf8DecodeRuneApprox " + t.expr(e, v.Args[0]) + ")"
	case "strings.IndexFunc":
		// strings.IndexFunc(s, func(r rune) bool { return r < A || r > B }) with ASCII constants A ≤ B: the first byte outside
		// [A, B] (a multi-byte or invalid sequence starts with a byte ≥ 0x80 > B and decodes to a rune > B)
		if len(v.Args) == 2 {
			if fl, ok := v.Args[1].(*ast.FuncLit); ok && len(fl.Type.Params.List) == 1 && len(fl.Type.Params.List[0].Names) == 1 && len(fl.Body.List) == 1 {
				rn := fl.Type.Params.List[0].Names[0].Name
				if ret, ok := fl.Body.List[0].(*ast.ReturnStmt); ok && len(ret.Results) == 1 {
					if or, ok := ret.Results[0].(*ast.BinaryExpr); ok && or.Op == token.LOR {
						lo, ok1 := or.X.(*ast.BinaryExpr)
						hi, ok2 := or.Y.(*ast.BinaryExpr)
						if ok1 && ok2 && lo.Op == token.LSS && hi.Op == token.GTR && types.ExprString(lo.X) == rn && types.ExprString(hi.X) == rn {
							a, oka := t.info.Types[lo.Y]
							b, okb := t.info.Types[hi.Y]
							if oka && okb && a.Value != nil && b.Value != nil {
								av, _ := constant.Int64Val(a.Value)
								bv, _ := constant.Int64Val(b.Value)
								if 0 <= av && av <= bv && bv < 128 {
									return fmt.Sprintf("(stringsIndexOutside %s %d %d)", t.expr(e, v.Args[0]), av, bv)
								}
							}
						}
					}
				}
			}
		}
	case "strconv.FormatUint":
		if len(v.Args) == 2 && t.isConstInt(v.Args[1], 10) {
			return "(strconvFormatUint " + t.expr(e, v.Args[0]) + ")"
		}
	case "len":
		return "(len " + t.expr(e, v.Args[0]) + ")"
	case "min":
		if len(v.Args) == 2 {
			return "(min " + t.expr(e, v.Args[0]) + " " + t.expr(e, v.Args[1]) + ")"
		}
	case "append":
		if !v.Ellipsis.IsValid() && len(v.Args) >= 1 {
			base := t.expr(e, v.Args[0])
			var els []string
			for _, a := range v.Args[1:] {
				els = append(els, t.expr(e, a))
			}
			return "(" + base + " ++ [" + strings.Join(els, ", ") + "])"
		}
	case "errors.New", "fmt.Errorf":
		// an error value is identified by its (format) text; wrapping is not modelled
		if tv, ok := t.info.Types[v.Args[0]]; ok && tv.Value != nil && tv.Value.Kind() == constant.String {
			for _, a := range v.Args[1:] {
				if st, ok := a.(*ast.StarExpr); ok {
					if _, isId := st.X.(*ast.Ident); isId {
						continue // *p of a receiver / parameter that is a value here: nothing to check
					}
				}
				_ = t.expr(e, a) // evaluated for its checks
			}
			return fmt.Sprintf("(some %q)", constant.StringVal(tv.Value))
		}
	case "delete":
		if len(v.Args) == 2 {
			if ix, ok := v.Args[0].(*ast.IndexExpr); ok {
				if _, outer := t.info.Types[ix.X].Type.Underlying().(*types.Map); outer {
					// delete(m[k], id): the inner map is reached through the outer one only; nothing happens when k is absent (nil map)
					t.assignTo(e, ix.X, "(mapDelIn "+t.expr(e, ix.X)+" "+t.expr(e, ix.Index)+" "+t.expr(e, v.Args[1])+")", false)
					return "()"
				}
			}
			if _, isMap := t.info.Types[v.Args[0]].Type.Underlying().(*types.Map); isMap {
				t.assignTo(e, v.Args[0], "(mapDel "+t.expr(e, v.Args[0])+" "+t.expr(e, v.Args[1])+")", false)
				return "()"
			}
		}
	case "close":
		if len(v.Args) == 1 {
			t.chanOp(e, v, "ChanOp.close "+t.expr(e, v.Args[0]))
			return "()"
		}
	case "verifHook":
		return "()" // the verification hook (build tag verif): no effect on the program
	case "make":
		if len(v.Args) == 2 {
			if sl, ok := t.info.Types[v.Args[0]].Type.Underlying().(*types.Slice); ok {
				n := t.fresh("mk")
				e.line("let %s ← makeSlice %s %s", n, t.zero(sl.Elem(), v), t.expr(e, v.Args[1]))
				return n
			}
		}
	case "copy":
		return t.copyCall(e, v)
	case "strings.IndexByte":
		return "(stringsIndexByte " + t.expr(e, v.Args[0]) + " " + t.expr(e, v.Args[1]) + ")"
	case "strings.HasPrefix":
		return "(stringsHasPrefix " + t.expr(e, v.Args[0]) + " " + t.expr(e, v.Args[1]) + ")"
	case "unsafe.Slice":
		// unsafe.Slice(unsafe.StringData(s), len(s)) is s read as bytes
		if len(v.Args) == 2 {
			if c, ok := v.Args[0].(*ast.CallExpr); ok && types.ExprString(c.Fun) == "unsafe.StringData" && len(c.Args) == 1 {
				if l, ok := v.Args[1].(*ast.CallExpr); ok && types.ExprString(l.Fun) == "len" &&
					types.ExprString(l.Args[0]) == types.ExprString(c.Args[0]) {
					return t.expr(e, c.Args[0])
				}
			}
		}
	case "unsafe.String":
		// unsafe.String(unsafe.SliceData(x), len(x)) is x read as a string
		if len(v.Args) == 2 {
			if c, ok := v.Args[0].(*ast.CallExpr); ok && types.ExprString(c.Fun) == "unsafe.SliceData" && len(c.Args) == 1 {
				if l, ok := v.Args[1].(*ast.CallExpr); ok && types.ExprString(l.Fun) == "len" &&
					types.ExprString(l.Args[0]) == types.ExprString(c.Args[0]) {
					return t.expr(e, c.Args[0])
				}
			}
		}
	}
	if sel, ok := v.Fun.(*ast.SelectorExpr); ok {
		if sl, ok := t.info.Selections[sel]; ok {
			// s.split(a, b): a function-valued field
			if sl.Kind() == types.FieldVal {
				if _, isSig := sl.Type().Underlying().(*types.Signature); isSig {
					args := []string{t.expr(e, sel)}
					for _, a := range v.Args {
						args = append(args, t.expr(e, a))
					}
					n := t.fresh("f")
					e.line("let %s ← %s", n, strings.Join(args, " "))
					return n
				}
			}
			// x.Read(buf[a:b]) on an io.Reader: the bytes go into buf at a, the reader advances
			if sl.Kind() == types.MethodVal && sel.Sel.Name == "Read" && t.leanType(t.info.Types[sel.X].Type, v) == "Reader" && len(v.Args) == 1 {
				se, ok := v.Args[0].(*ast.SliceExpr)
				if !ok || se.Slice3 {
					die(t.pos(v), "Read into something other than a slice expression")
				}
				buf := t.expr(e, se.X)
				lo, hi := "(0 : Int)", "(len "+buf+")"
				if se.Low != nil {
					lo = t.expr(e, se.Low)
				}
				if se.High != nil {
					hi = t.expr(e, se.High)
				}
				chk := t.fresh("s")
				e.line("let %s ← slice %s %s %s", chk, buf, lo, hi) // the slice expression itself may panic
				rd := t.fresh("rd")
				e.line("let %s ← readerRead %s (%s - %s)", rd, t.expr(e, sel.X), hi, lo)
				t.assignTo(e, sel.X, rd+".2.2", false)
				cp := t.fresh("cp")
				e.line("let %s ← copyInto %s %s %s.1", cp, t.expr(e, se.X), lo, rd)
				t.assignTo(e, se.X, cp+".1", false)
				res := t.fresh("rr")
				e.line("let %s : Int × (Option String) := ((len %s.1), %s.2.1)", res, rd, rd)
				return res
			}
		}
	}
	if sel, ok := v.Fun.(*ast.SelectorExpr); ok {
		if sl, ok := t.info.Selections[sel]; ok && sl.Kind() == types.MethodVal {
			recvT := sl.Recv()
			if p, ok := recvT.(*types.Pointer); ok {
				recvT = p.Elem()
			}
			if n, ok := recvT.(*types.Named); ok {
				// time.Duration.Milliseconds(): nanoseconds / 1e6, truncated toward zero
				if n.Obj().Pkg() != nil && n.Obj().Pkg().Path() == "time" && n.Obj().Name() == "Duration" && sel.Sel.Name == "Milliseconds" {
					return "(Int.tdiv " + t.expr(e, sel.X) + " (1000000 : Int))"
				}
				// w.Write(p) on an io.Writer
				if n.Obj().Pkg() != nil && n.Obj().Pkg().Path() == "io" && n.Obj().Name() == "Writer" && sel.Sel.Name == "Write" && len(v.Args) == 1 {
					w := t.expr(e, sel.X)
					r := t.fresh("w")
					e.line("let %s := (%s).write (%s).st %s", r, w, w, t.expr(e, v.Args[0]))
					t.assignTo(e, sel.X, "{ "+w+" with st := "+r+".2.2 }", false)
					res := t.fresh("wr")
					e.line("let %s : Int × (Option String) := (%s.1, %s.2.1)", res, r, r)
					return res
				}
				if _, isIdent := sel.X.(*ast.Ident); !isIdent {
					mname := n.Obj().Name() + "_" + sel.Sel.Name
					if t.known[mname] {
						return t.genericCall(e, mname, sel.X, v)
					}
				}
			}
		}
	}
	// a function translated earlier (same package, or parser.X from the root package)
	fn := name
	if i := strings.LastIndex(fn, "."); i >= 0 {
		if sel, ok := v.Fun.(*ast.SelectorExpr); ok {
			if id, ok := sel.X.(*ast.Ident); ok {
				if _, isPkg := t.info.Uses[id].(*types.PkgName); isPkg {
					fn = sel.Sel.Name
				} else if s, ok := t.info.Selections[sel]; ok && s.Kind() == types.MethodVal {
					// method call on the receiver: state in, (result, state) out
					recvT := s.Recv()
					if p, ok := recvT.(*types.Pointer); ok {
						recvT = p.Elem()
					}
					mname := recvT.(*types.Named).Obj().Name() + "_" + sel.Sel.Name
					if !t.known[mname] {
						die(t.pos(v), "call of %s (not translated)", name)
					}
					if fs := t.sigs[mname]; t.recv == nil || types.ExprString(sel.X) != t.recv.Name() || t.hasWriterArg(v) || (fs != nil && !fs.recvIO) {
						return t.genericCall(e, mname, sel.X, v)
					}
					return t.methodCall(e, mname, v)
				}
			}
		}
	}
	if t.opaque[fn] {
		// a callee that stays outside the translation: its answer is a parameter of this function (any function of the
		// arguments stands for it); a result of interface / pointer type may be nil
		sig := t.info.Types[v.Fun].Type.(*types.Signature)
		if sig.Results().Len() != 1 {
			die(t.pos(v), "opaque callee %s with %d results", fn, sig.Results().Len())
		}
		var args []string
		for _, a := range v.Args {
			args = append(args, t.expr(e, a))
		}
		return "(" + fn + "P " + strings.Join(args, " ") + ")"
	}
	if !t.known[fn] {
		die(t.pos(v), "call of %s (not translated)", name)
	}
	if fs := t.sigs[fn]; t.hasWriterArg(v) || (fs != nil && fs.anyIO()) {
		return t.genericCall(e, fn, nil, v)
	}
	args := append([]string{"fuel"}, t.dictArgs(v, t.sigs[fn])...)
	args = append(args, t.argList(e, t.sigs[fn], v.Args)...)
	n := t.fresh("r")
	e.line("let %s ← %s %s", n, t.withFo(fn), strings.Join(args, " "))
	return n
}

// isFloat: an expression of type float64 (or an untyped float constant)
func (t *tr) isFloat(x ast.Expr) bool {
	tv, ok := t.info.Types[x]
	if !ok || tv.Type == nil {
		return false
	}
	b, ok := tv.Type.Underlying().(*types.Basic)
	return ok && (b.Kind() == types.Float64 || b.Kind() == types.UntypedFloat)
}

// withFo: a callee that computes with floats is handed the float operations
func (t *tr) withFo(fn string) string {
	if fs := t.sigs[fn]; fs != nil && fs.phi {
		return fn + " fo"
	}
	return fn
}

// readsClock: the body calls time.Now or time.Since (once: the reading is a parameter of the translated function)
func (t *tr) readsClock(body ast.Node) bool {
	n := 0
	ast.Inspect(body, func(x ast.Node) bool {
		if c, ok := x.(*ast.CallExpr); ok && t.isTimeFunc(c, "Now", "Since") {
			n++
		}
		return true
	})
	if n > 1 {
		die(t.pos(body), "the clock is read %d times in one function", n)
	}
	return n == 1
}

func (t *tr) isTimeFunc(c *ast.CallExpr, names ...string) bool {
	return t.isPkgFunc(c, "time", names...)
}

// usesJSON: the body calls json.Unmarshal (its answer is a parameter of the translated function)
func (t *tr) usesJSON(body ast.Node) bool {
	found := false
	ast.Inspect(body, func(x ast.Node) bool {
		if c, ok := x.(*ast.CallExpr); ok && t.isPkgFunc(c, "encoding/json", "Unmarshal") {
			found = true
		}
		return true
	})
	return found
}

func (t *tr) isPkgFunc(c *ast.CallExpr, path string, names ...string) bool {
	sel, ok := c.Fun.(*ast.SelectorExpr)
	if !ok {
		return false
	}
	id, ok := sel.X.(*ast.Ident)
	if !ok {
		return false
	}
	pn, ok := t.info.Uses[id].(*types.PkgName)
	if !ok || pn.Imported().Path() != path {
		return false
	}
	for _, n := range names {
		if sel.Sel.Name == n {
			return true
		}
	}
	return false
}

func (fs *fsig) anyIO() bool {
	for _, b := range fs.paramIO {
		if b {
			return true
		}
	}
	return false
}

func (t *tr) isConstInt(x ast.Expr, want int64) bool {
	tv, ok := t.info.Types[x]
	if !ok || tv.Value == nil {
		return false
	}
	n, exact := constant.Int64Val(tv.Value)
	return exact && n == want
}

func tupleProj(r string, i, n int) string {
	if n == 1 {
		return r
	}
	p := r
	for j := 0; j < i; j++ {
		p += ".2"
	}
	if i < n-1 {
		p += ".1"
	}
	return p
}

// argList: the arguments of a call of a translated function: f(g()) with a multi-valued g is spread, &place is the
// place's value, and a pointer that may be nil is wrapped or checked according to what the callee takes
func (t *tr) argList(e *em, fs *fsig, args []ast.Expr) []string {
	if fs != nil && len(args) == 1 && fs.spread > 1 {
		if c, ok := args[0].(*ast.CallExpr); ok {
			if tup, ok := t.info.Types[c].Type.(*types.Tuple); ok && tup.Len() == fs.spread {
				r := t.expr(e, c)
				var out []string
				for i := 0; i < tup.Len(); i++ {
					out = append(out, tupleProj(r, i, tup.Len()))
				}
				return out
			}
		}
	}
	var out []string
	for i, a := range args {
		out = append(out, t.argExpr(e, a, fs != nil && i < len(fs.paramNil) && fs.paramNil[i]))
	}
	return out
}

// isByteSinkType: strings.Builder or bytes.Buffer
func isByteSinkType(n *types.Named) bool {
	if n.Obj().Pkg() == nil {
		return false
	}
	return (n.Obj().Pkg().Path() == "strings" && n.Obj().Name() == "Builder") || (n.Obj().Pkg().Path() == "bytes" && n.Obj().Name() == "Buffer")
}

// isByteSink: &b of such a value, handed to a callee as its io.Writer
func (t *tr) isByteSink(a ast.Expr) bool {
	u, ok := a.(*ast.UnaryExpr)
	if !ok || u.Op != token.AND {
		return false
	}
	if tv, ok := t.info.Types[u.X]; ok {
		if n, ok := tv.Type.(*types.Named); ok {
			return isByteSinkType(n)
		}
	}
	return false
}

func stripAddr(a ast.Expr) ast.Expr {
	if u, ok := a.(*ast.UnaryExpr); ok && u.Op == token.AND {
		if _, lit := u.X.(*ast.CompositeLit); !lit {
			return u.X
		}
	}
	return a
}

func (t *tr) argExpr(e *em, a ast.Expr, wantOpt bool) string {
	if t.isByteSink(a) {
		return "(bufWriter " + t.expr(e, stripAddr(a)) + ")" // a writer that appends, never fails
	}
	if t.isResWArg(a) {
		return "(resWriter " + t.expr(e, a) + ")" // the response writer as an io.Writer: same state, same Write
	}
	a = stripAddr(a)
	if wantOpt {
		return t.optExpr(e, a, true)
	}
	if t.isOptPtr(a) {
		// a pointer that may be nil handed to a callee that takes a plain value: nil panics here, where Go would
		// panic at the callee's first dereference (stricter than Go)
		n := t.fresh("p")
		e.line("let %s ← derefPtr %s", n, t.expr(e, a))
		return n
	}
	return t.expr(e, a)
}

// dictArgs: the method dictionaries a generic callee takes, for the type arguments of this call
func (t *tr) dictArgs(v *ast.CallExpr, fs *fsig) []string {
	if fs == nil || len(fs.dicts) == 0 {
		return nil
	}
	id, ok := v.Fun.(*ast.Ident)
	if !ok {
		die(t.pos(v), "generic call through %s", types.ExprString(v.Fun))
	}
	inst, ok := t.info.Instances[id]
	if !ok {
		die(t.pos(v), "type arguments of %s unknown", id.Name)
	}
	var out []string
	for _, d := range fs.dicts {
		ta := inst.TypeArgs.At(d.tpIndex)
		if tp, isTP := ta.(*types.TypeParam); isTP {
			out = append(out, tp.Obj().Name()+"_"+d.method) // passed on from our own dictionary
			continue
		}
		obj, index, _ := types.LookupFieldOrMethod(ta, true, t.pkg, d.method)
		fn, ok := obj.(*types.Func)
		if !ok {
			die(t.pos(v), "method %s of %s", d.method, ta)
		}
		rt := fn.Type().(*types.Signature).Recv().Type()
		if p, ok := rt.(*types.Pointer); ok {
			rt = p.Elem()
		}
		mname := rt.(*types.Named).Obj().Name() + "_" + d.method
		if !t.known[mname] {
			die(t.pos(v), "method %s (not translated)", mname)
		}
		path := ""
		cur := ta
		for _, i := range index[:len(index)-1] {
			st := cur.Underlying().(*types.Struct)
			path += "." + fieldName(st.Field(i).Name())
			cur = st.Field(i).Type()
		}
		if path == "" {
			out = append(out, mname)
		} else {
			out = append(out, fmt.Sprintf("(fun fuel x => %s fuel (x)%s)", mname, path))
		}
	}
	return out
}

// specialMethod: method calls that are not calls of translated functions — on a type parameter (through its method
// dictionary), on a time.Time, on a MessageWriter — and promoted methods of translated types
func (t *tr) specialMethod(e *em, v *ast.CallExpr) (string, bool) {
	sel, ok := v.Fun.(*ast.SelectorExpr)
	if !ok {
		return "", false
	}
	sl, ok := t.info.Selections[sel]
	if !ok || sl.Kind() != types.MethodVal {
		return "", false
	}
	recvT := sl.Recv()
	if p, ok := recvT.(*types.Pointer); ok {
		recvT = p.Elem()
	}
	if tp, ok := recvT.(*types.TypeParam); ok {
		args := []string{tp.Obj().Name() + "_" + sel.Sel.Name, "fuel", t.expr(e, sel.X)}
		for _, a := range v.Args {
			args = append(args, t.expr(e, a))
		}
		n := t.fresh("m")
		e.line("let %s ← %s", n, strings.Join(args, " "))
		return n, true
	}
	n, ok := recvT.(*types.Named)
	if !ok {
		return "", false
	}
	if n.Obj().Pkg() != nil && n.Obj().Pkg().Path() == "time" && n.Obj().Name() == "Time" {
		x := t.expr(e, sel.X)
		switch sel.Sel.Name {
		case "IsZero":
			return "(" + x + " == (0 : Int))", true
		case "Sub":
			return "(" + x + " - " + t.expr(e, v.Args[0]) + ")", true
		case "Add":
			return "(" + x + " + " + t.expr(e, v.Args[0]) + ")", true
		case "After":
			return "(decide (" + x + " > " + t.expr(e, v.Args[0]) + "))", true
		case "Before":
			return "(decide (" + x + " < " + t.expr(e, v.Args[0]) + "))", true
		}
		die(t.pos(v), "time.Time.%s", sel.Sel.Name)
	}
	if isByteSinkType(n) {
		x := t.expr(e, sel.X)
		switch sel.Sel.Name {
		case "Bytes":
			return x, true
		case "WriteString":
			t.assignTo(e, sel.X, "("+x+" ++ "+t.expr(e, v.Args[0])+")", false)
			return "()", true
		case "WriteByte":
			t.assignTo(e, sel.X, "("+x+" ++ ["+t.expr(e, v.Args[0])+"])", false)
			return "()", true
		case "String":
			return x, true
		case "Len":
			return "(len " + x + ")", true
		case "Reset":
			t.assignTo(e, sel.X, "([] : Bytes)", false)
			return "()", true
		}
		die(t.pos(v), "strings.Builder.%s", sel.Sel.Name)
	}
	if n.Obj().Pkg() != nil && strings.HasSuffix(n.Obj().Pkg().Path(), "internal/parser") && n.Obj().Name() == "Parser" && n.Obj().Pkg() != t.pkg {
		p := t.expr(e, sel.X)
		switch sel.Sel.Name {
		case "Next":
			// p.Next(&f): the parser advances, the field is filled in
			r := t.fresh("nx")
			e.line("let %s := (%s).next (%s).st %s", r, p, p, t.expr(e, stripAddr(v.Args[0])))
			t.assignTo(e, stripAddr(v.Args[0]), r+".2.1", false)
			t.assignTo(e, sel.X, "{ "+p+" with st := "+r+".2.2 }", false)
			return r + ".1", true
		case "Err":
			return "((" + p + ").err (" + p + ").st)", true
		}
		die(t.pos(v), "parser.Parser.%s", sel.Sel.Name)
	}
	if n.Obj().Pkg() == t.pkg && n.Obj().Name() == "MessageWriter" {
		w := t.expr(e, sel.X)
		r := t.fresh("w")
		switch sel.Sel.Name {
		case "Send":
			e.line("let %s := (%s).send (%s).st %s", r, w, w, t.optExpr(e, v.Args[0], true))
		case "Flush":
			e.line("let %s := (%s).flush (%s).st", r, w, w)
		default:
			die(t.pos(v), "MessageWriter.%s", sel.Sel.Name)
		}
		t.assignTo(e, sel.X, "{ "+w+" with st := "+r+".2 }", false)
		// the writer is an object every copy of the Subscription refers to: when the copy at hand is the value variable of
		// a range over a map, the map's entry sees the writer's new state too
		root := sel.X
		for {
			if se, ok := root.(*ast.SelectorExpr); ok {
				root = se.X
				continue
			}
			break
		}
		if id, ok := root.(*ast.Ident); ok {
			for i := len(t.mapRanges) - 1; i >= 0; i-- {
				if c := t.mapRanges[i]; c.val != nil && t.info.Uses[id] == c.val {
					t.assignTo(e, c.m, "(mapSet "+t.expr(e, c.m)+" "+c.key+" "+t.nameOf(c.val)+")", false)
					break
				}
			}
		}
		return r + ".1", true
	}
	if t.isResW(n) {
		w := t.expr(e, sel.X)
		r := t.fresh("w")
		switch sel.Sel.Name {
		case "Flush":
			e.line("let %s := (%s).flush (%s).st", r, w, w)
		default:
			die(t.pos(v), "ResponseWriter.%s", sel.Sel.Name)
		}
		t.assignTo(e, sel.X, "{ "+w+" with st := "+r+".2 }", false)
		return r + ".1", true
	}
	// a promoted method: declared on an embedded struct
	if ix := sl.Index(); len(ix) > 1 {
		fn := sl.Obj().(*types.Func)
		rt := fn.Type().(*types.Signature).Recv().Type()
		if p, ok := rt.(*types.Pointer); ok {
			rt = p.Elem()
		}
		mname := rt.(*types.Named).Obj().Name() + "_" + sel.Sel.Name
		if !t.known[mname] {
			die(t.pos(v), "call of %s (not translated)", mname)
		}
		fs := t.sigs[mname]
		if fs.recvMod {
			die(t.pos(v), "promoted method %s changes its receiver", mname)
		}
		args := []string{"fuel", t.derefIfOpt(e, sel.X) + t.embedPath(sl)}
		args = append(args, t.argList(e, fs, v.Args)...)
		m := t.fresh("m")
		e.line("let %s ← %s %s", m, t.withFo(mname), strings.Join(args, " "))
		comps := fs.nres
		if fs.recvIO {
			comps++
		}
		if fs.nres == 1 {
			return tupleProj(m, 0, comps), true
		}
		die(t.pos(v), "promoted method with %d results", fs.nres)
	}
	return "", false
}

func (t *tr) hasWriterArg(v *ast.CallExpr) bool {
	for _, a := range v.Args {
		if t.isByteSink(a) || t.isResWArg(a) {
			return true
		}
		if tv, ok := t.info.Types[a]; ok {
			if n, ok := tv.Type.(*types.Named); ok && n.Obj().Pkg() != nil && n.Obj().Pkg().Path() == "io" && n.Obj().Name() == "Writer" {
				return true
			}
		}
	}
	return false
}

// genericCall: a call of a translated function or method with in/out values anywhere: the receiver (any expression)
// and pointer / io.Writer arguments are passed in, and what comes back is stored where it came from — or dropped when
// the callee provably leaves it alone and the expression is not a place that can be assigned
func (t *tr) genericCall(e *em, callee string, recv ast.Expr, v *ast.CallExpr) string {
	fs := t.sigs[callee]
	if fs == nil {
		die(t.pos(v), "call of %s (signature unknown)", callee)
	}
	args := append([]string{"fuel"}, t.dictArgs(v, fs)...)
	type back struct {
		x   ast.Expr
		mod bool
	}
	var backs []back
	if recv != nil {
		args = append(args, t.expr(e, recv))
		if fs.recvIO {
			backs = append(backs, back{recv, fs.recvMod})
		}
	}
	args = append(args, t.argList(e, fs, v.Args)...)
	sinks := map[ast.Expr]bool{}
	resWs := map[ast.Expr]bool{}
	for i, a := range v.Args {
		if i < len(fs.paramIO) && fs.paramIO[i] {
			x := stripAddr(a)
			if t.isByteSink(a) {
				sinks[x] = true
			}
			if t.isResWArg(a) {
				resWs[x] = true
			}
			backs = append(backs, back{x, fs.paramMod[i]})
		}
	}
	n := t.fresh("m")
	e.line("let %s ← %s %s", n, t.withFo(callee), strings.Join(args, " "))
	comps := fs.nres + len(backs)
	proj := func(i int) string {
		if comps == 1 {
			return n
		}
		p := n
		for j := 0; j < i; j++ {
			p += ".2"
		}
		if i < comps-1 {
			p += ".1"
		}
		return p
	}
	isPlace := func(x ast.Expr) bool {
		switch d := x.(type) {
		case *ast.Ident:
			return true
		case *ast.SelectorExpr:
			_, ok := d.X.(*ast.Ident)
			return ok
		}
		return false
	}
	for j, b := range backs {
		if sinks[b.x] {
			t.assignTo(e, b.x, "("+proj(fs.nres+j)+").st", false) // what the buffer holds now
			continue
		}
		if resWs[b.x] {
			t.assignTo(e, b.x, "{ "+t.expr(e, b.x)+" with st := ("+proj(fs.nres+j)+").st }", false) // the response writer's state now
			continue
		}
		if isPlace(b.x) {
			if t.isOptPtr(b.x) {
				t.assignTo(e, b.x, "(some "+proj(fs.nres+j)+")", false) // the pointer (dereferenced for the call) to the value handed back
			} else {
				t.assignTo(e, b.x, proj(fs.nres+j), false)
			}
		} else if b.mod {
			die(t.pos(v), "in/out value %s is changed by %s and is not an assignable place", types.ExprString(b.x), callee)
		}
	}
	switch fs.nres {
	case 0:
		return "()"
	case 1:
		return proj(0)
	}
	if len(backs) == 0 {
		return n
	}
	var rs []string
	for i := 0; i < fs.nres; i++ {
		rs = append(rs, proj(i))
	}
	r := t.fresh("rs")
	e.line("let %s := (%s)", r, strings.Join(rs, ", "))
	return r
}

// copyCall: copy(dst, src) where dst is a local slice x or x[a:] — the write goes to x; the result is the count
func (t *tr) copyCall(e *em, v *ast.CallExpr) string {
	if len(v.Args) != 2 {
		die(t.pos(v), "copy")
	}
	src := t.expr(e, v.Args[1])
	var base ast.Expr
	off := "(0 : Int)"
	isPlace := func(x ast.Expr) bool {
		switch d := x.(type) {
		case *ast.Ident:
			o, ok := t.info.Uses[d].(*types.Var)
			return ok && !o.IsField() && o.Parent() != t.pkg.Scope()
		case *ast.SelectorExpr:
			_, ok := d.X.(*ast.Ident)
			return ok
		}
		return false
	}
	switch d := v.Args[0].(type) {
	case *ast.Ident, *ast.SelectorExpr:
		if isPlace(d) {
			base = d
		}
	case *ast.SliceExpr:
		if isPlace(d.X) && d.High == nil && d.Low != nil && !d.Slice3 {
			base = d.X
			off = t.expr(e, d.Low)
		}
	}
	if base == nil {
		die(t.pos(v), "copy into %s", types.ExprString(v.Args[0]))
	}
	n := t.fresh("cp")
	e.line("let %s ← copyInto %s %s %s", n, t.expr(e, base), off, src)
	t.assignTo(e, base, n+".1", false)
	return n + ".2"
}

// methodCall: `f.m(args…)` where f is the pointer receiver of the current function and m has been
// translated as  m fuel f args… : GoM (results × f').  Pointer arguments (`out *Field`) are in/out too.
func (t *tr) methodCall(e *em, mname string, v *ast.CallExpr) string {
	rn := t.nameOf(t.recv)
	args := []string{"fuel", rn}
	var outs []*types.Var
	for _, a := range v.Args {
		if _, isPtr := t.info.Types[a].Type.(*types.Pointer); isPtr {
			id, ok := a.(*ast.Ident)
			if !ok {
				die(t.pos(a), "pointer argument that is not a variable")
			}
			o := t.info.Uses[id].(*types.Var)
			outs = append(outs, o)
		}
		args = append(args, t.expr(e, a))
	}
	n := t.fresh("m")
	e.line("let %s ← %s %s", n, t.withFo(mname), strings.Join(args, " "))
	// result layout: (result, recv', outs…) — flattened right-nested tuple
	sig := t.info.Types[v.Fun].Type.(*types.Signature)
	k := sig.Results().Len()
	comps := k + 1 + len(outs)
	proj := func(i int) string {
		if comps == 1 {
			return n
		}
		s := n
		for j := 0; j < i; j++ {
			s += ".2"
		}
		if i < comps-1 {
			s += ".1"
		}
		return s
	}
	e.line("let %s := %s", rn, proj(k))
	for j, o := range outs {
		e.line("let %s := %s", t.nameOf(o), proj(k+1+j))
	}
	switch k {
	case 0:
		return "()"
	case 1:
		return proj(0)
	}
	die(t.pos(v), "method with several results")
	return ""
}

// ------------------------------------------------------------------ statements

// kont says what follows the statement list being translated.
type kont struct {
	rest []ast.Stmt // further statements of the enclosing block
	up   *kont      // then this
	// terminal continuations
	loop *loopCtx // fall-through = end of a loop body: post statement, then Step.next
	fin  bool     // fall-through = end of the function
	join string   // fall-through = call of a join point (the continuation, emitted as a definition of its own)
	bdepth int    // how many loops / switches enclose the continuation's statements
}

type loopCtx struct {
	label string
	state []*types.Var
	post  ast.Stmt
	hid   string // hidden index variable of a range loop
	outer *loopCtx
}

func (t *tr) tuple(names []string) string {
	if len(names) == 0 {
		return "()"
	}
	if len(names) == 1 {
		return names[0]
	}
	return "(" + strings.Join(names, ", ") + ")"
}

func (t *tr) stateTuple(lc *loopCtx) string {
	var n []string
	if lc.hid != "" {
		n = append(n, lc.hid)
	}
	for _, v := range lc.state {
		n = append(n, t.nameOf(v))
	}
	return t.tuple(n)
}

func (t *tr) retTuple(vals []string) string {
	// results, then the in/out state (receiver and pointer parameters)
	all := append([]string{}, vals...)
	for _, v := range t.inouts {
		all = append(all, t.nameOf(v))
	}
	return t.tuple(all)
}

func (t *tr) emitReturn(e *em, lc *loopCtx, vals []string) {
	if t.inClosure && len(t.inouts) == 0 {
		vals = append(append([]string{}, vals...), "()") // the literal assigns nothing outside itself: its state is Unit
	}
	if lc != nil {
		e.line("pure (Step.ret %s)", t.retTuple(vals))
	} else {
		e.line("pure %s", t.retTuple(vals))
	}
}

// fall: the statement list ended without a jump
func (t *tr) fall(e *em, k *kont, lc *loopCtx) {
	switch {
	case k == nil:
		panic("no continuation")
	case k.join != "":
		e.line("%s", k.join)
	case len(k.rest) > 0:
		saved := t.breakables
		if k.bdepth < len(saved) {
			t.breakables = saved[:k.bdepth] // the continuation lies outside the switches it is reached from
		}
		t.stmts(e, k.rest, k.up, lc)
		t.breakables = saved
	case k.up != nil:
		t.fall(e, k.up, lc)
	case k.loop != nil:
		if k.loop.post != nil {
			t.simple(e, k.loop.post)
		}
		if k.loop.hid != "" {
			e.line("let %s := %s + 1", k.loop.hid, k.loop.hid)
		}
		e.line("pure (Step.next %s)", t.stateTuple(k.loop))
	case k.fin:
		var vals []string
		for _, r := range t.results {
			if r.Name() == "" || r.Name() == "_" {
				// Go's compiler has checked that this point is unreachable (e.g. after `for { … }` without break)
				e.line("throw (Fault.panic \"unreachable: end of function\")")
				return
			}
			vals = append(vals, t.nameOf(r))
		}
		e.line("pure %s", t.retTuple(vals))
	}
}

func (t *tr) assignTo(e *em, lhs ast.Expr, val string, define bool) {
	switch l := lhs.(type) {
	case *ast.Ident:
		if l.Name == "_" {
			return
		}
		var o types.Object
		if define {
			o = t.info.Defs[l]
		}
		if o == nil {
			o = t.info.Uses[l]
		}
		v := o.(*types.Var)
		e.line("let %s : %s := %s", t.nameOf(o), t.varType(v, lhs), val)
	case *ast.ParenExpr:
		t.assignTo(e, l.X, val, define)
	case *ast.SelectorExpr:
		// field of an in/out struct: functional update
		base, ok := l.X.(*ast.Ident)
		if sl, okSel := t.info.Selections[l]; !ok || (okSel && len(sl.Index()) > 1) {
			// x.a.b = v: x.a is replaced by itself with b updated; a promoted field goes through the embedded structs
			if okSel && t.isOptPtr(l.X) && len(sl.Index()) == 1 {
				// p.f = v where p is a pointer that may be nil (a struct field): p is dereferenced (nil panics), p becomes
				// the same pointer to the updated value
				pv := t.fresh("p")
				e.line("let %s ← derefPtr %s", pv, t.expr(e, l.X))
				t.assignTo(e, l.X, fmt.Sprintf("(some { %s with %s := %s })", pv, fieldName(l.Sel.Name), val), false)
				return
			}
			if !okSel || t.isOptPtr(l.X) {
				die(t.pos(lhs), "assignment to %s", types.ExprString(lhs))
			}
			inner := &em{}
			cur := t.expr(inner, l.X)
			if inner.sb.Len() > 0 {
				die(t.pos(lhs), "assignment to %s", types.ExprString(lhs))
			}
			chain := strings.Split(strings.TrimPrefix(t.embedPath(sl), "."), ".")
			if chain[0] == "" {
				chain = nil
			}
			chain = append(chain, fieldName(l.Sel.Name))
			v := val
			for i := len(chain) - 1; i >= 0; i-- {
				prefix := cur
				for _, c := range chain[:i] {
					prefix = "(" + prefix + ")." + c
				}
				v = fmt.Sprintf("{ %s with %s := %s }", prefix, chain[i], v)
			}
			t.assignTo(e, l.X, v, false)
			return
		}
		o := t.info.Uses[base]
		n := t.nameOf(o)
		e.line("let %s := { %s with %s := %s }", n, n, fieldName(l.Sel.Name), val)
	case *ast.StarExpr:
		// *p = v where p is a pointer receiver / parameter: the in/out value is replaced
		if pt, ok := t.info.Types[l.X].Type.(*types.Pointer); ok {
			if _, basic := pt.Elem().Underlying().(*types.Basic); basic {
				// a cell: p stays the same pointer, its content changes (p is not nil here: *p was evaluated)
				t.assignTo(e, l.X, "(some "+val+")", false)
				return
			}
		}
		id, ok := l.X.(*ast.Ident)
		if !ok {
			die(t.pos(lhs), "assignment to %s", types.ExprString(lhs))
		}
		e.line("let %s := %s", t.nameOf(t.info.Uses[id]), val)
	case *ast.IndexExpr:
		// rw.Header()[key] = values on a response writer: the writer's own transition
		if c, ok := l.X.(*ast.CallExpr); ok {
			if sel, ok := c.Fun.(*ast.SelectorExpr); ok && sel.Sel.Name == "Header" && len(c.Args) == 0 && t.isResWArg(sel.X) {
				w := t.expr(e, sel.X)
				t.assignTo(e, sel.X, "{ "+w+" with st := ("+w+").setHeader ("+w+").st "+t.expr(e, l.Index)+" "+val+" }", false)
				return
			}
		}
		if _, isMap := t.info.Types[l.X].Type.Underlying().(*types.Map); isMap {
			if ox, ok := l.X.(*ast.IndexExpr); ok {
				if _, outer := t.info.Types[ox.X].Type.Underlying().(*types.Map); outer {
					// m[k][i] = v: a write to the entry of a nil map (k absent) panics
					in := t.fresh("inner")
					e.line("let %s ← mapInner %s %s", in, t.expr(e, ox.X), t.expr(e, ox.Index))
					t.assignTo(e, ox.X, "(mapPut "+t.expr(e, ox.X)+" "+t.expr(e, ox.Index)+" (mapPut "+in+" "+t.expr(e, l.Index)+" "+val+"))", false)
					return
				}
			}
			t.assignTo(e, l.X, "(mapPut "+t.expr(e, l.X)+" "+t.expr(e, l.Index)+" "+val+")", false)
			return
		}
		// element assignment through a local slice or a slice field of an in/out struct (value semantics: the
		// translated functions own the slice they write to)
		i := t.expr(e, l.Index)
		cur := t.expr(e, l.X)
		n := t.fresh("set")
		e.line("let %s ← setIdx %s %s %s", n, cur, i, val)
		t.assignTo(e, l.X, n, false)
	default:
		die(t.pos(lhs), "assignment to %s", types.ExprString(lhs))
	}
}

// optExpr translates x for a destination that is an Option (a slice that may be nil) or not
func (t *tr) optExpr(e *em, x ast.Expr, wantOpt bool) string {
	if !wantOpt {
		if id, ok := x.(*ast.Ident); ok && id.Name == "nil" {
			if tv, ok := t.info.Types[x]; ok {
				if _, isSlice := tv.Type.Underlying().(*types.Slice); isSlice {
					return "[]" // a nil slice where nil is not told apart from empty
				}
			}
		}
		if id, ok := x.(*ast.Ident); ok {
			if o, ok := t.info.Uses[id].(*types.Var); ok && t.nilable[o] {
				if _, isPtr := o.Type().(*types.Pointer); isPtr {
					n := t.fresh("p")
					e.line("let %s ← derefPtr %s", n, t.nameOf(o))
					return n
				}
				die(t.pos(x), "a possibly-nil slice used where a plain one is expected")
			}
		}
		return t.expr(e, x)
	}
	if id, ok := x.(*ast.Ident); ok {
		if id.Name == "nil" {
			return "none"
		}
		if o, ok := t.info.Uses[id].(*types.Var); ok && t.nilable[o] {
			return t.nameOf(o)
		}
	}
	if t.isOptPtr(x) {
		return t.expr(e, x) // a pointer-typed field: an Option already
	}
	if c, ok := x.(*ast.CallExpr); ok {
		if id, ok := c.Fun.(*ast.Ident); ok && t.opaque[id.Name] {
			return t.expr(e, x) // the answer of a callee outside the translation: an Option already
		}
	}
	return "(some " + t.expr(e, x) + ")"
}

// slice-typed struct fields that hold nil as a value of its own
var nilableFields = map[string]bool{"Scanner.token": true}

func (t *tr) isNilableTarget(lhs ast.Expr) bool {
	if sel, ok := lhs.(*ast.SelectorExpr); ok {
		if s, ok := t.info.Selections[sel]; ok && s.Kind() == types.FieldVal {
			rt := s.Recv()
			if p, ok := rt.(*types.Pointer); ok {
				rt = p.Elem()
			}
			if n, ok := rt.(*types.Named); ok {
				return nilableFields[n.Obj().Name()+"."+sel.Sel.Name]
			}
		}
	}
	if id, ok := lhs.(*ast.Ident); ok {
		if o, ok := t.info.ObjectOf(id).(*types.Var); ok {
			return t.nilable[o]
		}
	}
	return false
}

// simple statements: assignments, declarations, inc/dec
func (t *tr) simple(e *em, s ast.Stmt) {
	switch v := s.(type) {
	case *ast.DeferStmt:
		if t.mutexCall(v.Call) {
			return // mutual exclusion is assumed, not modelled: the translated function is one critical section
		}
		die(t.pos(s), "defer")
	case *ast.SendStmt:
		// ch <- x: logged on the struct that carries the channel log (the goroutine whose code this is)
		t.chanOp(e, s, "ChanOp.send "+t.expr(e, v.Chan)+" "+t.expr(e, v.Value))
		return
	case *ast.AssignStmt:
		define := v.Tok == token.DEFINE
		if len(v.Lhs) == 2 && len(v.Rhs) == 1 {
			if ix, ok := v.Rhs[0].(*ast.IndexExpr); ok {
				if _, isMap := t.info.Types[ix.X].Type.Underlying().(*types.Map); isMap {
					// v, ok := m[k]
					g := t.fresh("g")
					mt := t.info.Types[ix.X].Type.Underlying().(*types.Map)
					e.line("let %s := mapGet %s %s", g, t.expr(e, ix.X), t.expr(e, ix.Index))
					if id, ok := v.Lhs[0].(*ast.Ident); !ok || id.Name != "_" {
						t.assignTo(e, v.Lhs[0], "("+g+".getD "+t.zero(mt.Elem(), s)+")", define)
					}
					t.assignTo(e, v.Lhs[1], g+".isSome", define)
					return
				}
			}
		}
		if define && len(v.Lhs) == 1 && len(v.Rhs) == 1 {
			if lit, ok := v.Rhs[0].(*ast.FuncLit); ok {
				t.closureDef(e, v.Lhs[0].(*ast.Ident), lit)
				return
			}
		}
		switch v.Tok {
		case token.DEFINE, token.ASSIGN:
			if len(v.Rhs) == 1 && len(v.Lhs) > 1 {
				// multi-value call
				r := t.expr(e, v.Rhs[0])
				for i, l := range v.Lhs {
					p := r
					for j := 0; j < i; j++ {
						p += ".2"
					}
					if i < len(v.Lhs)-1 {
						p += ".1"
					}
					t.assignTo(e, l, p, define)
				}
				return
			}
			if len(v.Lhs) != len(v.Rhs) {
				die(t.pos(s), "assignment shape")
			}
			vals := make([]string, len(v.Rhs))
			for i, r := range v.Rhs {
				if id, ok := r.(*ast.Ident); ok && id.Name == "nil" && !t.isNilableTarget(v.Lhs[i]) {
					if tv, ok := t.info.Types[v.Lhs[i]]; ok {
						if _, isSlice := tv.Type.Underlying().(*types.Slice); isSlice {
							vals[i] = "[]" // a nil slice where nil is not told apart from empty
							continue
						}
					}
				}
				vals[i] = t.optExpr(e, r, t.isNilableTarget(v.Lhs[i]))
			}
			if len(vals) > 1 {
				// parallel assignment: evaluate first
				for i := range vals {
					n := t.fresh("p")
					e.line("let %s := %s", n, vals[i])
					vals[i] = n
				}
			}
			for i, l := range v.Lhs {
				t.assignTo(e, l, vals[i], define)
			}
		case token.QUO_ASSIGN:
			if tv, ok := t.info.Types[v.Rhs[0]]; ok && tv.Value != nil && constant.Sign(tv.Value) > 0 &&
				t.leanType(t.info.Types[v.Lhs[0]].Type, s) == "Int" {
				t.assignTo(e, v.Lhs[0], "(Int.tdiv "+t.expr(e, v.Lhs[0])+" "+t.expr(e, v.Rhs[0])+")", false)
				return
			}
			die(t.pos(s), "/= by something other than a positive constant")
		case token.ADD_ASSIGN, token.SUB_ASSIGN:
			op := "+"
			if v.Tok == token.SUB_ASSIGN {
				op = "-"
			}
			if t.leanType(t.info.Types[v.Lhs[0]].Type, s) != "Int" {
				die(t.pos(s), "op-assign on a non-int")
			}
			t.assignTo(e, v.Lhs[0], "("+t.expr(e, v.Lhs[0])+" "+op+" "+t.expr(e, v.Rhs[0])+")", false)
		default:
			die(t.pos(s), "assignment operator %s", v.Tok)
		}
	case *ast.IncDecStmt:
		op := "+"
		if v.Tok == token.DEC {
			op = "-"
		}
		t.assignTo(e, v.X, "("+t.expr(e, v.X)+" "+op+" 1)", false)
	case *ast.DeclStmt:
		gd := v.Decl.(*ast.GenDecl)
		for _, sp := range gd.Specs {
			switch vs := sp.(type) {
			case *ast.ValueSpec:
				if gd.Tok == token.CONST {
					continue // constants are folded by the type checker
				}
				for i, id := range vs.Names {
					o := t.info.Defs[id].(*types.Var)
					val := ""
					if i < len(vs.Values) {
						val = t.optExpr(e, vs.Values[i], t.nilable[o])
					} else if t.nilable[o] {
						val = "none"
					} else {
						val = t.zero(o.Type(), s)
					}
					t.assignTo(e, id, val, true)
				}
			default:
				die(t.pos(s), "declaration")
			}
		}
	case *ast.ExprStmt:
		// a call for its effect on the receiver
		if c, ok := v.X.(*ast.CallExpr); ok {
			if t.mutexCall(c) {
				return
			}
			if id, ok := c.Fun.(*ast.Ident); ok {
				if o, ok := t.info.Uses[id].(*types.Var); ok && t.isCallbackType(o.Type()) {
					// cb(x): logged on the struct that carries the call log
					if t.recv == nil || len(c.Args) != 1 {
						die(t.pos(s), "callback call outside a method of the struct that carries the call log")
					}
					r := t.nameOf(t.recv)
					e.line("let %s := { %s with cblog := (%s).cblog ++ [(%s, %s)] }", r, r, r, t.nameOf(o), t.expr(e, c.Args[0]))
					return
				}
			}
			if types.ExprString(c.Fun) == "copy" {
				_ = t.copyCall(e, c)
				return
			}
			_ = t.call(e, c)
			return
		}
		die(t.pos(s), "expression statement")
	default:
		die(t.pos(s), "statement %T", s)
	}
}

// assigned collects the variables declared outside `n` that are assigned inside it.
func (t *tr) assigned(n ast.Node) []*types.Var {
	set := map[*types.Var]bool{}
	var mark func(x ast.Expr)
	mark0 := func(x ast.Expr) {
		switch l := x.(type) {
		case *ast.Ident:
			if o, ok := t.info.Uses[l].(*types.Var); ok {
				set[o] = true
			}
		case *ast.SelectorExpr:
			if id, ok := l.X.(*ast.Ident); ok {
				if o, ok := t.info.Uses[id].(*types.Var); ok {
					set[o] = true
				}
			}
		}
	}
	mark = func(x ast.Expr) {
		// x[i] = v changes x (the translated functions own their slices); likewise a method called on an element
		if ix, ok := x.(*ast.IndexExpr); ok {
			mark(ix.X)
			return
		}
		if u, ok := x.(*ast.UnaryExpr); ok && u.Op == token.AND {
			mark(u.X)
			return
		}
		if pe, ok := x.(*ast.ParenExpr); ok {
			mark(pe.X)
			return
		}
		if st, ok := x.(*ast.StarExpr); ok {
			mark(st.X)
			return
		}
		if sel, ok := x.(*ast.SelectorExpr); ok {
			if _, isIdent := sel.X.(*ast.Ident); !isIdent {
				mark(sel.X) // x.a.b: x
				return
			}
		}
		mark0(x)
	}
	ast.Inspect(n, func(m ast.Node) bool {
		switch v := m.(type) {
		case *ast.AssignStmt:
			for _, l := range v.Lhs {
				mark(l)
			}
		case *ast.IncDecStmt:
			mark(v.X)
		case *ast.CallExpr:
			// yield(…) advances the state threaded through an iterator
			if id, ok := v.Fun.(*ast.Ident); ok && t.yieldVar != nil && t.info.Uses[id] == types.Object(t.yieldVar) {
				set[t.accVar] = true
			}
			if id, ok := v.Fun.(*ast.Ident); ok {
				if o, ok := t.info.Uses[id].(*types.Var); ok {
					if t.isCallbackType(o.Type()) && t.recv != nil {
						set[t.recv] = true
					}
					if t.effParams[o] {
						set[t.accVar] = true
					}
					if ci := t.closures[o]; ci != nil {
						for _, sv := range ci.state {
							set[sv] = true
						}
					}
				}
			}
			// a method call on the receiver, or a pointer argument, may change it
			if sel, ok := v.Fun.(*ast.SelectorExpr); ok {
				if s, ok := t.info.Selections[sel]; ok && s.Kind() == types.MethodVal {
					mark(sel.X)
				}
			}
			for _, a := range v.Args {
				if _, isPtr := t.info.Types[a].Type.(*types.Pointer); isPtr {
					mark(a)
				}
				if nn, ok := t.info.Types[a].Type.(*types.Named); ok && nn.Obj().Pkg() != nil && nn.Obj().Pkg().Path() == "io" && nn.Obj().Name() == "Writer" {
					mark(a) // the writer's state advances
				}
			}
		}
		return true
	})
	var out []*types.Var
	for v := range set {
		// declared outside n
		if v == t.accVar || v.Pos() < n.Pos() || v.Pos() >= n.End() {
			out = append(out, v)
		}
	}
	sort.Slice(out, func(i, j int) bool {
		if (out[i] == t.accVar) != (out[j] == t.accVar) {
			return out[j] == t.accVar // the accumulator last
		}
		return out[i].Pos() < out[j].Pos()
	})
	return out
}

func (t *tr) stmts(e *em, list []ast.Stmt, up *kont, lc *loopCtx) {
	if len(list) == 0 {
		t.fall(e, &kont{up: up, loop: nil}, lc)
		return
	}
	s, rest := list[0], list[1:]
	k := &kont{rest: rest, up: up, bdepth: len(t.breakables)}
	switch v := s.(type) {
	case *ast.ReturnStmt:
		var vals []string
		if len(v.Results) == 0 {
			for _, r := range t.results {
				vals = append(vals, t.nameOf(r))
			}
		} else if len(v.Results) == 1 && len(t.results) > 1 {
			r := t.expr(e, v.Results[0])
			for i := range t.results {
				p := r
				for j := 0; j < i; j++ {
					p += ".2"
				}
				if i < len(t.results)-1 {
					p += ".1"
				}
				vals = append(vals, p)
			}
		} else {
			for i, r := range v.Results {
				vals = append(vals, t.optExpr(e, r, t.nilable[t.results[i]]))
			}
		}
		t.emitReturn(e, lc, vals)
	case *ast.BranchStmt:
		if v.Label != nil {
			// a labelled break of the innermost enclosing loop
			if v.Tok != token.BREAK || lc == nil || lc.label != v.Label.Name {
				die(t.pos(s), "branch %s %s", v.Tok, v.Label.Name)
			}
			e.line("pure (Step.brk %s)", t.stateTuple(lc))
			return
		}
		switch v.Tok {
		case token.BREAK:
			if n := len(t.breakables); n > 0 && t.breakables[n-1].k != nil {
				// leaves the switch: on with the code after it
				t.fall(e, t.breakables[n-1].k, lc)
				return
			}
			if lc == nil {
				die(t.pos(s), "branch %s", v.Tok)
			}
			e.line("pure (Step.brk %s)", t.stateTuple(lc))
		case token.CONTINUE:
			if lc == nil {
				die(t.pos(s), "branch %s", v.Tok)
			}
			t.fall(e, &kont{loop: lc}, lc)
		default:
			die(t.pos(s), "branch %s", v.Tok)
		}
	case *ast.LabeledStmt:
		if _, ok := v.Stmt.(*ast.ForStmt); !ok {
			die(t.pos(s), "label on something other than a for loop")
		}
		t.pendingLabel = v.Label.Name
		t.stmts(e, append([]ast.Stmt{v.Stmt}, rest...), up, lc)
	case *ast.BlockStmt:
		t.stmts(e, v.List, k, lc)
	case *ast.IfStmt:
		if v.Init != nil {
			t.simple(e, v.Init)
		}
		k = t.joinPoint(v, k, lc)
		c := t.expr(e, v.Cond)
		e.line("if %s then do", c)
		e.ind++
		t.stmts(e, v.Body.List, k, lc)
		e.ind--
		e.line("else do")
		e.ind++
		switch el := v.Else.(type) {
		case nil:
			t.fall(e, k, lc)
		case *ast.BlockStmt:
			t.stmts(e, el.List, k, lc)
		case *ast.IfStmt:
			t.stmts(e, []ast.Stmt{el}, k, lc)
		}
		e.ind--
	case *ast.TypeSwitchStmt:
		// switch v := x.(type) over an interface{}: the dynamic types []byte and string, and a default
		if v.Init != nil {
			die(t.pos(s), "type switch with an init statement")
		}
		as, ok := v.Assign.(*ast.AssignStmt)
		if !ok || len(as.Rhs) != 1 {
			die(t.pos(s), "type switch without a bound variable")
		}
		ta, ok := as.Rhs[0].(*ast.TypeAssertExpr)
		if !ok {
			die(t.pos(s), "type switch")
		}
		subj := t.expr(e, ta.X)
		var tdef *ast.CaseClause
		var tclauses []*ast.CaseClause
		for _, c := range v.Body.List {
			cc := c.(*ast.CaseClause)
			if cc.List == nil {
				tdef = cc
			} else {
				tclauses = append(tclauses, cc)
			}
		}
		t.breakables = append(t.breakables, breakable{k: k})
		defer func() { t.breakables = t.breakables[:len(t.breakables)-1] }()
		tdepth := 0
		for _, cc := range tclauses {
			if len(cc.List) != 1 {
				die(t.pos(cc), "type switch clause with several types")
			}
			var is, get string
			if cn, ok := t.info.Types[cc.List[0]].Type.(*types.Named); ok && t.dynRW && t.dynIfaces[cn.Obj().Name()] != nil {
				// case T over a response writer: its dynamic type has T's methods (beyond http.ResponseWriter's own)
				var qs []string
				for _, m := range t.dynIfaces[cn.Obj().Name()] {
					qs = append(qs, strconv.Quote(m))
				}
				e.line("if (dynHas %s [%s]) then do", subj, strings.Join(qs, ", "))
				e.ind++
				if iv, ok := t.info.Implicits[cc].(*types.Var); ok {
					e.line("let %s : DynRW := %s", t.nameOf(iv), subj)
				}
				t.stmts(e, cc.Body, k, lc)
				e.ind--
				e.line("else do")
				e.ind++
				tdepth++
				continue
			}
			switch t.leanType(t.info.Types[cc.List[0]].Type, cc) {
			case "Bytes":
				if _, isSl := t.info.Types[cc.List[0]].Type.Underlying().(*types.Slice); isSl {
					is, get = "anyIsBytes", "anyBytes"
				} else {
					is, get = "anyIsStr", "anyStr"
				}
			default:
				die(t.pos(cc), "type switch on %s", types.ExprString(cc.List[0]))
			}
			e.line("if (%s %s) then do", is, subj)
			e.ind++
			if iv, ok := t.info.Implicits[cc].(*types.Var); ok {
				e.line("let %s : %s := %s %s", t.nameOf(iv), t.leanType(iv.Type(), cc), get, subj)
			}
			t.stmts(e, cc.Body, k, lc)
			e.ind--
			e.line("else do")
			e.ind++
			tdepth++
		}
		if tdef != nil {
			t.stmts(e, tdef.Body, k, lc)
		} else {
			t.fall(e, k, lc)
		}
		e.ind -= tdepth
	case *ast.SwitchStmt:
		if v.Init != nil {
			t.simple(e, v.Init)
		}
		if v.Tag == nil {
			die(t.pos(s), "tagless switch")
		}
		tag := t.expr(e, v.Tag)
		tn := t.fresh("tag")
		e.line("let %s := %s", tn, tag)
		var def *ast.CaseClause
		var clauses []*ast.CaseClause
		for _, c := range v.Body.List {
			cc := c.(*ast.CaseClause)
			ast.Inspect(cc, func(m ast.Node) bool {
				if b, ok := m.(*ast.BranchStmt); ok && b.Tok == token.FALLTHROUGH {
					die(t.pos(b), "%s inside switch", b.Tok)
				}
				return true
			})
			if cc.List == nil {
				def = cc
			} else {
				clauses = append(clauses, cc)
			}
		}
		t.breakables = append(t.breakables, breakable{k: k})
		defer func() { t.breakables = t.breakables[:len(t.breakables)-1] }()
		depth := 0
		for _, cc := range clauses {
			var conds []string
			for _, x := range cc.List {
				conds = append(conds, "("+tn+" == "+t.expr(e, x)+")")
			}
			e.line("if %s then do", strings.Join(conds, " || "))
			e.ind++
			t.stmts(e, cc.Body, k, lc)
			e.ind--
			e.line("else do")
			e.ind++
			depth++
		}
		if def != nil {
			t.stmts(e, def.Body, k, lc)
		} else {
			t.fall(e, k, lc)
		}
		e.ind -= depth
	case *ast.ForStmt:
		if v.Init != nil {
			t.simple(e, v.Init)
		}
		inner := &loopCtx{post: v.Post, outer: lc, label: t.pendingLabel}
		t.pendingLabel = ""
		stateOf := append(append([]ast.Stmt{}, v.Body.List...), postList(v.Post)...)
		if v.Cond != nil {
			stateOf = append(stateOf, &ast.ExprStmt{X: v.Cond}) // a condition with a call may change its receiver and pointer arguments
		}
		inner.state = t.assigned(&ast.BlockStmt{Lbrace: v.Body.Lbrace, List: stateOf, Rbrace: v.Body.Rbrace})
		t.loop(e, inner, v.Cond, nil, v.Body, k, lc)
	case *ast.RangeStmt:
		if v.Key != nil && v.Value != nil {
			_, overMap := t.info.Types[v.X].Type.Underlying().(*types.Map)
			if id, ok := v.Key.(*ast.Ident); (!ok || id.Name != "_") && !overMap {
				die(t.pos(s), "range with a key and a value")
			}
		}
		if v.Tok != token.DEFINE {
			die(t.pos(s), "range with =")
		}
		inner := &loopCtx{outer: lc, hid: t.fresh("i")}
		for _, sv := range t.assigned(v.Body) {
			// the value variable is bound anew in every iteration: not part of the loop's state
			if id, ok := v.Value.(*ast.Ident); ok && t.info.Defs[id] == types.Object(sv) {
				continue
			}
			if id, ok := v.Key.(*ast.Ident); ok && t.info.Defs[id] == types.Object(sv) {
				continue
			}
			inner.state = append(inner.state, sv)
		}
		t.loop(e, inner, nil, v, v.Body, k, lc)
	case *ast.ExprStmt:
		if c, ok := v.X.(*ast.CallExpr); ok && types.ExprString(c.Fun) == "panic" {
			msg := "panic"
			if tv, ok := t.info.Types[c.Args[0]]; ok && tv.Value != nil && tv.Value.Kind() == constant.String {
				msg = constant.StringVal(tv.Value)
			}
			e.line("throw (Fault.panic %q)", msg)
			return
		}
		t.simple(e, s)
		t.stmts(e, rest, up, lc)
	default:
		t.simple(e, s)
		t.stmts(e, rest, up, lc)
	}
}

// terminates: control never falls off the end of the statement list
func terminates(list []ast.Stmt) bool {
	if len(list) == 0 {
		return false
	}
	switch v := list[len(list)-1].(type) {
	case *ast.ReturnStmt, *ast.BranchStmt:
		return true
	case *ast.ExprStmt:
		if c, ok := v.X.(*ast.CallExpr); ok && types.ExprString(c.Fun) == "panic" {
			return true
		}
	case *ast.BlockStmt:
		return terminates(v.List)
	case *ast.IfStmt:
		if v.Else == nil || !terminates(v.Body.List) {
			return false
		}
		switch el := v.Else.(type) {
		case *ast.BlockStmt:
			return terminates(el.List)
		case *ast.IfStmt:
			return terminates([]ast.Stmt{el})
		}
	}
	return false
}

// contStmts: the statements of a continuation, up to (not including) its terminal
func contStmts(k *kont) []ast.Stmt {
	var out []ast.Stmt
	for ; k != nil; k = k.up {
		out = append(out, k.rest...)
	}
	return out
}

func terminalOf(k *kont) *kont {
	for k.up != nil {
		k = k.up
	}
	return k
}

func hasLoop(list []ast.Stmt) bool {
	found := false
	for _, s := range list {
		ast.Inspect(s, func(n ast.Node) bool {
			switch n.(type) {
			case *ast.ForStmt, *ast.RangeStmt:
				found = true
			}
			return !found
		})
	}
	return found
}

// joinPoint: when both branches of an `if` can fall through to a continuation that holds a loop, the continuation
// becomes a definition of its own, F_jN fuel <variables it uses>, instead of being copied into every branch.
func (t *tr) joinPoint(v *ast.IfStmt, k *kont, lc *loopCtx) *kont {
	falls := 0
	if !terminates(v.Body.List) {
		falls++
	}
	switch el := v.Else.(type) {
	case nil:
		falls++
	case *ast.BlockStmt:
		if !terminates(el.List) {
			falls++
		}
	case *ast.IfStmt:
		if !terminates([]ast.Stmt{el}) {
			falls++
		}
	}
	cont := contStmts(k)
	if falls < 2 || !(hasLoop(cont) || (t.joins && len(cont) >= 2 && !t.inClosure)) {
		return k
	}
	// the variables the continuation uses: those of its statements that are declared before it, the terminal's
	// (loop state and post statement / named results) and the in/out values
	set := map[*types.Var]bool{}
	inside := func(v *types.Var) bool {
		for _, s := range cont {
			if v.Pos() >= s.Pos() && v.Pos() < s.End() {
				return true
			}
		}
		return false
	}
	use := func(n ast.Node) {
		ast.Inspect(n, func(m ast.Node) bool {
			if id, ok := m.(*ast.Ident); ok {
				if o, ok := t.info.Uses[id].(*types.Var); ok && !o.IsField() && o.Parent() != t.pkg.Scope() && o.Pkg() == t.pkg && !inside(o) {
					set[o] = true
				}
			}
			return true
		})
	}
	for _, s := range cont {
		use(s)
	}
	term := terminalOf(k)
	if term.loop != nil {
		for _, sv := range term.loop.state {
			set[sv] = true
		}
		if term.loop.post != nil {
			use(term.loop.post)
		}
	}
	if term.fin {
		for _, r := range t.results {
			if r.Name() != "" && r.Name() != "_" {
				set[r] = true
			}
		}
	}
	for _, io := range t.inouts {
		set[io] = true
	}
	if lc != nil {
		for _, sv := range lc.state {
			set[sv] = true
		}
	}
	var vars []*types.Var
	for o := range set {
		vars = append(vars, o)
	}
	sort.Slice(vars, func(i, j int) bool { return vars[i].Pos() < vars[j].Pos() })
	var decl, args []string
	for _, o := range vars {
		ty := t.varType(o, v)
		if _, isPtr := o.Type().(*types.Pointer); isPtr && !t.nilable[o] {
			ty = t.leanType(o.Type(), v)
		}
		decl = append(decl, fmt.Sprintf("(%s : %s)", t.nameOf(o), ty))
		args = append(args, t.nameOf(o))
	}
	if lc != nil && lc.hid != "" {
		decl = append(decl, fmt.Sprintf("(%s : Int)", lc.hid))
		args = append(args, lc.hid)
	}
	t.njoin++
	name := fmt.Sprintf("%s_j%d", t.fname, t.njoin)
	res := t.rho()
	if lc != nil {
		var tys []string
		if lc.hid != "" {
			tys = append(tys, "Int")
		}
		for _, sv := range lc.state {
			tys = append(tys, t.varType(sv, v))
		}
		sigma := "Unit"
		if len(tys) > 0 {
			sigma = strings.Join(tys, " × ")
		}
		res = fmt.Sprintf("Step (%s) (%s)", sigma, res)
	}
	b := &em{}
	b.line("/-- join point %d of `%s`: the code after the `if` at %s -/", t.njoin, t.fname, t.fset.Position(v.Pos()).String()[strings.LastIndex(t.fset.Position(v.Pos()).String(), "/")+1:])
	b.line("def %s %s(fuel : Nat) %s : GoM (%s) := do", name, t.tpDecl, strings.Join(decl, " "), res)
	b.ind++
	t.fall(b, k, lc)
	b.ind--
	b.line("")
	t.aux.sb.WriteString(b.sb.String())
	return &kont{join: strings.TrimSpace(name + " fuel " + strings.Join(args, " "))}
}

func postList(p ast.Stmt) []ast.Stmt {
	if p == nil {
		return nil
	}
	return []ast.Stmt{p}
}

// freeVars: local variables (parameters included) used inside the given nodes and declared outside `body`
func (t *tr) freeVars(body ast.Node, nodes ...ast.Node) []*types.Var {
	set := map[*types.Var]bool{}
	for _, n := range nodes {
		if n == nil || isNilNode(n) {
			continue
		}
		ast.Inspect(n, func(m ast.Node) bool {
			id, ok := m.(*ast.Ident)
			if !ok {
				return true
			}
			v, ok := t.info.Uses[id].(*types.Var)
			if !ok || v.IsField() || v.Parent() == t.pkg.Scope() || v.Pkg() != t.pkg {
				return true
			}
			if v.Pos() >= body.Pos() && v.Pos() < body.End() {
				return true
			}
			set[v] = true
			return true
		})
	}
	var out []*types.Var
	for v := range set {
		out = append(out, v)
	}
	sort.Slice(out, func(i, j int) bool { return out[i].Pos() < out[j].Pos() })
	return out
}

func isNilNode(n ast.Node) bool {
	switch v := n.(type) {
	case ast.Expr:
		return v == nil
	case ast.Stmt:
		return v == nil
	}
	return false
}

// loop emits the body as a definition of its own,  F_loopN fuel <captured…> st : GoM (Step σ ρ),  and at the
// loop's place   match ← loopM (F_loopN fuel <captured…>) fuel st0 with | .inl st => rest | .inr r => return r
func (t *tr) loop(e *em, inner *loopCtx, cond ast.Expr, rng *ast.RangeStmt, body *ast.BlockStmt, k *kont, outer *loopCtx) {
	var rangeOver string
	var rangeTy string
	var mapRange *types.Map
	if rng != nil {
		rangeOver = t.fresh("xs")
		if mt, ok := t.info.Types[rng.X].Type.Underlying().(*types.Map); ok {
			// for k, v := range m: the keys in an order that is a parameter of the function (`order`); a key that is no
			// longer in the map when its turn comes is skipped (Go: an entry removed before it is reached is not produced)
			mapRange = mt
			rangeTy = "(List " + t.leanType(mt.Key(), rng) + ")"
			op := t.orderOf[rng]
			if op == "" {
				die(t.pos(rng), "range over a map in a function without an order parameter")
			}
			e.line("let %s : %s := %s", rangeOver, rangeTy, op)
		} else {
			rangeTy = t.leanType(t.info.Types[rng.X].Type, rng)
			e.line("let %s : %s := %s", rangeOver, rangeTy, t.expr(e, rng.X))
		}
		e.line("let %s : Int := 0", inner.hid)
	}
	var tys []string
	if inner.hid != "" {
		tys = append(tys, "Int")
	}
	isState := map[*types.Var]bool{}
	for _, v := range inner.state {
		tys = append(tys, t.varType(v, body))
		isState[v] = true
	}
	sigma := "Unit"
	if len(tys) > 0 {
		sigma = strings.Join(tys, " × ")
	}
	var post ast.Node
	if inner.post != nil {
		post = inner.post
	}
	var condN ast.Node
	if cond != nil {
		condN = cond
	}
	var caps []string
	var capDecl []string
	var region ast.Node = body
	if rng != nil {
		region = rng // the value variable is declared by the range clause
	}
	for _, v := range t.freeVars(region, condN, post, body) {
		if isState[v] {
			continue
		}
		caps = append(caps, t.nameOf(v))
		ty := t.varType(v, body)
		if _, isPtr := v.Type().(*types.Pointer); isPtr && !t.nilable[v] {
			ty = t.leanType(v.Type(), body)
		}
		capDecl = append(capDecl, fmt.Sprintf("(%s : %s)", t.nameOf(v), ty))
	}
	if rng != nil {
		caps = append(caps, rangeOver)
		capDecl = append(capDecl, fmt.Sprintf("(%s : %s)", rangeOver, rangeTy))
	}
	t.nloop++
	lname := fmt.Sprintf("%s_loop%d", t.fname, t.nloop)
	st := t.fresh("st")
	rho := t.rho()
	// the body, as its own definition
	b := &em{}
	b.line("/-- body of loop %d of `%s` (condition and post statement included) -/", t.nloop, t.fname)
	b.line("def %s %s(fuel : Nat) %s (%s : %s) : GoM (Step (%s) (%s)) := do", lname, t.tpDecl, strings.Join(capDecl, " "), st, sigma, sigma, rho)
	b.ind++
	t.unpack(b, inner, st)
	mapSkip := 0
	if rng != nil && mapRange != nil {
		b.line("if %s < len %s then do", inner.hid, rangeOver)
		b.ind++
		kn := t.fresh("key")
		if id, ok := rng.Key.(*ast.Ident); ok && id.Name != "_" {
			kn = t.nameOf(t.info.Defs[id])
		}
		b.line("let %s ← idx %s %s", kn, rangeOver, inner.hid)
		cur := t.fresh("cur")
		b.line("let %s := mapGet %s %s", cur, t.expr(b, rng.X), kn)
		b.line("if %s.isNone then do", cur)
		b.ind++
		t.fall(b, &kont{loop: inner}, inner)
		b.ind--
		b.line("else do")
		b.ind++
		mapSkip = 1
		ctx := mapRangeCtx{key: kn, m: rng.X}
		if rng.Value != nil {
			if id, ok := rng.Value.(*ast.Ident); ok && id.Name != "_" {
				b.line("let %s ← derefPtr %s", t.nameOf(t.info.Defs[id]), cur)
				ctx.val = t.info.Defs[id]
			}
		}
		t.mapRanges = append(t.mapRanges, ctx)
		defer func() { t.mapRanges = t.mapRanges[:len(t.mapRanges)-1] }()
	} else if rng != nil {
		b.line("if %s < len %s then do", inner.hid, rangeOver)
		b.ind++
		if id, ok := rng.Value.(*ast.Ident); ok && id.Name != "_" {
			o := t.info.Defs[id].(*types.Var)
			b.line("let %s ← idx %s %s", t.nameOf(o), rangeOver, inner.hid)
		}
		if id, ok := rng.Key.(*ast.Ident); ok && id.Name != "_" && rng.Value == nil {
			// for i := range xs: the key is the position
			b.line("let %s : Int := %s", t.nameOf(t.info.Defs[id]), inner.hid)
		}
	} else if cond != nil {
		c := t.expr(b, cond)
		b.line("if %s then do", c)
		b.ind++
	}
	t.breakables = append(t.breakables, breakable{lc: inner})
	t.stmts(b, body.List, &kont{loop: inner}, inner)
	t.breakables = t.breakables[:len(t.breakables)-1]
	b.ind -= mapSkip
	if rng != nil || cond != nil {
		b.ind--
		b.line("else do")
		b.ind++
		b.line("pure (Step.brk %s)", t.stateTuple(inner))
		b.ind--
	}
	b.ind--
	b.line("")
	t.aux.sb.WriteString(b.sb.String())
	// the loop itself
	res := t.fresh("l")
	e.line("let %s ← loopM (%s) fuel %s", res, strings.TrimSpace(lname+" fuel "+strings.Join(caps, " ")), t.stateTuple(inner))
	e.line("match %s with", res)
	e.line("| .inr r => do")
	e.ind++
	if outer != nil {
		e.line("pure (Step.ret r)")
	} else {
		e.line("pure r")
	}
	e.ind--
	e.line("| .inl %s => do", st)
	e.ind++
	t.unpack(e, inner, st)
	t.fall(e, k, outer)
	e.ind--
}

func (t *tr) unpack(e *em, lc *loopCtx, st string) {
	var names []string
	if lc.hid != "" {
		names = append(names, lc.hid)
	}
	for _, v := range lc.state {
		names = append(names, t.nameOf(v))
	}
	for i, n := range names {
		p := st
		if len(names) > 1 {
			for j := 0; j < i; j++ {
				p += ".2"
			}
			if i < len(names)-1 {
				p += ".1"
			}
		}
		e.line("let %s := %s", n, p)
	}
}

func (t *tr) rho() string {
	var tys []string
	for _, r := range t.results {
		tys = append(tys, t.varType(r, nil))
	}
	for _, v := range t.inouts {
		if ty, ok := t.extraTy[v]; ok {
			tys = append(tys, ty)
		} else {
			tys = append(tys, t.leanType(v.Type(), nil))
		}
	}
	if len(tys) == 0 {
		return "Unit"
	}
	return strings.Join(tys, " × ")
}

// ------------------------------------------------------------------ functions

func (t *tr) findNilable(fd *ast.FuncDecl, sig *types.Signature) {
	// a slice-typed result or local that is given the literal nil somewhere is an Option
	isSlice := func(v *types.Var) bool {
		if _, ok := v.Type().Underlying().(*types.Slice); ok {
			return true
		}
		// a pointer to a struct that is given nil somewhere (a pointer to a basic value is an Option anyway)
		if p, ok := v.Type().(*types.Pointer); ok {
			_, basic := p.Elem().Underlying().(*types.Basic)
			return !basic
		}
		if t.dynRW && t.isResW(v.Type()) {
			return true // the package's ResponseWriter as a result: nil or a wrapper around a writer
		}
		return false
	}
	ast.Inspect(fd.Body, func(n ast.Node) bool {
		switch v := n.(type) {
		case *ast.ReturnStmt:
			for i, r := range v.Results {
				if id, ok := r.(*ast.Ident); ok && id.Name == "nil" && i < sig.Results().Len() && isSlice(sig.Results().At(i)) {
					t.nilable[sig.Results().At(i)] = true
				}
			}
		case *ast.BinaryExpr:
			// a slice variable compared with nil
			for _, pr := range [][2]ast.Expr{{v.X, v.Y}, {v.Y, v.X}} {
				if id, ok := pr[1].(*ast.Ident); ok && id.Name == "nil" {
					if l, ok := pr[0].(*ast.Ident); ok {
						if o, ok := t.info.ObjectOf(l).(*types.Var); ok && isSlice(o) && !o.IsField() {
							t.nilable[o] = true
						}
					}
				}
			}
		case *ast.AssignStmt:
			// x, err := f(…) where f's result may be nil
			if len(v.Rhs) == 1 {
				if c, ok := v.Rhs[0].(*ast.CallExpr); ok {
					if id, ok := c.Fun.(*ast.Ident); ok && t.opaque[id.Name] {
						for _, l := range v.Lhs {
							if li, ok := l.(*ast.Ident); ok {
								if o, ok := t.info.ObjectOf(li).(*types.Var); ok {
									t.nilable[o] = true // the answer of a callee outside the translation may be nil
								}
							}
						}
					}
					if id, ok := c.Fun.(*ast.Ident); ok {
						if fs := t.sigs[id.Name]; fs != nil {
							for i, l := range v.Lhs {
								if li, ok := l.(*ast.Ident); ok && i < len(fs.resNil) && fs.resNil[i] {
									if o, ok := t.info.ObjectOf(li).(*types.Var); ok {
										t.nilable[o] = true
									}
								}
							}
						}
					}
				}
			}
			for i, r := range v.Rhs {
				if id, ok := r.(*ast.Ident); ok && id.Name == "nil" && i < len(v.Lhs) {
					if l, ok := v.Lhs[i].(*ast.Ident); ok {
						if o, ok := t.info.ObjectOf(l).(*types.Var); ok && isSlice(o) {
							t.nilable[o] = true
						}
					}
				}
			}
		}
		return true
	})
}

// isIO: a parameter that is handed in and back: a pointer, or an io.Writer (whose state advances)
func (t *tr) isIO(v *types.Var) bool {
	if t.rebound[v] {
		return false
	}
	if _, ok := v.Type().(*types.Pointer); ok {
		return true
	}
	// a struct with a MessageWriter inside: the subscriber's state advances
	if n, ok := v.Type().(*types.Named); ok {
		if st, ok := n.Underlying().(*types.Struct); ok && t.hasSigma(st, map[*types.Struct]bool{}) {
			return true
		}
	}
	if n, ok := v.Type().(*types.Named); ok && n.Obj().Pkg() != nil && n.Obj().Pkg().Path() == "io" && n.Obj().Name() == "Writer" {
		return true
	}
	return false
}

func (t *tr) function(out *em, fd *ast.FuncDecl, leanName string) {
	obj := t.info.Defs[fd.Name].(*types.Func)
	sig := obj.Type().(*types.Signature)
	if t.sigOverride != nil {
		sig = t.sigOverride // a region of the function: its receiver, and the variables the region uses as parameters
	}
	t.names = map[types.Object]string{}
	t.used = map[string]int{"fuel": 1}
	t.fname, t.nloop, t.njoin, t.aux = leanName, 0, 0, &em{}
	dest := out
	out = &em{}
	defer func(body *em) {
		dest.sb.WriteString(t.aux.sb.String())
		dest.sb.WriteString(body.sb.String())
	}(out)
	t.results, t.inouts, t.recv = nil, nil, nil
	t.yieldVar, t.accVar, t.dicts, t.inClosure = nil, nil, nil, false
	t.extraTy = map[*types.Var]string{}
	t.rebound = map[*types.Var]bool{}
	t.closures = map[types.Object]*closureInfo{}
	t.effParams = map[*types.Var]bool{}
	body := fd.Body.List
	if t.dynRW {
		// the interfaces a type switch over an http.ResponseWriter asks about: the methods each adds to the writer's own
		ast.Inspect(fd.Body, func(n ast.Node) bool {
			ts, ok := n.(*ast.TypeSwitchStmt)
			if !ok {
				return true
			}
			for _, c := range ts.Body.List {
				for _, x := range c.(*ast.CaseClause).List {
					cn, ok := t.info.Types[x].Type.(*types.Named)
					if !ok {
						continue
					}
					iface, ok := cn.Underlying().(*types.Interface)
					if !ok {
						continue
					}
					var ms []string
					for i := 0; i < iface.NumMethods(); i++ {
						switch m := iface.Method(i).Name(); m {
						case "Header", "Write", "WriteHeader":
						default:
							ms = append(ms, m)
						}
					}
					sort.Strings(ms)
					if ms == nil {
						ms = []string{}
					}
					t.dynIfaces[cn.Obj().Name()] = ms
				}
			}
			return true
		})
	}
	// closure conversion: a method that returns a function literal without parameters returns the literal's environment
	// (the variables it captures); the literal's body is translated as a region of its own (kind "retlit")
	t.retEnv, t.retEnvTy = nil, ""
	if t.sigOverride == nil && sig.Results().Len() == 1 {
		if rs, ok := sig.Results().At(0).Type().Underlying().(*types.Signature); ok && rs.Params().Len() == 0 && rs.Results().Len() == 0 {
			if lit := returnedLit(fd.Body); lit != nil {
				t.retEnv = t.litEnv(lit, sig.Recv())
				var tys []string
				for _, ev := range t.retEnv {
					tys = append(tys, t.leanType(ev.Type(), fd))
				}
				t.retEnvTy = "Unit"
				if len(tys) > 0 {
					t.retEnvTy = "(" + strings.Join(tys, " × ") + ")"
				}
			}
		}
	}

	// an iterator: func (…) each(…) func(yield func(A, B) bool) { return func(yield …) { body } } is translated as its
	// literal's body, with two more parameters — what `yield` does with a state κ, and that state — and the state as result
	var iterLit *ast.FuncLit
	if sig.Results().Len() == 1 {
		if rs, ok := sig.Results().At(0).Type().(*types.Signature); ok && rs.Params().Len() == 1 && rs.Results().Len() == 0 {
			if ys, ok := rs.Params().At(0).Type().(*types.Signature); ok && ys.Results().Len() == 1 && len(body) == 1 {
				if ret, ok := body[0].(*ast.ReturnStmt); ok && len(ret.Results) == 1 {
					if lit, ok := ret.Results[0].(*ast.FuncLit); ok {
						iterLit = lit
						t.yieldVar = t.info.Defs[lit.Type.Params.List[0].Names[0]].(*types.Var)
						t.accVar = types.NewVar(token.NoPos, t.pkg, "acc", types.Typ[types.Invalid])
						var ats []string
						for i := 0; i < ys.Params().Len(); i++ {
							ats = append(ats, t.leanType(ys.Params().At(i).Type(), fd))
						}
						t.extraTy[t.yieldVar] = "(" + strings.Join(append(ats, "κ"), " → ") + " → GoM (Bool × κ))"
						t.extraTy[t.accVar] = "κ"
						t.names[t.yieldVar] = "yield"
						t.used["yield"]++
						body = lit.Body.List
						// other function-typed parameters without results (onRetry func(int64)): effects on the consumer's
						// state, which they thread like yield does; nil is none
						for i := 0; i < sig.Params().Len(); i++ {
							pv := sig.Params().At(i)
							if ps, ok := pv.Type().Underlying().(*types.Signature); ok && ps.Results().Len() == 0 {
								var ats []string
								for k := 0; k < ps.Params().Len(); k++ {
									ats = append(ats, t.leanType(ps.Params().At(k).Type(), fd))
								}
								t.extraTy[pv] = "(Option (" + strings.Join(append(ats, "κ"), " → ") + " → GoM κ))"
								t.effParams[pv] = true
							}
						}
					}
				}
			}
		}
	}

	// a pointer parameter that is assigned as a whole (m = m.Clone()) is a plain input from then on: what is written
	// through it afterwards does not reach the caller's object. Nothing may be written through it before.
	for i := 0; i < sig.Params().Len(); i++ {
		p := sig.Params().At(i)
		pt, ok := p.Type().(*types.Pointer)
		if !ok {
			continue
		}
		if _, basic := pt.Elem().Underlying().(*types.Basic); basic {
			continue
		}
		first := token.NoPos
		ast.Inspect(fd.Body, func(n ast.Node) bool {
			if as, ok := n.(*ast.AssignStmt); ok {
				for _, l := range as.Lhs {
					if id, ok := l.(*ast.Ident); ok && t.info.ObjectOf(id) == types.Object(p) && (first == token.NoPos || as.Pos() < first) {
						first = as.Pos()
					}
				}
			}
			return true
		})
		if first == token.NoPos {
			continue
		}
		ast.Inspect(fd.Body, func(n ast.Node) bool {
			if as, ok := n.(*ast.AssignStmt); ok && as.Pos() < first {
				for _, l := range as.Lhs {
					root := l
					for {
						switch d := root.(type) {
						case *ast.SelectorExpr:
							root = d.X
							continue
						case *ast.StarExpr:
							root = d.X
							continue
						case *ast.ParenExpr:
							root = d.X
							continue
						}
						break
					}
					if id, ok := root.(*ast.Ident); ok && root != l && t.info.ObjectOf(id) == types.Object(p) {
						die(t.pos(as), "pointer parameter %s is written through and later reassigned", p.Name())
					}
				}
			}
			return true
		})
		t.rebound[p] = true
	}

	t.findNilable(fd, sig)
	var params []string
	// method dictionaries of constrained type parameters
	for i := 0; i < sig.TypeParams().Len(); i++ {
		tp := sig.TypeParams().At(i)
		if iface, ok := tp.Constraint().Underlying().(*types.Interface); ok {
			for k := 0; k < iface.NumExplicitMethods(); k++ {
				m := iface.ExplicitMethod(k)
				ms := m.Type().(*types.Signature)
				if ms.Params().Len() != 0 || ms.Results().Len() != 1 {
					die(t.pos(fd), "constraint method %s", m.Name())
				}
				d := dictParam{tp: tp.Obj().Name(), method: m.Name(), tpIndex: i,
					leanType: "(Nat → " + tp.Obj().Name() + " → GoM " + t.leanType(ms.Results().At(0).Type(), fd) + ")"}
				t.dicts = append(t.dicts, d)
				params = append(params, fmt.Sprintf("(%s_%s : %s)", d.tp, d.method, d.leanType))
			}
		}
	}
	if r := sig.Recv(); r != nil {
		if _, ok := r.Type().(*types.Pointer); ok {
			t.recv = r
			t.inouts = append(t.inouts, r)
		}
		params = append(params, fmt.Sprintf("(%s : %s)", t.nameOf(r), t.leanType(r.Type(), fd)))
	}
	for i := 0; i < sig.Params().Len(); i++ {
		p := sig.Params().At(i)
		if t.isIO(p) {
			t.inouts = append(t.inouts, p)
		}
		params = append(params, fmt.Sprintf("(%s : %s)", t.nameOf(p), t.varType(p, fd)))
	}
	if iterLit != nil {
		params = append(params, fmt.Sprintf("(yield : %s)", t.extraTy[t.yieldVar]), fmt.Sprintf("(%s : κ)", t.nameOf(t.accVar)))
		t.inouts = append(t.inouts, t.accVar)
	}
	// how callers use it
	fs := &fsig{nres: sig.Results().Len(), iter: iterLit != nil, dicts: t.dicts, spread: sig.Params().Len()}
	if iterLit != nil {
		fs.nres = 0
	}
	mod := map[*types.Var]bool{}
	for _, v := range t.assigned(fd.Body) {
		mod[v] = true
	}
	if r := sig.Recv(); r != nil {
		if _, ok := r.Type().(*types.Pointer); ok {
			fs.recvIO, fs.recvMod = true, mod[r]
		}
	}
	for i := 0; i < sig.Params().Len(); i++ {
		p := sig.Params().At(i)
		fs.paramIO = append(fs.paramIO, t.isIO(p))
		_, isPtr := p.Type().(*types.Pointer)
		fs.paramMod = append(fs.paramMod, t.isIO(p) && (mod[p] || !isPtr))
		fs.paramNil = append(fs.paramNil, t.nilable[p])
	}
	t.sigs[leanName] = fs
	if iterLit == nil {
		for i := 0; i < sig.Results().Len(); i++ {
			t.results = append(t.results, sig.Results().At(i))
			fs.resNil = append(fs.resNil, t.nilable[sig.Results().At(i)])
		}
	}
	out.line("/-- `%s` (%s) -/", leanName, t.fset.Position(fd.Pos()).Filename[strings.LastIndex(t.fset.Position(fd.Pos()).Filename, "/")+1:])
	tps := ""
	if r := sig.Recv(); r != nil {
		rt := r.Type()
		if p, ok := rt.(*types.Pointer); ok {
			rt = p.Elem()
		}
		if n, ok := rt.(*types.Named); ok {
			for i := 0; i < n.TypeParams().Len(); i++ {
				tps += fmt.Sprintf("{%s : Type} [Inhabited %s] ", n.TypeParams().At(i).Obj().Name(), n.TypeParams().At(i).Obj().Name())
			}
		}
	}
	for i := 0; i < sig.TypeParams().Len(); i++ {
		tps += fmt.Sprintf("{%s : Type} [Inhabited %s] ", sig.TypeParams().At(i).Obj().Name(), sig.TypeParams().At(i).Obj().Name())
	}
	for _, p := range params {
		if strings.Contains(p, "σ") && !strings.Contains(tps, "{σ : Type}") {
			tps += "{σ : Type} "
		}
		if strings.Contains(p, "π") && !strings.Contains(tps, "{π : Type}") {
			tps += "{π : Type} "
		}
		if strings.Contains(p, "φ") && !strings.Contains(tps, "{φ : Type}") {
			tps += "{φ : Type} (fo : FloatI φ) " // the float operations, passed down to every callee that computes with floats
			fs.phi = true
		}
	}
	if t.readsClock(fd.Body) {
		t.nowParam = true
		params = append(params, "(now : Int)") // the clock reading of this call (time.Now / time.Since)
	}
	if t.usesJSON(fd.Body) {
		params = append(params, "(jsonDecode : Bytes → Option Bytes)") // what json.Unmarshal(data, &string) decodes (none = an error)
	}
	// a range over a map: the order in which its keys come is a parameter
	t.orderParam = ""
	t.orderOf = map[*ast.RangeStmt]string{}
	ast.Inspect(fd.Body, func(n ast.Node) bool {
		if rs, ok := n.(*ast.RangeStmt); ok {
			if mt, ok := t.info.Types[rs.X].Type.Underlying().(*types.Map); ok {
				name := "order"
				if len(t.orderOf) > 0 {
					name = fmt.Sprintf("order%d", len(t.orderOf)+1)
				}
				t.orderParam = name
				t.orderOf[rs] = name
				params = append(params, "("+name+" : (List "+t.leanType(mt.Key(), rs)+"))")
			}
		}
		return true
	})
	// callees that stay outside the translation: parameters
	seenOpaque := map[string]bool{}
	ast.Inspect(fd.Body, func(n ast.Node) bool {
		c, ok := n.(*ast.CallExpr)
		if !ok {
			return true
		}
		id, ok := c.Fun.(*ast.Ident)
		if !ok || !t.opaque[id.Name] || seenOpaque[id.Name] {
			return true
		}
		seenOpaque[id.Name] = true
		osig := t.info.Types[c.Fun].Type.(*types.Signature)
		var atys []string
		for i := 0; i < osig.Params().Len(); i++ {
			atys = append(atys, t.leanType(osig.Params().At(i).Type(), c))
		}
		params = append(params, fmt.Sprintf("(%sP : %s → (Option %s))", id.Name, strings.Join(atys, " → "), t.leanType(osig.Results().At(0).Type(), c)))
		return true
	})
	t.ifaceConv = map[string]string{}
	ast.Inspect(fd.Body, func(n ast.Node) bool {
		// a *T given to a MessageWriter field of a struct literal: parameter as<T>WriterP
		cl, ok := n.(*ast.CompositeLit)
		if !ok {
			return true
		}
		cn, ok := t.info.Types[cl].Type.(*types.Named)
		if !ok {
			return true
		}
		cst, ok := cn.Underlying().(*types.Struct)
		if !ok {
			return true
		}
		for _, el := range cl.Elts {
			kv, ok := el.(*ast.KeyValueExpr)
			if !ok {
				continue
			}
			for i := 0; i < cst.NumFields(); i++ {
				f := cst.Field(i)
				if f.Name() != kv.Key.(*ast.Ident).Name {
					continue
				}
				fnm, ok := f.Type().(*types.Named)
				if !ok || fnm.Obj().Pkg() != t.pkg || fnm.Obj().Name() != "MessageWriter" {
					continue
				}
				if pt, ok := t.info.Types[kv.Value].Type.(*types.Pointer); ok {
					if sn, ok := pt.Elem().(*types.Named); ok {
						if _, isSt := sn.Underlying().(*types.Struct); isSt {
							params = append(params, fmt.Sprintf("(as%sWriterP : %s → %s)", sn.Obj().Name(), t.leanType(pt, kv.Value), t.leanType(fnm, kv.Value)))
						}
					}
				}
			}
		}
		return true
	})
	seenFF := map[string]bool{}
	ast.Inspect(fd.Body, func(n ast.Node) bool {
		c, ok := n.(*ast.CallExpr)
		if !ok {
			return true
		}
		x := c.Fun
		fname, sg, ok := t.fieldFunc(x)
		if !ok || seenFF[fname] {
			return true
		}
		seenFF[fname] = true
		// the parameter's argument types are those of what this call hands over (an interface-typed parameter takes the
		// translated type of the value it is given)
		var atys []string
		for _, a := range c.Args {
			ty := t.leanType(t.info.Types[a].Type, a)
			if t.isOptPtr(a) {
				ty = "(Option " + ty + ")"
			}
			atys = append(atys, ty)
		}
		var rtys []string
		for i := 0; i < sg.Results().Len(); i++ {
			rtys = append(rtys, t.leanType(sg.Results().At(i).Type(), x))
		}
		res := "Unit"
		if len(rtys) > 0 {
			res = "(" + strings.Join(rtys, " × ") + ")"
		}
		params = append(params, fmt.Sprintf("(%sP : Option (%s → %s))", fname, strings.Join(atys, " → "), res))
		return true
	})
	for _, p := range params {
		if strings.Contains(p, "σ") && !strings.Contains(tps, "{σ : Type}") {
			tps += "{σ : Type} "
		}
	}
	if iterLit != nil {
		tps += "{κ : Type} "
	}
	t.tpDecl = tps
	out.line("def %s %s(fuel : Nat) %s : GoM (%s) := do", leanName, tps, strings.Join(params, " "), t.rho())
	out.ind++
	for _, r := range t.results {
		if r.Name() != "" && r.Name() != "_" {
			val := "none"
			if !t.nilable[r] {
				val = t.zero(r.Type(), fd)
			}
			out.line("let %s : %s := %s", t.nameOf(r), t.varType(r, fd), val)
		}
	}
	t.stmts(out, body, &kont{fin: true}, nil)
	out.ind--
	out.line("")
	t.known[leanName] = true
}

// closureDef: x := func(a A) R { … }
func (t *tr) closureDef(e *em, name *ast.Ident, lit *ast.FuncLit) {
	if t.inClosure {
		die(t.pos(lit), "a function literal inside a function literal")
	}
	obj := t.info.Defs[name]
	sig := t.info.Types[lit].Type.(*types.Signature)
	isParam := map[types.Object]bool{}
	var pnames, ptys []string
	for _, f := range lit.Type.Params.List {
		for _, id := range f.Names {
			o := t.info.Defs[id]
			isParam[o] = true
			pnames = append(pnames, t.nameOf(o))
			ptys = append(ptys, t.varType(o.(*types.Var), lit))
		}
	}
	var state []*types.Var
	isState := map[*types.Var]bool{}
	for _, c := range t.assigned(lit.Body) {
		if !isParam[c] {
			state = append(state, c)
			isState[c] = true
		}
	}
	var reads []*types.Var
	for _, fv := range t.freeVars(lit.Body, lit.Body) {
		if isParam[fv] || isState[fv] || fv == t.yieldVar || t.effParams[fv] {
			continue
		}
		if _, isFn := fv.Type().Underlying().(*types.Signature); isFn {
			continue // function values are not reassigned: visible as they are
		}
		reads = append(reads, fv)
	}
	ci := &closureInfo{lean: t.nameOf(obj) + "_fn", reads: reads, state: state}
	var rn, rt, sn, st []string
	for _, r := range reads {
		rn = append(rn, t.nameOf(r))
		rt = append(rt, t.varType(r, lit))
	}
	for _, c := range state {
		sn = append(sn, t.nameOf(c))
		st = append(st, t.varType(c, lit))
	}
	kappa := "Unit"
	if len(st) > 0 {
		kappa = strings.Join(st, " × ")
	}
	var rts []string
	for i := 0; i < sig.Results().Len(); i++ {
		rts = append(rts, t.leanType(sig.Results().At(i).Type(), lit))
	}
	res := "Unit"
	if len(rts) > 0 {
		res = strings.Join(rts, " × ")
	}
	stv := t.fresh("cst")
	tys := append(append([]string{}, ptys...), rt...)
	tys = append(tys, "("+kappa+")")
	fty := fmt.Sprintf("(%s → GoM ((%s) × (%s)))", strings.Join(tys, " → "), res, kappa)
	// (loops and join points that call it take it as one of the variables they use)
	t.names[obj] = ci.lean
	t.extraTy[obj.(*types.Var)] = fty
	e.line("let %s : %s := fun %s %s => do", ci.lean, fty,
		strings.Join(append(append([]string{}, pnames...), rn...), " "), stv)
	saveRes, saveIO, saveRecv := t.results, t.inouts, t.recv
	t.results = nil
	for i := 0; i < sig.Results().Len(); i++ {
		t.results = append(t.results, types.NewVar(token.NoPos, t.pkg, "", sig.Results().At(i).Type()))
	}
	t.inouts, t.recv, t.inClosure = state, nil, true
	sub := &em{ind: e.ind + 2}
	for i, n := range sn {
		sub.line("let %s := %s", n, tupleProj(stv, i, len(sn)))
	}
	t.stmts(sub, lit.Body.List, &kont{fin: true}, nil)
	e.sb.WriteString(sub.sb.String())
	t.results, t.inouts, t.recv, t.inClosure = saveRes, saveIO, saveRecv, false
	t.closures[obj] = ci
}

// closureCall: x(args…) of a local function literal
func (t *tr) closureCall(e *em, ci *closureInfo, v *ast.CallExpr) string {
	args := []string{ci.lean}
	for _, a := range v.Args {
		args = append(args, t.expr(e, a))
	}
	for _, r := range ci.reads {
		args = append(args, t.nameOf(r))
	}
	var sn []string
	for _, c := range ci.state {
		sn = append(sn, t.nameOf(c))
	}
	init := "()"
	if len(sn) > 0 {
		init = t.tuple(sn)
	}
	r := t.fresh("cl")
	e.line("let %s ← %s %s", r, strings.Join(args, " "), init)
	for i, c := range ci.state {
		e.line("let %s : %s := %s", t.nameOf(c), t.varType(c, v), tupleProj("("+r+".2)", i, len(ci.state)))
	}
	return r + ".1"
}

// iterCall: q.each(a)(func(j int, m T) bool { … }) — the literal becomes a function of its parameters and of the
// variables it assigns outside itself (its state), which the iterator threads through the calls
func (t *tr) iterCall(e *em, inner *ast.CallExpr, v *ast.CallExpr) string {
	sel, ok := inner.Fun.(*ast.SelectorExpr)
	if !ok || len(v.Args) != 1 {
		die(t.pos(v), "call of a call")
	}
	lit, ok := v.Args[0].(*ast.FuncLit)
	if !ok {
		die(t.pos(v), "an iterator applied to something other than a function literal")
	}
	sl, ok := t.info.Selections[sel]
	if !ok || sl.Kind() != types.MethodVal || len(sl.Index()) != 1 {
		die(t.pos(v), "iterator %s", types.ExprString(inner.Fun))
	}
	recvT := sl.Recv()
	if p, ok := recvT.(*types.Pointer); ok {
		recvT = p.Elem()
	}
	mname := recvT.(*types.Named).Obj().Name() + "_" + sel.Sel.Name
	fs := t.sigs[mname]
	if fs == nil || !fs.iter {
		die(t.pos(v), "call of %s (not a translated iterator)", mname)
	}
	if t.inClosure {
		die(t.pos(v), "an iterator used inside a function literal")
	}
	// the literal's state: what it assigns outside itself
	isParam := map[types.Object]bool{}
	var pnames, ptys []string
	for _, f := range lit.Type.Params.List {
		for _, id := range f.Names {
			o := t.info.Defs[id]
			isParam[o] = true
			pnames = append(pnames, t.nameOf(o))
			ptys = append(ptys, t.varType(o.(*types.Var), lit))
		}
	}
	var caps []*types.Var
	for _, c := range t.assigned(lit.Body) {
		if !isParam[c] {
			caps = append(caps, c)
		}
	}
	var cn, ct []string
	for _, c := range caps {
		cn = append(cn, t.nameOf(c))
		ct = append(ct, t.varType(c, lit))
	}
	kappa := "Unit"
	if len(ct) > 0 {
		kappa = strings.Join(ct, " × ")
	}
	recv := t.expr(e, sel.X)
	args := []string{"fuel", recv}
	args = append(args, t.argList(e, fs, inner.Args)...)
	fn := t.fresh("lit")
	st := t.fresh("cst")
	e.line("let %s : %s → (%s) → GoM (Bool × (%s)) := fun %s %s => do", fn, strings.Join(ptys, " → "), kappa, kappa, strings.Join(pnames, " "), st)
	// the literal's body, as a function returning (continue?, state)
	saveRes, saveIO, saveRecv, saveY, saveA := t.results, t.inouts, t.recv, t.yieldVar, t.accVar
	t.results = []*types.Var{types.NewVar(token.NoPos, t.pkg, "", types.Typ[types.Bool])}
	t.inouts, t.recv, t.inClosure = caps, nil, true
	sub := &em{ind: e.ind + 2}
	for i, n := range cn {
		sub.line("let %s := %s", n, tupleProj(st, i, len(cn)))
	}
	t.stmts(sub, lit.Body.List, &kont{fin: true}, nil)
	e.sb.WriteString(sub.sb.String())
	t.results, t.inouts, t.recv, t.yieldVar, t.accVar, t.inClosure = saveRes, saveIO, saveRecv, saveY, saveA, false
	it := t.fresh("it")
	init := "()"
	if len(cn) > 0 {
		init = t.tuple(cn)
	}
	e.line("let %s ← %s %s %s", it, mname, strings.Join(args, " ")+" "+fn, init)
	comps := 1
	if fs.recvIO {
		comps = 2
		if fs.recvMod {
			t.assignTo(e, sel.X, tupleProj(it, 0, comps), false)
		}
	}
	accs := tupleProj(it, comps-1, comps)
	for i, c := range caps {
		e.line("let %s : %s := %s", t.nameOf(c), t.varType(c, lit), tupleProj("("+accs+")", i, len(caps)))
	}
	return "()"
}

func (t *tr) structDecl(out *em, name string, st *types.Struct) {
	if k := t.generic[name]; k > 0 {
		out.line("structure %s %s where", name, t.genericBinders[name])
		for i := 0; i < st.NumFields(); i++ {
			f := st.Field(i)
			out.line("  %s : %s", fieldName(f.Name()), t.fieldType(f, nil))
		}
		out.line("deriving DecidableEq, Repr, Inhabited")
		out.line("")
		return
	}
	if acc := t.pruned[name]; acc != nil {
		// a struct of which the translated functions use a few fields only: the others are opaque
		if t.prunedSigma(name, st) {
			out.line("structure %s (σ : Type) where", name)
		} else {
			out.line("structure %s where", name)
		}
		for i := 0; i < st.NumFields(); i++ {
			f := st.Field(i)
			ty := "Unit"
			if acc[f.Name()] {
				ty = t.fieldType(f, nil)
			}
			out.line("  %s : %s", fieldName(f.Name()), ty)
		}
		if name == t.chanLog {
			out.line("  chlog : List (ChanOp (Option String))")
		}
		if name == t.callLog {
			out.line("  cblog : List (Nat × %s)", t.callArgTy)
		}
		out.line("")
		return
	}
	if t.sigmaStructs[name] {
		out.line("structure %s (σ : Type) where", name)
	} else if t.phiStructs[name] {
		out.line("structure %s (φ : Type) where", name)
	} else {
		out.line("structure %s where", name)
	}
	fn := t.sigmaStructs[name]
	for i := 0; i < st.NumFields(); i++ {
		f := st.Field(i)
		ty := t.fieldType(f, nil)
		if nilableFields[name+"."+f.Name()] {
			ty = "(Option " + ty + ")"
		}
		if strings.Contains(ty, "→") || strings.Contains(ty, "GoM ") {
			fn = true
		}
		out.line("  %s : %s", fieldName(f.Name()), ty)
	}
	if !fn {
		out.line("deriving DecidableEq, Repr, Inhabited")
	}
	out.line("")
}

// chain resolves the repository's own packages from what was checked earlier and the standard library from source
type chain struct {
	own map[string]*types.Package
	std types.Importer
}

func (c chain) Import(path string) (*types.Package, error) {
	if p, ok := c.own[path]; ok {
		return p, nil
	}
	return c.std.Import(path)
}

func main() {
	if len(os.Args) != 3 {
		fmt.Fprintln(os.Stderr, "usage: translate <repo> <out dir>")
		os.Exit(2)
	}
	repo, outDir := os.Args[1], os.Args[2]
	if err := os.MkdirAll(outDir, 0o755); err != nil {
		fmt.Fprintln(os.Stderr, err)
		os.Exit(2)
	}
	known := map[string]bool{}
	checked := map[string]*types.Package{}
	declared := map[string]bool{} // structures emitted by an earlier module
	sigs := map[string]*fsig{}
	var outs []string
	for _, tg := range targets {
		fset := token.NewFileSet()
		var files []*ast.File
		for _, f := range tg.files {
			base := repo
			if tg.std {
				base = filepath.Join(runtime.GOROOT(), "src")
			}
			af, err := parser.ParseFile(fset, filepath.Join(base, tg.dir, f), nil, parser.SkipObjectResolution)
			if err != nil {
				fmt.Fprintln(os.Stderr, "translate:", err)
				os.Exit(3)
			}
			files = append(files, af)
		}
		info := &types.Info{Types: map[ast.Expr]types.TypeAndValue{}, Defs: map[*ast.Ident]types.Object{},
			Uses: map[*ast.Ident]types.Object{}, Selections: map[*ast.SelectorExpr]*types.Selection{}, Instances: map[*ast.Ident]types.Instance{}, Implicits: map[ast.Node]types.Object{}}
		conf := types.Config{Importer: chain{checked, importer.ForCompiler(fset, "source", nil)}, Error: func(error) {}} // a partial package: unresolved names elsewhere are not our concern
		pkg, _ := conf.Check(tg.dir, fset, files, info)
		checked["github.com/tmaxmax/go-sse/"+tg.dir] = pkg
		t := &tr{fset: fset, info: info, pkg: pkg, known: known, nilable: map[types.Object]bool{}, structs: map[string]*types.Struct{}, generic: map[string]int{}, genericBinders: map[string]string{}, sigs: sigs, files: files, sigmaStructs: map[string]bool{}, phiStructs: map[string]bool{}, joins: tg.joins}
		decls := map[string]*ast.FuncDecl{}
		for _, f := range files {
			for _, d := range f.Decls {
				if fd, ok := d.(*ast.FuncDecl); ok && fd.Body != nil {
					name := fd.Name.Name
					if fd.Recv != nil && len(fd.Recv.List) == 1 {
						rt := fd.Recv.List[0].Type
						if s, ok := rt.(*ast.StarExpr); ok {
							rt = s.X
						}
						if ix, ok := rt.(*ast.IndexExpr); ok { // generic receiver queue[T]
							rt = ix.X
						}
						name = types.ExprString(rt) + "." + name
					}
					decls[name] = fd
				}
			}
		}
		t.chanLog = tg.chanLog
		t.callLog = tg.callLog
		t.dynRW = tg.dynRW
		t.fieldFuncs = map[string]bool{}
		for _, fn := range tg.fieldFuncs {
			t.fieldFuncs[fn] = true
		}
		t.dynIfaces = map[string][]string{}
		t.opaque = map[string]bool{}
		for _, on := range tg.opaque {
			t.opaque[on] = true
		}
		t.pruned = map[string]map[string]bool{}
		for _, pn := range tg.prune {
			acc := map[string]bool{}
			scan := append([]string{}, tg.funcs...)
			for _, rg := range tg.regions {
				scan = append(scan, rg.fn)
			}
			for _, fn := range scan {
				if fd := decls[fn]; fd != nil {
					ast.Inspect(fd.Body, func(n ast.Node) bool {
						if se, ok := n.(*ast.SelectorExpr); ok {
							if sl, ok := info.Selections[se]; ok && sl.Kind() == types.FieldVal {
								rt := sl.Recv()
								if p, ok := rt.(*types.Pointer); ok {
									rt = p.Elem()
								}
								if nn, ok := rt.(*types.Named); ok && nn.Obj().Name() == pn && !t.fieldFuncs[se.Sel.Name] {
									acc[se.Sel.Name] = true
								}
							}
						}
						return true
					})
				}
			}
			t.pruned[pn] = acc
		}
		body := &em{}
		for _, fn := range tg.funcs {
			fd, ok := decls[fn]
			if !ok {
				fmt.Fprintf(os.Stderr, "translate: %s/%s: function %s not found\n", tg.dir, strings.Join(tg.files, ","), fn)
				os.Exit(3)
			}
			t.function(body, fd, strings.ReplaceAll(fn, ".", "_"))
		}
		for _, rg := range tg.regions {
			fd, ok := decls[rg.fn]
			if !ok {
				fmt.Fprintf(os.Stderr, "translate: region: function %s not found\n", rg.fn)
				os.Exit(3)
			}
			if rg.kind == "retlit" {
				lit := returnedLit(fd.Body)
				if lit == nil {
					fmt.Fprintf(os.Stderr, "translate: region: %s returns no function literal\n", rg.fn)
					os.Exit(3)
				}
				fsig := info.Defs[fd.Name].(*types.Func).Type().(*types.Signature)
				t.sigOverride = types.NewSignatureType(fsig.Recv(), nil, nil, types.NewTuple(t.litEnv(lit, fsig.Recv())...), nil, false)
				fd2 := *fd
				fd2.Body = lit.Body
				t.function(body, &fd2, rg.name)
				t.sigOverride = nil
				continue
			}
			var stmt *ast.RangeStmt
			ast.Inspect(fd.Body, func(n ast.Node) bool {
				if rs, ok := n.(*ast.RangeStmt); ok && stmt == nil {
					stmt = rs
				}
				return stmt == nil
			})
			if stmt == nil {
				fmt.Fprintf(os.Stderr, "translate: region: no range statement in %s\n", rg.fn)
				os.Exit(3)
			}
			fsig := info.Defs[fd.Name].(*types.Func).Type().(*types.Signature)
			var ps []*types.Var
			for _, fv := range t.freeVars(stmt, stmt) {
				if fsig.Recv() != nil && fv == fsig.Recv() {
					continue
				}
				ps = append(ps, fv)
			}
			t.sigOverride = types.NewSignatureType(fsig.Recv(), nil, nil, types.NewTuple(ps...), nil, false)
			fd2 := *fd
			fd2.Body = &ast.BlockStmt{Lbrace: stmt.Pos(), List: []ast.Stmt{stmt}, Rbrace: stmt.End()}
			t.function(body, &fd2, rg.name)
			t.sigOverride = nil
		}
		head := &em{}
		head.line("import GoSSE.GoRT")
		for _, prev := range outs {
			head.line("import GoSSE.Gen.%s", prev)
		}
		outs = append(outs, tg.out)
		head.line("/-! GENERATED by /verif/translate from %s (%s) — do not edit; regenerated on every run. -/", tg.dir, strings.Join(tg.files, ", "))
		head.line("set_option linter.unusedVariables false")
		head.line("namespace GoSSE.Gen")
		head.line("open GoSSE GoSSE.GoRT")
		head.line("")
		var sn []string
		for n := range t.structs {
			sn = append(sn, n)
		}
		sort.Strings(sn)
		done := map[string]bool{}
		var emit func(n string)
		emit = func(n string) {
			if done[n] || declared[n] {
				return
			}
			done[n] = true
			st := t.structs[n]
			for i := 0; i < st.NumFields(); i++ {
				if acc := t.pruned[n]; acc != nil && !acc[st.Field(i).Name()] {
					continue // an opaque field of a pruned struct: its type is not needed
				}
				ft := st.Field(i).Type()
				for {
					if sl, ok := ft.(*types.Slice); ok {
						ft = sl.Elem()
					} else if pt, ok := ft.(*types.Pointer); ok {
						ft = pt.Elem()
					} else {
						break
					}
				}
				if fn, ok := ft.(*types.Named); ok {
					if _, isSt := fn.Underlying().(*types.Struct); isSt && fn.Obj().Pkg() == t.pkg && fn.TypeArgs().Len() == 0 && fn.TypeParams().Len() == 0 {
						if _, ok := t.structs[fn.Obj().Name()]; !ok {
							t.leanType(fn, nil) // a struct only ever seen as a field's type: record it (and whether it needs σ / φ)
						}
					}
					if _, ok := t.structs[fn.Obj().Name()]; ok {
						emit(fn.Obj().Name())
					}
					for k := 0; k < fn.TypeArgs().Len(); k++ { // queue[messageWithTopics]: the argument first
						if an, ok := fn.TypeArgs().At(k).(*types.Named); ok {
							if _, ok := t.structs[an.Obj().Name()]; ok {
								emit(an.Obj().Name())
							}
						}
					}
				}
			}
			t.structDecl(head, n, st)
			declared[n] = true
		}
		for _, n := range sn {
			emit(n)
		}
		src := head.sb.String() + body.sb.String() + "end GoSSE.Gen\n"
		if err := os.WriteFile(filepath.Join(outDir, tg.out+".lean"), []byte(src), 0o644); err != nil {
			fmt.Fprintln(os.Stderr, err)
			os.Exit(2)
		}
	}
}
