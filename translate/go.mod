module verif/translate

go 1.22
