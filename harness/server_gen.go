package main

import (
	"fmt"
	"math"
	"math/rand"
	"strconv"
	"strings"

	sse "github.com/tmaxmax/go-sse"
)

// Generator for C16: Send/Flush sequences x messages x writer shapes x fault schedules (SESS),
// request headers x OnSession behaviours x provider behaviours (SERVE).

func genShape(rng *rand.Rand) string {
	var layers []string
	depth := pick(rng, 0, 0, 0, 1, 1, 2, 3)
	for i := 0; i < depth; i++ {
		// wrappers usually have no flushing method of their own
		layers = append(layers, pick(rng, "n", "n", "n", "n", "n", "f", "e", "b"))
	}
	layers = append(layers, pick(rng, "e", "e", "e", "f", "f", "b", "b", "n"))
	return strings.Join(layers, ".")
}

var c16Payloads = []string{"x", "hello", "a b", "é", "日本", "", "\n", "\r", "\r\n", "a\nb", "a\r\nb\rc", "\n\n", "x\n", "\nx",
	"data: y", "id: 7", "event: e", ": c", "\x00", "\xff\xfe", "retry: 1", " lead", "trail "}

func genSrvPayload(rng *rand.Rand) string {
	if rng.Intn(25) == 0 {
		// long values, around the sizes at which writers usually start or stop buffering
		return strings.Repeat("x", pick(rng, 511, 512, 1024, 4095, 4096, 4097, 5000, 8192, 20000))
	}
	if rng.Intn(4) == 0 {
		n := 1 + rng.Intn(4)
		var sb strings.Builder
		for i := 0; i < n; i++ {
			sb.WriteString(pick(rng, hostileFrags...))
		}
		return sb.String()
	}
	return pick(rng, c16Payloads...)
}

var c16Retries = []int64{0, -1, 1, 999999, 1000000, 1999999, 5000000, 1500000000, 12345678901234, math.MaxInt64, math.MinInt64, -1000000}

func genMsgItems(rng *rand.Rand) string {
	n := pick(rng, 0, 1, 1, 1, 2, 2, 3, 4, 5)
	var items []string
	for i := 0; i < n; i++ {
		switch rng.Intn(10) {
		case 0, 1:
			items = append(items, "i="+hxs(pick(rng, "1", "42", "", "a b", "a\nb", "x\r", "é", "\x00", "id: 9")))
		case 2:
			items = append(items, "t="+hxs(pick(rng, "ping", "", "a\nb", "message", "t\r\n", " ")))
		case 3:
			r := pick(rng, c16Retries...)
			if rng.Intn(3) == 0 {
				r = rng.Int63n(20_000_000_000)
			}
			items = append(items, "r="+strconv.FormatInt(r, 10))
		case 4:
			items = append(items, "c="+hxs(genSrvPayload(rng)))
		default:
			items = append(items, "d="+hxs(genSrvPayload(rng)))
		}
	}
	if len(items) == 0 {
		return "-"
	}
	return strings.Join(items, ",")
}

func genSessOps(rng *rand.Rand, maxLen int) string {
	n := rng.Intn(maxLen + 1)
	if n == 0 {
		return "-"
	}
	ops := make([]string, n)
	sent := false
	for i := range ops {
		switch k := rng.Intn(100); {
		case k < 35:
			ops[i] = "F"
		case k < 47 && sent:
			ops[i] = "A" // the previous message again, the same value
		default:
			ops[i] = "S:" + genMsgItems(rng)
			sent = true
		}
	}
	return strings.Join(ops, ";")
}

// writerCalls runs a case without faults and counts the Write/Flush calls it makes.
func writerCalls(op string, args []string) int {
	// count the W/F events of the observation of the ordinary runner
	out := runners[op](args)
	n := 0
	for _, tok := range strings.FieldsFunc(out, func(r rune) bool { return strings.ContainsRune(",; |>:+", r) }) {
		if len(tok) >= 2 && (tok[0] == 'W' || tok[0] == 'F') && tok[1] >= '0' && tok[1] <= '9' {
			n++
		}
	}
	return n
}

func genFaultN(rng *rand.Rand) int { return pick(rng, 0, 0, 1, 2, 3, 5, 1000) }

// faultSchedules: the schedules to try for a scenario that makes `calls` writer calls unharmed.
func faultSchedules(rng *rand.Rand, calls int, thorough bool) []string {
	out := []string{"-"}
	if thorough {
		// a failure at every call (and a little beyond: a failed upgrade is retried, so faults shift calls)
		for k := 0; k < calls+2; k++ {
			out = append(out, fmt.Sprintf("%d:%d", k, genFaultN(rng)))
		}
		if calls > 0 && calls < 12 {
			for k := 0; k < calls; k++ {
				out = append(out, fmt.Sprintf("%d:%d", k, pick(rng, 0, 1, 1000)))
			}
		}
	} else {
		for i := 0; i < 3; i++ {
			out = append(out, fmt.Sprintf("%d:%d", rng.Intn(calls+2), genFaultN(rng)))
		}
	}
	// several failures
	for i := 0; i < 2; i++ {
		m := 2 + rng.Intn(3)
		var fs []string
		for j := 0; j < m; j++ {
			fs = append(fs, fmt.Sprintf("%d:%d", rng.Intn(calls+3), genFaultN(rng)))
		}
		out = append(out, strings.Join(fs, ","))
	}
	return out
}

var c16LastIDs = [][]string{nil, {}, {""}, {"5"}, {"abc"}, {"abc", "x"}, {"", "7"}, {"a\nb"}, {"a\rb"}, {"a\r\nb", "ok"}, {"ok", "a\nb"},
	{"\n"}, {" "}, {"\x00"}, {"é"}, {"id: 1"}, {"007"}}

var c16IDKeys = []string{"Last-Event-Id", "Last-Event-Id", "Last-Event-Id", "Last-Event-Id", "Last-Event-ID", "last-event-id", "LAST-EVENT-ID", "Last-Event-Id "}

func hdrEntry(key string, vals []string) string {
	b := make([][]byte, len(vals))
	for i, v := range vals {
		b[i] = []byte(v)
	}
	return hxs(key) + "=" + hxList(b)
}

func genHeader(rng *rand.Rand) string {
	var entries []string
	seen := map[string]bool{}
	add := func(k string, v []string) {
		if !seen[k] {
			seen[k] = true
			entries = append(entries, hdrEntry(k, v))
		}
	}
	if rng.Intn(4) == 0 {
		add("Accept", []string{"text/event-stream"})
	}
	if rng.Intn(5) != 0 {
		if v := pick(rng, c16LastIDs...); v != nil {
			add(pick(rng, c16IDKeys...), v)
		}
	}
	if rng.Intn(5) == 0 {
		// a second, differently spelled key next to it
		add(pick(rng, c16IDKeys...), pick(rng, c16LastIDs[3:]...))
	}
	if rng.Intn(6) == 0 {
		add("Cache-Control", []string{"no-cache"})
	}
	if len(entries) == 0 {
		return "-"
	}
	rng.Shuffle(len(entries), func(i, j int) { entries[i], entries[j] = entries[j], entries[i] })
	return strings.Join(entries, ";")
}

func genActs(rng *rand.Rand, reject bool) string {
	var acts []string
	switch rng.Intn(6) {
	case 0, 1:
	case 2:
		acts = []string{"c:" + pick(rng, "403", "401", "404", "200")}
	case 3:
		acts = []string{"h:" + hxs("X-Reason") + "=" + hxs("no"), "c:403", "w:" + hxs("forbidden\n")}
	case 4:
		acts = []string{"h:" + hxs(pick(rng, "Content-Type", "X-Accel-Buffering", "Cache-Control")) + "=" + hxs(pick(rng, "text/plain", "no", "no-cache"))}
	case 5:
		acts = []string{"c:" + pick(rng, "403", "200"), "w:" + hxs("x"), "f"}
	}
	if !reject && rng.Intn(3) != 0 && len(acts) > 1 {
		acts = acts[:1]
	}
	if len(acts) == 0 {
		return "-"
	}
	return strings.Join(acts, ",")
}

func genOnSession(rng *rand.Rand) string {
	switch rng.Intn(10) {
	case 0, 1, 2:
		return "nil"
	case 3, 4:
		return "0/" + pick(rng, "-", "-", hxs("ignored")) + "/" + genActs(rng, true)
	case 5:
		return "1/-/" + genActs(rng, false)
	}
	n := 1 + rng.Intn(3)
	topics := make([][]byte, n)
	for i := range topics {
		topics[i] = []byte(pick(rng, "a", "b", "news", "", "a", "t/1", "é"))
	}
	return "1/" + hxList(topics) + "/" + genActs(rng, false)
}

func genProvider(rng *rand.Rand) string {
	ret := pick(rng, "nil", "nil", "first", "first", "own:"+hxs(pick(rng, sse.ErrProviderClosed.Error(), "joe: "+sse.ErrProviderClosed.Error(), "refused", "", "a\nb")))
	ops := "-"
	if rng.Intn(4) != 0 {
		ops = genSessOps(rng, 4)
	}
	return ret + "/" + ops
}

// genC16S: session cases only (what sending a message through a Session does to the message: C19)
func genC16S(rng *rand.Rand, n int, thorough bool, emit func(string)) {
	emitted := 0
	for emitted < n {
		shape := genShape(rng)
		ops := genSessOps(rng, 6)
		calls := writerCalls("SESS", []string{shape, "-", ops})
		for _, f := range faultSchedules(rng, calls, thorough) {
			if emitted < n {
				emit(fmt.Sprintf("SESS %s %s %s", shape, f, ops))
				emitted++
			}
		}
	}
}

func genC16(rng *rand.Rand, n int, thorough bool, emit func(string)) {
	emitted := 0
	out := func(l string) {
		if emitted < n {
			emit(l)
			emitted++
		}
	}
	for emitted < n {
		shape := genShape(rng)
		if rng.Intn(100) < 55 {
			ops := genSessOps(rng, 6)
			calls := writerCalls("SESS", []string{shape, "-", ops})
			for k, f := range faultSchedules(rng, calls, thorough) {
				out(fmt.Sprintf("SESS %s %s %s", shape, f, ops))
				if k%3 == 1 {
					out(fmt.Sprintf("GSESS %s %s %s", shape, f, ops))
				}
			}
		} else {
			hdr, ons, prov := genHeader(rng), genOnSession(rng), genProvider(rng)
			calls := writerCalls("SERVE", []string{shape, "-", hdr, ons, prov})
			for _, f := range faultSchedules(rng, calls, thorough) {
				out(fmt.Sprintf("SERVE %s %s %s %s %s", shape, f, hdr, ons, prov))
			}
		}
	}
}

func init() { generators["C16"] = genC16; generators["C16S"] = genC16S }
