package main

// Generators of the message side: C02 (encode → decode), C14 (construction routes of
// EventID/EventType), C15 (round trip, writer faults), C19 (clone families, repeated Put).

import (
	"fmt"
	"math"
	"math/rand"
	"strings"

	sse "github.com/tmaxmax/go-sse"
)

// pieces payloads are assembled from: every newline flavour and run, protocol look-alikes,
// colons and spaces at the edges, BOM, NUL, multi-byte runes, invalid UTF-8
var msgPieces = []string{
	"\n", "\r", "\r\n", "\n\r", "\r\r\n", "\n\n", "\r\n\r\n", "\r\r",
	":", ": ", " ", "  ", " :", "::",
	"id: x", "data: y", "event: z", "retry: 5", "id", "data", "data:", ": c", "id:7",
	"\xEF\xBB\xBF", "\xEF\xBB", "\x00", "é", "日本", "\xff", "\xc3", "\xe6\x97",
	"a", "b", "hello", "world", "x y", "0", "42", "\t", "",
	// bytes one bit away from a line break (VT / FF), right before one: a word-at-a-time search must not take them for it
	"\x0b\n", "\x0c\r", "pppa\x0c\r\nb", "\x0b", "abc\x0b\nrest of the line",
}

var msgPlain = []string{"a", "b", "hello", "world", "x y", "0", "42", "é", "日本", "some text", "{\"k\": 1}"}

// boundaryLen draws a length: small ones uniformly, and the neighbourhood of every power of two
// up to 4096 (fixed-size scratch buffers and chunked copies go wrong exactly there)
func boundaryLen(rng *rand.Rand) int {
	switch rng.Intn(10) {
	case 0, 1, 2, 3:
		return rng.Intn(200)
	case 4, 5, 6, 7:
		n := (1 << (3 + rng.Intn(10))) + rng.Intn(17) - 8
		if n < 0 {
			n = 0
		}
		return n
	}
	return rng.Intn(2000)
}

// longRun is one long line (sometimes broken once), the shape short pieces never produce
func longRun(rng *rand.Rand) string {
	n := boundaryLen(rng)
	s := strings.Repeat(pick(rng, "x", "x", "ab", "é"), n)
	if len(s) > n {
		s = s[:n]
	}
	if n > 0 && rng.Intn(4) == 0 {
		k := rng.Intn(n)
		s = s[:k] + pick(rng, "\n", "\r", "\r\n") + s[k:]
	}
	return s
}

func genPayload(rng *rand.Rand) string {
	if rng.Intn(25) == 0 {
		return longRun(rng)
	}
	switch rng.Intn(10) {
	case 0:
		return ""
	case 1, 2, 3:
		return pick(rng, msgPlain...)
	case 4:
		// multi-line text with one newline flavour
		nl := pick(rng, "\n", "\r", "\r\n")
		k := 1 + rng.Intn(4)
		var parts []string
		for i := 0; i < k; i++ {
			parts = append(parts, pick(rng, msgPlain...))
		}
		s := strings.Join(parts, nl)
		if rng.Intn(3) == 0 {
			s += nl
		}
		return s
	}
	var sb strings.Builder
	k := 1 + rng.Intn(6)
	for i := 0; i < k; i++ {
		sb.WriteString(msgPieces[rng.Intn(len(msgPieces))])
	}
	return sb.String()
}

// a value for ID / type: mostly single-line, sometimes hostile
func genFieldValue(rng *rand.Rand) string {
	if rng.Intn(20) == 0 {
		return strings.Repeat("v", boundaryLen(rng))
	}
	switch rng.Intn(8) {
	case 0:
		return ""
	case 1, 2, 3:
		return pick(rng, "message", "1", "42", "abc", "msg", "update", "a b", " lead", "trail ", "a:b", ":x", "é", "id: x", "data: y",
			// values that look escaped are taken as they are: nothing decodes them into line breaks
			"5%0Adata: injected%0D%0A%0Aid: 6", "a%0Ab", "%0D%0A", `a\nb`, "a&#10;b", "a+b%20c", "%")
	case 4:
		return pick(rng, "a\x00b", "\x00", "\xEF\xBB\xBFx", "\xff\xfe", "日本")
	case 5:
		return pick(rng, "a\nb", "a\r", "\rb", "a\r\nb", "\n", "a\ndata: injected", "x\n\nid: 9")
	}
	return genPayload(rng)
}

func genRetry(rng *rand.Rand) int64 {
	switch rng.Intn(14) {
	case 0:
		return -1 - rng.Int63n(5_000_000_000)
	case 1:
		return 0
	case 2:
		return 1 + rng.Int63n(999_999)
	case 3:
		return 999_999
	case 4:
		return 1_000_000
	case 5:
		return 1_000_001 + rng.Int63n(999_998)
	case 6:
		return 1_000_000 * (1 + rng.Int63n(100_000))
	case 7:
		return rng.Int63()
	case 8:
		return math.MaxInt64
	case 9:
		return math.MinInt64
	case 10:
		return math.MaxInt64 - rng.Int63n(2_000_000)
	case 11:
		// digit-count boundaries of the millisecond value
		p := int64(1)
		for i := rng.Intn(13); i > 0; i-- {
			p *= 10
		}
		return p*1_000_000 - int64(rng.Intn(2))
	case 12:
		return -1_000_000
	}
	return 1_000_000*(1+rng.Int63n(60_000)) + rng.Int63n(1_000_000)
}

func hxStrs(rng *rand.Rand, gen func(*rand.Rand) string, max int) string {
	k := 1 + rng.Intn(max)
	if rng.Intn(25) == 0 {
		k = 0
	}
	var l [][]byte
	for i := 0; i < k; i++ {
		l = append(l, []byte(gen(rng)))
	}
	return hxList(l)
}

func genBuildOp(rng *rand.Rand) string {
	switch rng.Intn(10) {
	case 0, 1, 2, 3:
		return "d:" + hxStrs(rng, genPayload, 3)
	case 4, 5:
		return "c:" + hxStrs(rng, genPayload, 2)
	case 6:
		return "i:" + hxs(genFieldValue(rng))
	case 7:
		return "t:" + hxs(genFieldValue(rng))
	default:
		return fmt.Sprintf("r:%d", genRetry(rng))
	}
}

func genMsgScript(rng *rand.Rand, maxOps int) string {
	k := rng.Intn(maxOps + 1)
	if k == 0 {
		return "-"
	}
	ops := make([]string, k)
	for i := range ops {
		ops[i] = genBuildOp(rng)
	}
	return strings.Join(ops, ";")
}

// lenSweep: every line length 0..max for each field kind, alone and followed by another line/message
// (deterministic; a fixed-size buffer boundary cannot fall between samples)
func lenSweep(max int, emit func(string)) {
	for l := 0; l <= max; l++ {
		x := hxs(strings.Repeat("x", l))
		emit(fmt.Sprintf("ENC d:%s,%s;c:%s,%s;i:%s;t:%s d:%s", x, hxs("tail"), x, hxs("tail"), x, x, hxs("next")))
		emit(fmt.Sprintf("ENC d:%s d:%s", x, hxs("next")))
		emit(fmt.Sprintf("ENC c:%s d:%s", x, hxs("next")))
	}
}

func genC02(rng *rand.Rand, n int, thorough bool, emit func(string)) {
	sweep := 150
	if thorough {
		sweep = 1100
	}
	if n >= 3*(sweep+1) {
		lenSweep(sweep, emit)
		n -= 3 * (sweep + 1)
	}
	for i := 0; i < n; i++ {
		k := 1 + rng.Intn(4)
		if rng.Intn(20) == 0 {
			k = 5 + rng.Intn(8)
		}
		ms := make([]string, k)
		for j := range ms {
			ms[j] = genMsgScript(rng, 6)
		}
		emit("ENC " + strings.Join(ms, " "))
	}
}

type countWriter struct{ calls int }

func (c *countWriter) Write(p []byte) (int, error) { c.calls++; return len(p), nil }

// hostile wire texts for Message.UnmarshalText
func genWireText(rng *rand.Rand) []byte {
	var sb strings.Builder
	if rng.Intn(10) == 0 {
		sb.WriteString("\xEF\xBB\xBF")
	}
	switch rng.Intn(3) {
	case 0:
		// a marshalled message, possibly damaged
		b, _ := buildMsg(genMsgScript(rng, 5)).MarshalText()
		s := string(b)
		if len(s) > 0 && rng.Intn(2) == 0 {
			switch rng.Intn(4) {
			case 0:
				s = s[:rng.Intn(len(s))]
			case 1:
				p := rng.Intn(len(s))
				s = s[:p] + msgPieces[rng.Intn(len(msgPieces))] + s[p:]
			case 2:
				s = strings.ReplaceAll(s, "\n", pick(rng, "\r", "\r\n"))
			case 3:
				s += s
			}
		}
		sb.WriteString(s)
	case 1:
		nf := rng.Intn(6)
		for i := 0; i < nf; i++ {
			name := pick(rng, "data", "data", "id", "event", "retry", "", "foo", "Data", "datax", "dat", " id")
			sep := pick(rng, ": ", ":", ":  ", "")
			var val string
			if name == "retry" {
				val = pick(rng, "0", "5", "1500", "+5", "-0", "-3", "", "1e3", "9223372036854775807", "9223372036854775808",
					"9223372036855", "9223372036854", "12 ", " 12", "１２", "0x10", "007", "\xff", "5é")
			} else {
				val = genFieldValue(rng)
			}
			sb.WriteString(name + sep + val + pick(rng, "\n", "\n", "\r", "\r\n", ""))
		}
		sb.WriteString(pick(rng, "\n", "\n", "", "\r\n", "\n\ndata: second\n\n"))
	default:
		k := rng.Intn(10)
		for i := 0; i < k; i++ {
			sb.WriteString(pick(rng, append(msgPieces, "data: ", "id: ", "event: ", "retry: ", "\n", "\n")...))
		}
	}
	return []byte(sb.String())
}

func genC15(rng *rand.Rand, n int, thorough bool, emit func(string)) {
	for emitted := 0; emitted < n; {
		script := genMsgScript(rng, 5)
		// a WT pick emits one case per Write call, so it is picked less often
		switch k := rng.Intn(20); {
		case k < 8:
			emit("RT " + script)
			emitted++
		case k < 14:
			txt := hx(genWireText(rng))
			emit("UT " + txt)
			emitted++
			if rng.Intn(2) == 0 {
				emit("GUT " + txt) // the same text through UnmarshalText as translated (Gen/Unmarshal.lean)
				emitted++
			}
		default:
			// a fault at every Write call of the encoding (and one past the end, and none)
			cw := &countWriter{}
			_, _ = buildMsg(script).WriteTo(cw)
			for k := 0; k <= cw.calls; k++ {
				j := rng.Intn(4)
				switch rng.Intn(4) {
				case 0:
					j = 0
				case 1:
					j = 1000
				}
				e := rng.Intn(2)
				emit(fmt.Sprintf("WT %s %d %d %d", script, k, j, e))
				emitted++
				if emitted%4 == 0 {
					emit(fmt.Sprintf("GWT %s %d %d %d", script, k, j, e)) // the same through the encoders as translated (Gen/Write.lean)
				}
			}
			emit(fmt.Sprintf("WT %s - 0 0", script))
			emitted++
			if emitted%3 == 0 {
				emit(fmt.Sprintf("GWT %s - 0 0", script))
			}
		}
	}
}

var jsonDocs = []string{
	`null`, ` null`, `null `, `"a"`, `""`, `"a\nb"`, `"a\rb"`, `"a\u000ab"`, `"a\u000db"`, `"a\r\nb"`, `"\n"`,
	`"a\\nb"`, `"a\ndata: injected"`, "\"a\nb\"", `123`, `true`, `{}`, `[]`, `["a"]`, `{"a":"b"}`, `"unterminated`, ``, ` `,
	`"é"`, `"é"`, `"😀"`, `"\ud83d"`, "\"\xff\"", `"a" "b"`, ` "sp" `, "\t\"tab\"\n", `nul`, `NULL`, `"id: x"`, `"a\u0000b"`,
	`" "`, `"line\u0085"`,
}

func jsonQuote(rng *rand.Rand, s string) string {
	var sb strings.Builder
	sb.WriteByte('"')
	for i := 0; i < len(s); i++ {
		c := s[i]
		switch {
		case c == '"' || c == '\\':
			sb.WriteByte('\\')
			sb.WriteByte(c)
		case c == '\n' && rng.Intn(2) == 0:
			sb.WriteString(`\n`)
		case c == '\r' && rng.Intn(2) == 0:
			sb.WriteString(`\r`)
		case c < 0x20:
			sb.WriteString(fmt.Sprintf(`\u%04x`, c))
		default:
			sb.WriteByte(c)
		}
	}
	sb.WriteByte('"')
	return sb.String()
}

func genC14(rng *rand.Rand, n int, thorough bool, emit func(string)) {
	for i := 0; i < n; i++ {
		if i%10000 == 500 {
			emit(fmt.Sprintf("CFLD %d", 40+rng.Intn(20))) // the constructors from several goroutines at once
		}
		sfx := pick(rng, "id", "id", "type")
		v := genFieldValue(rng)
		switch rng.Intn(12) {
		case 0:
			emit("FLD new" + sfx + " " + hxs(v))
		case 1:
			emit("FLD " + sfx + " " + hxs(v))
		case 2:
			emit("FLD utext-" + sfx + " " + hxs(v))
		case 3:
			doc := pick(rng, jsonDocs...)
			if rng.Intn(2) == 0 {
				doc = jsonQuote(rng, v)
			}
			emit("FLD json-" + sfx + " " + hxs(doc))
			if i%2 == 0 {
				emit("GFLD json-" + sfx + " " + hxs(doc))
			}
		case 4:
			doc := pick(rng, jsonDocs...)
			if rng.Intn(2) == 0 {
				doc = pick(rng, "", " ", "\n") + jsonQuote(rng, v) + pick(rng, "", " ", "\r\n")
			}
			emit("FLD jsonstd-" + sfx + " " + hxs(doc))
		case 5:
			emit("FLD scan-" + sfx + " bytes " + hxs(v))
			emit("GFLD scan-" + sfx + " bytes " + hxs(v))
		case 6:
			emit("FLD scan-" + sfx + " string " + hxs(v))
			emit("GFLD scan-" + sfx + " string " + hxs(v))
		case 7:
			emit("FLD scan-" + sfx + " " + pick(rng, "nil", "nil", "int", "float", "bool", "time") + " -")
		case 8, 9:
			k := rng.Intn(3)
			if rng.Intn(3) != 0 {
				k = 1
			}
			var vals [][]byte
			for j := 0; j < k; j++ {
				vals = append(vals, []byte(genFieldValue(rng)))
			}
			hl := "hdr " + pick(rng, "c", "c", "s", "s", "l") + " " + hxList(vals)
			emit("FLD " + hl)
			emit("GFLD " + hl) // sse.Upgrade as translated (Gen/Upgrade.lean)
		default:
			emit("UT " + hx(genWireText(rng)))
		}
	}
}

func genC19(rng *rand.Rand, n int, thorough bool, emit func(string)) {
	for i := 0; i < n; i++ {
		if i%1500 == 700 {
			emit(fmt.Sprintf("CENC %d", rng.Int63n(1_000_000))) // clones encoded from several goroutines at once
		}
		nops := 2 + rng.Intn(14)
		members := 1
		var ops []string
		for len(ops) < nops {
			m := rng.Intn(members)
			if rng.Intn(30) == 0 {
				m = members + rng.Intn(2) // a member that does not exist: the op must do nothing
			}
			short := func(*rand.Rand) string {
				if rng.Intn(4) == 0 {
					return genPayload(rng)
				}
				return pick(rng, "a", "b", "c", "d", "e", "x\ny", "p\r\nq\rr")
			}
			switch rng.Intn(15) {
			case 14:
				wire := pick(rng, "data: new\n\n", "id: 9\ndata: a\ndata: b\n\n", ": c\nevent: t\n\n", "retry: 7\n\n", "data: x", "\n", "data: 1\ndata: 2\ndata: 3\ndata: 4\n\n")
				ops = append(ops, fmt.Sprintf("U%d:%s", m, hxs(wire)))
			case 0, 1, 2, 3, 4:
				ops = append(ops, fmt.Sprintf("D%d:%s", m, hxStrs(rng, short, 3)))
			case 5:
				ops = append(ops, fmt.Sprintf("C%d:%s", m, hxStrs(rng, short, 2)))
			case 6, 7, 8:
				ops = append(ops, fmt.Sprintf("K%d", m))
				if m < members {
					members++
				}
			case 9:
				ops = append(ops, fmt.Sprintf("I%d:%s", m, hxs(pick(rng, "7", "id", "", "a\nb", "x"))))
			case 10:
				ops = append(ops, fmt.Sprintf("T%d:%s", m, hxs(pick(rng, "t", "upd", "", "a\rb"))))
			case 11:
				ops = append(ops, fmt.Sprintf("R%d:%d", m, genRetry(rng)))
			default:
				// Put: the same message again and again, through both replayers and both ID modes
				rep := rng.Intn(4)
				k := 1 + rng.Intn(3)
				for j := 0; j < k; j++ {
					ops = append(ops, fmt.Sprintf("P%d:%d", m, rep))
					// automatic IDs add the stored copy to the family (when the message has no ID);
					// an over-estimate of `members` only produces some no-op references
					if rep%2 == 0 && m < members {
						members++
					}
				}
			}
		}
		emit("FAM " + strings.Join(ops, ";"))
	}
}

var _ = sse.Message{}

func init() {
	generators["C02"] = genC02
	generators["C14"] = genC14
	generators["C15"] = genC15
	generators["C19"] = genC19
}
