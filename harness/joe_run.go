package main

// Scenario runner for Joe (C03, C04, C06, C07, C17): runs a randomly drawn scenario against the
// real provider with schedule perturbation at every hook point, records the trace of hook and
// MessageWriter/Replayer events under one global lock, and prints
//
//	<hard facts> ## <scenario> ## <trace>
//
// The Lean driver checks that the trace is a run of the proved transition system and evaluates
// the property predicates on it.

import (
	"context"
	"errors"
	"fmt"
	"io"
	"math/rand"
	"reflect"
	"runtime"
	"strconv"
	"strings"
	"sync"
	"sync/atomic"
	"time"

	sse "github.com/tmaxmax/go-sse"
)

type joeTrace struct {
	mu     sync.Mutex
	ev     []string
	rng    *rand.Rand // perturbation only; guarded by mu
	jitter int        // 0..100 probability of yielding at a hook

	doneToSub map[uintptr]int
	gotDone   map[int]error // what Subscribe received from Joe (hooks sub.gotDone / sub.gotDone2), per subscriber
	ctxToShut map[any]int
	msgToPub  map[*sse.Message]int

	replaying  int // sub index currently being replayed to, -1 if none
	rc         []string
	rOutcome   string
	putOutcome string
	failedSub  int   // sub whose error was just placed (next loop.removed is its removal)
	lastNow    int64 // what the injected clock returned to the replayer's last Now() call
	panicked   bool  // the replayer call Joe is in panicked (per the fault plan)
	pendSub    int   // sub with a successful live Send whose Flush has not been seen yet, -1 if none
	pendPub    string
	facts      []string
	panicSeen  bool
}

func (t *joeTrace) add(e string) { t.ev = append(t.ev, e) }

func (t *joeTrace) fact(f string) {
	for _, x := range t.facts {
		if x == f {
			return
		}
	}
	t.facts = append(t.facts, f)
}

// a successful Send must be followed by the same subscriber's Flush before the loop does anything else
func (t *joeTrace) flushPending() {
	if t.pendSub >= 0 {
		t.fact(fmt.Sprintf("SEND-WITHOUT-FLUSH(sub%d)", t.pendSub))
		t.add(fmt.Sprintf("fs%d:%s:1?", t.pendSub, t.pendPub))
		t.pendSub = -1
	}
}

func (t *joeTrace) perturb() {
	t.mu.Lock()
	r := t.rng.Intn(100)
	j := t.jitter
	k := t.rng.Intn(3)
	t.mu.Unlock()
	if r < j {
		if k == 0 {
			time.Sleep(time.Duration(1+r%20) * time.Microsecond)
		} else {
			runtime.Gosched()
		}
	}
}

var errOwn = errors.New("verif: subscriber write error")
var errShutdownCause = errors.New("verif: the grace period is over")
var errReplay = errors.New("verif: replay error")
var errPut = errors.New("verif: put error")

type joeWriter struct {
	t        *joeTrace
	idx      int
	calls    int
	failAt   int // the k-th call (1-based, Send or Flush) fails; 0 = never
	cancel   context.CancelFunc
	cancelOn int // cancel the context right after the k-th call (1-based); 0 = never
	failCanc bool
	returned bool // guarded by t.mu
	called   bool // Subscribe was called (guarded by t.mu)
}

func (w *joeWriter) call(kind string, m *sse.Message) error {
	w.t.perturb()
	w.t.mu.Lock()
	w.calls++
	fail := w.failAt != 0 && w.calls == w.failAt
	ok := "1"
	if fail {
		ok = "0"
	}
	if w.returned {
		w.t.fact(fmt.Sprintf("CALL-AFTER-RETURN(sub%d)", w.idx))
	}
	var e string
	if kind == "s" {
		p, known := w.t.msgToPub[m]
		ps := fmt.Sprint(p)
		if !known {
			ps = "?"
		}
		e = fmt.Sprintf("ws%d:%s:%s", w.idx, ps, ok)
	} else {
		e = fmt.Sprintf("wf%d:%s", w.idx, ok)
	}
	if w.t.replaying == w.idx {
		w.t.rc = append(w.t.rc, e)
	} else {
		// live fan-out: group Send(+Flush) into one fan-out step "fs<i>:<p>:<sendOk><flushOk>"
		if kind == "f" && w.t.pendSub == w.idx {
			w.t.add(fmt.Sprintf("fs%d:%s:1%s", w.idx, w.t.pendPub, ok))
			w.t.pendSub = -1
		} else if w.t.flushPending(); kind == "s" {
			if fail {
				w.t.add(fmt.Sprintf("fs%d:%s:00", w.idx, strings.Split(e, ":")[1]))
			} else {
				w.t.pendSub, w.t.pendPub = w.idx, strings.Split(e, ":")[1]
			}
		} else {
			w.t.fact(fmt.Sprintf("STRAY-FLUSH(sub%d)", w.idx))
		}
	}
	docancel := (w.cancelOn != 0 && w.calls == w.cancelOn) || (fail && w.failCanc)
	if docancel {
		w.t.add(fmt.Sprintf("cx%d", w.idx))
	}
	w.t.mu.Unlock()
	if docancel {
		w.cancel()
	}
	if fail {
		// a subscriber's own error may well be, or wrap, a context error (a write deadline of its own, a cancelled
		// upstream) while the context given to Subscribe is live: it is that subscriber's error all the same
		switch (w.idx + w.failAt) % 3 {
		case 0:
			return ownCtxErr{context.Canceled, w.idx}
		case 1:
			return ownCtxErr{context.DeadlineExceeded, w.idx}
		}
		return ownCtxErr{nil, w.idx}
	}
	return nil
}

// ownCtxErr: the error of subscriber `who`'s writer (every subscriber's is a value of its own: handing one subscriber the
// error of another is told apart from handing it its own)
type ownCtxErr struct {
	inner error
	who   int
}

func (e ownCtxErr) Error() string {
	if e.inner == nil {
		return fmt.Sprintf("%s (subscriber %d)", errOwn.Error(), e.who)
	}
	return fmt.Sprintf("%s (subscriber %d): %s", errOwn.Error(), e.who, e.inner.Error())
}
func (e ownCtxErr) Unwrap() []error {
	if e.inner == nil {
		return []error{errOwn}
	}
	return []error{errOwn, e.inner}
}

// Send does what the library's own Session does with the message: it writes it out
func (w *joeWriter) Send(m *sse.Message) error {
	err := w.call("s", m)
	_, _ = m.WriteTo(io.Discard)
	return err
}
func (w *joeWriter) Flush() error { return w.call("f", nil) }

// joeReplayer wraps an optional real replayer, records what it returns, and injects faults.
type joeReplayer struct {
	t      *joeTrace
	inner  sse.Replayer
	calls  int
	faults map[int]string // the k-th call (Put or Replay) misbehaves: "err" or "panic"
	dead   bool
}

func (r *joeReplayer) pre(kind string) string {
	r.t.mu.Lock()
	defer r.t.mu.Unlock()
	if r.dead {
		r.t.fact("REPLAYER-USED-AFTER-PANIC")
	}
	r.calls++
	f := r.faults[r.calls]
	if f == "panic" || f == "epanic" || f == "rpanic" {
		r.dead = true
		r.t.panicked = true
	}
	return f
}

func (r *joeReplayer) Put(m *sse.Message, topics []string) (*sse.Message, error) {
	switch r.pre("put") {
	case "err":
		if r.calls%2 == 0 {
			return m, errPut // a replayer may hand back the message along with its error: the error counts all the same
		}
		return nil, errPut
	case "panic":
		panic("verif: replayer panic in Put")
	case "epanic": // the panic value is an error
		panic(errPut)
	case "rpanic": // a run-time error: the panic value is a runtime.Error
		var nilMap map[string]int
		nilMap["x"] = 1
	}
	if r.inner == nil {
		return m, nil
	}
	m2, err := r.inner.Put(m, topics)
	if err == nil && m2 != m {
		r.t.mu.Lock()
		if p, ok := r.t.msgToPub[m]; ok {
			r.t.msgToPub[m2] = p
		}
		r.t.mu.Unlock()
	}
	return m2, err
}

func (r *joeReplayer) Replay(sub sse.Subscription) error {
	switch r.pre("replay") {
	case "err":
		return errReplay
	case "panic":
		panic("verif: replayer panic in Replay")
	case "epanic":
		panic(errReplay)
	case "rpanic":
		var s []int
		_ = s[len(s)-1+r.calls-r.calls]
	}
	if r.inner == nil {
		return nil
	}
	return r.inner.Replay(sub)
}

type joeSub struct {
	topics  []int
	last    string // "-" unset, "n<k>" = id of publication k, "x" never issued
	failAt  int
	cancel  string // "-", "start", "c<k>" after k-th writer call, "fail" together with the failure, "p<k>" after publication k returned, "t<us>" after a delay
	startAt string // "0" immediately, "p<k>" after publication k returned
}

type joePub struct {
	topics []int
	group  int
	badID  bool // violates the replayer's ID mode (has an ID with automatic IDs / lacks one with manual IDs): Put rejects it
	tick   int  // advance the injected clock by this many units before publishing (ValidReplayer only)
}

type joeScenario struct {
	rep      string // none | rec | finite:N | valid:<ttl units> | faulty:<k>:<err|panic>
	auto     bool
	subs     []joeSub
	pubs     []joePub
	shuts    []string // trigger: "p<k>" after publication k returned, "end", "t<us>"; suffix "!" = context already cancelled / cancelled soon
	jitter   int
	gomaxprx int
	cold     bool // every goroutine makes its first call on the never-used Joe at the same instant (spin barrier)
}

func topicStr(t int) string {
	switch t {
	case 0:
		return sse.DefaultTopic
	case 3:
		return "t1,t2" // one topic whose name looks like a list of two
	}
	return fmt.Sprintf("t%d", t)
}
func topicsOf(ts []int) []string {
	out := make([]string, len(ts))
	for i, t := range ts {
		out[i] = topicStr(t)
	}
	return out
}
func intsStr(ts []int) string {
	if len(ts) == 0 {
		return "-"
	}
	s := make([]string, len(ts))
	for i, t := range ts {
		s[i] = fmt.Sprint(t)
	}
	return strings.Join(s, ".")
}

func drawScenario(rng *rand.Rand, big bool) joeScenario {
	var sc joeScenario
	if rng.Intn(50) == 0 {
		// a crowd: 64 to 110 subscribers of one topic, most of whose writers fail at their first call (every connection
		// dropping at once), one or two publications, then Shutdown
		sc.rep = "none"
		n := 64 + rng.Intn(47)
		if n%4 == 3 {
			// … or a house of many rooms: 67 to 107 subscribers, each on a topic of its own, publications to the rooms around
			// the 64th and to the first and the last one (whoever matches topics by position, bit or hash has its limits there)
			for i := 0; i < n; i++ {
				sc.subs = append(sc.subs, joeSub{topics: []int{i}, last: "-", cancel: "-", startAt: "0"})
			}
			for _, t := range []int{63, 64, 65, 0, n - 1} {
				sc.pubs = append(sc.pubs, joePub{topics: []int{t}})
			}
			sc.pubs = append(sc.pubs, joePub{topics: []int{62, 64, n - 2}})
			sc.shuts = []string{"end"}
			return sc
		}
		if n%4 == 1 {
			// … or a replay that fails followed by replays that have nothing to send: two events on different topics are
			// stored; a resumer of both topics whose writer fails at its first call (in the middle of its replay), then
			// resumers of the first topic only, from the first event's ID — nothing newer is theirs, nothing is sent to them,
			// and what happened to the first resumer is nothing to them: they are registered and end with the provider, without an error
			sc.rep = pick(rng, "finite:4", "finite:6", "valid:5")
			sc.auto = rng.Intn(2) == 0
			sc.pubs = []joePub{{topics: []int{0}}, {topics: []int{1}}}
			sc.subs = []joeSub{
				{topics: []int{0, 1}, last: "-", cancel: "-", startAt: "0"},
				{topics: []int{0, 1}, last: "n0", failAt: 1, cancel: "-", startAt: "p1"},
				{topics: []int{0}, last: "n0", cancel: "-", startAt: "p1"},
				{topics: []int{0}, last: "n0", cancel: "-", startAt: "p1"},
			}
			sc.shuts = []string{"end"}
			return sc
		}
		for i := 0; i < n; i++ {
			s := joeSub{topics: []int{0}, last: "-", cancel: "-", startAt: "0"}
			if rng.Intn(10) != 0 {
				s.failAt = 1 + rng.Intn(2)
				if rng.Intn(2) == 0 {
					s.cancel = "fail"
				}
			}
			sc.subs = append(sc.subs, s)
		}
		for p, np := 0, 1+rng.Intn(2); p < np; p++ {
			sc.pubs = append(sc.pubs, joePub{topics: []int{0}})
		}
		sc.shuts = []string{"end"}
		return sc
	}
	switch rng.Intn(10) {
	case 0, 1:
		sc.rep = "none"
	case 2, 3:
		sc.rep = "rec"
	case 4, 5:
		sc.rep = fmt.Sprintf("finite:%d", 2+rng.Intn(5))
		sc.auto = rng.Intn(2) == 0
	case 6, 7:
		sc.rep = fmt.Sprintf("valid:%d", 2+rng.Intn(5))
		sc.auto = rng.Intn(2) == 0
	default:
		// one to three faults at increasing call numbers: errors may repeat, a panic ends the replayer's use
		sc.rep = "faulty"
		at := 0
		for k, nf := 0, pick(rng, 1, 1, 2, 3); k < nf; k++ {
			at += 1 + rng.Intn(5)
			kind := pick(rng, "err", "err", "panic", "panic", "epanic", "rpanic")
			sc.rep += fmt.Sprintf(":%d:%s", at, kind)
			if kind != "err" {
				break
			}
		}
	}
	nt := 1 + rng.Intn(4)
	drawTopics := func(allowEmpty bool) []int {
		var ts []int
		for t := 0; t < nt; t++ {
			if rng.Intn(2) == 0 {
				ts = append(ts, t)
			}
		}
		if len(ts) == 0 && !(allowEmpty && rng.Intn(4) == 0) {
			ts = []int{rng.Intn(nt)}
		}
		if rng.Intn(8) == 0 && len(ts) > 0 {
			ts = append(ts, ts[0]) // duplicate topic
		}
		return ts
	}
	np := rng.Intn(7)
	ns := 1 + rng.Intn(5)
	if big {
		np += rng.Intn(8)
		ns += rng.Intn(4)
	}
	// one scenario in six with a Finite/Valid replayer: more publications than the ring holds when it is first filled,
	// and a late subscriber that resumes from an old ID with a writer failing once in mid-replay (below)
	if nt == 4 && (np+ns)%3 == 0 {
		nt = 5 + (np+ns)%4 // five to eight topics: subscribers of more than four, events on several of them
	}
	lateResumer := (strings.HasPrefix(sc.rep, "finite") || strings.HasPrefix(sc.rep, "valid")) && rng.Intn(6) == 0
	if lateResumer {
		np = 4 + rng.Intn(6)
	}
	groups := 1 + rng.Intn(3)
	if lateResumer {
		groups = 1 // one publisher: the publications are stored in program order, so the late subscriber's ID is a known one
	}
	for p := 0; p < np; p++ {
		pb := joePub{topics: drawTopics(rng.Intn(10) == 0), group: rng.Intn(groups)}
		if (strings.HasPrefix(sc.rep, "finite") || strings.HasPrefix(sc.rep, "valid")) && rng.Intn(7) == 0 {
			pb.badID = true
		}
		if strings.HasPrefix(sc.rep, "valid") {
			pb.tick = pick(rng, 0, 0, 1, 1, 1, 2)
		}
		if lateResumer {
			pb.badID, pb.tick = false, 0
			if len(pb.topics) == 0 {
				pb.topics = []int{0}
			}
		}
		sc.pubs = append(sc.pubs, pb)
	}
	for i := 0; i < ns; i++ {
		s := joeSub{topics: drawTopics(rng.Intn(3) == 0), last: "-", cancel: "-", startAt: "0"} // (a subscription to no topic at all is one too: it receives nothing and is released like any other)
		if np > 0 && rng.Intn(3) == 0 {
			s.startAt = fmt.Sprintf("p%d", rng.Intn(np))
			if rng.Intn(3) != 0 {
				k := rng.Intn(np)
				s.last = fmt.Sprintf("n%d", k)
			}
		}
		if rng.Intn(12) == 0 {
			// never issued: unparsable, 2^64-1, 2^63, or a number past everything this scenario publishes
			s.last = pick(rng, "x", "x", "h", "g", fmt.Sprintf("n%d", np+rng.Intn(3)))
		}
		if rng.Intn(3) == 0 {
			s.failAt = 1 + rng.Intn(6)
		}
		switch rng.Intn(8) {
		case 0:
			s.cancel = "start"
		case 1:
			s.cancel = fmt.Sprintf("c%d", 1+rng.Intn(5))
		case 2:
			if s.failAt != 0 {
				s.cancel = "fail"
			}
		case 3:
			if np > 0 {
				s.cancel = fmt.Sprintf("p%d", rng.Intn(np))
			}
		case 4:
			s.cancel = fmt.Sprintf("t%d", rng.Intn(300))
		}
		if s.failAt != 0 && rng.Intn(2) == 0 {
			s.cancel = "fail" // what net/http does on every write error
		}
		sc.subs = append(sc.subs, s)
	}
	if lateResumer {
		all := make([]int, nt)
		for t := range all {
			all[t] = t
		}
		// the ID presented: one of the oldest still held (the replay then runs across the ring's wrap point)
		held := np
		if f := strings.Split(sc.rep, ":"); len(f) == 2 && f[0] == "finite" {
			if n, err := strconv.Atoi(f[1]); err == nil && n < np {
				held = n
			}
		}
		sc.subs = append(sc.subs, joeSub{topics: all, last: fmt.Sprintf("n%d", np-held+rng.Intn(2)), failAt: 1 + rng.Intn(2),
			cancel: pick(rng, "-", "-", "fail"), startAt: fmt.Sprintf("p%d", np-1)})
	}
	nsh := rng.Intn(3)
	for k := 0; k < nsh; k++ {
		tr := "end"
		if np > 0 && rng.Intn(2) == 0 {
			tr = fmt.Sprintf("p%d", rng.Intn(np))
		} else if rng.Intn(3) == 0 {
			tr = fmt.Sprintf("t%d", rng.Intn(300))
		}
		if rng.Intn(6) == 0 {
			tr += "!"
		}
		sc.shuts = append(sc.shuts, tr)
	}
	sc.jitter = pick(rng, 0, 10, 30, 60, 90)
	// a burst of Shutdown calls released together from a spin barrier (trigger "b…"): the only way to get
	// several callers inside Shutdown's first few instructions at once
	if rng.Intn(6) == 0 {
		tr := "bend"
		if np > 0 && rng.Intn(2) == 0 {
			tr = fmt.Sprintf("bp%d", rng.Intn(np))
		}
		for k, nb := 0, 2+rng.Intn(7); k < nb; k++ {
			sc.shuts = append(sc.shuts, tr)
		}
	}
	sc.cold = rng.Intn(6) == 0
	return sc
}

func (sc joeScenario) String() string {
	var subs, pubs []string
	for _, s := range sc.subs {
		subs = append(subs, fmt.Sprintf("%s/%s/%d/%s/%s", intsStr(s.topics), s.last, s.failAt, s.cancel, s.startAt))
	}
	for _, p := range sc.pubs {
		pubs = append(pubs, fmt.Sprintf("%s/%d/%s/%d", intsStr(p.topics), p.group, b01(p.badID), p.tick))
	}
	j := func(x []string) string {
		if len(x) == 0 {
			return "-"
		}
		return strings.Join(x, "|")
	}
	return fmt.Sprintf("rep=%s;auto=%s;subs=%s;pubs=%s;shuts=%s;jitter=%d;cold=%s", sc.rep, b01(sc.auto), j(subs), j(pubs), j(sc.shuts), sc.jitter, b01(sc.cold))
}

// subErrName: what subscriber i's Subscribe returned — its own writer's error is "own", another subscriber's is named
func subErrName(err error, i int) string {
	var oe ownCtxErr
	if errors.As(err, &oe) && oe.who != i {
		return fmt.Sprintf("foreign%d", oe.who)
	}
	return errName(err, 0)
}

func errName(err error, k int) string {
	switch {
	case err == nil:
		return "nil"
	case errors.Is(err, errOwn):
		return "own"
	case errors.Is(err, errReplay):
		return "replay"
	case errors.Is(err, errPut):
		return "put"
	case errors.Is(err, sse.ErrProviderClosed):
		return "closed"
	case errors.Is(err, sse.ErrNoTopic):
		return "notopic"
	case errors.Is(err, context.Canceled), errors.Is(err, context.DeadlineExceeded):
		return "ctx"
	}
	return "other(" + strings.ReplaceAll(err.Error(), " ", "_") + ")"
}

// chanKey identifies a channel independently of its static type (chan error vs chan<- error)
func chanKey(c any) uintptr { return reflect.ValueOf(c).Pointer() }

const joeClockUnit = 1000 * time.Nanosecond

// how long a scenario may take to play out / to wind down after Shutdown before it is called blocked:
// generous, so that a loaded machine does not produce false alarms; only a failing scenario waits that long
const joePatience = 20 * time.Second

var joeMu sync.Mutex // sse.VerifHook is a package global: one scenario at a time

// JOE <seed> <big 0/1>
func runJoe(args []string) string {
	if len(args) < 2 {
		return "bad-args"
	}
	joeMu.Lock()
	defer joeMu.Unlock()
	seed := int64(atoi(args[0]))
	rng := rand.New(rand.NewSource(seed))
	sc := drawScenario(rng, args[1] == "1")
	t := &joeTrace{rng: rand.New(rand.NewSource(seed + 1)), jitter: sc.jitter, doneToSub: map[uintptr]int{}, ctxToShut: map[any]int{},
		msgToPub: map[*sse.Message]int{}, replaying: -1, failedSub: -1, pendSub: -1}

	baseG := runtime.NumGoroutine()
	var clock atomic.Int64

	// replayer
	var rep *joeReplayer
	parts := strings.Split(sc.rep, ":")
	switch parts[0] {
	case "rec":
		rep = &joeReplayer{t: t}
	case "finite":
		inner, _ := sse.NewFiniteReplayer(atoi(parts[1]), sc.auto)
		rep = &joeReplayer{t: t, inner: inner}
	case "valid":
		inner, _ := sse.NewValidReplayer(time.Duration(atoi(parts[1]))*joeClockUnit, sc.auto)
		base := time.Unix(1_000_000, 0)
		inner.Now = func() time.Time {
			// called by Put, Replay and GC from Joe's goroutine: remember what this call saw
			now := clock.Load()
			t.mu.Lock()
			t.lastNow = now
			t.mu.Unlock()
			return base.Add(time.Duration(now))
		}
		rep = &joeReplayer{t: t, inner: inner}
	case "faulty":
		// faulty:<k>:<err|panic>[:<k>:<err|panic>…]
		rep = &joeReplayer{t: t, faults: map[int]string{}}
		for i := 1; i+1 < len(parts); i += 2 {
			rep.faults[atoi(parts[i])] = parts[i+1]
		}
	}
	joe := &sse.Joe{}
	if rep != nil {
		joe.Replayer = rep
	}

	// messages
	msgs := make([]*sse.Message, len(sc.pubs))
	for p := range sc.pubs {
		m := &sse.Message{}
		m.AppendData(fmt.Sprintf("m%d", p))
		autoIDs := (parts[0] == "finite" || parts[0] == "valid") && sc.auto
		if autoIDs == sc.pubs[p].badID {
			m.ID = sse.ID(fmt.Sprintf("id%d", p))
		}
		msgs[p] = m
		t.msgToPub[m] = p
	}
	// Publish must leave the caller's message as it was (C19), whatever the replayer said
	before := make([]string, len(msgs))
	for p, m := range msgs {
		before[p] = m.String() + "|" + m.ID.String() + "|" + fmt.Sprint(m.ID.IsSet())
	}

	sse.VerifHook = func(point string, a, b any) {
		switch point {
		case "shut.enter":
			return // nothing to record, and no lock taken: burst callers stay together
		case "init.step":
			// cold start: whoever initialises the Joe lingers between the steps, so that the other first calls
			// arrive while the initialisation is half done (nothing recorded, no lock taken)
			if sc.cold {
				time.Sleep(100 * time.Microsecond)
			}
			return
		case "sub.enter":
			t.mu.Lock()
			t.doneToSub[chanKey(b)] = a.(*joeWriter).idx
			t.mu.Unlock()
		case "sub.closedSeen", "sub.gotDone", "sub.gotDone2", "sub.ctxSeen":
			t.mu.Lock()
			i := t.doneToSub[chanKey(a)]
			switch point {
			case "sub.closedSeen":
				t.add(fmt.Sprintf("se%d", i))
			case "sub.ctxSeen":
				t.add(fmt.Sprintf("sk%d", i))
			default:
				t.add(fmt.Sprintf("sr%d", i))
				if t.gotDone == nil {
					t.gotDone = map[int]error{}
				}
				e, _ := b.(error)
				t.gotDone[i] = e
			}
			t.mu.Unlock()
		case "loop.sub":
			t.mu.Lock()
			t.replaying = a.(*joeWriter).idx
			t.rc = nil
			t.rOutcome = "ok"
			t.mu.Unlock()
		case "loop.replay":
			t.mu.Lock()
			// what the replayer did is known from the fault plan, not from how Joe classified it
			if t.panicked {
				t.rOutcome = "panic"
				t.panicked = false
			} else if b != nil {
				t.rOutcome = "err"
			}
			t.mu.Unlock()
		case "loop.registered", "loop.rejected":
			t.mu.Lock()
			if point == "loop.rejected" && t.rOutcome != "err" {
				t.fact(fmt.Sprintf("REJECTED-WITHOUT-REPLAY-ERROR(sub%d,%s)", t.replaying, t.rOutcome))
			}
			if point == "loop.registered" && t.rOutcome == "err" {
				t.fact(fmt.Sprintf("REGISTERED-DESPITE-REPLAY-ERROR(sub%d)", t.replaying))
			}
			rc := "-"
			if len(t.rc) > 0 {
				rc = strings.Join(t.rc, ".")
			}
			t.add(fmt.Sprintf("sa%d:%s:%s@%d", t.replaying, rc, t.rOutcome, t.lastNow))
			t.replaying = -1
			t.mu.Unlock()
		case "loop.msg":
			t.mu.Lock()
			t.putOutcome = "ok"
			t.mu.Unlock()
		case "loop.put":
			t.mu.Lock()
			if t.panicked {
				t.putOutcome = "panic"
				t.panicked = false
			} else if b != nil {
				t.putOutcome = "err"
			}
			t.mu.Unlock()
		case "loop.errsClosed":
			t.mu.Lock()
			p, ok := t.msgToPub[a.(*sse.Message)]
			if !ok {
				t.fact("UNKNOWN-MESSAGE-IN-LOOP")
			}
			t.add(fmt.Sprintf("pa%d:%s@%d", p, t.putOutcome, t.lastNow))
			t.mu.Unlock()
		case "loop.errPlaced":
			t.mu.Lock()
			t.failedSub = t.doneToSub[chanKey(a)]
			t.mu.Unlock()
		case "loop.removed":
			t.mu.Lock()
			if t.failedSub >= 0 && t.doneToSub[chanKey(a)] == t.failedSub {
				t.add("fr")
				t.failedSub = -1
			}
			t.mu.Unlock()
		case "loop.fanoutDone":
			t.mu.Lock()
			t.flushPending()
			t.add("fd")
			t.mu.Unlock()
		case "loop.unsub":
			t.mu.Lock()
			t.add(fmt.Sprintf("ua%d", t.doneToSub[chanKey(a)]))
			t.mu.Unlock()
		case "loop.allClosed":
			t.mu.Lock()
			t.add("lx")
			t.mu.Unlock()
		case "pub.closedSeen":
			t.mu.Lock()
			t.add(fmt.Sprintf("pe%d", t.msgToPub[a.(*sse.Message)]))
			t.mu.Unlock()
		case "shut.closedDone", "shut.recovered", "shut.sawClosed", "shut.ctxSeen":
			t.mu.Lock()
			k := t.ctxToShut[a]
			t.add(map[string]string{"shut.closedDone": "hC", "shut.recovered": "hr", "shut.sawClosed": "hs", "shut.ctxSeen": "hx"}[point] + fmt.Sprint(k))
			t.mu.Unlock()
		}
		t.perturb()
	}
	defer func() { sse.VerifHook = nil }()

	var wg sync.WaitGroup
	pubDone := make([]chan struct{}, len(sc.pubs))
	for p := range pubDone {
		pubDone[p] = make(chan struct{})
	}
	allPubs := make(chan struct{})
	// cold start: the first calls on the never-used Joe (its lazy initialisation) all at once
	var gate atomic.Int32
	var gateSize int32
	{
		gs := map[int]bool{}
		for _, pb := range sc.pubs {
			gs[pb.group] = true
		}
		gateSize = int32(len(sc.subs) + len(gs) + len(sc.shuts))
	}
	enterGate := func() {
		if sc.cold {
			gate.Add(1)
			for gate.Load() < gateSize {
			}
		}
	}
	waitTrigger := func(tr string) {
		tr = strings.TrimPrefix(strings.TrimSuffix(tr, "!"), "b")
		switch {
		case tr == "0" || tr == "start" || tr == "-":
		case tr == "end":
			<-allPubs
		case tr[0] == 'p':
			<-pubDone[atoi(tr[1:])]
		case tr[0] == 't':
			time.Sleep(time.Duration(atoi(tr[1:])) * time.Microsecond)
		}
	}

	// subscribers
	writers := make([]*joeWriter, len(sc.subs))
	for i, s := range sc.subs {
		ctx, cancel := context.WithCancel(context.Background())
		w := &joeWriter{t: t, idx: i, failAt: s.failAt, cancel: cancel}
		writers[i] = w
		switch {
		case s.cancel == "fail":
			w.failCanc = true
		case s.cancel[0] == 'c':
			w.cancelOn = atoi(s.cancel[1:])
		}
		var last sse.EventID
		switch {
		case s.last == "x":
			last = sse.ID("never-issued")
		case s.last == "h":
			last = sse.ID("18446744073709551615")
		case s.last == "g":
			last = sse.ID("9223372036854775808")
		case s.last[0] == 'n':
			k := atoi(s.last[1:])
			if (parts[0] == "finite" || parts[0] == "valid") && sc.auto {
				last = sse.ID(fmt.Sprint(k)) // automatic IDs count accepted Puts; equals k only if all earlier puts were accepted in index order
			} else {
				last = sse.ID(fmt.Sprintf("id%d", k))
			}
		}
		sub := sse.Subscription{Client: w, LastEventID: last, Topics: topicsOf(s.topics)}
		wg.Add(1)
		go func(i int, s joeSub) {
			defer wg.Done()
			enterGate()
			waitTrigger(s.startAt)
			if s.cancel == "start" {
				t.mu.Lock()
				t.add(fmt.Sprintf("cx%d", i))
				t.mu.Unlock()
				cancel()
			} else if s.cancel[0] == 'p' || s.cancel[0] == 't' {
				go func() {
					waitTrigger(s.cancel)
					t.mu.Lock()
					t.add(fmt.Sprintf("cx%d", i))
					t.mu.Unlock()
					cancel()
				}()
			}
			t.mu.Lock()
			t.add(fmt.Sprintf("sc%d", i))
			w.called = true
			t.mu.Unlock()
			err := joe.Subscribe(ctx, sub)
			t.mu.Lock()
			w.returned = true
			t.add(fmt.Sprintf("sR%d:%s", i, subErrName(err, i)))
			if strings.HasPrefix(subErrName(err, i), "foreign") {
				t.fact(fmt.Sprintf("SUBSCRIBE-RETURNED-ANOTHERS-ERROR(sub%d;%s)", i, subErrName(err, i)))
			}
			if e, ok := t.gotDone[i]; ok && errName(e, 0) != errName(err, 0) {
				// no race to excuse it: Subscribe itself took Joe's verdict off the channel and returned something else
				t.fact(fmt.Sprintf("SUBSCRIBE-DROPPED-JOES-VERDICT(sub%d;%s;%s)", i, errName(e, 0), errName(err, 0)))
			}
			t.mu.Unlock()
		}(i, s)
	}

	// publishers: one goroutine per group, program order inside a group
	groups := map[int][]int{}
	for p, pb := range sc.pubs {
		groups[pb.group] = append(groups[pb.group], p)
	}
	var pwg sync.WaitGroup
	for _, ps := range groups {
		pwg.Add(1)
		wg.Add(1)
		go func(ps []int) {
			defer wg.Done()
			defer pwg.Done()
			enterGate()
			for _, p := range ps {
				t.perturb()
				clock.Add(int64(sc.pubs[p].tick) * int64(joeClockUnit))
				t.mu.Lock()
				t.add(fmt.Sprintf("pc%d", p))
				t.mu.Unlock()
				err := joe.Publish(msgs[p], topicsOf(sc.pubs[p].topics))
				en := errName(err, 0)
				if strings.HasPrefix(en, "other(") {
					en = "put" // the real replayers' own rejection errors
				}
				t.mu.Lock()
				t.add(fmt.Sprintf("pR%d:%s", p, en))
				t.mu.Unlock()
				close(pubDone[p])
			}
		}(ps)
	}
	go func() { pwg.Wait(); close(allPubs) }()

	// shutdowns
	var burstWaiting atomic.Int32
	var burstSize int32
	shutdown := func(k int, tr string) {
		defer wg.Done()
		if k < len(sc.shuts) {
			enterGate()
		}
		waitTrigger(tr)
		// (a context cancelled with a cause of its own: what Shutdown returns is the context's error all the same)
		ctx, cancelCause := context.WithCancelCause(context.Background())
		cancel := func() { cancelCause(errShutdownCause) }
		defer cancel()
		t.mu.Lock()
		t.ctxToShut[ctx] = k
		if strings.HasSuffix(tr, "!") {
			t.add(fmt.Sprintf("hn%d", k))
		}
		t.add(fmt.Sprintf("hc%d", k))
		t.mu.Unlock()
		if strings.HasSuffix(tr, "!") {
			cancel()
		}
		if strings.HasPrefix(tr, "b") {
			burstWaiting.Add(1)
			for burstWaiting.Load() < burstSize {
			}
		}
		err := joe.Shutdown(ctx)
		t.mu.Lock()
		t.add(fmt.Sprintf("hR%d:%s", k, errName(err, k)))
		t.mu.Unlock()
	}
	for _, tr := range sc.shuts {
		if strings.HasPrefix(tr, "b") {
			burstSize++
		}
	}
	for k, tr := range sc.shuts {
		wg.Add(1)
		go shutdown(k, tr)
	}

	// give the scenario time to play out, then always shut down to release everything
	select {
	case <-allPubs:
	case <-time.After(joePatience):
		t.mu.Lock()
		t.fact("PUBLISH-BLOCKED")
		t.mu.Unlock()
	}
	time.Sleep(time.Duration(200+rng.Intn(400)) * time.Microsecond)
	wg.Add(1)
	go shutdown(len(sc.shuts), "0")
	finished := make(chan struct{})
	go func() { wg.Wait(); close(finished) }()
	select {
	case <-finished:
	case <-time.After(joePatience):
		t.mu.Lock()
		t.fact("CALLS-BLOCKED-AFTER-SHUTDOWN")
		for i, w := range writers {
			if w != nil && w.called && !w.returned {
				// "Subscribe returns … nil when it ended through cancellation or shutdown": it has to return
				t.fact(fmt.Sprintf("SUBSCRIBE-NEVER-RETURNED(sub%d)", i))
			}
		}
		t.mu.Unlock()
	}
	// Joe's goroutine must exit: its last hook (loop.allClosed) must have been recorded — a Shutdown call that lost
	// the race returns ErrProviderClosed at once, so the loop may still be on its way out when every call has returned;
	// left alone it would record that hook into the next case's trace (the goroutine count alone does not tell:
	// the runtime's own goroutines come and go)
	deadline := time.Now().Add(joePatience)
	for time.Now().Before(deadline) {
		t.mu.Lock()
		exited := false
		for _, ev := range t.ev {
			if ev == "lx" {
				exited = true
			}
		}
		t.mu.Unlock()
		if exited {
			break
		}
		time.Sleep(200 * time.Microsecond)
	}
	for runtime.NumGoroutine() > baseG && time.Now().Before(deadline) {
		time.Sleep(200 * time.Microsecond)
	}
	t.mu.Lock()
	defer t.mu.Unlock()
	if !slicesContains(t.ev, "lx") {
		t.fact("JOE-LOOP-NEVER-EXITED")
	}
	// of all the Shutdown calls exactly one closes `done` (and returns nil or its context's error): if every call
	// returned ErrProviderClosed, somebody was told "already shut down" by a Joe nobody had shut down
	nShut, nWon := 0, 0
	for _, ev := range t.ev {
		if strings.HasPrefix(ev, "hR") {
			nShut++
			if !strings.HasSuffix(ev, ":closed") {
				nWon++
			}
		}
	}
	if nShut > 0 && nWon == 0 {
		t.fact("EVERY-SHUTDOWN-RETURNED-CLOSED")
	}
	if !strings.Contains(strings.Join(t.facts, ","), "BLOCKED") { // (a blocked Publish may still be running)
		for p, m := range msgs {
			if now := m.String() + "|" + m.ID.String() + "|" + fmt.Sprint(m.ID.IsSet()); now != before[p] {
				t.fact(fmt.Sprintf("CALLER-MESSAGE-MODIFIED(pub%d)", p))
			}
		}
	}
	if g := runtime.NumGoroutine(); g > baseG {
		t.fact(fmt.Sprintf("GOROUTINES-LEFT(%d)", g-baseG))
	}
	facts := "ok"
	if len(t.facts) > 0 {
		facts = "BAD:" + strings.Join(t.facts, ",")
	}
	tr := "-"
	if len(t.ev) > 0 {
		tr = strings.Join(t.ev, ",")
	}
	return facts + " ## " + sc.String() + " ## " + tr
}

func genJoe(rng *rand.Rand, n int, thorough bool, emit func(string)) {
	for i := 0; i < n; i++ {
		big := 0
		if rng.Intn(5) == 0 {
			big = 1
		}
		emit(fmt.Sprintf("JOE %d %d", rng.Int63n(1<<40), big))
	}
}

func init() {
	runners["JOE"] = runJoe
	crashy["JOE"] = true
	for _, id := range []string{"C03", "C04", "C06", "C07", "C17"} {
		generators[id] = genJoe
	}
}

func slicesContains(xs []string, x string) bool {
	for _, y := range xs {
		if y == x {
			return true
		}
	}
	return false
}
