package main

// Runners of the message side (C02, C14, C15, C19): they drive the real Message, EventID/EventType,
// Upgrade and replayer code. Case formats are documented in lean/Driver/MessageD.lean.

import (
	"bytes"
	"encoding/json"
	"errors"
	"fmt"
	"io"
	"math/rand"
	"net/http"
	"net/http/httptest"
	"runtime"
	"strconv"
	"strings"
	"sync"
	"sync/atomic"
	"time"

	sse "github.com/tmaxmax/go-sse"
)

func msgSplitOp(op string) (string, string) {
	i := strings.IndexByte(op, ':')
	if i < 0 {
		return op, ""
	}
	return op[:i], op[i+1:]
}

func msgStrs(s string) []string {
	var out []string
	for _, b := range unhxList(s) {
		out = append(out, string(b))
	}
	return out
}

// msgApply performs one build op on m.
func msgApply(m *sse.Message, k, v string) {
	switch k {
	case "d":
		m.AppendData(msgStrs(v)...)
	case "c":
		m.AppendComment(msgStrs(v)...)
	case "i":
		m.ID, _ = sse.NewID(string(unhx(v)))
	case "t":
		m.Type, _ = sse.NewType(string(unhx(v)))
	case "r":
		n, err := strconv.ParseInt(v, 10, 64)
		if err == nil {
			m.Retry = time.Duration(n)
		}
	}
}

func buildMsg(script string) *sse.Message {
	m := &sse.Message{}
	if script == "-" {
		return m
	}
	for _, op := range strings.Split(script, ";") {
		k, v := msgSplitOp(op)
		msgApply(m, k, v)
	}
	return m
}

func msgShowEvent(e sse.Event) string {
	return "E " + hxs(e.LastEventID) + " " + hxs(e.Type) + " " + hxs(e.Data)
}

// ENC <msg> <msg> …
func runEnc(args []string) string {
	var all []byte
	agree := true
	var kept, want [][]byte
	for _, s := range args {
		m := buildMsg(s)
		var buf bytes.Buffer
		n, err := m.WriteTo(&buf)
		mt, merr := m.MarshalText()
		str := m.String()
		if err != nil || merr != nil || n != int64(buf.Len()) || !bytes.Equal(mt, buf.Bytes()) || str != buf.String() {
			agree = false
		}
		all = append(all, buf.Bytes()...)
		kept, want = append(kept, mt), append(want, buf.Bytes())
	}
	// the bytes MarshalText returned belong to the caller: encoding other messages afterwards leaves them alone
	for i := range kept {
		if !bytes.Equal(kept[i], want[i]) {
			agree = false
		}
	}
	var events []string
	errOut := "nil"
	sse.Read(bytes.NewReader(all), nil)(func(e sse.Event, err error) bool {
		if err != nil {
			errOut = errClass(err)
			return true
		}
		events = append(events, msgShowEvent(e))
		return true
	})
	ev := "-"
	if len(events) > 0 {
		ev = strings.Join(events, ";")
	}
	return fmt.Sprintf("%s | %s | %s | %s", hx(all), b01(agree), ev, errOut)
}

var errFault = errors.New("verif: injected write fault")

// faultWriter accepts everything except at call number k, where it takes min(j, len(p)) bytes
// and fails if e is set or the write was short.
type faultWriter struct {
	k, j     int
	e        bool
	calls    int
	accepted []byte
	failed   bool
	// a writer may do what it likes inside Write, writing other messages elsewhere included (a tee, a logger):
	// when set, every Write first encodes this other message into a writer of its own
	nested *sse.Message
}

func (w *faultWriter) Write(p []byte) (int, error) {
	idx := w.calls
	w.calls++
	if w.nested != nil {
		_, _ = w.nested.WriteTo(&faultWriter{k: -1})
	}
	if idx == w.k {
		n := w.j
		if n > len(p) {
			n = len(p)
		}
		w.accepted = append(w.accepted, p[:n]...)
		if w.e || w.j < len(p) {
			w.failed = true
			return n, errFault
		}
		return n, nil
	}
	w.accepted = append(w.accepted, p...)
	return len(p), nil
}

type faultByteWriter struct{ *faultWriter }

func (w faultByteWriter) WriteByte(c byte) error {
	_, err := w.Write([]byte{c})
	return err
}

// WT <msg> <k|-> <j> <e>
func runWT(args []string) string {
	if len(args) != 4 {
		return "bad-args"
	}
	m := buildMsg(args[0])
	k := -1
	if args[1] != "-" {
		k = atoi(args[1])
	}
	w := &faultWriter{k: k, j: atoi(args[2]), e: args[3] == "1"}
	if (len(args[0])+len(args[2]))%3 == 1 {
		w.nested = &sse.Message{ID: sse.ID("other"), Type: sse.Type("other"), Retry: 7 * time.Second}
		w.nested.AppendData(strings.Repeat("other message\n", 1+len(args[0])%5))
		w.nested.AppendComment("other")
	}
	// every other writer is also an io.ByteWriter (as a bufio.Writer is): a byte handed over that way is one more Write
	// of one byte — accepted or not as any other
	var dst io.Writer = w
	if (len(args[0])+len(args[1]))%2 == 0 {
		dst = faultByteWriter{w}
	}
	n, err := m.WriteTo(dst)
	e := "nil"
	if err != nil {
		if errors.Is(err, errFault) {
			e = "FAULT"
		} else {
			e = "OTHER"
		}
	}
	return fmt.Sprintf("%d | %s | %s | %d | %s", n, e, hx(w.accepted), w.calls, b01(w.failed))
}

type fieldLike interface {
	IsSet() bool
	String() string
}

func msgShowField(f fieldLike) string {
	if f.IsSet() {
		return "s:" + hxs(f.String())
	}
	return "u"
}

func msgShow(m *sse.Message) string {
	return fmt.Sprintf("I=%s T=%s R=%d W=%s", msgShowField(m.ID), msgShowField(m.Type), int64(m.Retry), hxs(m.String()))
}

func unmarshalErrClass(err error) string {
	if err == nil {
		return "nil"
	}
	var ue *sse.UnmarshalError
	if !errors.As(err, &ue) {
		return "NOT-UNMARSHALERROR"
	}
	switch {
	case ue.FieldName == "" && ue.Reason == sse.ErrUnexpectedEOF:
		return "UEOF"
	case ue.FieldName == "retry" && strings.HasPrefix(ue.Reason.Error(), "contains character"):
		return "RETRY-NONDIGIT"
	case ue.FieldName == "retry" && errors.Is(ue.Reason, strconv.ErrRange):
		return "RETRY-RANGE"
	case ue.FieldName == "retry" && errors.Is(ue.Reason, strconv.ErrSyntax):
		return "RETRY-SYNTAX"
	}
	return "OTHER(" + ue.FieldName + ")"
}

// a receiver that already carries every kind of field, to see that UnmarshalText starts afresh
func junkMessage() *sse.Message {
	m := &sse.Message{ID: sse.ID("junk"), Type: sse.Type("junk"), Retry: 5 * time.Second}
	m.AppendData("junk")
	m.AppendComment("junk")
	return m
}

// RT <msg>
func runRT(args []string) string {
	if len(args) != 1 {
		return "bad-args"
	}
	m := buildMsg(args[0])
	b, err := m.MarshalText()
	if err != nil {
		return "MARSHAL-ERROR"
	}
	m2 := junkMessage()
	uerr := m2.UnmarshalText(b)
	return unmarshalErrClass(uerr) + " | " + msgShow(m2)
}

// UT <hex text>
func runUT(args []string) string {
	if len(args) != 1 {
		return "bad-args"
	}
	m := junkMessage()
	// a copy of what the receiver held before (a record decoded earlier, kept by its Clone): decoding the next record
	// into the same receiver leaves the copy alone
	kept := m.Clone()
	keptText := kept.String()
	buf := unhx(args[0])
	err := m.UnmarshalText(buf)
	// the text buffer is the caller's: it is reused for the next record
	for i := range buf {
		buf[i] = '\n'
	}
	if now := kept.String(); now != keptText {
		return "CLONE-OF-THE-RECEIVER-CHANGED " + hxs(now)
	}
	return unmarshalErrClass(err) + " | " + msgShow(m)
}

// GWT <msg> <k|-> <j> <e>: WT, then MarshalText and String of the same message, for the translated encoders
// (Gen/Write.lean: Message_WriteTo, Message_MarshalText, Message_String)
func runGWT(args []string) string {
	if len(args) != 4 {
		return "bad-args"
	}
	wt := runWT(args)
	m := buildMsg(args[0])
	b, err := m.MarshalText()
	mt := hx(b)
	if err != nil {
		mt = "ERR(" + err.Error() + ")"
	}
	// the bytes returned belong to the caller: encoding another message afterwards leaves them alone
	other := &sse.Message{ID: sse.ID("other"), Type: sse.Type("other"), Retry: 7 * time.Second}
	other.AppendData(strings.Repeat("other message\n", 1+len(args[0])%5))
	_, _ = other.MarshalText()
	str := hx([]byte(m.String()))
	_ = other.String()
	if err == nil && hx(b) != mt {
		mt = "OVERWRITTEN(" + hx(b) + ")"
	}
	return fmt.Sprintf("%s | %s | %s", wt, mt, str)
}

// GUT <hex>: UT for the translated UnmarshalText, which does not keep which strconv error it wrapped
func runGUT(args []string) string {
	r := runUT(args)
	r = strings.Replace(r, "RETRY-SYNTAX |", "RETRY-INVALID |", 1)
	return strings.Replace(r, "RETRY-RANGE |", "RETRY-INVALID |", 1)
}

func fieldErrClass(err error) string {
	switch {
	case err == nil:
		return "nil"
	case strings.Contains(err.Error(), "input is multiline"):
		return "MULTILINE"
	case strings.Contains(err.Error(), "unsupported Scan"):
		return "UNSUP"
	}
	return "JSON"
}

type msgField interface {
	fieldLike
	UnmarshalText([]byte) error
	UnmarshalJSON([]byte) error
	Scan(interface{}) error
}

func jsonDecoded(doc []byte) string {
	var s string
	if err := json.Unmarshal(doc, &s); err != nil {
		return "!"
	}
	return hxs(s)
}

// FLD <route> <args…>: every construction route of EventID / EventType
func runFLD(args []string) (out string) {
	if len(args) < 1 {
		return "bad-args"
	}
	route := args[0]
	isType := strings.HasSuffix(route, "type")
	arg := func(i int) string {
		if i < len(args) {
			return args[i]
		}
		return "-"
	}
	show := func(f fieldLike, e, j string) string {
		m := &sse.Message{}
		// the bytes MarshalText hands out belong to the caller: overwriting them (a buffer that is reused) leaves the
		// value alone
		scribble := func(b []byte, err error) {
			if err == nil {
				for i := range b {
					b[i] = '\n'
				}
			}
		}
		switch v := f.(type) {
		case sse.EventID:
			scribble(v.MarshalText())
			m.ID = v
		case *sse.EventID:
			scribble(v.MarshalText())
			m.ID = *v
		case sse.EventType:
			scribble(v.MarshalText())
			m.Type = v
		case *sse.EventType:
			scribble(v.MarshalText())
			m.Type = *v
		}
		val := "-"
		if f.IsSet() {
			val = hxs(f.String())
		} else if f.String() != "" {
			val = "UNSET-WITH-VALUE:" + hxs(f.String())
		}
		s := fmt.Sprintf("%s %s %s W=%s", b01(f.IsSet()), val, e, hxs(m.String()))
		if j != "" {
			s += " J=" + j
		}
		return s
	}
	// a receiver holding a previous, set value
	recv := func() msgField {
		if isType {
			t := sse.Type("prev")
			return &t
		}
		i := sse.ID("prev")
		return &i
	}
	in := ""
	if !strings.HasPrefix(route, "scan-") && route != "hdr" {
		in = string(unhx(arg(1)))
	}
	switch route {
	case "newid":
		f, err := sse.NewID(in)
		return show(f, fieldErrClass(err), "")
	case "newtype":
		f, err := sse.NewType(in)
		return show(f, fieldErrClass(err), "")
	case "id", "type":
		defer func() {
			if r := recover(); r != nil {
				if isType {
					out = show(sse.EventType{}, "PANIC", "")
				} else {
					out = show(sse.EventID{}, "PANIC", "")
				}
			}
		}()
		if isType {
			return show(sse.Type(in), "nil", "")
		}
		return show(sse.ID(in), "nil", "")
	case "utext-id", "utext-type":
		f := recv()
		buf := []byte(in)
		err := f.UnmarshalText(buf)
		for i := range buf { // the value must not alias the caller's buffer
			buf[i] = '\n'
		}
		return show(f, fieldErrClass(err), "")
	case "json-id", "json-type":
		f := recv()
		buf := []byte(in)
		err := f.UnmarshalJSON(buf)
		for i := range buf {
			buf[i] = '\n'
		}
		return show(f, fieldErrClass(err), jsonDecoded([]byte(in)))
	case "jsonstd-id", "jsonstd-type":
		f := recv()
		err := json.Unmarshal([]byte(in), f)
		return show(f, fieldErrClass(err), b01(json.Valid([]byte(in)))+":"+jsonDecoded([]byte(in)))
	case "scan-id", "scan-type":
		f := recv()
		var src interface{}
		payload := unhx(arg(2))
		switch arg(1) {
		case "nil":
			src = nil
		case "bytes":
			if payload == nil {
				payload = []byte{}
			}
			src = payload
		case "string":
			src = string(payload)
		case "int":
			src = int64(5)
		case "float":
			src = 1.5
		case "bool":
			src = true
		default:
			src = time.Time{}
		}
		err := f.Scan(src)
		// the value must not alias the driver's buffer: a driver may reuse it for the next row
		for i := range payload {
			payload[i] = '\n'
		}
		return show(f, fieldErrClass(err), "")
	case "hdr":
		req := httptest.NewRequest(http.MethodGet, "/", nil)
		req.Header = http.Header{}
		vals := msgStrs(arg(2))
		switch arg(1) {
		case "c":
			if vals == nil {
				vals = []string{}
			}
			req.Header["Last-Event-Id"] = vals
		case "l":
			req.Header["last-event-id"] = vals
		default:
			for _, v := range vals {
				req.Header.Add("last-event-id", v)
			}
		}
		sess, err := sse.Upgrade(httptest.NewRecorder(), req)
		if err != nil {
			return "UPGRADE-FAILED"
		}
		return show(sess.LastEventID, "nil", "")
	}
	return "bad-route"
}

// FAM <script>: a family of clones and publications; String() of every member after every op
func runFAM(args []string) string {
	if len(args) != 1 {
		return "bad-args"
	}
	fam := []*sse.Message{{}}
	fa, _ := sse.NewFiniteReplayer(3, true)
	fm, _ := sse.NewFiniteReplayer(3, false)
	va, _ := sse.NewValidReplayer(time.Hour, true)
	vm, _ := sse.NewValidReplayer(time.Hour, false)
	reps := []sse.Replayer{fa, fm, va, vm}
	var snaps, puts []string
	if args[0] != "-" {
		for _, op := range strings.Split(args[0], ";") {
			k, v := msgSplitOp(op)
			if len(k) < 2 {
				continue
			}
			iu, err := strconv.ParseUint(k[1:], 10, 31)
			if err != nil {
				continue
			}
			i := int(iu)
			valid := true
			switch k[0] {
			case 'D', 'C', 'I', 'T', 'K', 'U':
			case 'R':
				_, e := strconv.ParseInt(v, 10, 64)
				valid = e == nil
			case 'P':
				rep, e := strconv.ParseUint(v, 10, 64)
				valid = e == nil && rep < 4
			default:
				valid = false
			}
			if !valid {
				continue
			}
			if i < len(fam) {
				m := fam[i]
				switch k[0] {
				case 'D':
					msgApply(m, "d", v)
				case 'C':
					msgApply(m, "c", v)
				case 'I':
					msgApply(m, "i", v)
				case 'T':
					msgApply(m, "t", v)
				case 'R':
					msgApply(m, "r", v)
				case 'K':
					fam = append(fam, m.Clone())
				case 'U':
					// the caller reuses its Message for the next event; the text buffer is the caller's too
					buf := unhx(v)
					_ = m.UnmarshalText(buf)
					for bi := range buf {
						buf[bi] = '\n'
					}
				case 'P':
					rep, _ := strconv.ParseUint(v, 10, 64)
					r := reps[rep]
					ret, err := r.Put(m, []string{"t"})
					switch {
					case err != nil && strings.Contains(err.Error(), "has no ID"):
						puts = append(puts, "N")
					case err != nil && strings.Contains(err.Error(), "already has an ID"):
						puts = append(puts, "H")
					case err != nil:
						puts = append(puts, "OTHER")
					default:
						same := -1
						for j, x := range fam {
							if x == ret {
								same = j
							}
						}
						if same >= 0 {
							puts = append(puts, fmt.Sprintf("=%d", same))
						} else {
							puts = append(puts, fmt.Sprintf("+%d", len(fam)))
							fam = append(fam, ret)
						}
					}
				}
			}
			var enc [][]byte
			for _, m := range fam {
				enc = append(enc, []byte(m.String()))
			}
			snaps = append(snaps, hxList(enc))
		}
	}
	s, p := "-", "-"
	if len(snaps) > 0 {
		s = strings.Join(snaps, ";")
	}
	if len(puts) > 0 {
		p = strings.Join(puts, ",")
	}
	return s + " | " + p
}

func init() {
	runners["ENC"] = runEnc
	runners["WT"] = runWT
	runners["RT"] = runRT
	runners["UT"] = runUT
	runners["GUT"] = runGUT
	runners["GWT"] = runGWT
	runners["FLD"] = runFLD
	runners["GFLD"] = runFLD // the same run, for Scan / UnmarshalJSON as translated (Gen/FieldRoutes.lean)
	runners["FAM"] = runFAM
}

// CENC <seed>: members of one clone family with different field values encoded from several goroutines at once, each many
// times through WriteTo, String and MarshalText: every encoding is the member's own (clones share no state, hidden
// scratch space included). Output "ok" or the first wrong encoding.
func runCENC(args []string) string {
	if len(args) != 1 {
		return "bad-args"
	}
	rng := rand.New(rand.NewSource(i64(args[0])))
	tmpl := &sse.Message{Type: sse.Type("tick")}
	tmpl.AppendData("shared line")
	const workers = 4
	ms := make([]*sse.Message, workers)
	want := make([]string, workers)
	for i := range ms {
		m := tmpl.Clone()
		m.Retry = time.Duration(1_000_000_000_000+int64(i)*1111+rng.Int63n(1000)) * time.Millisecond / 1000
		m.ID = sse.ID(fmt.Sprintf("id-%d-%d", i, rng.Intn(1000)))
		m.AppendData(fmt.Sprintf("own line %d", i))
		ms[i] = m
		want[i] = m.String()
	}
	var bad atomic.Value
	var wg sync.WaitGroup
	for i := range ms {
		wg.Add(1)
		go func(i int) {
			defer wg.Done()
			for k := 0; k < 3000 && bad.Load() == nil; k++ {
				var got string
				switch k % 3 {
				case 0:
					got = ms[i].String()
				case 1:
					b, _ := ms[i].MarshalText()
					got = string(b)
				default:
					var sb strings.Builder
					_, _ = ms[i].WriteTo(&sb)
					got = sb.String()
				}
				if got != want[i] {
					bad.Store(fmt.Sprintf("bad:member-%d-encoded-as-%s", i, hxs(got)))
				}
			}
		}(i)
	}
	wg.Wait()
	if b := bad.Load(); b != nil {
		return b.(string)
	}
	// … and clones taken from one shared template by several goroutines at once (Clone reads its receiver, it does not
	// write to it): every clone is its own message, the template stays what it was
	for round := 0; round < 3000 && bad.Load() == nil; round++ {
		shared := &sse.Message{Type: sse.Type("tick")}
		for l := 0; l < 3+round%4; l++ {
			shared.AppendData(fmt.Sprintf("template line %d", l)) // 3, 5, 6, 7 lines: the chunk array has spare capacity
		}
		wantShared := shared.String()
		var start atomic.Bool
		var ready, cw sync.WaitGroup
		clones := make([]*sse.Message, workers)
		for i := 0; i < workers; i++ {
			ready.Add(1)
			cw.Add(1)
			go func(i int) {
				defer cw.Done()
				ready.Done()
				for !start.Load() {
					runtime.Gosched() // (a spin that never yields would take a time slice per worker on a single CPU)
				}
				c := shared.Clone()
				c.AppendData(fmt.Sprintf("line of clone %d in round %d", i, round))
				clones[i] = c
			}(i)
		}
		ready.Wait()
		start.Store(true)
		cw.Wait()
		if got := shared.String(); got != wantShared {
			bad.Store("bad:template-changed-by-concurrent-clones-" + hxs(got))
		}
		for i, c := range clones {
			w := strings.TrimSuffix(wantShared, "\n") + fmt.Sprintf("data: line of clone %d in round %d\n\n", i, round)
			if got := c.String(); got != w {
				bad.Store(fmt.Sprintf("bad:concurrent-clone-%d-encoded-as-%s", i, hxs(got)))
			}
		}
	}
	if b := bad.Load(); b != nil {
		return b.(string)
	}
	return "ok"
}

func init() { runners["CENC"] = runCENC }

// CFLD <rounds>: sse.Type and sse.ID called with one multi-line value from several goroutines at once (each round a new
// value, a long one with its line break near the end): every call panics, none returns a value — whatever the others are
// doing. Output "ok" or what came back.
func runCFLD(args []string) string {
	if len(args) != 1 {
		return "bad-args"
	}
	rounds := atoi(args[0])
	var bad atomic.Value
	for r := 0; r < rounds && bad.Load() == nil; r++ {
		v := fmt.Sprintf("round-%d-", r) + strings.Repeat("v", 300_000) + "\nx"
		var wg sync.WaitGroup
		for g := 0; g < 8; g++ {
			wg.Add(1)
			go func(g int) {
				defer wg.Done()
				defer func() { _ = recover() }()
				if g%2 == 0 {
					t := sse.Type(v)
					bad.Store(fmt.Sprintf("bad:Type-returned-set=%v-with-a-line-break", t.IsSet()))
				} else {
					id := sse.ID(v)
					bad.Store(fmt.Sprintf("bad:ID-returned-set=%v-with-a-line-break", id.IsSet()))
				}
			}(g)
		}
		wg.Wait()
	}
	if b := bad.Load(); b != nil {
		return b.(string)
	}
	return "ok"
}

func init() { runners["CFLD"] = runCFLD }
