package main

// SPUB <subs> <pubs>: publishing through sse.Server (Server.Publish -> getTopics -> Joe): which subscriber gets which
// message. subs: subscriber topic lists separated by ';', pubs: publication topic lists separated by ';' ('-' = no
// topics given: the default topic); a topic list is hex names separated by ',', '_' = "" (the default topic).
// Output: per subscriber the indexes of the messages it was sent, in order ("0.2;1;-").

import (
	"bytes"
	"context"
	"errors"
	"fmt"
	"io"
	"log/slog"
	"math/rand"
	"net/http"
	"regexp"
	"strings"
	"sync"
	"sync/atomic"
	"time"

	sse "github.com/tmaxmax/go-sse"
)

type spubWriter struct {
	mu   sync.Mutex
	idx  map[*sse.Message]int
	got  []string
	sent int
}

func (w *spubWriter) Send(m *sse.Message) error {
	w.mu.Lock()
	defer w.mu.Unlock()
	if i, ok := w.idx[m]; ok {
		w.got = append(w.got, fmt.Sprint(i))
	} else {
		w.got = append(w.got, "?")
	}
	return nil
}
func (w *spubWriter) Flush() error { return nil }

func runSPUB(args []string) string {
	if len(args) != 2 {
		return "bad-args"
	}
	subs := strings.Split(args[0], ";")
	pubs := strings.Split(args[1], ";")
	joe := &sse.Joe{}
	server := &sse.Server{Provider: joe}
	msgs := make([]*sse.Message, len(pubs))
	idx := map[*sse.Message]int{}
	for j := range pubs {
		m := &sse.Message{}
		m.AppendData(fmt.Sprint("m", j))
		msgs[j] = m
		idx[m] = j
	}
	registered := make(chan struct{}, len(subs))
	sse.VerifHook = func(point string, a, b any) {
		if point == "loop.registered" {
			registered <- struct{}{}
		}
	}
	defer func() { sse.VerifHook = nil }()
	ctx, cancel := context.WithCancel(context.Background())
	defer cancel()
	ws := make([]*spubWriter, len(subs))
	var wg sync.WaitGroup
	for i, s := range subs {
		ws[i] = &spubWriter{idx: idx}
		wg.Add(1)
		go func(i int, topics []string) {
			defer wg.Done()
			_ = joe.Subscribe(ctx, sse.Subscription{Client: ws[i], Topics: topics})
		}(i, parseTopics(s))
	}
	for range subs {
		select {
		case <-registered:
		case <-time.After(10 * time.Second):
			return "BLOCKED registration"
		}
	}
	for j, p := range pubs {
		if err := server.Publish(msgs[j], parseTopics(p)...); err != nil {
			return "PUBERR " + err.Error()
		}
	}
	sctx, scancel := context.WithTimeout(context.Background(), 10*time.Second)
	defer scancel()
	if err := server.Shutdown(sctx); err != nil {
		return "SHUTDOWN " + err.Error()
	}
	wg.Wait()
	out := make([]string, len(ws))
	for i, w := range ws {
		if len(w.got) == 0 {
			out[i] = "-"
		} else {
			out[i] = strings.Join(w.got, ".")
		}
	}
	return strings.Join(out, ";")
}

// SPUBH <subs> <pubs>: the same, the subscribers being sessions of Server.ServeHTTP whose topics come from OnSession
// (a subscriber "-" = OnSession approves without naming topics: the default topic); what a session received is read
// off its response body. One session's topics must not change another's: they are per subscription.
type spubRes struct {
	mu   sync.Mutex
	hdr  http.Header
	body bytes.Buffer
}

func (r *spubRes) Header() http.Header { return r.hdr }
func (r *spubRes) WriteHeader(int)     {}
func (r *spubRes) Write(p []byte) (int, error) {
	r.mu.Lock()
	defer r.mu.Unlock()
	return r.body.Write(p)
}
func (r *spubRes) Flush() {}

// ghostRes: a response writer with FlushError whose second flush fails (and every call after that is counted)
type ghostRes struct {
	hdr       http.Header
	flushes   atomic.Int32
	failed    atomic.Bool
	afterFail atomic.Int32
}

var ghostGaveUp atomic.Bool

var errGhostFlush = errors.New("verif: the connection of this session is gone")

func (r *ghostRes) Header() http.Header { return r.hdr }
func (r *ghostRes) WriteHeader(int)     {} // (ServeHTTP answers the failed subscription with an error status: its own business)
func (r *ghostRes) Write(p []byte) (int, error) {
	if r.failed.Load() && !bytes.HasPrefix(p, []byte("verif:")) && !bytes.Contains(p, []byte("the connection of this session is gone")) {
		r.afterFail.Add(1)
	}
	return len(p), nil
}
func (r *ghostRes) FlushError() error {
	if r.failed.Load() {
		r.afterFail.Add(1)
		return errGhostFlush
	}
	if r.flushes.Add(1) >= 2 {
		r.failed.Store(true)
		return errGhostFlush
	}
	return nil
}

var spubData = regexp.MustCompile(`(?m)^data: m(\d+)$`)

func runSPUBH(args []string) string {
	if len(args) != 2 {
		return "bad-args"
	}
	subs := strings.Split(args[0], ";")
	pubs := strings.Split(args[1], ";")
	joe := &sse.Joe{}
	server := &sse.Server{Provider: joe, OnSession: func(_ http.ResponseWriter, r *http.Request) ([]string, bool) {
		h := r.Header.Get("X-Verif-Topics")
		if h == "" {
			return nil, true
		}
		return parseTopics(h), true
	}}
	registered := make(chan struct{}, len(subs))
	sse.VerifHook = func(point string, a, b any) {
		if point == "loop.registered" {
			registered <- struct{}{}
		}
	}
	defer func() { sse.VerifHook = nil }()
	ctx, cancel := context.WithCancel(context.Background())
	defer cancel()
	// every other case: the server logs (Server.Logger), and one more session — on a topic of its own — sits on a writer
	// whose second flush fails: ServeHTTP returns for it, and it is not written to again, whatever else the server is doing
	var ghost *ghostRes
	ghostDone := make(chan struct{})
	if (len(args[0])+len(args[1]))%2 == 0 && !ghostGaveUp.Load() {
		server.Logger = func(*http.Request) *slog.Logger { return slog.New(slog.NewTextHandler(io.Discard, nil)) }
		ghost = &ghostRes{hdr: http.Header{}}
		greq, _ := http.NewRequestWithContext(ctx, http.MethodGet, "http://verif.invalid/", http.NoBody)
		greq.Header.Set("X-Verif-Topics", "67686f7374")
		go func() {
			defer close(ghostDone)
			server.ServeHTTP(ghost, greq)
		}()
		select {
		case <-registered:
		case <-time.After(10 * time.Second):
			return "BLOCKED registration"
		}
		for j := 0; j < 2; j++ {
			m := &sse.Message{}
			m.AppendData(fmt.Sprint("ghost", j))
			if err := server.Publish(m, "ghost"); err != nil {
				return "PUBERR " + err.Error()
			}
		}
		select {
		case <-ghostDone:
		case <-time.After(10 * time.Second):
			ghostGaveUp.Store(true) // (one such wait per process is enough to report it)
			return "BAD:SERVE-DID-NOT-RETURN-AFTER-ITS-FLUSH-FAILED"
		}
		m := &sse.Message{}
		m.AppendData("ghost2")
		if err := server.Publish(m, "ghost"); err != nil {
			return "PUBERR " + err.Error()
		}
	}
	rs := make([]*spubRes, len(subs))
	var wg sync.WaitGroup
	for i, s := range subs {
		rs[i] = &spubRes{hdr: http.Header{}}
		req, _ := http.NewRequestWithContext(ctx, http.MethodGet, "http://verif.invalid/", http.NoBody)
		if s != "-" {
			req.Header.Set("X-Verif-Topics", s)
		}
		wg.Add(1)
		go func(i int) {
			defer wg.Done()
			server.ServeHTTP(rs[i], req)
		}(i)
		// one after the other: the order of the sessions is part of the case
		select {
		case <-registered:
		case <-time.After(10 * time.Second):
			return "BLOCKED registration"
		}
	}
	for j, p := range pubs {
		m := &sse.Message{}
		m.AppendData(fmt.Sprint("m", j))
		if err := server.Publish(m, parseTopics(p)...); err != nil {
			return "PUBERR " + err.Error()
		}
	}
	sctx, scancel := context.WithTimeout(context.Background(), 10*time.Second)
	defer scancel()
	if err := server.Shutdown(sctx); err != nil {
		return "SHUTDOWN " + err.Error()
	}
	wg.Wait()
	if ghost != nil {
		if n := ghost.afterFail.Load(); n > 0 {
			return fmt.Sprintf("BAD:WRITER-USED-%d-TIMES-AFTER-ITS-FLUSH-FAILED", n)
		}
	}
	out := make([]string, len(rs))
	for i, r := range rs {
		var got []string
		for _, m := range spubData.FindAllStringSubmatch(r.body.String(), -1) {
			got = append(got, m[1])
		}
		if len(got) == 0 {
			out[i] = "-"
		} else {
			out[i] = strings.Join(got, ".")
		}
	}
	return strings.Join(out, ";")
}

func genSPUB(rng *rand.Rand, n int, thorough bool, emit func(string)) {
	names := []string{"_", "_", "61", "62", "6e657773", "612c62", "20"}
	list := func(allowNone bool) string {
		if allowNone && rng.Intn(4) == 0 {
			return "-"
		}
		k := 1 + rng.Intn(3)
		var t []string
		for i := 0; i < k; i++ {
			t = append(t, names[rng.Intn(len(names))])
		}
		return strings.Join(t, ",")
	}
	for i := 0; i < n; i++ {
		ns, np := 1+rng.Intn(4), 1+rng.Intn(5)
		var subs, pubs []string
		for j := 0; j < ns; j++ {
			subs = append(subs, list(false))
		}
		for j := 0; j < np; j++ {
			pubs = append(pubs, list(true))
		}
		emit("SPUB " + strings.Join(subs, ";") + " " + strings.Join(pubs, ";"))
		if i%2 == 1 {
			// through ServeHTTP and OnSession: some sessions on the default topic, most topic lists of one name
			var hs []string
			for j := 0; j < 1+rng.Intn(4); j++ {
				switch rng.Intn(3) {
				case 0:
					hs = append(hs, "-")
				case 1:
					hs = append(hs, names[2+rng.Intn(len(names)-2)])
				default:
					hs = append(hs, list(false))
				}
			}
			emit("SPUBH " + strings.Join(hs, ";") + " " + strings.Join(pubs, ";"))
		}
	}
}

func init() {
	runners["SPUB"] = runSPUB
	runners["SPUBH"] = runSPUBH
	generators["SPUB"] = genSPUB
}
