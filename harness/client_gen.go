package main

// Generators of the client group: C10 (Last-Event-ID / body reset), C11 (why Connect returns),
// C12 (retry schedule), C13 (callback registry). One PRNG, one case per line.
//
// Time discipline: a case must never sleep noticeably. Waits are nanoseconds to microseconds;
// whenever the wait after an attempt could be long (a positive server retry value, the 500ms
// default interval) the attempt is marked "!" — OnRetry cancels the context, so the wait is
// never served.

import (
	"bytes"
	"fmt"
	"math/big"
	"math/rand"
	"strings"
)

var clientIDs = []string{"1", "2", "7", "abc", "", "", "a\x00b", "\x00", "007", "é", " sp", "x y", "id-\xff", "42"}

// an event text that sets / does not set an ID
func genIDEvent(rng *rand.Rand, allowRetry bool) string {
	var sb strings.Builder
	nl := func() string { return nls[rng.Intn(len(nls))] }
	n := 1 + rng.Intn(3)
	for i := 0; i < n; i++ {
		switch k := rng.Intn(12); {
		case k < 4:
			sb.WriteString("id" + pick(rng, ": ", ":", ":  ") + pick(rng, clientIDs...) + nl())
		case k < 7:
			sb.WriteString("data: " + pick(rng, "x", "hello", "", "id: 9") + nl())
		case k == 7:
			sb.WriteString("event: " + pick(rng, "a", "b", "") + nl())
		case k == 8:
			sb.WriteString(pick(rng, ": comment", "id", "foo: id", "ids: 5", "Id: 5", " id: 5") + nl())
		case k == 9 && allowRetry:
			sb.WriteString("retry: " + pick(rng, "0", "0", "1", "+5", "-0", "x", "") + nl())
		default:
			sb.WriteString("data: y" + nl())
		}
	}
	return sb.String()
}

// a stream for the client properties; the result never contains a retry field with a value that
// would make the next wait long, unless allowBigRetry (the caller then marks the attempt "!")
func genClientStream(rng *rand.Rand, allowRetry bool) []byte {
	var sb strings.Builder
	if rng.Intn(15) == 0 {
		sb.WriteString("\xEF\xBB\xBF")
	}
	ne := rng.Intn(4)
	for i := 0; i < ne; i++ {
		sb.WriteString(genIDEvent(rng, allowRetry))
		sb.WriteString(pick(rng, nls...))
		if rng.Intn(6) == 0 {
			sb.WriteString(pick(rng, "\n", ": c\n", "foo\n"))
		}
	}
	if rng.Intn(30) == 0 {
		// a long id-less tail: the scanner's 4 KiB buffer is compacted and refilled several times after the last id
		// (whatever was remembered from earlier events must not live in that buffer)
		total := 4500 + rng.Intn(5000)
		for n := 0; n < total; {
			ev := "data: " + strings.Repeat(pick(rng, "x", ": s", "id: t", "y"), 1+rng.Intn(60)) + pick(rng, "\n\n", "\r\n\r\n")
			if rng.Intn(8) == 0 {
				ev = "event: " + pick(rng, "t", "long-type-name") + "\n" + ev
			}
			sb.WriteString(ev)
			n += len(ev)
		}
	}
	switch rng.Intn(6) {
	case 0: // an event that is never completed by a blank line
		sb.WriteString(genIDEvent(rng, allowRetry))
	case 1: // cut in mid-line
		t := genIDEvent(rng, allowRetry)
		sb.WriteString(t[:rng.Intn(len(t))])
	case 2:
		sb.WriteString(pick(rng, "\n", ": bye\n", "foo: bar\n", "\r", "\r\n", "id: 5", "id: 5\n", "id"))
	}
	return []byte(sb.String())
}

func hasRetryField(s []byte) bool { return bytes.Contains(s, []byte("retry")) }

func streamAttempt(rng *rand.Rand, s []byte, end string, cancelSpec string, bang bool) string {
	ewl := ""
	if rng.Intn(5) == 0 && len(s) > 0 {
		ewl = "w"
	}
	a := fmt.Sprintf("S%s%s:%s:%s", end, ewl, cancelSpec, hxList(segmentStream(rng, s)))
	if bang {
		a = "!" + a
	}
	return a
}

func ratStr(n, d int64) string { return fmt.Sprintf("%d/%d", n, d) }

// a back-off configuration whose waits are tiny: (line, bang) — bang: the first wait may be long
func tinyBackoff(rng *rand.Rand, maxRetries int) string {
	ii := int64(1 + rng.Intn(2000))
	mul := pick(rng, "1/1", "1/1", "3/2", "2/1", "5/4")
	maxI := int64(0)
	if mul != "1/1" || rng.Intn(3) == 0 {
		maxI = ii + int64(rng.Intn(5000))
	}
	maxE := pick(rng, int64(0), 0, -5, 3600_000_000_000)
	return fmt.Sprintf("%d,%s,-1/1,%d,%d,%d", ii, mul, maxI, maxE, maxRetries)
}

func connLine(bk, body, hdr string, done0 bool, hist []string) string {
	h := "-"
	if len(hist) > 0 {
		h = strings.Join(hist, ";")
	}
	if !done0 && (len(h)+len(body)+len(bk))%5 == 2 {
		// an earlier Connect call on the same Connection, ended by the validator at its first attempt
		hdr += "+w"
	}
	return fmt.Sprintf("CONN %s %s %s %s %s %s", bk, defaultsArg(), body, hdr, b01(done0), h)
}

func genBodyKind(rng *rand.Rand) string {
	switch k := rng.Intn(20); {
	case k < 5:
		return "none"
	case k < 8:
		return "nobody"
	case k < 15:
		return "gb"
	case k < 17:
		return fmt.Sprintf("gbfail:%d", rng.Intn(4))
	}
	return "nogb"
}

// ---------------------------------------------------------------- C10

func genC10(rng *rand.Rand, n int, thorough bool, emit func(string)) {
	for i := 0; i < n; i++ {
		maxR := pick(rng, 0, 0, 0, 0, 3, 6, 1)
		bk := tinyBackoff(rng, maxR)
		body := genBodyKind(rng)
		hdr := "-"
		if rng.Intn(10) == 0 {
			hdr = "h:" + hxs(pick(rng, "init", "", "9", "a b"))
		}
		if rng.Intn(8) == 0 {
			// a caller-provided buffer, large enough for every stream of the generators (the limit is C20's subject)
			hdr += fmt.Sprintf("+b:%d:%d", pick(rng, 0, 64, 4096, 16384), 1<<20)
		}
		var hist []string
		na := 1 + rng.Intn(8)
		if thorough && rng.Intn(10) == 0 {
			na = 8 + rng.Intn(25)
		}
		for j := 0; j < na; j++ {
			switch k := rng.Intn(20); {
			case k < 4:
				hist = append(hist, "T0")
			case k == 4:
				hist = append(hist, pick(rng, "V0", "T2", "T3", "T1"))
			default:
				s := genClientStream(rng, rng.Intn(6) == 0)
				if rng.Intn(12) == 0 {
					s = genStream(rng)
				}
				end := pick(rng, "E", "E", "E", "E", "R", "R", "R", "K")
				if rng.Intn(14) == 0 {
					end = "C"
				}
				cs := "-"
				if rng.Intn(25) == 0 {
					cs = pick(rng, "b", "e1", "e2")
				}
				// unknown streams may carry long retry values: never serve that wait
				bang := hasRetryField(s) && bytes.ContainsAny(s, "123456789") || rng.Intn(40) == 0
				hist = append(hist, streamAttempt(rng, s, end, cs, bang))
			}
		}
		emit(connLine(bk, body, hdr, false, hist))
	}
}

// ---------------------------------------------------------------- C11

var c11Streams = []string{
	"\n", "\r\n", "\r", "", "data: x\n\n", "data: x\n\n\n", ": c\n", "data: x\n\n: bye\n", "data: x\n\nfoo: bar\n",
	"id: 1\ndata: x", "data: x\n", "data: x", "retry: +5\n\n", "id: 1\n\n", "id: 1\n", "id: 1", "\xEF\xBB\xBF", "\xEF\xBB\xBFdata: x\n\n",
	"data: a\n\ndata: b\n\n", "data: a\r\n\r\ndata: b\r\n\r", "event: e\ndata: d\nid: i\n\n", "retry: 0\n\n", "\n\n\n", ":\n:\n", "d",
	// waits of hours (the attempt is followed by a cancellation at the wait: see hasRetryField below)
	"retry: 7200000\n\n", "data: x\n\nretry: 99999999\ndata: y\n\n",
}

func genC11(rng *rand.Rand, n int, thorough bool, emit func(string)) {
	for i := 0; i < n; i++ {
		maxR := pick(rng, -1, 0, 0, 1, 2, 3)
		bk := tinyBackoff(rng, maxR)
		body := "none"
		if rng.Intn(6) == 0 {
			body = genBodyKind(rng)
		}
		var hist []string
		na := 1 + rng.Intn(5)
		for j := 0; j < na; j++ {
			bang := rng.Intn(12) == 0
			b := ""
			if bang {
				b = "!"
			}
			switch k := rng.Intn(20); {
			case k < 3:
				hist = append(hist, b+pick(rng, "T0", "T0", "T0", "T1", "T2", "T3"))
			case k == 3:
				hist = append(hist, b+pick(rng, "V0", "V0", "V1"))
			default:
				var s []byte
				switch rng.Intn(10) {
				case 0, 1, 2, 3, 4:
					s = []byte(pick(rng, c11Streams...))
				case 5, 6, 7:
					s = genClientStream(rng, true)
				default:
					s = genStream(rng)
				}
				// end after any byte
				if len(s) > 0 && rng.Intn(3) == 0 {
					s = s[:rng.Intn(len(s)+1)]
				}
				end := pick(rng, "E", "E", "E", "R", "R", "C", "C", "K")
				cs := "-"
				if rng.Intn(8) == 0 {
					cs = pick(rng, "b", "e1", "e1", "e2", "e3")
				}
				if hasRetryField(s) && bytes.ContainsAny(s, "123456789") {
					bang = true
				}
				hist = append(hist, streamAttempt(rng, s, end, cs, bang))
			}
		}
		emit(connLine(bk, body, "-", rng.Intn(60) == 0, hist))
	}
}

// ---------------------------------------------------------------- C12

var (
	mergeMuls = []string{"0/1", "1/2", "1/1", "3/2", "2/1", "nan", "-1/1", "5/1", "4503599627370495/4503599627370496", "4503599627370497/4503599627370496", floatToRat(1.1)}
	mergeJits = []string{"-1/1", "0/1", floatToRat(0.3), "1/2", "1/1", "3/2", "-1/2", "nan", "-4503599627370497/4503599627370496", "1/4", "4503599627370495/4503599627370496", "-2/1"}
)

// exact simulation of the controller for dyadic parameters (generator side only: it is used to
// keep chosen elapsed times away from the MaxElapsedTime boundary, never as an oracle)
type simCtl struct {
	ii, maxI, maxE int64
	maxR           int64
	mulN, mulD     int64
	jitN, jitD     int64 // jitN == -jitD: off
	interval       int64
	num            int64
}

func (s *simCtl) grow(c int64) int64 {
	p := new(big.Int).Mul(big.NewInt(c), big.NewInt(s.mulN))
	if s.maxI > 0 && p.Cmp(new(big.Int).Mul(big.NewInt(s.maxI), big.NewInt(s.mulD))) >= 0 {
		return s.maxI
	}
	return p.Quo(p, big.NewInt(s.mulD)).Int64()
}

func (s *simCtl) wait(c, draw int64) int64 {
	if s.jitN == -s.jitD {
		return c
	}
	two53 := new(big.Int).Lsh(big.NewInt(1), 53)
	den := new(big.Int).Mul(big.NewInt(s.jitD), two53)
	a := new(big.Int).Mul(big.NewInt(c*s.jitD-s.jitN*c), two53)
	b := new(big.Int).Mul(big.NewInt(draw), big.NewInt(2*s.jitN*c+s.jitD))
	a.Add(a, b)
	return a.Quo(a, den).Int64()
}

func parseRat(s string) (int64, int64) {
	var n, d int64
	fmt.Sscanf(s, "%d/%d", &n, &d)
	return n, d
}

func genCtrlCase(rng *rand.Rand) string {
	const ms = int64(1_000_000)
	ii := pick(rng, int64(1), 500*ms, 100*ms, 7, 1000*ms, 60_000*ms, int64(1+rng.Intn(1<<30)))
	if rng.Intn(12) == 0 {
		ii = pick(rng, int64(0), -5)
	}
	mul := pick(rng, "1/1", "3/2", "2/1", "5/4", "3/1", "1/2", "0/1")
	jit := pick(rng, "-1/1", "-1/1", "1/2", "1/4", "3/4", "0/1", "1/1", "2/1")
	maxR := pick(rng, int64(-1), 0, 0, 1, 2, 3, 5, 8)
	var maxI, maxE int64
	if rng.Intn(2) == 0 {
		maxI = ii + int64(rng.Intn(1<<31))
		if rng.Intn(4) == 0 {
			maxI = 1 + int64(rng.Intn(1<<20)) // below the initial interval
		}
	}
	if rng.Intn(12) == 0 {
		maxI = -1
	}
	switch rng.Intn(4) {
	case 0:
		maxE = pick(rng, 2000*ms, 10_000*ms, 600_000*ms)
	case 1:
		maxE = pick(rng, int64(-1), 0)
	}
	bk := fmt.Sprintf("%d,%s,%s,%d,%d,%d", ii, mul, jit, maxI, maxE, maxR)
	// the merged configuration, for the simulation
	d := sseDefaults()
	s := &simCtl{ii: ii, maxI: maxI, maxE: maxE, maxR: maxR}
	if s.ii <= 0 {
		s.ii = d.ii
	}
	s.mulN, s.mulD = parseRat(mul)
	if s.mulN < s.mulD {
		s.mulN, s.mulD = d.mulN, d.mulD
	}
	s.jitN, s.jitD = parseRat(jit)
	if s.jitN != -s.jitD && (s.jitN <= 0 || s.jitN >= s.jitD) {
		s.jitN, s.jitD = d.jitN, d.jitD
	}
	s.interval = s.ii
	var ops []string
	nops := 1 + rng.Intn(14)
	for i := 0; i < nops; i++ {
		thr := int64(1) << 49
		if s.jitN != -s.jitD {
			thr = 1 << 38 // keeps every float operation of nextInterval exact for dyadic parameters
		}
		if rng.Intn(5) == 0 || s.interval > thr {
			dd := pick(rng, int64(0), 0, -1, 1, 3*ms, 250*ms, int64(rng.Intn(1<<32)))
			ops = append(ops, fmt.Sprintf("R:%d", dd))
			if dd > 0 {
				s.interval = dd
			} else {
				s.interval = s.ii
			}
			s.num = 0
			continue
		}
		draw := int64(rng.Intn(1024)) << 43
		var el int64
		if s.maxR < 0 || (s.maxR > 0 && s.num == s.maxR) {
			el = int64(rng.Intn(1 << 30))
		} else {
			w := s.wait(s.interval, draw)
			s.num++
			s.interval = s.grow(s.interval)
			el = int64(rng.Intn(1000)) * ms
			if s.maxE > 0 {
				margin := 50*ms + int64(rng.Intn(1000))*ms
				switch rng.Intn(3) {
				case 0: // just refused
					el = s.maxE - w + margin
				case 1: // just allowed
					el = s.maxE - w - margin
				}
				if el < 0 {
					el = 0
				}
				// keep away from the boundary in any case
				if diff := el + w - s.maxE; diff > -50*ms && diff < 50*ms {
					el += 100 * ms
				}
			}
		}
		ops = append(ops, fmt.Sprintf("N:%d:%d", el, draw))
	}
	return fmt.Sprintf("CTRL %s %s %s", bk, defaultsArg(), strings.Join(ops, ";"))
}

type sseDef struct{ ii, mulN, mulD, jitN, jitD int64 }

func sseDefaults() sseDef {
	f := strings.Split(defaultsArg(), ",")
	var d sseDef
	fmt.Sscanf(f[0], "%d", &d.ii)
	d.mulN, d.mulD = parseRat(f[1])
	d.jitN, d.jitD = parseRat(f[2])
	return d
}

func genFloatCase(rng *rand.Rand) string {
	if rng.Intn(12) == 0 {
		// an interval whose product with the multiplier does not fit an int64 — a server retry value of 10^12 ms, a cap
		// near the largest Duration after many failures — is capped all the same: the comparison is made before the product
		cur := pick(rng, int64(1_000_000_000_000_000_000), 4_000_000_000_000_000_000, 9_000_000_000_000_000_000, int64(1)<<62)
		mulF := pick(rng, 9.5, 10, 100.5, 3, 2.5)
		if float64(cur)*mulF < 9.3e18 {
			mulF = 100.5
		}
		maxI := pick(rng, int64(3_600_000_000_000), 1<<62, cur, cur+1, 9_223_372_036_854_775_807)
		return fmt.Sprintf("FLOAT g %d %d %s", cur, maxI, floatToRat(mulF))
	}
	if rng.Intn(2) == 0 {
		cur := int64(1) + rng.Int63n(int64(1)<<uint(1+rng.Intn(51)))
		mulF := pick(rng, 1.0, 1.5, 2, 1.1, 1.25, 2.718281828, 1.000000001, 100.5, 1+rng.Float64()*3)
		var maxI int64
		switch rng.Intn(5) {
		case 0:
			maxI = 0
		case 1:
			maxI = 1 + rng.Int63n(cur)
		case 2:
			maxI = cur + rng.Int63n(cur+1)
		case 3: // around cur*mul
			maxI = int64(float64(cur)*mulF) + int64(rng.Intn(7)) - 3
		default:
			maxI = pick(rng, int64(-1), 1, 1<<62)
		}
		return fmt.Sprintf("FLOAT g %d %d %s", cur, maxI, floatToRat(mulF))
	}
	cur := int64(1) + rng.Int63n(int64(1)<<uint(1+rng.Intn(49)))
	jit := pick(rng, "-1/1", floatToRat(0.5), floatToRat(0.3), floatToRat(0.999), floatToRat(1e-9), floatToRat(rng.Float64()))
	if jit == "0/1" {
		jit = "1/2"
	}
	draw := rng.Int63n(1 << 53)
	if rng.Intn(5) == 0 {
		draw = pick(rng, int64(0), 1<<53-1, 1<<52)
	}
	return fmt.Sprintf("FLOAT n %d %s %d", cur, jit, draw)
}

func genMergeCase(rng *rand.Rand) string {
	ii := pick(rng, int64(0), -1, 1, 500_000_000, 7, -1<<40)
	return fmt.Sprintf("MERGE %d,%s,%s,%d,%d,%d %s", ii, pick(rng, mergeMuls...), pick(rng, mergeJits...),
		pick(rng, int64(0), -1, 5, 1<<40), pick(rng, int64(0), -1, 5, 1<<40), pick(rng, -1, 0, 1, 7), defaultsArg())
}

// a stream that sets the retry interval; (text, base in ns afterwards: 0 = initial, -1 = unknown/long)
func genRetryStream(rng *rand.Rand, jitterOn bool) (string, bool) {
	var sb strings.Builder
	long := false
	n := 1 + rng.Intn(3)
	for i := 0; i < n; i++ {
		if rng.Intn(3) == 0 {
			sb.WriteString("data: x\n\n")
		}
		v := pick(rng, "0", "0", "1", "2", "1", "+5", "-0", "", "x1", "1 ", "00", "001", "1500", "1000000000000", "9223372036854", "9223372036855", "9223372036854775807", "9223372036854775808", "18446744073709551617")
		if jitterOn && (v == "9223372036854" || v == "9223372036855") {
			// (1+Jitter)·b would overflow int64: outside the property (values up to 1e12 ms) and excluded by hypothesis
			v = "1000000000000"
		}
		sb.WriteString("retry:" + pick(rng, " ", "", " ") + v + pick(rng, "\n", "\r\n", "\n\n", "\ndata: z\n\n"))
		switch v {
		case "1500", "1000000000000", "9223372036854", "9223372036855", "9223372036854775807":
			long = true
		case "0", "1", "2", "00", "001":
			long = false
		}
	}
	if rng.Intn(4) == 0 {
		sb.WriteString("retry: 7") // cut: never processed... unless the stream ends cleanly? no: an unterminated line is dropped
	}
	return sb.String(), long
}

func genC12Conn(rng *rand.Rand) string {
	maxR := pick(rng, -1, 0, 0, 0, 1, 2, 3, 5)
	jitterOn := rng.Intn(3) == 0
	ii := int64(1 + rng.Intn(3000))
	mul := pick(rng, "1/1", "3/2", "2/1", "5/4", "3/1", "1000/1")
	jit := "-1/1"
	if jitterOn {
		jit = pick(rng, "1/2", floatToRat(0.3), "1/4", floatToRat(0.9), floatToRat(0.001))
	}
	var maxI, maxE int64
	if rng.Intn(2) == 0 {
		maxI = ii + int64(rng.Intn(8000))
	}
	if mul == "1000/1" {
		// 1ns … 1µs, 1ms, then 1s which MaxElapsedTime = 500ms refuses: never slept
		ii = int64(1 + rng.Intn(3))
		maxE = 500_000_000
		maxI = 0
		if maxR > 0 && maxR < 3 || maxR < 0 {
			maxR = 0
		}
		if jitterOn {
			jit = "-1/1"
			jitterOn = false
		}
	} else {
		maxE = pick(rng, int64(0), 0, -1, 3600_000_000_000)
		if !jitterOn && rng.Intn(8) == 0 {
			maxE = ii / 2 // the very first wait already exceeds it
		}
	}
	zero := rng.Intn(15) == 0 // the zero Backoff: all defaults (500ms, 1.5, 0.5): never wait
	bk := fmt.Sprintf("%d,%s,%s,%d,%d,%d", ii, mul, jit, maxI, maxE, maxR)
	if zero {
		bk = fmt.Sprintf("0,0/1,0/1,0,0,%d", maxR)
	}
	var hist []string
	na := 1 + rng.Intn(9)
	slow := false // waits are in the millisecond range after a server retry value: keep such runs short
	for j := 0; j < na; j++ {
		bang := zero
		switch k := rng.Intn(10); {
		case k < 5:
			if slow && mul != "1/1" {
				bang = true
			}
			// (T2: the transport fails with context.Canceled although the request's context is alive — a timeout of its
			// own, a cancelled upstream: an attempt that failed like any other, the schedule goes on)
			a := pick(rng, "T0", "T0", "T0", "T2")
			if bang {
				a = "!" + a
			}
			hist = append(hist, a)
		default:
			var s string
			long := false
			if rng.Intn(3) == 0 {
				s = string(genClientStream(rng, false))
			} else {
				s, long = genRetryStream(rng, jitterOn || zero)
				slow = true
			}
			if long || slow && (maxI == 0 && mul != "1/1") {
				bang = true
			}
			hist = append(hist, streamAttempt(rng, []byte(s), pick(rng, "E", "E", "R"), "-", bang))
		}
		if bang {
			break
		}
	}
	return connLine(bk, "none", "-", false, hist)
}

func genC12(rng *rand.Rand, n int, thorough bool, emit func(string)) {
	for i := 0; i < n; i++ {
		switch k := rng.Intn(100); {
		case k < 8:
			emit(genMergeCase(rng))
		case k < 30:
			emit(genFloatCase(rng))
		case k < 75:
			cl := genCtrlCase(rng)
			emit(cl)
			if rng.Intn(3) == 0 {
				emit("G" + cl) // the same for the back-off controller as translated (Gen/Backoff.lean)
			}
		default:
			emit(genC12Conn(rng))
		}
	}
}

// ---------------------------------------------------------------- C13

var regTypes = []string{"", "", "a", "a", "b", "msg", " x", "é", "A", "message"}

func genRegScript(rng *rand.Rand, maxOps int) string {
	var ops []string
	subs := 0
	n := 1 + rng.Intn(maxOps)
	for i := 0; i < n; i++ {
		switch k := rng.Intn(20); {
		case k < 6 || subs == 0 && k < 12:
			ops = append(ops, "s:"+hxs(pick(rng, regTypes...)))
			subs++
		case k < 8:
			ops = append(ops, "a")
			subs++
		case k < 12:
			if subs == 0 {
				ops = append(ops, "u:0") // a remover that does not exist yet: ignored by both sides
			} else {
				ops = append(ops, fmt.Sprintf("u:%d", rng.Intn(subs)))
			}
		case k == 12 && subs > 0:
			// stale remover after re-subscribing the same type
			t := hxs(pick(rng, regTypes...))
			ops = append(ops, "s:"+t, fmt.Sprintf("u:%d", subs), "s:"+t, fmt.Sprintf("u:%d", subs), "e:"+t)
			subs += 2
		default:
			ops = append(ops, "e:"+hxs(pick(rng, regTypes...)))
		}
	}
	return strings.Join(ops, ";")
}

func genC13(rng *rand.Rand, n int, thorough bool, emit func(string)) {
	for i := 0; i < n; i++ {
		k := rng.Intn(1000)
		switch {
		case k < 30 && (thorough || k < 4): // the concurrent variant: a few in the quick tier, 3% in the thorough tier
			emit(fmt.Sprintf("REGC %d %d %d %d", rng.Intn(1000), 1+rng.Intn(5), 1+rng.Intn(4), 20+rng.Intn(200)))
		case k < 150:
			emit("REG " + pick(rng, "c", "w") + " " + genRegScript(rng, 25))
		case k < 400:
			// the same kind of script, judged against the registry functions as translated (Gen/Reset.lean)
			emit("GREG " + pick(rng, "d", "d", "c") + " " + genRegScript(rng, 40))
		default:
			emit("REG d " + genRegScript(rng, 40))
		}
	}
}

func init() {
	generators["C10"] = genC10
	generators["C11"] = genC11
	generators["C12"] = genC12
	generators["C13"] = genC13
}
