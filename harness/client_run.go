package main

// Runners of the client group (C10–C13): the REAL Connection / back-off code is driven by a
// scripted http.RoundTripper replaying an outcome history. Nothing here sleeps for long: the
// generators choose nanosecond intervals or cancel inside OnRetry; a watchdog reports TIMEOUT.

import (
	"context"
	"errors"
	"fmt"
	"io"
	"math/big"
	"net"
	"net/http"
	"runtime"
	"sort"
	"strconv"
	"strings"
	"sync"
	"sync/atomic"
	"time"

	sse "github.com/tmaxmax/go-sse"
)

var (
	errTransport = errors.New("verif: scripted transport error")
	errValidator = errors.New("verif: scripted validator rejection")
	errGetBody   = errors.New("verif: scripted GetBody error")
)

// verdictErr is a validator rejection that describes itself as temporary and/or a timeout (what a net.Error does)
type verdictErr struct{ temp, timeout bool }

func (e *verdictErr) Error() string        { return "verif: scripted validator rejection (self-described)" }
func (e *verdictErr) Is(target error) bool { return target == errValidator }
func (e *verdictErr) Temporary() bool      { return e.temp }
func (e *verdictErr) Timeout() bool        { return e.timeout }

// ---------------------------------------------------------------- floats as exact rationals

func ratToFloat(s string) float64 {
	if s == "nan" {
		var z float64
		return z / z
	}
	r, ok := new(big.Rat).SetString(s)
	if !ok {
		panic("bad rational " + s)
	}
	f, _ := r.Float64()
	return f
}

func floatToRat(f float64) string {
	if f != f {
		return "nan"
	}
	r := new(big.Rat).SetFloat64(f)
	if r == nil {
		return "inf"
	}
	return r.Num().String() + "/" + r.Denom().String()
}

// "ii,mul,jit,maxI,maxE,maxR"
func parseBackoff(s string) sse.Backoff {
	f := strings.Split(s, ",")
	b := sse.Backoff{}
	i64 := func(x string) int64 {
		n, err := strconv.ParseInt(x, 10, 64)
		if err != nil {
			panic("bad int " + x)
		}
		return n
	}
	b.InitialInterval = time.Duration(i64(f[0]))
	b.Multiplier = ratToFloat(f[1])
	b.Jitter = ratToFloat(f[2])
	if len(f) > 3 {
		b.MaxInterval = time.Duration(i64(f[3]))
		b.MaxElapsedTime = time.Duration(i64(f[4]))
		b.MaxRetries = int(i64(f[5]))
	}
	return b
}

func showBackoff(b sse.Backoff) string {
	return fmt.Sprintf("%d,%s,%s,%d,%d,%d", int64(b.InitialInterval), floatToRat(b.Multiplier), floatToRat(b.Jitter),
		int64(b.MaxInterval), int64(b.MaxElapsedTime), b.MaxRetries)
}

// the defaults in force, as a case-line argument (values the properties leave open are parameters)
func defaultsArg() string {
	d := sse.DefaultClient.Backoff
	return fmt.Sprintf("%d,%s,%s", int64(d.InitialInterval), floatToRat(d.Multiplier), floatToRat(d.Jitter))
}

// withDefaults runs f with DefaultClient.Backoff's float/interval defaults set from the case line.
var defaultsMu sync.Mutex

func withDefaults(arg string, f func()) {
	defaultsMu.Lock()
	defer defaultsMu.Unlock()
	old := sse.DefaultClient.Backoff
	d := parseBackoff(arg)
	sse.DefaultClient.Backoff.InitialInterval = d.InitialInterval
	sse.DefaultClient.Backoff.Multiplier = d.Multiplier
	sse.DefaultClient.Backoff.Jitter = d.Jitter
	defer func() { sse.DefaultClient.Backoff = old }()
	f()
}

// ---------------------------------------------------------------- error classes

func clientErrClass(err error) string {
	switch {
	case err == nil:
		return "nil"
	case errors.Is(err, context.Canceled), errors.Is(err, context.DeadlineExceeded):
		return "CTX"
	case errors.Is(err, errTransport):
		return "TRANSPORT"
	case errors.Is(err, errValidator):
		return "VALIDATOR"
	case errors.Is(err, sse.ErrNoGetBody):
		return "NOGETBODY"
	case errors.Is(err, errGetBody):
		return "GETBODY"
	case err == io.EOF:
		return "EOF"
	case errors.Is(err, sse.ErrUnexpectedEOF):
		return "UEOF"
	case errors.Is(err, errRead):
		return "READ"
	}
	return errClass(err)
}

func showRes(err error) string {
	var ce *sse.ConnectionError
	if ce2, ok := err.(*sse.ConnectionError); ok { //nolint:errorlint // the outermost error is what Connect returned
		ce = ce2
		why := "?"
		switch ce.Reason {
		case "request reset failed":
			why = "reset"
		case "connection to server failed":
			why = "conn"
		case "response validation failed":
			why = "valid"
		case "connection to server lost":
			why = "lost"
		}
		return "W:" + why + ":" + clientErrClass(ce.Err)
	}
	return "B:" + clientErrClass(err)
}

// ---------------------------------------------------------------- CONN

type tagBody struct {
	k        int
	consumed bool
}

func (t *tagBody) Read(p []byte) (int, error) {
	if t.consumed {
		return 0, io.EOF
	}
	t.consumed = true
	return copy(p, fmt.Sprintf("B%d", t.k)), io.EOF
}
func (t *tagBody) Close() error { return nil }

// Seek: the body's concrete type can be rewound (an *os.File, a bytes.Reader with a Close method): a retry must
// re-obtain the body through GetBody all the same, and end with ErrNoGetBody where there is none
func (t *tagBody) Seek(offset int64, whence int) (int64, error) {
	if offset == 0 && whence == io.SeekStart {
		t.consumed = false
		return 0, nil
	}
	return 0, errors.New("verif: tagBody: unsupported seek")
}

type pAttempt struct {
	kind, sub byte
	ewl       bool
	cancel    string
	chunks    [][]byte
	bang      bool
}

func parseAttempt(s string) pAttempt {
	p := pAttempt{cancel: "-"}
	if strings.HasPrefix(s, "!") {
		p.bang = true
		s = s[1:]
	}
	p.kind, p.sub = s[0], s[1]
	if p.kind == 'S' {
		f := strings.Split(s, ":")
		p.ewl = strings.Contains(f[0], "w")
		p.cancel = f[1]
		for _, c := range unhxList(f[2]) {
			if len(c) > 0 {
				p.chunks = append(p.chunks, c)
			}
		}
	}
	return p
}

// blockingEnd is a body reader whose end is "the request context was cancelled while the reader
// was blocked": at the end of the scripted chunks it has the context cancelled from another
// goroutine, waits for it, and returns the context's error.
type connReader struct {
	scriptedReader
	blockCtx context.Context
	cancel   context.CancelFunc
}

func (r *connReader) Read(p []byte) (int, error) {
	if r.blockCtx == nil {
		return r.scriptedReader.Read(p)
	}
	if len(r.chunks) == 0 {
		go r.cancel()
		<-r.blockCtx.Done()
		return 0, r.blockCtx.Err()
	}
	last := len(r.chunks) == 1 && len(r.chunks[0]) <= len(p)
	n, err := r.scriptedReader.Read(p)
	if last && r.errWithLast {
		go r.cancel()
		<-r.blockCtx.Done()
		return n, r.blockCtx.Err()
	}
	return n, err
}

// CONN <backoff> <defaults> <body> <hdr> <done0> <history>
func runConn(args []string) (out string) {
	if len(args) != 6 {
		return "bad-args"
	}
	withDefaults(args[1], func() { out = runConnInner(args) })
	return out
}

// errAppCause is why the harness cancels a request's context: Connect reports the context's error, never this
var errAppCause = errors.New("verif: the application is shutting down")

func runConnInner(args []string) string {
	// the request's context has a deadline (an hour away: it never fires — the harness gives up after 20 s) and is
	// cancelled with a cause: what Connect returns for a done context is ctx.Err(), and a deadline that lies beyond
	// the case but before the end of a long wait changes nothing
	dctx, dcancel := context.WithDeadline(context.Background(), time.Now().Add(time.Hour))
	defer dcancel()
	ctx, cancelCause := context.WithCancelCause(dctx)
	cancel := func() { cancelCause(errAppCause) }
	defer cancel()
	var hist []pAttempt
	if args[5] != "-" {
		for _, a := range strings.Split(args[5], ";") {
			hist = append(hist, parseAttempt(a))
		}
	}
	var mu sync.Mutex
	var items []string
	idx, gbCalls, curC, evInAttempt := 0, 0, -1, 0
	var cur pAttempt
	add := func(s string) { items = append(items, s) }

	// warm-up: a first Connect call on the same Connection that fails twice and is then rejected by the validator
	// (nothing dispatched, context still live); whatever it used up must not show in the call that follows
	warm, warmN, warmOnce := false, 0, false
	var rejectedBody *slowBody
	rt := rtFunc(func(r *http.Request) (*http.Response, error) {
		mu.Lock()
		defer mu.Unlock()
		if warm {
			warmN++
			if r.Body != nil && r.Body != http.NoBody {
				_, _ = io.ReadAll(r.Body) // the transport sends the body: it is consumed
			}
			if warmN <= 2 && !warmOnce {
				return nil, errTransport
			}
			return &http.Response{StatusCode: 200, Header: http.Header{"X-Verif-Reject": {"0"}}, Body: io.NopCloser(strings.NewReader("")), Request: r}, nil
		}
		i := idx
		idx++
		// what the request carries
		hdr := "none"
		vals := r.Header.Values("Last-Event-ID")
		n := 0
		for k, v := range r.Header {
			if strings.EqualFold(k, "Last-Event-ID") {
				n += len(v)
			}
		}
		switch {
		case n > 1 || n != len(vals):
			hdr = "multi"
		case n == 1:
			hdr = "h:" + hxs(vals[0])
		}
		body := "nil"
		if r.Body == http.NoBody {
			body = "nobody"
		} else if r.Body != nil {
			b, _ := io.ReadAll(r.Body)
			body = string(b)
			if body == "" {
				if tb, ok := r.Body.(*tagBody); ok {
					body = fmt.Sprintf("B%d:consumed", tb.k)
				} else {
					body = "unknown"
				}
			}
		}
		add(fmt.Sprintf("A %s %s %d", hdr, body, gbCalls))
		cur = pAttempt{kind: 'T', sub: '1', cancel: "-"}
		if i < len(hist) {
			cur = hist[i]
		}
		evInAttempt = 0
		switch cur.kind {
		case 'T':
			if cur.sub == '1' || cur.sub == '3' {
				cancel()
			}
			switch cur.sub {
			case '1':
				return nil, ctx.Err()
			case '2':
				return nil, context.Canceled
			}
			// the flavour of a transport failure follows from the attempt number: plain, a refused dial, a failed read —
			// every one of them is a failed attempt like any other (the body is re-obtained, the header is set)
			switch i % 3 {
			case 1:
				return nil, &net.OpError{Op: "dial", Net: "tcp", Err: errTransport}
			case 2:
				return nil, &net.OpError{Op: "read", Net: "tcp", Err: errTransport}
			}
			return nil, errTransport
		case 'V':
			if cur.sub == '1' {
				cancel()
			}
			// the verdict's flavour (plain, Temporary, Timeout, both, wrapped) follows from the attempt number: every
			// validator error is final whatever it says about itself
			// a rejected response may well be a long-lived stream: its body does not end for a while
			rejectedBody = &slowBody{}
			return &http.Response{StatusCode: 200, Header: http.Header{"X-Verif-Reject": {fmt.Sprint(i % 5)}}, Body: rejectedBody, Request: r}, nil
		}
		if cur.cancel == "b" {
			cancel()
		}
		rd := &connReader{scriptedReader: scriptedReader{chunks: append([][]byte(nil), cur.chunks...), endErr: io.EOF, errWithLast: cur.ewl}}
		switch cur.sub {
		case 'R':
			rd.endErr = readErrFor(cur.chunks)
		case 'K':
			rd.endErr = context.Canceled
		case 'C':
			rd.blockCtx, rd.cancel = ctx, cancel
		}
		return &http.Response{StatusCode: 200, Header: http.Header{}, Body: rd, Request: r}, nil
	})

	client := sse.Client{
		HTTPClient: &http.Client{Transport: rt},
		ResponseValidator: func(r *http.Response) error {
			switch r.Header.Get("X-Verif-Reject") {
			case "":
			case "0":
				return errValidator
			case "1":
				return &verdictErr{temp: true}
			case "2":
				return &verdictErr{timeout: true}
			case "3":
				return &verdictErr{temp: true, timeout: true}
			default:
				return fmt.Errorf("verif: wrapped verdict: %w", &verdictErr{temp: true})
			}
			mu.Lock()
			defer mu.Unlock()
			curC = len(items)
			add("C -")
			return nil
		},
		Backoff: parseBackoff(args[0]),
	}
	client.OnRetry = func(err error, d time.Duration) {
		mu.Lock()
		defer mu.Unlock()
		if warm {
			return
		}
		add(fmt.Sprintf("R %s %d", showRes(err), int64(d)))
		if cur.bang {
			cancel()
		}
	}
	req, _ := http.NewRequestWithContext(ctx, http.MethodPost, "http://verif.invalid/", nil)
	bodyKind := strings.Split(args[2], ":")
	switch bodyKind[0] {
	case "none":
	case "nobody":
		req.Body = http.NoBody
	case "gb", "gbfail":
		failAt := -1
		if bodyKind[0] == "gbfail" {
			failAt = atoi(bodyKind[1])
		}
		req.Body = &tagBody{k: 0}
		req.GetBody = func() (io.ReadCloser, error) {
			mu.Lock()
			defer mu.Unlock()
			k := gbCalls
			gbCalls++
			if k == failAt {
				return nil, errGetBody
			}
			return &tagBody{k: gbCalls}, nil
		}
	case "nogb":
		req.Body = &tagBody{k: 0}
	}
	if strings.HasPrefix(args[3], "h:") {
		// set through an odd spelling: net/http canonicalises the key
		req.Header.Set("last-event-ID", string(unhx(strings.SplitN(args[3][2:], "+", 2)[0])))
	}
	c := client.NewConnection(req)
	// a Connection keeps the configuration it was created with: what is done to the Client value afterwards (reused for
	// another connection, say) is nothing to it
	onRetry := client.OnRetry
	client.Backoff = sse.Backoff{InitialInterval: time.Nanosecond, Multiplier: 1, Jitter: -1, MaxRetries: -1} // (no retries at all)
	client.OnRetry = nil
	client.ResponseValidator = func(*http.Response) error { return errors.New("verif: the validator of a later connection") }
	_ = onRetry
	if i := strings.Index(args[3], "+b:"); i >= 0 {
		// Connection.Buffer with a caller-provided buffer: the same backing array serves every (re)connection
		f := strings.Split(strings.SplitN(args[3][i+3:], "+", 2)[0], ":")
		c.Buffer(make([]byte, 0, atoi(f[0])), atoi(f[1]))
	}
	c.SubscribeToAll(func(e sse.Event) {
		mu.Lock()
		defer mu.Unlock()
		if curC >= 0 {
			if items[curC] == "C -" {
				items[curC] = "C " + showEvent(e)
			} else {
				items[curC] += ";" + showEvent(e)
			}
		}
		evInAttempt++
		if strings.HasPrefix(cur.cancel, "e") && atoi(cur.cancel[1:]) == evInAttempt {
			cancel()
		}
	})
	if args[4] == "1" {
		cancel()
	}
	// (only where it cannot be seen otherwise: no body to rewind, no caller-set Last-Event-ID header — a retry without an
	// ID of its own deletes that header from the connection's request —, waits of microseconds)
	if ii, _ := strconv.ParseInt(strings.Split(args[0], ",")[0], 10, 64); args[4] != "1" && (args[2] == "none" || args[2] == "nobody") &&
		!strings.HasPrefix(args[3], "h:") && !strings.Contains(args[3], "+w") && ii > 0 && ii <= 100_000 && len(args[5])%4 == 1 {
		mu.Lock()
		warm = true
		mu.Unlock()
		_ = c.Connect()
		mu.Lock()
		warm = false
		mu.Unlock()
	}
	// `+w`: an earlier Connect on the same Connection whose only attempt the validator rejected — the call that follows
	// starts with a reconnection: Last-Event-ID as known, the body re-obtained (the model is told: isRetry)
	if strings.Contains(args[3], "+w") {
		mu.Lock()
		warm, warmOnce, warmN = true, true, 0
		mu.Unlock()
		_ = c.Connect()
		mu.Lock()
		warm, warmOnce = false, false
		mu.Unlock()
	}
	done := make(chan error, 1)
	go func() { done <- c.Connect() }()
	var err error
	select {
	case err = <-done:
	case <-time.After(20 * time.Second):
		cancel()
		<-done
		mu.Lock()
		add("TIMEOUT")
		mu.Unlock()
	}
	mu.Lock()
	defer mu.Unlock()
	if rejectedBody != nil && rejectedBody.waited.Load() {
		// "returns at once … when the response validator … fails": Connect sat through the rejected response's body
		add("REJECTION-WAITED-FOR-THE-BODY")
	}
	add("RET " + showRes(err))
	return strings.Join(items, " | ")
}

// slowBody is the body of a response the validator rejects: a stream that stays open for a while
type slowBody struct{ waited atomic.Bool }

func (b *slowBody) Read([]byte) (int, error) {
	time.Sleep(150 * time.Millisecond)
	b.waited.Store(true)
	return 0, io.EOF
}
func (b *slowBody) Close() error { return nil }

// ---------------------------------------------------------------- CTRL / FLOAT / MERGE

// scriptSrc makes rand.Rand.Float64 return exactly v / 2^53 (0 <= v < 2^53): Float64 is
// float64(Int63()) / 2^63.
type scriptSrc struct{ v int64 }

func (s *scriptSrc) Int63() int64 { return s.v << 10 }
func (s *scriptSrc) Seed(int64)   {}

func i64(x string) int64 {
	n, err := strconv.ParseInt(x, 10, 64)
	if err != nil {
		panic("bad int " + x)
	}
	return n
}

// CTRL <backoff> <defaults> <ops>   ops: N:<elapsed>:<draw> | R:<d>
func runCtrl(args []string) (out string) {
	if len(args) != 3 {
		return "bad-args"
	}
	withDefaults(args[1], func() {
		cl := sse.Client{Backoff: parseBackoff(args[0])}
		sse.VerifMergeDefaults(&cl)
		src := &scriptSrc{}
		ctl := sse.VerifNewBackoffController(&cl.Backoff, src)
		var res []string
		if args[2] != "-" {
			for _, o := range strings.Split(args[2], ";") {
				f := strings.Split(o, ":")
				switch f[0] {
				case "N":
					src.v = i64(f[2])
					ctl.SetElapsed(time.Duration(i64(f[1])))
					w, ok := ctl.Next()
					ws := "stop"
					if ok {
						ws = strconv.FormatInt(int64(w), 10)
					} else if w != 0 {
						ws = "stop-with-nonzero"
					}
					res = append(res, fmt.Sprintf("N %s %d %d", ws, int64(ctl.Interval()), ctl.NumRetries()))
				case "R":
					ctl.Reset(time.Duration(i64(f[1])))
					res = append(res, fmt.Sprintf("R %d %d", int64(ctl.Interval()), ctl.NumRetries()))
				default:
					res = append(res, "?")
				}
			}
		}
		out = strings.Join(res, " | ")
	})
	return out
}

// FLOAT g <cur> <maxI> <mul> | FLOAT n <cur> <jit> <draw>
func runFloat(args []string) string {
	if len(args) != 4 {
		return "bad-args"
	}
	switch args[0] {
	case "g":
		return strconv.FormatInt(int64(sse.VerifGrowInterval(time.Duration(i64(args[1])), time.Duration(i64(args[2])), ratToFloat(args[3]))), 10)
	case "n":
		return strconv.FormatInt(int64(sse.VerifNextInterval(ratToFloat(args[2]), &scriptSrc{v: i64(args[3])}, time.Duration(i64(args[1])))), 10)
	}
	return "bad-args"
}

// MERGE <backoff> <defaults>
func runMerge(args []string) (out string) {
	if len(args) != 2 {
		return "bad-args"
	}
	withDefaults(args[1], func() {
		cl := sse.Client{Backoff: parseBackoff(args[0])}
		sse.VerifMergeDefaults(&cl)
		out = showBackoff(cl.Backoff)
		if cl.HTTPClient == nil || cl.ResponseValidator == nil {
			out += " MISSING-DEFAULTS"
		}
	})
	return out
}

// ---------------------------------------------------------------- REG (C13)

// steppedBody hands out one piece per Feed; a Read that finds nothing blocks. Because the parser
// only reads again after it has processed everything it got, "Read was called again" tells the
// script that the previous event has been dispatched completely.
type steppedBody struct {
	feed    chan []byte
	waiting chan struct{}
	pending []byte
}

func (s *steppedBody) Read(p []byte) (int, error) {
	if len(s.pending) == 0 {
		s.waiting <- struct{}{}
		b, ok := <-s.feed
		if !ok {
			return 0, io.EOF
		}
		s.pending = b
	}
	n := copy(p, s.pending)
	s.pending = s.pending[n:]
	return n, nil
}
func (s *steppedBody) Close() error { return nil }

func showRegLog(log [][]int) string {
	if len(log) == 0 {
		return "-"
	}
	parts := make([]string, len(log))
	for i, ids := range log {
		if len(ids) == 0 {
			parts[i] = "_"
			continue
		}
		sort.Ints(ids)
		ss := make([]string, len(ids))
		for j, id := range ids {
			ss[j] = strconv.Itoa(id)
		}
		parts[i] = strings.Join(ss, ",")
	}
	return strings.Join(parts, ";")
}

// REG <mode> <script>; mode d: events through VerifDispatch; mode c: events through a real
// Connect whose body is stepped by the script. script ops: s:<type> a u:<k> e:<type>
func runReg(args []string) string {
	if len(args) != 2 {
		return "bad-args"
	}
	var ops []string
	if args[1] != "-" {
		ops = strings.Split(args[1], ";")
	}
	ctx, cancel := context.WithCancel(context.Background())
	defer cancel()
	body := &steppedBody{feed: make(chan []byte), waiting: make(chan struct{})}
	// mode "w": the stepped stream is the connection's second one; the first was cut inside an event that had already
	// named its type and ID (nothing of it may colour what the callbacks are given afterwards)
	attempts := 0
	client := sse.Client{
		HTTPClient: &http.Client{Transport: rtFunc(func(r *http.Request) (*http.Response, error) {
			if ctx.Err() != nil {
				return nil, ctx.Err()
			}
			attempts++
			if args[0] == "w" && attempts == 1 {
				return &http.Response{StatusCode: 200, Header: http.Header{}, Body: io.NopCloser(strings.NewReader("event: cut-off\nid: cut-off\ndata: x")), Request: r}, nil
			}
			return &http.Response{StatusCode: 200, Header: http.Header{}, Body: body, Request: r}, nil
		})},
		ResponseValidator: sse.NoopValidator,
		Backoff:           sse.Backoff{InitialInterval: time.Hour, Jitter: -1, Multiplier: 1, MaxRetries: -1},
	}
	if args[0] == "w" {
		client.Backoff = sse.Backoff{InitialInterval: time.Millisecond, Jitter: -1, Multiplier: 1, MaxRetries: 1}
	}
	req, _ := http.NewRequestWithContext(ctx, http.MethodGet, "http://verif.invalid/", http.NoBody)
	c := client.NewConnection(req)
	connDone := make(chan error, 1)
	if args[0] == "c" || args[0] == "w" {
		go func() { connDone <- c.Connect() }()
		<-body.waiting
	}
	var mu sync.Mutex
	var log [][]int
	evIdx := -1
	ordOK := true
	lastSeen := map[int]int{}
	var removers []sse.EventCallbackRemover
	var wrongType []string
	armCancel := false
	nEvents := 0
	hbSent := map[int]bool{}
	hbLog := map[int][]int{} // per event index: the callbacks that were given the data-less event sent right before it
	mkcb := func(k int, want *string) sse.EventCallback {
		return func(e sse.Event) {
			mu.Lock()
			defer mu.Unlock()
			if evIdx < 0 {
				ordOK = false
				return
			}
			if e.Data == "" { // (every other event of these scripts has data)
				hbLog[evIdx] = append(hbLog[evIdx], k)
				if want != nil && e.Type != *want {
					wrongType = append(wrongType, fmt.Sprint(k))
				}
				return
			}
			if armCancel {
				// a callback that cancels the request's context while it handles an event: the callbacks still to be
				// called for this event are called all the same
				armCancel = false
				cancel()
			}
			log[evIdx] = append(log[evIdx], k)
			if last, ok := lastSeen[k]; ok && last >= evIdx {
				ordOK = false
			}
			lastSeen[k] = evIdx
			if want != nil && e.Type != *want {
				wrongType = append(wrongType, fmt.Sprint(k))
			}
			if e.Data != fmt.Sprintf("x%d", evIdx) {
				ordOK = false
			}
		}
	}
	for _, o := range ops {
		f := strings.Split(o, ":")
		switch f[0] {
		case "s":
			t := string(unhx(f[1]))
			k := len(removers)
			if t == "" && k%2 == 0 {
				removers = append(removers, c.SubscribeMessages(mkcb(k, &t)))
			} else {
				removers = append(removers, c.SubscribeEvent(t, mkcb(k, &t)))
			}
		case "a":
			removers = append(removers, c.SubscribeToAll(mkcb(len(removers), nil)))
		case "u":
			if k := atoi(f[1]); k < len(removers) {
				removers[k]()
			}
		case "e":
			t := string(unhx(f[1]))
			mu.Lock()
			evIdx = len(log)
			log = append(log, nil)
			data := fmt.Sprintf("x%d", evIdx)
			nEvents++
			if nEvents == 3 && len(ops)%2 == 1 {
				armCancel = true // the third event of every other script: its first callback cancels the context
			}
			mu.Unlock()
			if args[0] == "c" || args[0] == "w" {
				text := "data: " + data + "\n\n"
				if t != "" {
					text = "event: " + t + "\n" + text
				}
				if t != "" && nEvents%4 == 2 {
					// a typed event without data (a heartbeat) right before: dispatched, with its type, to the same callbacks
					mu.Lock()
					hb := fmt.Sprintf("event: %s\n\n", t) // the type is all it has
					hbSent[evIdx] = true
					mu.Unlock()
					text = hb + text
				}
				body.feed <- []byte(text)
				<-body.waiting
			} else {
				c.VerifDispatch(sse.Event{Type: t, Data: data})
			}
		}
	}
	if args[0] == "c" || args[0] == "w" {
		cancel()
		close(body.feed)
		<-connDone
	}
	mu.Lock()
	defer mu.Unlock()
	ord := "ok"
	if !ordOK {
		ord = "bad"
	}
	if len(wrongType) > 0 {
		ord = "wrong-type:" + strings.Join(wrongType, ",")
	}
	// a data-less typed event goes to the callbacks the event after it (same type) goes to
	for i := range hbSent {
		a, b := append([]int(nil), hbLog[i]...), append([]int(nil), log[i]...)
		sort.Ints(a)
		sort.Ints(b)
		if fmt.Sprint(a) != fmt.Sprint(b) {
			ord = fmt.Sprintf("heartbeat-misrouted:event%d:%v-vs-%v", i, a, b)
		}
	}
	return showRegLog(log) + " | ord=" + ord
}

// REGC <seed> <stable> <churners> <events>: the concurrent variant (run under the race detector in
// the thorough tier). `stable` callbacks are subscribed before Connect and never removed; churner
// goroutines subscribe and unsubscribe their own callbacks while events are being dispatched.
// Judged here (the interleaving is not a function of the case):
//   - every stable callback sees exactly the events matching its filter, once each, in stream order;
//   - a churn callback sees matching events at most once each, in order, and none after its remover returned.
func runRegC(args []string) string {
	if len(args) != 4 {
		return "bad-args"
	}
	seed, nStable, nChurn, nEvents := i64(args[0]), atoi(args[1]), atoi(args[2]), atoi(args[3])
	types := []string{"", "a", "b"}
	ctx, cancel := context.WithCancel(context.Background())
	defer cancel()
	var sb strings.Builder
	evTypes := make([]string, nEvents)
	for i := range evTypes {
		evTypes[i] = types[int(seed+int64(i)*7)%len(types)]
		if evTypes[i] != "" {
			sb.WriteString("event: " + evTypes[i] + "\n")
		}
		fmt.Fprintf(&sb, "data: %d\n\n", i)
	}
	served := false
	client := sse.Client{
		HTTPClient: &http.Client{Transport: rtFunc(func(r *http.Request) (*http.Response, error) {
			if served {
				cancel()
				return nil, ctx.Err()
			}
			served = true
			return &http.Response{StatusCode: 200, Header: http.Header{}, Body: io.NopCloser(pacedReader{&scriptedReader{chunks: splitEvery([]byte(sb.String()), 37), endErr: io.EOF}}), Request: r}, nil
		})},
		ResponseValidator: sse.NoopValidator,
		Backoff:           sse.Backoff{InitialInterval: 1, Jitter: -1, Multiplier: 1},
	}
	req, _ := http.NewRequestWithContext(ctx, http.MethodGet, "http://verif.invalid/", http.NoBody)
	c := client.NewConnection(req)
	var bad atomic.Value
	fail := func(s string) { bad.CompareAndSwap(nil, s) }
	type rec struct {
		mu   sync.Mutex
		seen []int
	}
	stable := make([]*rec, nStable)
	filters := make([]int, nStable) // index into types, len(types) = all
	for i := range stable {
		r := &rec{}
		stable[i] = r
		filters[i] = int(seed+int64(i)) % (len(types) + 1)
		cb := func(e sse.Event) {
			r.mu.Lock()
			defer r.mu.Unlock()
			r.seen = append(r.seen, atoi(e.Data))
		}
		if filters[i] == len(types) {
			c.SubscribeToAll(cb)
		} else {
			c.SubscribeEvent(types[filters[i]], cb)
		}
	}
	// the clock: a subscribe-to-all callback registered before Connect counts the events dispatched so far.
	// Subscribing and removing take the write lock, a dispatch holds the read lock throughout, so a callback whose
	// Subscribe returned when the clock read k and whose remover was called after it read k2 must have seen every
	// event of its type with index in [k, k2).
	var clock atomic.Int64
	c.SubscribeToAll(func(e sse.Event) { clock.Store(int64(atoi(e.Data)) + 1) })
	var wg sync.WaitGroup
	stop := make(chan struct{})
	for g := 0; g < 2*nChurn; g++ {
		wg.Add(1)
		go func(g int) {
			defer wg.Done()
			for round := 0; ; round++ {
				select {
				case <-stop:
					return
				default:
				}
				var removed atomic.Bool
				last := -1
				var got []int
				var lmu sync.Mutex
				// goroutines 2j and 2j+1 work on the same filter for 64 rounds: the even one flaps (subscribe, remove at once, so
				// the last callback of a type keeps disappearing), the odd one lingers over an event or two and checks its window
				f := (g/2 + round/64) % (len(types) + 1)
				cb := func(e sse.Event) {
					if removed.Load() {
						fail("callback invoked after its remover returned")
					}
					lmu.Lock()
					defer lmu.Unlock()
					n := atoi(e.Data)
					if n <= last {
						fail("churn callback saw events out of order or twice")
					}
					last = n
					got = append(got, n)
					if f < len(types) && e.Type != types[f] {
						fail("churn callback got an event of another type")
					}
				}
				var rm sse.EventCallbackRemover
				if f == len(types) {
					rm = c.SubscribeToAll(cb)
				} else {
					rm = c.SubscribeEvent(types[f], cb)
				}
				k := clock.Load()
				if g%2 == 1 {
					switch round % 4 {
					case 1:
						time.Sleep(time.Microsecond)
					case 2:
						runtime.Gosched()
					default:
						for spin := 0; spin < 3000 && clock.Load() < k+2; spin++ {
						}
					}
				}
				k2 := clock.Load()
				rm()
				removed.Store(true)
				rm() // repeated remover
				lmu.Lock()
				gi := 0
				for n := int(k); n < int(k2) && n < len(evTypes); n++ {
					if f < len(types) && evTypes[n] != types[f] {
						continue
					}
					for gi < len(got) && got[gi] < n {
						gi++
					}
					if gi >= len(got) || got[gi] != n {
						fail(fmt.Sprintf("a callback subscribed before event %d and removed after event %d never saw event %d of its type", k, k2-1, n))
						break
					}
				}
				lmu.Unlock()
			}
		}(g)
	}
	err := c.Connect()
	close(stop)
	wg.Wait()
	if !errors.Is(err, context.Canceled) {
		fail("Connect returned " + showRes(err))
	}
	for i, r := range stable {
		var want []int
		for n, t := range evTypes {
			if filters[i] == len(types) || types[filters[i]] == t {
				want = append(want, n)
			}
		}
		if fmt.Sprint(want) != fmt.Sprint(r.seen) {
			fail(fmt.Sprintf("stable callback %d saw %v, want %v", i, r.seen, want))
		}
	}
	if b := bad.Load(); b != nil {
		return "bad:" + strings.ReplaceAll(b.(string), " ", "_")
	}
	return "ok"
}

// pacedReader spends a few microseconds per Read, so that the churn goroutines get to work while the stream lasts
type pacedReader struct{ r io.Reader }

func (p pacedReader) Read(b []byte) (int, error) {
	for t0 := time.Now(); time.Since(t0) < 40*time.Microsecond; {
	}
	return p.r.Read(b)
}

func splitEvery(b []byte, n int) [][]byte {
	var out [][]byte
	for len(b) > n {
		out = append(out, b[:n])
		b = b[n:]
	}
	if len(b) > 0 {
		out = append(out, b)
	}
	return out
}

func init() {
	runners["CONN"] = runConn
	runners["CTRL"] = runCtrl
	runners["GCTRL"] = runCtrl // the same run, for backoffController.next / reset as translated (Gen/Backoff.lean)
	runners["FLOAT"] = runFloat
	runners["MERGE"] = runMerge
	runners["REG"] = runReg
	runners["GREG"] = runReg // the same run, judged against the registry functions as translated
	runners["REGC"] = runRegC
}
