package main

// Ops that run the leaf functions of internal/parser directly (through the verif-tag re-exports), for the
// validation of the translator (/verif/translate): the Lean side runs the *generated* definitions
// (GoSSE/Gen) and the hand-written model on the same input.
//
//	GNLI <hex>                     NewlineIndex            → "<index> <length>"
//	GNC <hex>                      NextChunk               → "<chunk> <remaining> <0|1>"
//	GSPLIT <atEOF 0|1> <hex>       splitFunc               → "<advance> <token hex | nil>"
//	GFP <keep 0|1> <bom 0|1> <hex> FieldParser: Reset(data) after the options, then Next until false
//	                                                       → "<name>=<value>,… | <err> | <started>"
//	GSL <hex>                      isSingleLine (as NewID's verdict) → "0|1"

import (
	"bufio"
	"errors"
	"fmt"
	"io"
	"math/rand"
	"strings"

	sse "github.com/tmaxmax/go-sse"
)

func runGNLI(a []string) string {
	if len(a) != 1 {
		return "bad-args"
	}
	i, l := sse.VerifNewlineIndex(string(unhx(a[0])))
	return fmt.Sprintf("%d %d", i, l)
}

func runGNC(a []string) string {
	if len(a) != 1 {
		return "bad-args"
	}
	c, r, h := sse.VerifNextChunk(string(unhx(a[0])))
	return fmt.Sprintf("%s %s %s", hxs(c), hxs(r), b01(h))
}

func runGSPLIT(a []string) string {
	if len(a) != 2 {
		return "bad-args"
	}
	adv, tok, err := sse.VerifSplitFunc(unhx(a[1]), a[0] == "1")
	if err != nil {
		return "ERR " + err.Error()
	}
	t := "nil"
	if tok != nil {
		t = hx(tok)
	}
	return fmt.Sprintf("%d %s", adv, t)
}

func runGFP(a []string) string {
	if len(a) != 3 {
		return "bad-args"
	}
	fp := sse.VerifNewFieldParser("")
	fp.KeepComments(a[0] == "1")
	fp.RemoveBOM(a[1] == "1")
	fp.Reset(string(unhx(a[2])))
	var out []string
	var f sse.VerifField
	for n := 0; fp.Next(&f); n++ {
		out = append(out, hxs(string(f.Name))+"="+hxs(f.Value))
		if n > 1<<20 {
			return "LOOP"
		}
	}
	e := "nil"
	if fp.Err() != nil {
		e = "UEOF"
	}
	fs := "-"
	if len(out) > 0 {
		fs = strings.Join(out, ",")
	}
	return fmt.Sprintf("%s | %s | %s", fs, e, b01(fp.Started()))
}

// GSCAN <cap|-> <max|-> <endErr 0|1> <errWithLast 0|1> <chunks>: bufio.Scanner with go-sse's split function over a
// scripted reader: Scan until false → "<token>,… | <Err class>"
func runGSCAN(a []string) string {
	if len(a) != 5 {
		return "bad-args"
	}
	rd := &scriptedReader{chunks: unhxList(a[4]), endErr: io.EOF, errWithLast: a[3] == "1"}
	var cs [][]byte
	for _, c := range rd.chunks {
		if len(c) > 0 {
			cs = append(cs, c)
		}
	}
	rd.chunks = cs
	if a[2] == "1" {
		rd.endErr = errRead
	}
	sc := bufio.NewScanner(rd)
	sc.Split(sse.VerifSplitFunc)
	if a[0] != "-" {
		sc.Buffer(make([]byte, 0, atoi(a[0])), atoi(a[1]))
	}
	var toks []string
	for n := 0; sc.Scan(); n++ {
		toks = append(toks, hx(sc.Bytes()))
		if n > 1<<20 {
			return "LOOP"
		}
	}
	e := "nil"
	switch err := sc.Err(); {
	case err == nil:
	case errors.Is(err, errRead):
		e = "READ"
	case errors.Is(err, bufio.ErrTooLong):
		e = "TOOLONG"
	default:
		e = "OTHER:" + strings.ReplaceAll(err.Error(), " ", "_")
	}
	t := "-"
	if len(toks) > 0 {
		t = strings.Join(toks, ",")
	}
	return t + " | " + e
}

func runGSL(a []string) string {
	if len(a) != 1 {
		return "bad-args"
	}
	_, err := sse.NewID(string(unhx(a[0])))
	return b01(err == nil)
}

// genGEN: the byte strings of the parser generators (streams, hostile fragments, long lines), one op each
func genGEN(rng *rand.Rand, n int, thorough bool, emit func(string)) {
	for i := 0; i < n; i++ {
		var b []byte
		switch rng.Intn(4) {
		case 0:
			b = []byte(genPayload(rng))
		case 1:
			b = genWireText(rng)
		default:
			k := 1 + rng.Intn(4)
			for j := 0; j < k; j++ {
				b = append(b, []byte(pick(rng, "data: x\n", "data:y\r\n", "\n", "\r", "\r\n", ": c\n", "id: 1\n", "event: e\r", "retry: 5\n",
					"\xEF\xBB\xBF", "data", ":", " ", "x", "id", "\n\n", "\r\r\n", "datax: 1\n", "dat", "a: b: c\n"))...)
			}
		}
		h := hx(b)
		if rng.Intn(5) == 0 {
			// the scanner over a segmented stream, default or configured buffer (limits around the stream's size)
			capS, maxS := "-", "-"
			if rng.Intn(2) == 0 {
				capS = fmt.Sprint(pick(rng, 0, 0, 1, 4, 16, 64, 4096))
				maxS = fmt.Sprint(pick(rng, 0, 1, 2, 5, 8, 16, 33, len(b), len(b)+1, len(b)/2+1, 4096, 65536))
			}
			emit(fmt.Sprintf("GSCAN %s %s %d %d %s", capS, maxS, rng.Intn(2), rng.Intn(2), hxList(segmentStream(rng, b))))
			continue
		}
		switch rng.Intn(6) {
		case 0:
			emit("GNLI " + h)
		case 1:
			emit("GNC " + h)
		case 2, 3:
			emit(fmt.Sprintf("GSPLIT %d %s", rng.Intn(2), h))
		case 4:
			emit(fmt.Sprintf("GFP %d %d %s", rng.Intn(2), rng.Intn(2), h))
		default:
			emit("GSL " + h)
		}
	}
}

func init() {
	runners["GNLI"] = runGNLI
	runners["GNC"] = runGNC
	runners["GSPLIT"] = runGSPLIT
	runners["GFP"] = runGFP
	runners["GSL"] = runGSL
	runners["GSCAN"] = runGSCAN
	// GPARSE <args of PARSE>: the same run of the real code, for event.go's read as translated (the bytes pulled from the
	// reader are not visible through read: masked)
	runners["GPARSE"] = func(a []string) string {
		f := strings.Split(runners["PARSE"](a), " | ")
		if len(f) == 4 {
			f[2] = "-"
		}
		return strings.Join(f, " | ")
	}
	generators["GEN"] = genGEN
}
