package main

import (
	"context"
	"errors"
	"fmt"
	"io"
	"log"
	"math/rand"
	"net"
	"net/http"
	"net/http/httptest"
	"strconv"
	"strings"
	"sync"
	"sync/atomic"
	"time"

	sse "github.com/tmaxmax/go-sse"
)

// ---------------------------------------------------------------------------------------
// C05 end to end: real Server + Joe + replayer behind net/http on loopback, real Client
// connection, a listener that cuts responses, concurrent publishers.
//
//	E2E <replayer> <seed> <nmsgs> <publishers> <plan>
//
// replayer: F | Fa (FiniteReplayer, manual / automatic IDs) | V | Va (ValidReplayer)
// plan:     "-" or ","-joined items, the i-th item applies to the i-th connection the server accepts:
//           c<k>  the connection is closed (FIN) once k bytes of the response (status line, headers,
//                 chunk framing, events) have been written; r<k> the same with a reset (RST, linger 0);
//           h<n>  the handler ends (Subscribe returns) after the n-th Send of that session (n >= 1);
//           n     nothing.
// Connections after the plan are left alone. Payloads and publish timing derive from <seed>.
//
// Output: "ok msgs=.. from=.. received=.. sessions=.. cuts=.. ends=.. resumed=.." or "BAD <what>".
// The oracle: the events seen by the client's callbacks are exactly the published list (in the
// order Joe put it into the replayer) from the first received event on — each once, in order, with
// the published ID, type and data — once the client has caught up with a final sentinel message.

type e2ePlanItem struct {
	kind byte // 'c', 'r', 'h', 'n'
	n    int
}

func parseE2EPlan(s string) ([]e2ePlanItem, bool) {
	if s == "-" || s == "" {
		return nil, true
	}
	var out []e2ePlanItem
	for _, it := range strings.Split(s, ",") {
		if it == "n" {
			out = append(out, e2ePlanItem{kind: 'n'})
			continue
		}
		if len(it) < 2 || !strings.ContainsRune("crh", rune(it[0])) {
			return nil, false
		}
		n, err := strconv.Atoi(it[1:])
		if err != nil || n < 0 || (it[0] == 'h' && n < 1) {
			return nil, false
		}
		out = append(out, e2ePlanItem{kind: it[0], n: n})
	}
	return out, true
}

var errE2ECut = errors.New("verif: connection cut")

// A client that has not received any event yet has no ID to resume from, so whatever is published
// while it reconnects is legitimately missed: the closing sentinel is re-published (as one more
// ordinary message) until the client has seen the latest one.
const (
	e2eMaxWarm       = 100
	e2eMaxSentinels  = 600 // x 30 ms: patience under heavy machine load; only a failing run waits that long
	e2eSentinelData  = "verif-sentinel-"
	e2eSentinelPause = 30 * time.Millisecond
)

// cutConn closes the connection once `budget` response bytes have been written.
type cutConn struct {
	net.Conn
	item    e2ePlanItem
	written int
	cut     bool
	cuts    *atomic.Int64
}

func (c *cutConn) Write(p []byte) (int, error) {
	if c.item.kind != 'c' && c.item.kind != 'r' {
		return c.Conn.Write(p)
	}
	if c.cut {
		return 0, errE2ECut
	}
	if c.written+len(p) <= c.item.n {
		n, err := c.Conn.Write(p)
		c.written += n
		return n, err
	}
	n := c.item.n - c.written
	if n > 0 {
		m, _ := c.Conn.Write(p[:n])
		c.written += m
		n = m
	}
	c.cut = true
	c.cuts.Add(1)
	if c.item.kind == 'r' {
		if tc, ok := c.Conn.(*net.TCPConn); ok {
			_ = tc.SetLinger(0)
		}
	}
	_ = c.Conn.Close()
	return n, errE2ECut
}

type cutListener struct {
	net.Listener
	plan     []e2ePlanItem
	accepted int
	cuts     *atomic.Int64
}

func (l *cutListener) Accept() (net.Conn, error) {
	c, err := l.Listener.Accept()
	if err != nil {
		return nil, err
	}
	item := e2ePlanItem{kind: 'n'}
	if l.accepted < len(l.plan) {
		item = l.plan[l.accepted]
	}
	l.accepted++
	return &cutConn{Conn: c, item: item, cuts: l.cuts}, nil
}

type e2eCtxKey struct{}

// endingProvider makes Subscribe return after the n-th Send of a session (plan item h<n>).
type endingProvider struct {
	sse.Provider
	sessions atomic.Int64
	ends     atomic.Int64
	resumed  atomic.Int64
	first    chan struct{}
	once     sync.Once
}

type countingWriter struct {
	sse.MessageWriter
	left   int
	cancel context.CancelFunc
	ends   *atomic.Int64
}

func (w *countingWriter) Send(m *sse.Message) error {
	err := w.MessageWriter.Send(m)
	if w.left > 0 {
		w.left--
		if w.left == 0 {
			// make what was sent reach the client, then end the handler
			if err == nil {
				_ = w.MessageWriter.Flush()
			}
			w.ends.Add(1)
			w.cancel()
		}
	}
	return err
}

func (p *endingProvider) Subscribe(ctx context.Context, sub sse.Subscription) error {
	p.sessions.Add(1)
	if sub.LastEventID.IsSet() {
		p.resumed.Add(1)
	}
	p.once.Do(func() { close(p.first) })
	if item, ok := ctx.Value(e2eCtxKey{}).(e2ePlanItem); ok && item.kind == 'h' {
		cctx, cancel := context.WithCancel(ctx)
		defer cancel()
		sub.Client = &countingWriter{MessageWriter: sub.Client, left: item.n, cancel: cancel, ends: &p.ends}
		ctx = cctx
	}
	return p.Provider.Subscribe(ctx, sub)
}

// recReplayer records, in Joe's order, the messages as stored (with their final IDs).
type recReplayer struct {
	sse.Replayer
	mu   sync.Mutex
	log  []*sse.Message
	said []string // what each stored message said when it was handed to Put (its wire form then, before an ID was generated)
}

func (r *recReplayer) Put(m *sse.Message, topics []string) (*sse.Message, error) {
	txt := m.String()
	out, err := r.Replayer.Put(m, topics)
	if err == nil && out != nil {
		r.mu.Lock()
		r.log = append(r.log, out)
		r.said = append(r.said, txt)
		r.mu.Unlock()
	}
	return out, err
}

// specEvent: the event a conforming client makes of one message's wire form, by the WHATWG algorithm written out here
// (not through the library's own reader): lines end at CRLF, CR or LF; a line starting with ':' is a comment; the field
// name ends at the first ':', one leading space of the value is dropped; data lines are joined with LF
func specEvent(text, id string) sse.Event {
	var data []string
	typ := ""
	line := func(l string) {
		if l == "" || l[0] == ':' {
			return
		}
		name, val := l, ""
		if i := strings.IndexByte(l, ':'); i >= 0 {
			name, val = l[:i], l[i+1:]
			val = strings.TrimPrefix(val, " ")
		}
		switch name {
		case "data":
			data = append(data, val)
		case "event":
			typ = val
		}
	}
	start := 0
	for i := 0; i < len(text); i++ {
		switch text[i] {
		case '\n':
			line(text[start:i])
			start = i + 1
		case '\r':
			line(text[start:i])
			if i+1 < len(text) && text[i+1] == '\n' {
				i++
			}
			start = i + 1
		}
	}
	return sse.Event{LastEventID: id, Type: typ, Data: strings.Join(data, "\n")}
}

var e2ePayloads = []string{"x", "hello world", "a\nb", "a\r\nb\rc", "", "\n", "é日本", "data: y", "id: 99", ": not a comment", "  spaced  ",
	"retry: 5", "event: z", "\x00nul", "a:b:c", strings.Repeat("long ", 40), "{\"k\":[1,2,3]}", "trailing\n", "\nleading",
	// lone CRs and no LF at all (a progress line): each CR ends a line
	"10%\r55%\r100%", "x\rid: 1", "\r", "cr at the end\r"}

// big: the message is padded so that its event is about as long as the client's initial scanner buffer (4096 bytes):
// the buffer then ends inside the event's closing line breaks, or a byte either side of them
func e2eMessage(rng *rand.Rand, autoIDs bool, seq int, big bool) *sse.Message {
	m := &sse.Message{}
	if !autoIDs {
		m.ID = sse.ID(pick(rng, "m", "id ", "é", "#") + strconv.Itoa(seq))
	}
	if rng.Intn(3) == 0 {
		m.Type = sse.Type(pick(rng, "ping", "update", "message", "t y p e", "é"))
	}
	if rng.Intn(8) == 0 {
		m.Retry = time.Duration(1+rng.Intn(2)) * time.Millisecond
	}
	if rng.Intn(6) == 0 {
		m.AppendComment(pick(rng, "keep-alive", "c\nd", ""))
	}
	n := pick(rng, 0, 1, 1, 1, 2, 3)
	for i := 0; i < n; i++ {
		m.AppendData(pick(rng, e2ePayloads...))
	}
	if big {
		cur := len(m.String())
		if autoIDs {
			cur += len("id: \n") + len(strconv.Itoa(seq+1))
		}
		// … as one long line, or (every other one) as 8–14 lines, some of them three times the size: an event of many lines
		// that does not fit the server's write buffers is written out — and can fail — inside Send, not only at Flush
		target := 4097 + pick(rng, 0, 0, 0, -1, 1, 2)
		k := 1
		if rng.Intn(2) == 0 {
			k = 8 + rng.Intn(7)
			if rng.Intn(3) == 0 {
				target *= 3
			}
		}
		if pad := target - cur - k*len("data: \n"); pad >= k {
			lines := make([]string, k)
			for i := range lines {
				n := pad / k
				if i == k-1 {
					n = pad - (k-1)*(pad/k)
				}
				lines[i] = strings.Repeat(string(rune('a'+i%26)), n)
			}
			m.AppendData(strings.Join(lines, "\n"))
		}
	}
	return m
}

// expectedEvents: what a conforming reader makes of the stored message.
func expectedEvents(m *sse.Message) []sse.Event {
	var evs []sse.Event
	sse.Read(strings.NewReader(m.String()), nil)(func(e sse.Event, err error) bool {
		if err == nil {
			evs = append(evs, e)
		}
		return err == nil
	})
	return evs
}

func showE2EEvent(e sse.Event) string {
	return fmt.Sprintf("(%s|%s|%s)", hxs(e.LastEventID), hxs(e.Type), hxs(e.Data))
}

// runE2E appends, to the verdict of the Go-side oracle, the observation the Lean specification judges:
// the IDs of the published events (in the order Joe stored them) and of the events the client dispatched.
func runE2E(args []string) string {
	e2eObs = ""
	v := runE2Einner(args)
	return v + e2eObs
}

var e2eObs string

func idsOf(evs []sse.Event) string {
	if len(evs) == 0 {
		return "-"
	}
	parts := make([]string, len(evs))
	for i, e := range evs {
		parts[i] = hxs(e.LastEventID)
	}
	return strings.Join(parts, ",")
}

func runE2Einner(args []string) string {
	if len(args) != 5 {
		return "bad-args"
	}
	var autoIDs, valid bool
	switch args[0] {
	case "F":
	case "Fa":
		autoIDs = true
	case "V":
		valid = true
	case "Va":
		valid, autoIDs = true, true
	default:
		return "bad-args"
	}
	seed, err1 := strconv.ParseInt(args[1], 10, 64)
	nmsgs, err2 := strconv.Atoi(args[2])
	npub, err3 := strconv.Atoi(args[3])
	plan, ok := parseE2EPlan(args[4])
	if err1 != nil || err2 != nil || err3 != nil || !ok || nmsgs < 0 || nmsgs > 2000 || npub < 1 || npub > 16 {
		return "bad-args"
	}
	rng := rand.New(rand.NewSource(seed))
	// one scenario in five publishes events of about 4 KiB (the client's initial buffer size); its cut offsets past the
	// response head are scaled to lie across several of them
	bigMode := seed%5 == 0
	if bigMode {
		for i := range plan {
			if (plan[i].kind == 'c' || plan[i].kind == 'r') && plan[i].n > e2eHeadLen+6 {
				plan[i].n = e2eHeadLen + (plan[i].n-e2eHeadLen)*23
			}
		}
	}

	var inner sse.Replayer
	var err error
	if valid {
		inner, err = sse.NewValidReplayer(time.Minute, autoIDs)
	} else {
		inner, err = sse.NewFiniteReplayer(nmsgs+e2eMaxWarm+e2eMaxSentinels+8, autoIDs)
	}
	if err != nil {
		return "BAD replayer: " + err.Error()
	}
	rec := &recReplayer{Replayer: inner}
	joe := &sse.Joe{Replayer: rec}
	prov := &endingProvider{Provider: joe, first: make(chan struct{})}
	server := &sse.Server{Provider: prov}
	// topic mode, from the case's seed: no OnSession (default topic) | OnSession approving without topics |
	// OnSession choosing its own topic, on which everything is then published
	var pubTopics []string
	switch seed % 3 {
	case 1:
		server.OnSession = func(http.ResponseWriter, *http.Request) ([]string, bool) { return nil, true }
	case 2:
		pubTopics = []string{"news"}
		server.OnSession = func(http.ResponseWriter, *http.Request) ([]string, bool) { return []string{"news"}, true }
	}

	var cuts atomic.Int64
	ts := httptest.NewUnstartedServer(server)
	ts.Listener = &cutListener{Listener: ts.Listener, plan: plan, cuts: &cuts}
	ts.Config.ConnContext = func(ctx context.Context, c net.Conn) context.Context {
		if cc, ok := c.(*cutConn); ok {
			return context.WithValue(ctx, e2eCtxKey{}, cc.item)
		}
		return ctx
	}
	ts.Config.ErrorLog = log.New(io.Discard, "", 0)
	ts.Start()

	ctx, cancel := context.WithCancel(context.Background())
	var mu sync.Mutex
	var received []sse.Event
	gotSentinel := make(chan string, e2eMaxSentinels+1)
	req, _ := http.NewRequestWithContext(ctx, http.MethodGet, ts.URL, http.NoBody)
	client := &sse.Client{
		HTTPClient: &http.Client{Transport: &http.Transport{DisableKeepAlives: true}},
		Backoff:    sse.Backoff{InitialInterval: time.Millisecond, Multiplier: 1, Jitter: -1, MaxInterval: 2 * time.Millisecond},
	}
	if seed%4 == 1 {
		client.Backoff.MaxRetries = -1 // (the caller's own reconnection loop, below)
	}
	conn := client.NewConnection(req)
	conn.SubscribeToAll(func(e sse.Event) {
		mu.Lock()
		received = append(received, e)
		mu.Unlock()
		if strings.HasPrefix(e.Data, e2eSentinelData) {
			gotSentinel <- e.Data
		}
	})
	connectDone := make(chan error, 1)
	if seed%4 == 1 {
		// the caller's own reconnection loop: no built-in retries, Connect is called again on the same Connection after
		// every return (it resumes from the last event it dispatched, as a retry of its own would)
		go func() {
			for {
				err := conn.Connect()
				if ctx.Err() != nil {
					connectDone <- err
					return
				}
				time.Sleep(time.Millisecond)
			}
		}()
	} else {
		go func() { connectDone <- conn.Connect() }()
	}

	cleanup := func() {
		cancel()
		select {
		case <-connectDone:
		case <-time.After(2 * time.Second):
		}
		sctx, scancel := context.WithTimeout(context.Background(), 2*time.Second)
		_ = joe.Shutdown(sctx)
		scancel()
		ts.CloseClientConnections()
		ts.Close()
		if t, ok := client.HTTPClient.Transport.(*http.Transport); ok {
			t.CloseIdleConnections()
		}
	}

	// let the first session reach the provider (it may be cut before: then just go on)
	select {
	case <-prov.first:
	case <-time.After(100 * time.Millisecond):
	}

	// warm-up: publish until the client holds an event (and so an ID to resume from); whatever it
	// misses before that is outside the property
	nwarm := 0
	for ; nwarm < e2eMaxWarm; nwarm++ {
		mu.Lock()
		n := len(received)
		mu.Unlock()
		if n > 0 {
			break
		}
		if err := server.Publish(e2eMessage(rng, autoIDs, 1000000+nwarm, false), pubTopics...); err != nil {
			cleanup()
			return "BAD publish warm-up: " + err.Error()
		}
		time.Sleep(3 * time.Millisecond)
	}

	// concurrent publishers; payloads are drawn up front from the one PRNG
	msgs := make([]*sse.Message, nmsgs)
	pauses := make([]time.Duration, nmsgs)
	// one scenario in seven builds its events from a shared template (three data lines: spare capacity for a fourth):
	// Clone, one more data line, the ID — what each event says when it is built is what must be published
	relayMode := autoIDs && !bigMode && seed%6 == 2
	relay := &sse.Message{}
	var relayMu sync.Mutex
	tmplMode := !bigMode && seed%7 == 3
	template := &sse.Message{}
	template.AppendData("template line 1", "template line 2", "template line 3")
	texts := make([]string, nmsgs)
	for i := range msgs {
		if tmplMode {
			m := template.Clone()
			m.AppendData(fmt.Sprintf("payload-%d", i))
			if !autoIDs {
				m.ID = sse.ID("t" + strconv.Itoa(i))
			}
			msgs[i] = m
		} else {
			msgs[i] = e2eMessage(rng, autoIDs, i, bigMode)
		}
		texts[i] = msgs[i].String()
		pauses[i] = time.Duration(rng.Intn(400)) * time.Microsecond
	}
	var wg sync.WaitGroup
	var pubErr atomic.Value
	for p := 0; p < npub; p++ {
		wg.Add(1)
		go func(p int) {
			defer wg.Done()
			for i := p; i < nmsgs; i += npub {
				time.Sleep(pauses[i])
				if now := msgs[i].String(); now != texts[i] {
					pubErr.Store(fmt.Sprintf("event %d no longer says what it said when it was built: %q, built as %q", i, now, texts[i]))
					return
				}
				toPublish := msgs[i]
				if relayMode {
					// a relay: every event is decoded into one reused Message and published from there (with automatic IDs
					// the replayer keeps a copy of its own)
					relayMu.Lock()
					if err := relay.UnmarshalText([]byte(texts[i])); err == nil {
						toPublish = relay
					} // (a message without any field has no text to decode: it is published as it is)
				}
				err := server.Publish(toPublish, pubTopics...)
				if relayMode {
					relayMu.Unlock()
				}
				if err != nil {
					pubErr.Store(fmt.Sprintf("publish %d: %v", i, err))
					return
				}
			}
		}(p)
	}
	wg.Wait()
	if e := pubErr.Load(); e != nil {
		cleanup()
		return "BAD " + e.(string)
	}
	verdict := "BAD timeout: the client never caught up (events lost?)"
	nsent := 0
wait:
	for j := 0; j < e2eMaxSentinels; j++ {
		sentinel := &sse.Message{}
		if !autoIDs {
			sentinel.ID = sse.ID("sentinel" + strconv.Itoa(j))
		}
		data := e2eSentinelData + strconv.Itoa(j)
		sentinel.AppendData(data)
		if err := server.Publish(sentinel, pubTopics...); err != nil {
			verdict = "BAD publish sentinel: " + err.Error()
			break
		}
		nsent++
		deadline := time.After(e2eSentinelPause)
		for {
			select {
			case d := <-gotSentinel:
				if d == data {
					verdict = ""
					break wait
				}
				continue
			case err := <-connectDone:
				connectDone <- err
				verdict = "BAD Connect returned before catching up: " + strings.ReplaceAll(fmt.Sprint(err), "\n", " ")
				break wait
			case <-deadline:
			}
			break
		}
	}
	cleanup()

	mu.Lock()
	got := append([]sse.Event(nil), received...)
	mu.Unlock()
	rec.mu.Lock()
	stored := append([]*sse.Message(nil), rec.log...)
	said := append([]string(nil), rec.said...)
	rec.mu.Unlock()

	// what must arrive: for every stored message the event of what it said when it was published, under the ID it was
	// stored with — worked out by specEvent, not by the library's own reader
	var want []sse.Event
	for i, m := range stored {
		want = append(want, specEvent(said[i], m.ID.String()))
	}
	e2eObs = " ## pub=" + idsOf(want) + " ## got=" + idsOf(got)
	stats := fmt.Sprintf("msgs=%d received=%d sessions=%d cuts=%d ends=%d resumed=%d", len(stored), len(got), prov.sessions.Load(), cuts.Load(), prov.ends.Load(), prov.resumed.Load())
	if verdict != "" {
		return verdict + " " + stats
	}
	if len(stored) != nmsgs+nwarm+nsent {
		return fmt.Sprintf("BAD replayer stored %d of %d messages %s", len(stored), nmsgs+nwarm+nsent, stats)
	}
	if len(got) == 0 {
		return "BAD nothing received " + stats
	}
	from := -1
	for i, w := range want {
		if w.LastEventID == got[0].LastEventID {
			from = i
			break
		}
	}
	if from < 0 {
		return "BAD first received event was never published: " + showE2EEvent(got[0]) + " " + stats
	}
	exp := want[from:]
	for i := 0; i < len(got) || i < len(exp); i++ {
		switch {
		case i >= len(exp):
			return fmt.Sprintf("BAD extra event #%d %s (duplicate or reordered) from=%d %s", i, showE2EEvent(got[i]), from, stats)
		case i >= len(got):
			return fmt.Sprintf("BAD lost event #%d %s from=%d %s", i, showE2EEvent(exp[i]), from, stats)
		case got[i] != exp[i]:
			return fmt.Sprintf("BAD event #%d is %s, published %s from=%d %s", i, showE2EEvent(got[i]), showE2EEvent(exp[i]), from, stats)
		}
	}
	return fmt.Sprintf("ok from=%d %s", from, stats)
}

func init() { runners["E2E"] = runE2E }
