package main

import (
	"fmt"
	"math/rand"
	"strings"
)

var hostileFrags = []string{"\n", "\n", "\n", "\r", "\r\n", ":", ": ", " ", "data", "data", "data: ", "data:", "id", "id: ", "event", "event: ", "retry", "retry: ", "x", "yz", "0", "17", "+", "-", "\x00", "\xEF\xBB\xBF", "\xEF", "\xBB\xBF", "datax", "dat", "i", "é", "\xff", "\n\n", "\r\r", "\r\n\r\n", "9223372036854775807", "9223372036854775808", " x", "retry: +5\n", "retry: -0\n", "Data: ", "id : ", "  ", "a:b:c", "012345:", "01234:", "\t"}

var nls = []string{"\n", "\n", "\n", "\r\n", "\r"}
var words = []string{"x", "hello", "a b", " lead", "trail ", "a:b", ":c", "é", "日本", "0", "", "", "data: x", "id: 7", "\xff\xfe", "\x00", "with\ttab", "42"}
var idvals = []string{"1", "2", "abc", "", "a\x00b", "007", "é", " sp"}
var retryvals = []string{"0", "5", "1500", "+5", "-0", "-3", "", "1e3", "9223372036854775807", "9223372036854775808", "9223372036855", "12 ", " 12", "１２", "0x10"}

func genEventText(rng *rand.Rand) string {
	var sb strings.Builder
	nl := func() string { return nls[rng.Intn(len(nls))] }
	nf := 1 + rng.Intn(4)
	for i := 0; i < nf; i++ {
		sep := pick(rng, ": ", ": ", ":", ":  ")
		switch rng.Intn(10) {
		case 0, 1, 2, 3:
			sb.WriteString("data" + sep + pick(rng, words...) + nl())
		case 4:
			sb.WriteString("event" + sep + pick(rng, words...) + nl())
		case 5:
			sb.WriteString("id" + sep + pick(rng, idvals...) + nl())
		case 6:
			sb.WriteString("retry" + sep + pick(rng, retryvals...) + nl())
		case 7:
			sb.WriteString(":" + pick(rng, words...) + nl())
		case 8:
			sb.WriteString(pick(rng, "data", "event", "id", "retry", "foo", "dat", "datax") + nl())
		case 9:
			sb.WriteString(pick(rng, "foo", "Data", " data", "data ", "ids", "retr") + sep + pick(rng, words...) + nl())
		}
	}
	return sb.String()
}

func genStream(rng *rand.Rand) []byte {
	var sb strings.Builder
	if rng.Intn(100) < 70 {
		// mostly well-formed
		if rng.Intn(12) == 0 {
			sb.WriteString("\xEF\xBB\xBF")
		}
		if rng.Intn(10) == 0 {
			sb.WriteString(strings.Repeat(pick(rng, nls...), 1+rng.Intn(2)))
			if rng.Intn(3) == 0 {
				sb.WriteString("\xEF\xBB\xBF")
			}
		}
		ne := rng.Intn(5)
		for i := 0; i < ne; i++ {
			sb.WriteString(genEventText(rng))
			// blank line(s)
			k := 1
			if rng.Intn(6) == 0 {
				k = 1 + rng.Intn(3)
			}
			for j := 0; j < k; j++ {
				sb.WriteString(pick(rng, nls...))
			}
			if rng.Intn(25) == 0 {
				sb.WriteString("\xEF\xBB\xBF")
			}
		}
		switch rng.Intn(8) {
		case 0: // unterminated trailing event
			sb.WriteString(genEventText(rng))
		case 1: // mid-line end
			t := genEventText(rng)
			sb.WriteString(t[:rng.Intn(len(t))])
		case 2: // trailing comment / unknown field, no blank line
			sb.WriteString(pick(rng, ": bye\n", "foo: bar\n", "\n", "\r", "\r\n"))
		}
	} else {
		n := rng.Intn(14)
		for i := 0; i < n; i++ {
			sb.WriteString(hostileFrags[rng.Intn(len(hostileFrags))])
		}
	}
	return []byte(sb.String())
}

// segmentation with cuts forced inside CRLF, BOM and multi-byte runes for mode 3
func segmentStream(rng *rand.Rand, s []byte) [][]byte {
	if len(s) > 600 {
		// long streams: a few cuts only (both sides rescan from the token start on every read)
		var out [][]byte
		k := 1 + rng.Intn(6)
		for i := 0; i < k && len(s) > 1; i++ {
			c := 1 + rng.Intn(len(s)-1)
			if rng.Intn(2) == 0 && c > 4 {
				c = len(s) - 1 - rng.Intn(4)
			}
			out = append(out, s[:c])
			s = s[c:]
		}
		return append(out, s)
	}
	mode := rng.Intn(4)
	if mode < 3 {
		return splitRandom(rng, s, mode)
	}
	var out [][]byte
	last := 0
	for i := 1; i < len(s); i++ {
		cut := false
		if s[i-1] == '\r' && s[i] == '\n' {
			cut = true
		} else if s[i] >= 0x80 && s[i-1] >= 0x80 {
			cut = rng.Intn(2) == 0
		} else if (s[i-1] == '\n' || s[i-1] == '\r') && rng.Intn(3) == 0 {
			cut = true
		}
		if cut {
			out = append(out, s[last:i])
			last = i
		}
	}
	if last < len(s) {
		out = append(out, s[last:])
	}
	return out
}

func parseCaseLine(conn, endErr, ewl bool, cfg, stop string, chunks [][]byte) string {
	if conn && strings.HasPrefix(cfg, "c:") && (len(cfg)+len(chunks))%2 == 0 {
		cfg += ":w" // the stream goes to the connection's second attempt: Connection.Buffer holds for every attempt
	}
	return fmt.Sprintf("PARSE %s %s %s %s %s - %s", b01(conn), b01(endErr), b01(ewl), cfg, stop, hxList(chunks))
}

func genCfg(rng *rand.Rand, conn bool, small bool) string {
	if !small {
		if rng.Intn(4) != 0 {
			return "-"
		}
		if conn {
			return pick(rng, "c:n:0", "c:n:-1", "c:n:65536", "c:100:0", "c:0:4096", "c:n:100000")
		}
		return pick(rng, "r:0", "r:-5", "r:65536", "r:4096", "r:100000")
	}
	lim := 1 + rng.Intn(24)
	if conn {
		switch rng.Intn(4) {
		case 0:
			return fmt.Sprintf("c:n:%d", lim)
		case 1:
			return fmt.Sprintf("c:%d:0", lim)
		case 2:
			return fmt.Sprintf("c:%d:%d", 1+rng.Intn(24), lim)
		default:
			return fmt.Sprintf("c:0:%d", lim)
		}
	}
	return fmt.Sprintf("r:%d", lim)
}

// a long stream around a buffer boundary: filler event(s) then normal tail
func genLongStream(rng *rand.Rand, around int) []byte {
	var sb strings.Builder
	if rng.Intn(3) == 0 {
		sb.WriteString(genEventText(rng) + "\n")
	}
	// one event whose total size is around the boundary
	target := around + rng.Intn(7) - 3
	if target < 8 {
		target = 8
	}
	head := pick(rng, "data: ", ": ", "id: ", "foo", "data: a\ndata: ")
	end := pick(rng, "\n\n", "\r\n\r\n", "\r\r", "\n\r\n", "\r\n\n")
	fill := target - len(head) - len(end)
	if fill < 0 {
		fill = 0
	}
	sb.WriteString(head)
	if rng.Intn(4) == 0 && target < 5000 {
		// many short lines instead of one long one
		for sb.Len() < target-len(end) {
			sb.WriteString("data: y\n")
		}
	} else {
		sb.WriteString(strings.Repeat("z", fill))
	}
	sb.WriteString(end)
	if rng.Intn(2) == 0 {
		sb.WriteString(genEventText(rng) + pick(rng, "\n", "", "\r\n"))
	}
	return []byte(sb.String())
}

func genC01(rng *rand.Rand, n int, thorough bool, emit func(string)) {
	for i := 0; i < n; i++ {
		conn := rng.Intn(2) == 0
		endErr := rng.Intn(4) == 0
		ewl := endErr && rng.Intn(3) == 0 || !endErr && rng.Intn(12) == 0
		var s []byte
		cfg := "-"
		switch k := rng.Intn(400); {
		case k == 0:
			around := pick(rng, 4096, 4096, 8192, 65536)
			s = genLongStream(rng, around)
		case k < 8:
			lim := pick(rng, 100, 300, 1000)
			s = genLongStream(rng, lim)
			if conn {
				cfg = fmt.Sprintf("c:n:%d", lim)
			} else {
				cfg = fmt.Sprintf("r:%d", lim)
			}
		default:
			s = genStream(rng)
			cfg = genCfg(rng, conn, rng.Intn(6) == 0)
		}
		chunks := segmentStream(rng, s)
		stop := "-"
		if !conn && rng.Intn(6) == 0 {
			stop = fmt.Sprint(1 + rng.Intn(4))
		}
		line := parseCaseLine(conn, endErr, ewl, cfg, stop, chunks)
		emit(line)
		if i%8 == 3 {
			// the same run for event.go's read as translated (Gen/Event.lean) over the model's parser
			emit("G" + line)
		}
	}
}

// C20: sizes around the limits, endless lines, endless blank/comment runs
func genC20(rng *rand.Rand, n int, thorough bool, emit func(string)) {
	for i := 0; i < n; i++ {
		if i%25 == 7 {
			// one event of 4 to 20 KiB, far below the limit, handed over whole (every other one through a reader that
			// knows its length), with or without the line break / blank line at its end, a BOM or blank lines before it
			size := 4090 + rng.Intn(16000)
			ev := pick(rng, "", "\n\n", "\xEF\xBB\xBF") + "data: " + strings.Repeat("z", size) + pick(rng, "", "\n", "\n\n")
			emit(parseCaseLine(false, false, false, pick(rng, "-", "-", "r:65536", "r:100000"), "-", [][]byte{[]byte(ev)}))
			continue
		}
		if i%25 == 19 {
			// Connection.Buffer(nil, max) with a maximum that means "no limit": nothing is allocated for it up front
			ev := "data: " + strings.Repeat("y", 5+rng.Intn(70000)) + "\n\n"
			s := []byte("data: first\n\n" + ev)
			cfg := "c:n:" + pick(rng, "1125899906842624", "4611686018427387903", "9223372036854775807")
			emit(parseCaseLine(true, false, false, cfg, "-", segmentStream(rng, s)))
			continue
		}
		conn := rng.Intn(2) == 0
		endErr := rng.Intn(5) == 0
		ewl := rng.Intn(8) == 0
		var s []byte
		cfg := "-"
		lim := 65536
		switch k := rng.Intn(300); {
		case k == 0: // default limit
			lim = 65536
		case k < 6:
			lim = 4096
		default:
			lim = 2 + rng.Intn(300)
		}
		if lim != 65536 || rng.Intn(2) == 0 {
			if conn {
				switch rng.Intn(3) {
				case 0:
					cfg = fmt.Sprintf("c:n:%d", lim)
				case 1:
					cfg = fmt.Sprintf("c:%d:%d", lim, rng.Intn(lim+1))
				default:
					cfg = fmt.Sprintf("c:%d:%d", rng.Intn(lim+1), lim)
				}
			} else {
				cfg = fmt.Sprintf("r:%d", lim)
			}
		}
		switch rng.Intn(7) {
		case 0: // endless line
			s = []byte(pick(rng, "data: ", "", ": ", "foo") + strings.Repeat("q", lim+rng.Intn(lim+2)))
		case 1: // endless blank lines
			s = []byte(strings.Repeat(pick(rng, "\n", "\r\n", "\r"), lim/2+rng.Intn(lim+2)))
		case 2: // endless comments
			s = []byte(strings.Repeat(": c\n", lim/4+rng.Intn(lim/2+2)))
		case 3: // endless event of short lines
			if lim > 5000 {
				s = []byte(strings.Repeat("data: "+strings.Repeat("y", 1000)+"\n", lim/1000+rng.Intn(4)))
			} else {
				s = []byte(strings.Repeat("data: y\n", lim/8+rng.Intn(lim/4+2)))
			}
		default:
			around := lim + rng.Intn(9) - 4
			s = genLongStream(rng, around)
			if rng.Intn(3) == 0 {
				s = append(genLongStream(rng, around), s...)
			}
		}
		chunks := segmentStream(rng, s)
		emit(parseCaseLine(conn, endErr, ewl, cfg, "-", chunks))
	}
}

// genC01X: exhaustive small scope (thorough tier only) — every string of up to 6 symbols over a small
// alphabet of macros, each delivered whole, byte-wise and with every single cut point, ended by EOF and by an
// error, through Read. n and the PRNG are ignored: the space is enumerated completely.
func genC01X(rng *rand.Rand, n int, thorough bool, emit func(string)) {
	syms := []string{"\n", "\r", ":", " ", "data", "id", "x"}
	var rec func(prefix string, depth int)
	emitAll := func(s string) {
		b := []byte(s)
		for _, endErr := range []bool{false, true} {
			emit(parseCaseLine(false, endErr, false, "-", "-", [][]byte{b}))
			if len(b) > 1 {
				emit(parseCaseLine(false, endErr, false, "-", "-", splitRandom(rng, b, 1)))
				for c := 1; c < len(b); c++ {
					emit(parseCaseLine(true, endErr, false, "-", "-", [][]byte{b[:c], b[c:]}))
				}
			}
		}
	}
	rec = func(prefix string, depth int) {
		emitAll(prefix)
		if depth == 0 {
			return
		}
		for _, s := range syms {
			rec(prefix+s, depth-1)
		}
	}
	for _, s := range syms {
		rec(s, 4)
	}
}

func init() {
	generators["C01"] = genC01
	generators["C20"] = genC20
	generators["C01X"] = genC01X
}
