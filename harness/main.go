// Command harness runs the real go-sse code on generated or given cases and prints,
// one per line, "<case>\t<canonical observed output>". The same case lines are fed to
// the Lean model driver by ../check, which compares the outputs.
//
//	harness gen <ID> -seed S -n N -tier quick|thorough   generate cases for a property and run them
//	harness run                                            run case lines read from stdin
//	harness ops                                            list known ops and generators
package main

import (
	"bufio"
	"flag"
	"fmt"
	"math/rand"
	"os"
	"runtime/debug"
	"sort"
	"strings"
	"time"
)

// Runner executes one case (the op's arguments) against the real code.
type Runner func(args []string) string

// Generator emits case lines ("OP arg arg …") for a property.
type Generator func(rng *rand.Rand, n int, thorough bool, emit func(string))

var (
	runners    = map[string]Runner{}
	generators = map[string]Generator{}
	// ops that start goroutines in the real code: a panic there cannot be recovered by runCase
	crashy = map[string]bool{}
)

// caseTimeout bounds one case: the real code looping or blocking forever is an observation ("TIMEOUT"),
// not a hung check. The abandoned goroutine is left behind.
var caseTimeout = 120 * time.Second

func runCase(line string) string {
	ch := make(chan string, 1)
	go func() { ch <- runCaseNow(line) }()
	select {
	case out := <-ch:
		return out
	case <-time.After(caseTimeout):
		return "TIMEOUT the case did not finish within " + caseTimeout.String()
	}
}

func runCaseNow(line string) (out string) {
	defer func() {
		if r := recover(); r != nil {
			out = fmt.Sprintf("PANIC %v", strings.ReplaceAll(fmt.Sprint(r), "\n", " "))
			if os.Getenv("VERIF_STACK") != "" {
				debug.PrintStack()
			}
		}
	}()
	f := strings.Fields(line)
	if len(f) == 0 {
		return "empty"
	}
	r, ok := runners[f[0]]
	if !ok {
		return "bad-op"
	}
	return r(f[1:])
}

func main() {
	if len(os.Args) < 2 {
		fmt.Fprintln(os.Stderr, "usage: harness gen|run|ops")
		os.Exit(2)
	}
	w := bufio.NewWriterSize(os.Stdout, 1<<20)
	defer w.Flush()
	switch os.Args[1] {
	case "ops":
		var k []string
		for o := range runners {
			k = append(k, "op:"+o)
		}
		for g := range generators {
			k = append(k, "gen:"+g)
		}
		sort.Strings(k)
		fmt.Fprintln(w, strings.Join(k, "\n"))
	case "run":
		sc := bufio.NewScanner(os.Stdin)
		sc.Buffer(nil, 1<<28)
		for sc.Scan() {
			line := strings.SplitN(sc.Text(), "\t", 2)[0]
			if strings.TrimSpace(line) == "" || strings.HasPrefix(line, "#") {
				continue
			}
			if crashy[strings.Fields(line)[0]] {
				fmt.Fprintf(w, "#RUN %s\n", line)
				w.Flush()
			}
			fmt.Fprintf(w, "%s\t%s\n", line, runCase(line))
			w.Flush()
		}
	case "gen":
		fs := flag.NewFlagSet("gen", flag.ExitOnError)
		seed := fs.Int64("seed", 1, "PRNG seed")
		n := fs.Int("n", 1000, "number of cases")
		tier := fs.String("tier", "quick", "quick|thorough")
		if len(os.Args) < 3 {
			os.Exit(2)
		}
		id := os.Args[2]
		_ = fs.Parse(os.Args[3:])
		g, ok := generators[id]
		if !ok {
			fmt.Fprintln(os.Stderr, "no generator for", id)
			os.Exit(2)
		}
		rng := rand.New(rand.NewSource(*seed))
		g(rng, *n, *tier == "thorough", func(line string) {
			if crashy[strings.Fields(line)[0]] {
				// the real code may take the process down: say which case is running
				fmt.Fprintf(w, "#RUN %s\n", line)
				w.Flush()
			}
			t0 := time.Now()
			out := runCase(line)
			if d := time.Since(t0); d > 50*time.Millisecond && os.Getenv("VERIF_TIMING") != "" {
				fmt.Fprintf(os.Stderr, "SLOW %v %s\n", d, line)
			}
			fmt.Fprintf(w, "%s\t%s\n", line, out)
			if strings.Contains(out, "TIMEOUT") || strings.Contains(out, "BLOCKED") || strings.Contains(out, "GOROUTINES-LEFT") {
				// the abandoned goroutine may be spinning: report this case and stop generating
				w.Flush()
				os.Exit(0)
			}
		})
	default:
		os.Exit(2)
	}
}
