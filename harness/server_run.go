package main

import (
	"context"
	"errors"
	"fmt"
	"net/http"
	"net/http/httptest"
	"sort"
	"strconv"
	"strings"
	"time"
	"unsafe"

	sse "github.com/tmaxmax/go-sse"
)

// ---------------------------------------------------------------------------------------
// A recording, fault-injecting http.ResponseWriter in every shape getResponseWriter cares
// about (C16). See lean/Driver/ServerD.lean for the line formats.

// injErr is the error injected at writer call k; its identity is k.
type injErr struct{ k int }

func (e *injErr) Error() string { return "verif: injected fault at call " + strconv.Itoa(e.k) }

func retName(err error) string {
	if err == nil {
		return "nil"
	}
	var ie *injErr
	if errors.As(err, &ie) {
		return "E" + strconv.Itoa(ie.k)
	}
	return "OTHER(" + strings.ReplaceAll(err.Error(), " ", "_") + ")"
}

type recorder struct {
	hdr     http.Header
	snapPtr map[string]*string // identity of the value slice we left in the map
	snapLen map[string]int
	hdrLvl  int // layer of the latest Header() call
	evs     []string
	calls   int         // Write + Flush calls so far
	faults  map[int]int // call number -> bytes a failing Write accepts
}

func newRecorder(faults map[int]int) *recorder {
	return &recorder{hdr: http.Header{}, snapPtr: map[string]*string{}, snapLen: map[string]int{}, faults: faults}
}

// settle turns what happened to the live header map since the last look into events. Header()
// returns a live map, so assignments are only visible afterwards; to see an assignment of an
// equal value too, every value slice is replaced by a private copy and compared by identity.
func (r *recorder) settle() {
	keys := make([]string, 0, len(r.hdr))
	for k := range r.hdr {
		keys = append(keys, k)
	}
	for k := range r.snapPtr {
		if _, ok := r.hdr[k]; !ok {
			keys = append(keys, k)
		}
	}
	sort.Strings(keys)
	for _, k := range keys {
		v, ok := r.hdr[k]
		if !ok {
			r.evs = append(r.evs, fmt.Sprintf("D%d:%s", r.hdrLvl, hxs(k)))
			delete(r.snapPtr, k)
			delete(r.snapLen, k)
			continue
		}
		p, seen := r.snapPtr[k]
		if seen && unsafe.SliceData(v) == p && len(v) == r.snapLen[k] {
			continue
		}
		vals := make([]string, len(v))
		for i, s := range v {
			vals[i] = hxs(s)
		}
		r.evs = append(r.evs, fmt.Sprintf("H%d:%s=%s", r.hdrLvl, hxs(k), strings.Join(vals, "+")))
		c := make([]string, len(v))
		copy(c, v)
		r.hdr[k] = c
		r.snapPtr[k] = unsafe.SliceData(c)
		r.snapLen[k] = len(c)
	}
}

func (r *recorder) header(lvl int) http.Header {
	r.settle()
	r.hdrLvl = lvl
	return r.hdr
}

func (r *recorder) write(lvl int, p []byte) (int, error) {
	r.settle()
	k := r.calls
	r.calls++
	if n, bad := r.faults[k]; bad {
		if n > len(p) {
			n = len(p)
		}
		r.evs = append(r.evs, fmt.Sprintf("W%d:%s/%s!%d", lvl, hx(p[:n]), hx(p), k))
		return n, &injErr{k}
	}
	r.evs = append(r.evs, fmt.Sprintf("W%d:%s", lvl, hx(p)))
	return len(p), nil
}

func (r *recorder) flush(lvl int, reports bool) error {
	r.settle()
	k := r.calls
	r.calls++
	_, bad := r.faults[k]
	switch {
	case !reports:
		// http.Flusher.Flush() cannot report anything
		r.evs = append(r.evs, fmt.Sprintf("F%df", lvl))
		return nil
	case bad:
		r.evs = append(r.evs, fmt.Sprintf("F%de!%d", lvl, k))
		return &injErr{k}
	}
	r.evs = append(r.evs, fmt.Sprintf("F%de", lvl))
	return nil
}

func (r *recorder) writeHeader(lvl, code int) {
	r.settle()
	r.evs = append(r.evs, fmt.Sprintf("C%d:%d", lvl, code))
}

// take returns the events since the last take.
func (r *recorder) take() string {
	r.settle()
	e := r.evs
	r.evs = nil
	if len(e) == 0 {
		return "-"
	}
	return strings.Join(e, ",")
}

type layer struct {
	rec   *recorder
	lvl   int
	inner http.ResponseWriter
}

func (l *layer) Header() http.Header         { return l.rec.header(l.lvl) }
func (l *layer) Write(p []byte) (int, error) { return l.rec.write(l.lvl, p) }
func (l *layer) WriteHeader(code int)        { l.rec.writeHeader(l.lvl, code) }

// the eight method sets: {none, Flush, FlushError, both} x {no Unwrap, Unwrap}
type (
	rwN  struct{ *layer }
	rwF  struct{ *layer }
	rwE  struct{ *layer }
	rwB  struct{ *layer }
	rwNU struct{ *layer }
	rwFU struct{ *layer }
	rwEU struct{ *layer }
	rwBU struct{ *layer }
)

func (w rwF) Flush()                       { _ = w.rec.flush(w.lvl, false) }
func (w rwE) FlushError() error            { return w.rec.flush(w.lvl, true) }
func (w rwB) Flush()                       { _ = w.rec.flush(w.lvl, false) }
func (w rwB) FlushError() error            { return w.rec.flush(w.lvl, true) }
func (w rwNU) Unwrap() http.ResponseWriter { return w.inner }
func (w rwFU) Flush()                      { _ = w.rec.flush(w.lvl, false) }
func (w rwFU) Unwrap() http.ResponseWriter { return w.inner }
func (w rwEU) FlushError() error           { return w.rec.flush(w.lvl, true) }
func (w rwEU) Unwrap() http.ResponseWriter { return w.inner }
func (w rwBU) Flush()                      { _ = w.rec.flush(w.lvl, false) }
func (w rwBU) FlushError() error           { return w.rec.flush(w.lvl, true) }
func (w rwBU) Unwrap() http.ResponseWriter { return w.inner }

// buildWriter: shape "n.n.e" = two layers with only Unwrap() around one with FlushError().
func buildWriter(shape string, rec *recorder) (http.ResponseWriter, bool) {
	caps := strings.Split(shape, ".")
	var w http.ResponseWriter
	for i := len(caps) - 1; i >= 0; i-- {
		l := &layer{rec: rec, lvl: i, inner: w}
		last := i == len(caps)-1
		switch caps[i] {
		case "n":
			if last {
				w = rwN{l}
			} else {
				w = rwNU{l}
			}
		case "f":
			if last {
				w = rwF{l}
			} else {
				w = rwFU{l}
			}
		case "e":
			if last {
				w = rwE{l}
			} else {
				w = rwEU{l}
			}
		case "b":
			if last {
				w = rwB{l}
			} else {
				w = rwBU{l}
			}
		default:
			return nil, false
		}
	}
	return w, w != nil
}

func parseFaults(s string) (map[int]int, bool) {
	m := map[int]int{}
	if s == "-" || s == "" {
		return m, true
	}
	for _, f := range strings.Split(s, ",") {
		kn := strings.Split(f, ":")
		if len(kn) != 2 {
			return nil, false
		}
		k, e1 := strconv.Atoi(kn[0])
		n, e2 := strconv.Atoi(kn[1])
		if e1 != nil || e2 != nil || k < 0 || n < 0 {
			return nil, false
		}
		if _, dup := m[k]; !dup { // the first entry for a call number counts
			m[k] = n
		}
	}
	return m, true
}

// sessOp is one call on the MessageWriter; msg == nil: Flush.
type sessOp struct{ msg *sse.Message }

func parseSessOps(s string) ([]sessOp, bool) {
	if s == "-" || s == "" {
		return nil, true
	}
	var ops []sessOp
	for _, o := range strings.Split(s, ";") {
		if o == "F" {
			ops = append(ops, sessOp{})
			continue
		}
		if o == "A" {
			// again: the message of the previous Send, the very same value (a message is published any number of times)
			for j := len(ops) - 1; j >= 0; j-- {
				if ops[j].msg != nil {
					ops = append(ops, sessOp{msg: ops[j].msg})
					break
				}
			}
			continue
		}
		if !strings.HasPrefix(o, "S:") {
			return nil, false
		}
		m := &sse.Message{}
		if items := o[2:]; items != "-" && items != "" {
			for _, it := range strings.Split(items, ",") {
				kv := strings.SplitN(it, "=", 2)
				if len(kv) != 2 {
					return nil, false
				}
				switch kv[0] {
				case "i":
					m.ID, _ = sse.NewID(string(unhx(kv[1])))
				case "t":
					m.Type, _ = sse.NewType(string(unhx(kv[1])))
				case "r":
					ns, err := strconv.ParseInt(kv[1], 10, 64)
					if err != nil {
						return nil, false
					}
					m.Retry = time.Duration(ns)
				case "d":
					m.AppendData(string(unhx(kv[1])))
				case "c":
					m.AppendComment(string(unhx(kv[1])))
				default:
					return nil, false
				}
			}
		}
		ops = append(ops, sessOp{msg: m})
	}
	return ops, true
}

// runSessOps makes the calls on the client and returns the entries "<events>><ret>".
func runSessOps(rec *recorder, c sse.MessageWriter, ops []sessOp) ([]string, error) {
	var entries []string
	var first error
	for _, o := range ops {
		var err error
		if o.msg != nil {
			before := o.msg.String() + "|" + fmt.Sprint(int64(o.msg.Retry))
			err = c.Send(o.msg)
			if after := o.msg.String() + "|" + fmt.Sprint(int64(o.msg.Retry)); after != before {
				// sending a message must leave it as it was, whatever became of the write
				entries = append(entries, "MESSAGE-MODIFIED-BY-SEND")
				continue
			}
		} else {
			err = c.Flush()
		}
		if err != nil && first == nil {
			first = err
		}
		entries = append(entries, rec.take()+">"+retName(err))
	}
	return entries, first
}

func showEntries(e []string) string {
	if len(e) == 0 {
		return "-"
	}
	return strings.Join(e, ";")
}

func newRequest() *http.Request {
	req, err := http.NewRequest(http.MethodGet, "http://verif.invalid/events", http.NoBody)
	if err != nil {
		panic(err)
	}
	return req
}

// SESS <shape> <faults> <ops>
func runSess(args []string) string {
	if len(args) != 3 {
		return "bad-args"
	}
	faults, ok1 := parseFaults(args[1])
	ops, ok2 := parseSessOps(args[2])
	if !ok1 || !ok2 {
		return "bad-args"
	}
	rec := newRecorder(faults)
	w, ok := buildWriter(args[0], rec)
	if !ok {
		return "bad-args"
	}
	sess, err := sse.Upgrade(w, newRequest())
	if err != nil {
		if errors.Is(err, sse.ErrUpgradeUnsupported) && sess == nil {
			if lead := rec.take(); lead != "-" {
				return "UNSUPPORTED+" + lead
			}
			return "UNSUPPORTED"
		}
		return "UPGRADE-ERROR(" + retName(err) + ")"
	}
	// anything Upgrade itself did to the writer shows up in the first entry
	entries, _ := runSessOps(rec, sess, ops)
	out := showEntries(entries)
	if rest := rec.take(); rest != "-" {
		out += ";+" + rest
	}
	return out
}

// recProvider records the subscription, plays the scripted calls on the client and returns
// what the script says.
type recProvider struct {
	rec     *recorder
	ops     []sessOp
	ret     string
	lead    string
	sub     string
	entries []string
	called  int
	warming bool // the warm-up request (see runServe): not recorded
}

func (p *recProvider) Subscribe(_ context.Context, sub sse.Subscription) error {
	if p.warming {
		return nil
	}
	p.called++
	p.lead = p.rec.take()
	id := "U"
	if sub.LastEventID.IsSet() {
		id = "S=" + hxs(sub.LastEventID.String())
	}
	topics := make([][]byte, len(sub.Topics))
	for i, t := range sub.Topics {
		topics[i] = []byte(t)
	}
	p.sub = "sub:" + id + "/" + hxList(topics)
	var first error
	p.entries, first = runSessOps(p.rec, sub.Client, p.ops)
	switch {
	case p.ret == "nil":
		return nil
	case p.ret == "first":
		return first
	case strings.HasPrefix(p.ret, "own:"):
		// the library's own sentinel when the text is its text (bare, or wrapped): what Joe returns after Shutdown
		text := string(unhx(p.ret[4:]))
		switch {
		case text == sse.ErrProviderClosed.Error():
			return sse.ErrProviderClosed
		case strings.HasSuffix(text, ": "+sse.ErrProviderClosed.Error()):
			return fmt.Errorf("%s: %w", strings.TrimSuffix(text, ": "+sse.ErrProviderClosed.Error()), sse.ErrProviderClosed)
		}
		return errors.New(text)
	}
	panic("bad provider ret " + p.ret)
}
func (p *recProvider) Publish(*sse.Message, []string) error { return nil }
func (p *recProvider) Shutdown(context.Context) error       { return nil }

// SERVE <shape> <faults> <hdr> <onsession> <provider>
func runServe(args []string) string {
	if len(args) != 5 {
		return "bad-args"
	}
	faults, ok := parseFaults(args[1])
	if !ok {
		return "bad-args"
	}
	rec := newRecorder(faults)
	w, ok := buildWriter(args[0], rec)
	if !ok {
		return "bad-args"
	}
	req := newRequest()
	if args[2] != "-" {
		for _, kv := range strings.Split(args[2], ";") {
			p := strings.SplitN(kv, "=", 2)
			if len(p) != 2 {
				return "bad-args"
			}
			key := string(unhx(p[0]))
			if _, dup := req.Header[key]; dup { // the first assignment of a key counts
				continue
			}
			vals := []string{}
			for _, v := range unhxList(p[1]) {
				vals = append(vals, string(v))
			}
			req.Header[key] = vals // direct assignment: no canonicalisation, any value
		}
	}
	pr := strings.SplitN(args[4], "/", 2)
	if len(pr) != 2 || !(pr[0] == "nil" || pr[0] == "first" || strings.HasPrefix(pr[0], "own:")) {
		return "bad-args"
	}
	pops, ok := parseSessOps(pr[1])
	if !ok {
		return "bad-args"
	}
	prov := &recProvider{rec: rec, ops: pops, ret: pr[0], sub: "nosub"}
	srv := &sse.Server{Provider: prov}
	pre := "nocall"
	if args[3] != "nil" {
		o := strings.Split(args[3], "/")
		if len(o) != 3 {
			return "bad-args"
		}
		var topics []string
		for _, t := range unhxList(o[1]) {
			topics = append(topics, string(t))
		}
		var acts []string
		if o[2] != "-" {
			acts = strings.Split(o[2], ",")
		}
		for _, a := range acts {
			if !(a == "f" || strings.HasPrefix(a, "h:") && strings.Contains(a, "=") || strings.HasPrefix(a, "c:") || strings.HasPrefix(a, "w:")) {
				return "bad-args"
			}
		}
		ncalls := 0
		srv.OnSession = func(w http.ResponseWriter, _ *http.Request) ([]string, bool) {
			if prov.warming {
				return []string{"warm-up-topic"}, true
			}
			ncalls++
			for _, a := range acts {
				switch {
				case a == "f":
					_ = w.(interface{ Flush() error }).Flush()
				case a[0] == 'h':
					kv := strings.SplitN(a[2:], "=", 2)
					w.Header()[string(unhx(kv[0]))] = []string{string(unhx(kv[1]))}
				case a[0] == 'c':
					w.WriteHeader(atoi(a[2:]))
				case a[0] == 'w':
					_, _ = w.Write(unhx(a[2:]))
				}
			}
			pre = "call:" + rec.take()
			if ncalls > 1 {
				pre = "call-again:" + pre
			}
			return topics, o[0] == "1"
		}
	}
	if (len(args[2])+len(args[4]))%3 == 1 {
		// the same Server has already served another client, one that presented a Last-Event-ID and got its own
		// topics: nothing of that request may show in this one
		prov.warming = true
		wreq := newRequest()
		wreq.Header["Last-Event-Id"] = []string{"warm-up-id"}
		srv.ServeHTTP(httptest.NewRecorder(), wreq)
		prov.warming = false
	}
	if (len(args[2])+len(args[4]))%3 == 2 {
		// … or it has served one under another OnSession: the callback (or its absence) that counts for a request is the
		// one the exported field holds when the request arrives, not the one an earlier request was served with
		real := srv.OnSession
		srv.OnSession = func(http.ResponseWriter, *http.Request) ([]string, bool) {
			return []string{"stale-callback-topic"}, true
		}
		prov.warming = true
		srv.ServeHTTP(httptest.NewRecorder(), newRequest())
		prov.warming = false
		srv.OnSession = real
	}
	srv.ServeHTTP(w, req)
	tail := rec.take()
	if prov.called > 0 && prov.lead != "-" {
		// something touched the writer between OnSession and Subscribe
		pre += "+" + prov.lead
	}
	if prov.called > 1 {
		prov.sub = "subscribed-again:" + prov.sub
	}
	return pre + " | " + prov.sub + " | " + showEntries(prov.entries) + " | " + tail
}

func init() {
	runners["SESS"] = runSess
	runners["GSESS"] = runSess // the same run, for Session.Send / Flush / doUpgrade as translated (Gen/Session.lean)
	runners["SERVE"] = runServe
}
