package main

import (
	"encoding/hex"
	"math/rand"
	"strconv"
	"strings"
)

func hx(b []byte) string {
	if len(b) == 0 {
		return "-"
	}
	return hex.EncodeToString(b)
}
func hxs(s string) string { return hx([]byte(s)) }

func unhx(s string) []byte {
	if s == "-" || s == "_" || s == "" {
		return nil
	}
	b, err := hex.DecodeString(s)
	if err != nil {
		panic("bad hex " + s)
	}
	return b
}

func hxList(l [][]byte) string {
	if len(l) == 0 {
		return "-"
	}
	parts := make([]string, len(l))
	for i, b := range l {
		if len(b) == 0 {
			parts[i] = "_"
		} else {
			parts[i] = hex.EncodeToString(b)
		}
	}
	return strings.Join(parts, ",")
}

func unhxList(s string) [][]byte {
	if s == "-" || s == "" {
		return nil
	}
	var out [][]byte
	for _, p := range strings.Split(s, ",") {
		out = append(out, unhx(p))
	}
	return out
}

func b01(b bool) string {
	if b {
		return "1"
	}
	return "0"
}

func atoi(s string) int {
	n, err := strconv.Atoi(s)
	if err != nil {
		panic("bad int " + s)
	}
	return n
}

func pick[T any](rng *rand.Rand, xs ...T) T { return xs[rng.Intn(len(xs))] }

// splitRandom cuts b into non-empty pieces at random points; mode 0 whole, 1 byte-at-a-time, 2 random.
func splitRandom(rng *rand.Rand, b []byte, mode int) [][]byte {
	if len(b) == 0 {
		return nil
	}
	switch mode {
	case 0:
		return [][]byte{b}
	case 1:
		out := make([][]byte, len(b))
		for i := range b {
			out[i] = b[i : i+1]
		}
		return out
	}
	var out [][]byte
	maxPiece := 1 + rng.Intn(1+len(b))
	for len(b) > 0 {
		k := 1 + rng.Intn(maxPiece)
		if k > len(b) {
			k = len(b)
		}
		out = append(out, b[:k])
		b = b[k:]
	}
	return out
}
