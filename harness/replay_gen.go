package main

// Generators of replayer histories: C08 (FINITE), C09 (VALID), C18 (FINITES / VALIDS, and in the
// thorough tier ~5% FINITEF / VALIDF with manual IDs). Everything is drawn from the one rng.
//
// Every history is built against the generator's own bookkeeping of what a replayer of that
// configuration stores (rgState: the specification's list of stored entries), so that the IDs
// presented to Replay can be aimed: newest / oldest / middle / second newest stored, just evicted,
// long evicted, expired but not collected, never issued, unset, set-but-empty, and — automatic
// IDs — non-numeric, leading zeros, huge, and numbers just below / at / above the oldest and the
// newest stored one. The bookkeeping only steers the choice of inputs; it is not an oracle.
//
// Thorough tier: before the n random cases every generator emits the exhaustive small-scope part
// (enumFinite / enumValid: every history up to length 6-7 over a small op alphabet, see there).
// It is emitted in full for EVERY seed of a thorough run (it is cheap: < 10 s per seed), so the
// exhaustive claim does not depend on how ./check slices its seeds.

import (
	"fmt"
	"math"
	"math/rand"
	"strconv"
	"strings"
)

type rgEnt struct {
	id  string // raw ID value
	exp int64
}

// rgState: generator-side bookkeeping of one history.
type rgState struct {
	valid     bool
	n         int // FiniteReplayer capacity
	auto      bool
	ttl, gci  int64
	now       int64
	lastGC    int64
	hasLastGC bool
	next      uint64
	log       []rgEnt  // stored entries, oldest first
	gone      []string // IDs no longer stored (evicted / collected), oldest first
	issued    []string // every accepted ID
	accepted  int
	manualK   int
	ops       []string
}

var rgTopics = []string{"_", "61", "62", "63"}

func (s *rgState) collect() {
	k := 0
	for k < len(s.log) && s.log[k].exp <= s.now {
		s.gone = append(s.gone, s.log[k].id)
		k++
	}
	s.log = s.log[k:]
}

// put appends a Put op (topics, id already encoded) and updates the bookkeeping.
func (s *rgState) put(topics, id string) {
	s.ops = append(s.ops, "P:"+topics+":"+id)
	if topics == "-" || topics == "=" {
		return
	}
	if s.valid {
		if !s.hasLastGC {
			s.lastGC, s.hasLastGC = s.now, true
		}
		if s.gci > 0 && s.now-s.lastGC >= s.gci {
			s.collect()
			s.lastGC = s.now
		}
	}
	var raw string
	if s.auto {
		if id != "~" {
			return
		}
		raw = strconv.FormatUint(s.next, 10)
		s.next++
	} else {
		if id == "~" {
			return
		}
		raw = string(unhx(id))
	}
	s.log = append(s.log, rgEnt{id: raw, exp: satAdd(s.now, s.ttl)})
	s.issued = append(s.issued, raw)
	s.accepted++
	if !s.valid && len(s.log) > s.n {
		s.gone = append(s.gone, s.log[0].id)
		s.log = s.log[1:]
	}
}

func (s *rgState) gc() {
	s.ops = append(s.ops, "G")
	if s.valid {
		s.collect()
	}
}

func (s *rgState) setGC(g int64) {
	s.ops = append(s.ops, "I:"+strconv.FormatInt(g, 10))
	s.gci = g
}

func (s *rgState) tick(d int64) {
	if d < 0 {
		d = 0
	}
	s.ops = append(s.ops, "T:"+strconv.FormatInt(d, 10))
	if s.valid {
		s.now += d
	}
}

func (s *rgState) replay(topics, id, failAt string, flushFails bool) {
	s.ops = append(s.ops, "R:"+topics+":"+id+":"+failAt+":"+b01(flushFails))
}

func (s *rgState) opsString() string {
	if len(s.ops) == 0 {
		return "-"
	}
	return strings.Join(s.ops, ";")
}

func rgPickTopics(rng *rand.Rand, emptyPct, allPct int) string {
	if rng.Intn(8) == 0 {
		// a prefix of the full list: the runner hands such lists over as slices of one backing array
		return strings.Join(rgTopics[:1+rng.Intn(len(rgTopics))], ",")
	}
	r := rng.Intn(100)
	if r < emptyPct {
		return pick(rng, "-", "-", "=") // nil, or empty but not nil
	}
	if r < emptyPct+allPct {
		return strings.Join(rgTopics, ",")
	}
	k := 1 + rng.Intn(3)
	if rng.Intn(3) == 0 {
		k = 1
	}
	p := rng.Perm(len(rgTopics))[:k]
	parts := make([]string, k)
	for i, j := range p {
		parts[i] = rgTopics[j]
	}
	return strings.Join(parts, ",")
}

// a manual ID for the next Put (encoded), or "~"
func (s *rgState) pickPutID(rng *rand.Rand) string {
	if s.auto {
		if rng.Intn(100) < 5 {
			return hxs(pick(rng, "x", "0", "7", "", strconv.FormatUint(s.next, 10)))
		}
		return "~"
	}
	r := rng.Intn(100)
	switch {
	case r < 5:
		return "~"
	case r < 15 && len(s.issued) > 0:
		return hxs(s.issued[rng.Intn(len(s.issued))])
	case r < 18:
		return "-"
	case r < 30:
		s.manualK++
		return hxs(pick(rng, strconv.Itoa(s.manualK), "00"+strconv.Itoa(s.manualK), strconv.Itoa(100-s.manualK), "1e"+strconv.Itoa(s.manualK)))
	case r < 36:
		s.manualK++
		return hxs(pick(rng, "é", "id ", " id", "a:b", "x;y", "\x00", "~", "-") + strconv.Itoa(s.manualK))
	}
	s.manualK++
	return hxs("m" + strconv.Itoa(s.manualK))
}

func (s *rgState) neverIssued(rng *rand.Rand) string {
	if s.auto {
		return hxs(strconv.FormatUint(s.next+uint64(rng.Intn(3)), 10))
	}
	return hxs(pick(rng, "zz", "m9999", "nope", "M1", "m", "0"))
}

var rgNonNumeric = []string{"abc", "1a", "+1", "-1", " 1", "1 ", "0x1", "1.0", "١"}
var rgHuge = []string{"18446744073709551615", "18446744073709551616", "99999999999999999999999", "18446744073709551614", "9223372036854775808"}

// pickLastID: the ID a Replay presents (encoded). newestBias: extra weight for the newest stored
// ID (used right after the write index wrapped).
func (s *rgState) pickLastID(rng *rand.Rand, newestBias int) string {
	st := s.log
	if newestBias > 0 && len(st) > 0 && rng.Intn(100) < newestBias {
		return hxs(st[len(st)-1].id)
	}
	r := rng.Intn(100)
	switch {
	case r < 17: // newest stored
		if len(st) > 0 {
			return hxs(st[len(st)-1].id)
		}
	case r < 33: // oldest stored
		if len(st) > 0 {
			return hxs(st[0].id)
		}
	case r < 48: // middle
		if len(st) >= 3 {
			return hxs(st[1+rng.Intn(len(st)-2)].id)
		}
		if len(st) > 0 {
			return hxs(st[rng.Intn(len(st))].id)
		}
	case r < 56: // second newest
		if len(st) >= 2 {
			return hxs(st[len(st)-2].id)
		}
	case r < 64: // just evicted / collected
		if len(s.gone) > 0 {
			return hxs(s.gone[len(s.gone)-1])
		}
	case r < 69: // long gone
		if len(s.gone) > 0 {
			return hxs(s.gone[rng.Intn(1+len(s.gone)/2)])
		}
	case r < 74:
		return s.neverIssued(rng)
	case r < 77:
		return "~"
	case r < 79:
		return "-"
	case r < 84: // expired but not collected (ValidReplayer)
		var exp []string
		for _, e := range st {
			if e.exp <= s.now {
				exp = append(exp, e.id)
			}
		}
		if len(exp) > 0 {
			return hxs(exp[rng.Intn(len(exp))])
		}
		if len(st) > 0 {
			return hxs(st[rng.Intn(len(st))].id)
		}
	default:
		if !s.auto {
			if len(st) > 0 {
				return hxs(st[rng.Intn(len(st))].id)
			}
			break
		}
		switch rng.Intn(4) {
		case 0:
			return hxs(pick(rng, rgNonNumeric...))
		case 1:
			if len(st) > 0 && rng.Intn(2) == 0 {
				return hxs(pick(rng, "0", "00", "000") + st[rng.Intn(len(st))].id)
			}
			return hxs(pick(rng, "007", "00", "000", "01", "0000000000000000000001"))
		case 2:
			return hxs(pick(rng, rgHuge...))
		default:
			if len(st) > 0 {
				o, _ := strconv.ParseUint(st[0].id, 10, 64)
				nw, _ := strconv.ParseUint(st[len(st)-1].id, 10, 64)
				c := []uint64{o, o + 1, nw, nw + 1, nw + 2}
				if o > 0 {
					c = append(c, o-1, o-1)
				}
				if nw > 0 {
					c = append(c, nw-1)
				}
				return hxs(strconv.FormatUint(c[rng.Intn(len(c))], 10))
			}
		}
	}
	return pick(rng, s.neverIssued(rng), "~", hxs("0"))
}

func (s *rgState) randomPut(rng *rand.Rand) {
	s.put(rgPickTopics(rng, 4, 5), s.pickPutID(rng))
}

// a valid Put (accepted unless the drawn manual ID is a deliberate duplicate — still accepted)
func (s *rgState) goodPut(rng *rand.Rand) {
	id := "~"
	if !s.auto {
		s.manualK++
		id = hxs("m" + strconv.Itoa(s.manualK))
	}
	s.put(rgPickTopics(rng, 0, 5), id)
}

func (s *rgState) randomReplay(rng *rand.Rand, newestBias int) {
	failAt := "-"
	span := s.n
	if s.valid {
		span = len(s.log)
	}
	switch r := rng.Intn(100); {
	case r < 70:
	case r < 78:
		failAt = "0"
	case r < 85:
		failAt = "1"
	case r < 90:
		failAt = "2"
	default:
		failAt = strconv.Itoa(rng.Intn(span + 2))
	}
	s.replay(rgPickTopics(rng, 3, 30), s.pickLastID(rng, newestBias), failAt, rng.Intn(100) < 15)
}

// ---------------------------------------------------------------- FiniteReplayer histories

// genFiniteHistory returns the arguments of a FINITE… case: "<N> <auto> <ops>".
// slots: the case will run with the slot report (C18), whose size grows with N x ops: fewer large N.
func genFiniteHistory(rng *rand.Rand, thorough bool, forceAuto int, slots bool) string {
	n := 2 + rng.Intn(7)
	switch r := rng.Intn(100); {
	case r < 3:
		n = rng.Intn(2) // invalid
	case r < 15:
		if !slots || r < 9 {
			n = 9 + rng.Intn(32)
		}
	case r < 40:
		n = 2 + rng.Intn(3)
	}
	auto := rng.Intn(2) == 0
	if forceAuto >= 0 {
		auto = forceAuto == 1
	}
	s := &rgState{n: n, auto: auto}
	if n < 2 {
		s.n = 3
	}
	N := s.n
	// number of accepted Puts aimed at
	var target int
	switch r := rng.Intn(100); {
	case r < 10:
		target = rng.Intn(N)
	case r < 35:
		target = N - 1 + rng.Intn(3)
	case r < 75:
		target = N/2 + 1 + rng.Intn(3*N)
	case r < 95:
		target = 2*N + rng.Intn(4*N+1)
	default:
		target = 60 + rng.Intn(80)
	}
	maxOps := 60
	if N > 8 && !thorough {
		// large capacities: wrap once or twice, not six times
		if target > 2*N+2 {
			target = N - 1 + rng.Intn(N+4)
		}
		maxOps = 110
	}
	if target >= 60 || thorough {
		maxOps = 260
	}
	if slots && maxOps > 120 {
		maxOps = 120
	}
	if rng.Intn(12) == 0 {
		s.randomReplay(rng, 0) // on a fresh replayer
	}
	putPct := 60 + rng.Intn(30)
	for s.accepted < target && len(s.ops) < maxOps {
		if rng.Intn(100) < putPct {
			before := s.accepted
			s.randomPut(rng)
			if s.accepted != before {
				m := s.accepted % N
				if (m == 0 || m == 1 || m == N-1) && rng.Intn(100) < 55 {
					s.randomReplay(rng, 35)
					if rng.Intn(4) == 0 {
						s.randomReplay(rng, 0)
					}
				}
			}
		} else {
			s.randomReplay(rng, 0)
		}
	}
	for k := rng.Intn(3); k > 0; k-- {
		s.randomReplay(rng, 25)
	}
	if rng.Intn(20) == 0 { // ops of the other replayer are no-ops here
		s.gc()
		s.tick(5)
		s.randomReplay(rng, 30)
	}
	return fmt.Sprintf("%d %s %s", n, b01(auto), s.opsString())
}

// ---------------------------------------------------------------- ValidReplayer histories

func (s *rgState) randomTick(rng *rand.Rand) {
	t := s.ttl
	var c []int64
	switch r := rng.Intn(100); {
	case r < 40:
		c = []int64{0, 1, 1, t / 2, t / 3}
	case r < 78:
		c = []int64{t - 1, t - 1, t, t, t + 1}
	case r < 92:
		c = []int64{3 * t, 2 * t}
	default:
		c = []int64{100 * t}
	}
	s.tick(c[rng.Intn(len(c))])
}

// expireFirst advances the clock just far enough for the k oldest stored entries to expire.
func (s *rgState) expireFirst(k int) {
	if k <= 0 || len(s.log) == 0 {
		return
	}
	if k > len(s.log) {
		k = len(s.log)
	}
	s.tick(s.log[k-1].exp - s.now)
}

func (s *rgState) burst(rng *rand.Rand, k int, replayPct int) {
	for i := 0; i < k; i++ {
		if rng.Intn(100) < 88 {
			s.goodPut(rng)
		} else {
			s.randomPut(rng)
		}
		if rng.Intn(100) < replayPct {
			s.randomReplay(rng, 30)
		}
	}
}

// wrapScenario: fill the buffer to length L exactly, expire the oldest part, collect (head moves
// up), put again (the tail wraps: head > tail), then either keep putting until the buffer grows
// while wrapped, or expire most of the rest and collect so that it shrinks while wrapped.
func (s *rgState) wrapScenario(rng *rand.Rand, L int) {
	d := int64(1)
	if s.ttl >= 6 && rng.Intn(2) == 0 {
		d = s.ttl / 3
	}
	x := L/2 + rng.Intn(L/4+1)
	y := rng.Intn(L/8 + 2)
	if x+y > L {
		y = L - x
	}
	c := L - x - y
	rp := 6
	s.burst(rng, x, rp)
	s.tick(d)
	s.burst(rng, y, rp)
	if y > 0 {
		s.tick(d)
	}
	s.burst(rng, c, rp)
	if rng.Intn(2) == 0 {
		s.randomReplay(rng, 40)
	}
	s.expireFirst(x)
	if rng.Intn(2) == 0 {
		s.randomReplay(rng, 0)
	}
	s.gc()
	if rng.Intn(3) == 0 {
		s.randomReplay(rng, 20)
	}
	z := 1 + rng.Intn(x)
	if rng.Intn(2) == 0 {
		z = 1 + rng.Intn(1+L/4)
	}
	s.burst(rng, z, rp)
	s.randomReplay(rng, 35)
	if rng.Intn(2) == 0 {
		// grow while wrapped
		s.burst(rng, x-z+1+rng.Intn(3), rp)
		s.randomReplay(rng, 30)
	} else {
		// shrink while wrapped: keep about L/4 entries
		keep := z + rng.Intn(2)
		if rng.Intn(4) == 0 {
			keep = L/4 + rng.Intn(2)
		}
		s.expireFirst(len(s.log) - keep)
		if rng.Intn(3) == 0 {
			s.randomReplay(rng, 0)
		}
		s.gc()
		s.randomReplay(rng, 30)
		s.burst(rng, 1+rng.Intn(4), rp)
		if rng.Intn(2) == 0 {
			s.gc()
		}
	}
}

// genValidHistory returns the arguments of a VALID… case: "<ttl> <gcInterval|d> <auto> <ops>".
// slots: the case will run with the slot report (C18), whose size grows with buffer length x ops:
// fewer and smaller big bursts.
func genValidHistory(rng *rand.Rand, thorough bool, forceAuto int, slots bool) string {
	// (the last two: "keep for ever" — the largest Duration — and 250 years: expiry instants past the year 2262, where
	// a Time no longer fits a count of nanoseconds since 1970)
	ttl := pick(rng, int64(1), 2, 5, 10, 100, 1000, 1<<40, 1<<40, math.MaxInt64, 7884000000000000000)
	ttlArg := ttl
	if rng.Intn(100) < 2 {
		ttlArg = pick(rng, int64(0), -5)
	}
	gArg := "d"
	gci := ttl / 4
	if rng.Intn(8) != 0 {
		gci = pick(rng, 0, 0, -1, 1, ttl/2, ttl, satMul(2, ttl), satMul(10, ttl))
		gArg = strconv.FormatInt(gci, 10)
	}
	auto := rng.Intn(2) == 0
	if forceAuto >= 0 {
		auto = forceAuto == 1
	}
	s := &rgState{valid: true, auto: auto, ttl: ttl, gci: gci}
	if rng.Intn(15) == 0 {
		s.gc() // on a fresh replayer
		if rng.Intn(3) == 0 {
			s.gc()
		}
	}
	if rng.Intn(15) == 0 {
		s.randomReplay(rng, 0)
	}
	maxOps := 70
	if thorough {
		maxOps = 200
	}
	if rng.Intn(100) < 5 {
		maxOps = 160 + rng.Intn(100)
	}
	if slots && maxOps > 120 {
		maxOps = 120
	}
	if r := rng.Intn(100); r < 30 {
		L := pick(rng, 4, 8, 8, 8, 16, 16)
		if rng.Intn(12) == 0 || (thorough && rng.Intn(4) == 0) {
			L = 32
		}
		s.wrapScenario(rng, L)
	}
	phases := 2 + rng.Intn(10)
	bigPct, bigMax := 8, 36
	if slots {
		bigPct, bigMax = 4, 20
		if rng.Intn(10) == 0 {
			bigMax = 36
		}
	}
	for p := 0; p < phases && len(s.ops) < maxOps; p++ {
		switch r := rng.Intn(100); {
		case r < 30:
			s.burst(rng, 1+rng.Intn(4), 15)
		case r < 30+bigPct:
			s.burst(rng, 5+rng.Intn(bigMax), 8)
		case r < 62:
			s.randomTick(rng)
		case r < 65: // partial expiry aimed at the stored entries
			if len(s.log) > 0 {
				s.expireFirst(1 + rng.Intn(len(s.log)))
			} else {
				s.randomTick(rng)
			}
		case r < 75:
			s.gc()
		case r < 78:
			s.gc()
			s.gc()
		case r < 82: // GCInterval is an exported field: manual mode first and automatic later, or the reverse
			s.setGC(pick(rng, 0, 0, -1, 1, ttl/4, ttl/2, ttl, 2*ttl))
		default:
			s.randomReplay(rng, 15)
		}
	}
	for k := rng.Intn(3); k > 0; k-- {
		s.randomReplay(rng, 25)
	}
	return fmt.Sprintf("%d %s %s %s", ttlArg, gArg, b01(auto), s.opsString())
}

// ---------------------------------------------------------------- exhaustive small scope (thorough tier)

// forEachWord calls f with every word of the given length over {0..k-1}.
func forEachWord(k, length int, f func(w []int)) {
	w := make([]int, length)
	for {
		f(w)
		i := length - 1
		for i >= 0 {
			w[i]++
			if w[i] < k {
				break
			}
			w[i] = 0
			i--
		}
		if i < 0 {
			return
		}
	}
}

func (s *rgState) enumPut() {
	id := "~"
	if !s.auto {
		id = hxs("k" + strconv.Itoa(len(s.ops)))
	}
	s.put("61", id)
}

// presented ID symbols: 'o' oldest stored, 'n' newest stored, 's' second newest stored,
// 'f' first ever issued, 'u' unset; resolved against the bookkeeping at generation time.
func (s *rgState) enumReplay(sym byte) {
	id := "~"
	st := s.log
	switch sym {
	case 'o':
		if len(st) > 0 {
			id = hxs(st[0].id)
		} else if len(s.issued) > 0 {
			id = hxs(s.issued[0])
		}
	case 'n':
		if len(st) > 0 {
			id = hxs(st[len(st)-1].id)
		} else if len(s.issued) > 0 {
			id = hxs(s.issued[len(s.issued)-1])
		}
	case 's':
		if len(st) > 1 {
			id = hxs(st[len(st)-2].id)
		}
	case 'f':
		id = "7a" // never issued
		if len(s.issued) > 0 {
			id = hxs(s.issued[0])
		}
	}
	s.replay("61", id, "-", false)
}

// enumFinite emits, for N in {2,3} and both ID modes (4 configurations, 21 202 histories each,
// 84 808 lines in total):
//   - every history of length 1..5 over {P, R-oldest, R-newest, R-second-newest, R-first-ever, R-unset},
//   - every history of length 6 over the same alphabet that starts with a Put,
//   - every history of length 7 over {P, R-oldest, R-newest, R-first-ever} that starts with a Put.
//
// Put: topic "a", manual ID "k<op index>" (distinct) or automatic; Replay: topic "a", no failures.
func enumFinite(op string, emit func(string)) {
	full := []byte{'P', 'o', 'n', 's', 'f', 'u'}
	small := []byte{'P', 'o', 'n', 'f'}
	for _, n := range []int{2, 3} {
		for _, auto := range []bool{false, true} {
			run := func(alpha []byte, length int, firstPut bool) {
				forEachWord(len(alpha), length, func(w []int) {
					if firstPut && alpha[w[0]] != 'P' {
						return
					}
					s := &rgState{n: n, auto: auto}
					for _, i := range w {
						if alpha[i] == 'P' {
							s.enumPut()
						} else {
							s.enumReplay(alpha[i])
						}
					}
					emit(fmt.Sprintf("%s %d %s %s", op, n, b01(auto), s.opsString()))
				})
			}
			for l := 1; l <= 5; l++ {
				run(full, l, false)
			}
			run(full, 6, true)
			run(small, 7, true)
		}
	}
}

// enumValid emits, for ttl = 2, GCInterval in {0, 1} and both ID modes (4 configurations, 17 106
// histories each, 68 424 lines in total), every history of length 1..5 over
// {P, PPP (three Puts), R-oldest, R-newest, G, T:1} and every history of length 6 that starts with PPP.
// (T:1 twice is the TTL; PPP makes growth 4→8 and a wrapped tail reachable within the bound.)
func enumValid(op string, emit func(string)) {
	alpha := []byte{'P', '3', 'o', 'n', 'G', 'T'}
	for _, gci := range []int64{0, 1} {
		for _, auto := range []bool{false, true} {
			run := func(length int, first byte) {
				forEachWord(len(alpha), length, func(w []int) {
					if first != 0 && alpha[w[0]] != first {
						return
					}
					s := &rgState{valid: true, auto: auto, ttl: 2, gci: gci}
					for _, i := range w {
						switch alpha[i] {
						case 'P':
							s.enumPut()
						case '3':
							s.enumPut()
							s.enumPut()
							s.enumPut()
						case 'G':
							s.gc()
						case 'T':
							s.tick(1)
						default:
							s.enumReplay(alpha[i])
						}
					}
					emit(fmt.Sprintf("%s 2 %d %s %s", op, gci, b01(auto), s.opsString()))
				})
			}
			for l := 1; l <= 5; l++ {
				run(l, 0)
			}
			run(6, '3')
		}
	}
}

// ---------------------------------------------------------------- long histories

// bulk appends N:<topics>:<k> (one message without an ID put k times in a row) and updates the bookkeeping.
func (s *rgState) bulk(topics string, k int) {
	ops := s.ops
	for j := 0; j < k; j++ {
		s.put(topics, "~")
	}
	s.ops = append(ops, "N:"+topics+":"+strconv.Itoa(k))
}

// longTotals: how many automatic IDs a long history issues — just past the powers of two a table, a ring or a
// counter of the implementation could be sized by.
func longTotal(rng *rand.Rand, thorough bool) int {
	c := []int{257, 1025, 2049, 2049, 4097, 4097, 8193}
	if thorough {
		c = append(c, 16385, 32769, 65537, 65537)
	}
	return c[rng.Intn(len(c))] + rng.Intn(40)
}

// genLongFinite: a FiniteReplayer through thousands of Puts of one message, replays aimed at the end.
func genLongFinite(rng *rand.Rand, thorough bool) string {
	n := 2 + rng.Intn(7)
	auto := rng.Intn(12) != 0
	s := &rgState{n: n, auto: auto}
	total := longTotal(rng, thorough)
	for s.accepted < total && len(s.ops) < 40 {
		switch rng.Intn(6) {
		case 0:
			s.randomPut(rng)
		case 1:
			s.randomReplay(rng, 30)
		default:
			left := total - s.accepted
			k := left
			if rng.Intn(3) != 0 {
				k = 1 + rng.Intn(left)
			}
			s.bulk(rgPickTopics(rng, 2, 20), k)
			if !auto {
				total = 0 // every one of them was rejected
			}
		}
	}
	for k := 2 + rng.Intn(3); k > 0; k-- {
		s.randomReplay(rng, 25)
		if rng.Intn(3) == 0 {
			s.randomPut(rng)
		}
	}
	return fmt.Sprintf("%d %s %s", n, b01(auto), s.opsString())
}

// genLongValid: the same through a ValidReplayer; the entries expire in between so that the buffer stays small
// (the model's queue operations are linear in its length).
func genLongValid(rng *rand.Rand, thorough bool) string {
	ttl := pick(rng, int64(2), 10, 1000)
	gci := pick(rng, int64(0), 1, ttl/2, ttl)
	s := &rgState{valid: true, auto: true, ttl: ttl, gci: gci}
	total := longTotal(rng, thorough)
	for s.accepted < total {
		k := 100 + rng.Intn(500)
		if k > total-s.accepted {
			k = total - s.accepted
		}
		s.bulk(rgPickTopics(rng, 0, 20), k)
		switch rng.Intn(8) {
		case 0:
			s.randomReplay(rng, 30)
		case 1:
			s.randomPut(rng)
		}
		if s.accepted < total || rng.Intn(2) == 0 {
			s.tick(pick(rng, ttl, ttl, ttl+1, ttl-1))
			if gci == 0 || rng.Intn(3) == 0 {
				s.gc()
			}
		}
	}
	for k := 2 + rng.Intn(3); k > 0; k-- {
		s.randomReplay(rng, 25)
		if rng.Intn(3) == 0 {
			s.goodPut(rng)
		}
	}
	return fmt.Sprintf("%d %d 1 %s", ttl, gci, s.opsString())
}

// how many long histories a generator call emits before its n random cases
func longCount(thorough bool) int {
	if thorough {
		return 8
	}
	return 3
}

// ---------------------------------------------------------------- generators

func genC08(rng *rand.Rand, n int, thorough bool, emit func(string)) {
	if thorough {
		enumFinite("FINITE", emit)
	}
	for i := 0; i < longCount(thorough); i++ {
		emit("FINITE " + genLongFinite(rng, thorough))
	}
	for i := 0; i < n; i++ {
		emit("FINITE " + genFiniteHistory(rng, thorough, -1, false))
	}
}

func genC09(rng *rand.Rand, n int, thorough bool, emit func(string)) {
	if thorough {
		enumValid("VALID", emit)
	}
	for i := 0; i < longCount(thorough); i++ {
		emit("VALID " + genLongValid(rng, thorough))
	}
	for i := 0; i < n; i++ {
		emit("VALID " + genValidHistory(rng, thorough, -1, false))
	}
}

func genC18(rng *rand.Rand, n int, thorough bool, emit func(string)) {
	if thorough {
		enumFinite("FINITES", emit)
		enumValid("VALIDS", emit)
	}
	for i := 0; i < longCount(thorough); i++ {
		emit("FINITES " + genLongFinite(rng, thorough)) // (a ValidReplayer's slot report would be as long as its buffer)
	}
	// … but one ValidReplayer history with thousands of entries expiring together, collected by the next Put, is run:
	// a collection releases everything that has expired, however much that is
	emit(fmt.Sprintf("VALIDS 1000 d 1 N:_:%d;T:2000;P:_:~;P:_:~", 4100+rng.Intn(2000)))
	for i := 0; i < n; i++ {
		fin := (thorough && rng.Intn(100) < 5) || (!thorough && i < 120) // (quick: the first 120, with finalizers)
		if rng.Intn(2) == 0 {
			if fin {
				emit("FINITEF " + genFiniteHistory(rng, false, 0, true))
			} else {
				emit("FINITES " + genFiniteHistory(rng, thorough, -1, true))
			}
		} else {
			if fin {
				emit("VALIDF " + genValidHistory(rng, false, 0, true))
			} else {
				emit("VALIDS " + genValidHistory(rng, thorough, -1, true))
			}
		}
	}
}

// genC19L: only the long histories — "one Message can be published any number of times and every publication gets
// its own ID" (C19) for numbers of publications past anything a short history reaches
func genC19L(rng *rand.Rand, n int, thorough bool, emit func(string)) {
	for i := 0; i < n; i++ {
		if i%2 == 0 {
			emit("FINITE " + genLongFinite(rng, thorough))
		} else {
			emit("VALID " + genLongValid(rng, thorough))
		}
	}
}

// genGREP: histories for the translated replayers (GFINITE / GVALID), long ones first
func genGREP(rng *rand.Rand, n int, thorough bool, emit func(string)) {
	for i := 0; i < longCount(thorough); i++ {
		emit("GFINITE " + genLongFinite(rng, thorough))
		emit("GVALID " + genLongValid(rng, thorough))
	}
	for i := 0; i < n; i++ {
		if i%2 == 0 {
			emit("GFINITE " + genFiniteHistory(rng, thorough, -1, false))
		} else {
			emit("GVALID " + genValidHistory(rng, thorough, -1, false))
		}
	}
}

func init() {
	generators["GREP"] = genGREP
	generators["C19L"] = genC19L
	generators["C08"] = genC08
	generators["C09"] = genC09
	generators["C18"] = genC18
}

func satAdd(a, b int64) int64 {
	if b > 0 && a > math.MaxInt64-b {
		return math.MaxInt64
	}
	return a + b
}

func satMul(k, a int64) int64 {
	if a > math.MaxInt64/k {
		return math.MaxInt64
	}
	return k * a
}
