package main

import (
	"fmt"
	"math/rand"
	"strings"
)

// Generator for C05 (end to end): replayer kind x publish load x plans of connection cuts.
// The response head (status line + headers) is about 136 bytes; budgets below that cut inside the
// headers, budgets above it inside chunk framing and events.

const e2eHeadLen = 136

func genE2ECut(rng *rand.Rand) string {
	kind := pick(rng, "c", "c", "c", "r")
	switch rng.Intn(10) {
	case 0, 1:
		return fmt.Sprintf("%s%d", kind, rng.Intn(e2eHeadLen+6))
	case 2:
		return fmt.Sprintf("%s%d", kind, e2eHeadLen-3+rng.Intn(12))
	case 3, 4:
		return fmt.Sprintf("h%d", 1+rng.Intn(4))
	}
	return fmt.Sprintf("%s%d", kind, e2eHeadLen+rng.Intn(700))
}

func genC05(rng *rand.Rand, n int, thorough bool, emit func(string)) {
	emitted := 0
	out := func(l string) {
		if emitted < n {
			emit(l)
			emitted++
		}
	}
	if thorough {
		// every offset of a small run: one cut, then two cuts at neighbouring offsets
		for _, rep := range []string{"F", "Va"} {
			seed := 1 + rng.Int63n(1_000_000)
			for k := 0; k < 420; k++ {
				out(fmt.Sprintf("E2E %s %d 6 1 h1,c%d", rep, seed, k))
			}
			for k := e2eHeadLen - 4; k < 300; k += 3 {
				out(fmt.Sprintf("E2E %s %d 8 2 c%d,c%d,c%d", rep, seed, k, k+1, k+40))
			}
		}
	}
	for emitted < n {
		rep := pick(rng, "F", "F", "Fa", "V", "Va")
		nmsgs := pick(rng, 3, 5, 8, 12, 20, 30, 40)
		npub := pick(rng, 1, 1, 2, 3, 4)
		m := pick(rng, 0, 1, 2, 3, 4, 6, 8, 12)
		items := make([]string, m)
		for i := range items {
			items[i] = genE2ECut(rng)
		}
		plan := "-"
		if m > 0 {
			plan = strings.Join(items, ",")
		}
		out(fmt.Sprintf("E2E %s %d %d %d %s", rep, 1+rng.Int63n(1_000_000_000), nmsgs, npub, plan))
	}
}

func init() { generators["C05"] = genC05 }
