package main

// Runners of the replayers (C08, C09, C18): one case = one whole history on a fresh replayer.
//
//	FINITE  <N> <auto 0/1> <ops>                    FINITES: plus the slot report after every op
//	VALID   <ttl> <gcInterval|d> <auto 0/1> <ops>   VALIDS:  plus the slot report after every op
//	FINITEF / VALIDF: as FINITES / VALIDS, plus the finalizer confirmation at the end of the history
//
// ops joined by ';' ('-' = none), fields separated by ':', byte strings hex:
//
//	P:<topics>:<id|~>                                  Put; the message's tag is the index of the op
//	R:<topics>:<lastID|~>:<failAt|->:<flushFails 0/1>  Replay
//	G                                                  GC (ValidReplayer; no-op for FiniteReplayer)
//	T:<delta>                                          the clock advances by delta ns (ValidReplayer)
//
// results joined by ';':
//
//	P=<id> | P!NOTOPIC | P!NOID | P!HASID ; R=<S<tag>.<id>,…,F | ->/<nil|SEND|FLUSH> ; G ; T
//
// slot report (…S, …F variants), appended to every result:
//
//	@<head>.<tail>.<count>.<len>{sorted tags of the messages referenced from ANY slot of the backing array}
//
// The format is the one of lean/Driver/ReplayD.lean.

import (
	"errors"
	"fmt"
	"runtime"
	"sort"
	"strconv"
	"strings"
	"sync"
	"time"

	sse "github.com/tmaxmax/go-sse"
)

var (
	errSend  = errors.New("verif: scripted send error")
	errFlush = errors.New("verif: scripted flush error")
)

type replayOp struct {
	kind       byte // 'P', 'R', 'G', 'T'
	topics     []string
	id         sse.EventID
	failAt     int // -1: never
	flushFails bool
	delta      int64
}

func parseTopics(s string) []string {
	if s == "-" || s == "" {
		return nil
	}
	if s == "=" {
		return []string{} // no topics, but not nil
	}
	var out []string
	for _, p := range strings.Split(s, ",") {
		out = append(out, string(unhx(p)))
	}
	return out
}

func parseEventID(s string) sse.EventID {
	if s == "~" {
		return sse.EventID{}
	}
	return sse.ID(string(unhx(s)))
}

func showEventID(id sse.EventID) string {
	if !id.IsSet() {
		return "~"
	}
	return hxs(id.String())
}

// shareTopics: callers cut their topic lists out of one array (all[:1], all[:2], …): a Put's list that is a prefix of the
// history's longest list so far is handed over as a slice of that list's backing array
func shareTopics(ops []replayOp) {
	var master []string
	for i := range ops {
		t := ops[i].topics
		if ops[i].kind != 'P' && ops[i].kind != 'N' || len(t) == 0 {
			continue
		}
		isPrefix := len(t) <= len(master)
		for k := 0; isPrefix && k < len(t); k++ {
			isPrefix = t[k] == master[k]
		}
		switch {
		case isPrefix:
			ops[i].topics = master[:len(t)]
		case len(t) > len(master):
			master = t
		}
	}
}

func parseReplayOps(s string) ([]replayOp, bool) {
	if s == "-" {
		return nil, true
	}
	var ops []replayOp
	defer func() { shareTopics(ops) }()
	for _, o := range strings.Split(s, ";") {
		f := strings.Split(o, ":")
		switch {
		case f[0] == "P" && len(f) == 3:
			ops = append(ops, replayOp{kind: 'P', topics: parseTopics(f[1]), id: parseEventID(f[2])})
		case f[0] == "N" && len(f) == 3:
			// N:<topics>:<k>: ONE message without an ID put k times in a row
			k, err := strconv.ParseUint(f[2], 10, 20)
			if err != nil {
				return nil, false
			}
			ops = append(ops, replayOp{kind: 'N', topics: parseTopics(f[1]), delta: int64(k)})
		case f[0] == "R" && len(f) == 5:
			op := replayOp{kind: 'R', topics: parseTopics(f[1]), id: parseEventID(f[2]), failAt: -1, flushFails: f[4] == "1"}
			if k, err := strconv.ParseUint(f[3], 10, 31); err == nil {
				op.failAt = int(k)
			}
			ops = append(ops, op)
		case f[0] == "G" && len(f) == 1:
			ops = append(ops, replayOp{kind: 'G'})
		case f[0] == "I" && len(f) == 2:
			d, err := strconv.ParseInt(f[1], 10, 64)
			if err != nil {
				return nil, false
			}
			ops = append(ops, replayOp{kind: 'I', delta: d})
		case f[0] == "T" && len(f) == 2:
			d, err := strconv.ParseInt(f[1], 10, 64)
			if err != nil {
				return nil, false
			}
			ops = append(ops, replayOp{kind: 'T', delta: d})
		default:
			return nil, false
		}
	}
	return ops, true
}

// recWriter is the subscriber: it records the calls it receives.
type recWriter struct {
	tags       map[*sse.Message]int
	calls      []string
	sends      int
	failAt     int
	flushFails bool
}

func (w *recWriter) Send(m *sse.Message) error {
	tag := "?"
	if t, ok := w.tags[m]; ok {
		tag = strconv.Itoa(t)
	}
	w.calls = append(w.calls, "S"+tag+"."+showEventID(m.ID))
	k := w.sends
	w.sends++
	if k == w.failAt {
		return errSend
	}
	return nil
}

func (w *recWriter) Flush() error {
	w.calls = append(w.calls, "F")
	if w.flushFails {
		return errFlush
	}
	return nil
}

// replayerUnderTest is what the history runs against.
type replayerUnderTest struct {
	finite  *sse.FiniteReplayer
	valid   *sse.ValidReplayer
	clock   int64
	instant time.Time // the injected clock's reading: advanced by Add, so that it may run centuries ahead (a Duration cannot)
}

func (r *replayerUnderTest) put(m *sse.Message, topics []string) (*sse.Message, error) {
	if r.finite != nil {
		return r.finite.Put(m, topics)
	}
	return r.valid.Put(m, topics)
}

func (r *replayerUnderTest) replay(s sse.Subscription) error {
	if r.finite != nil {
		return r.finite.Replay(s)
	}
	return r.valid.Replay(s)
}

func (r *replayerUnderTest) slots() (slots []*sse.Message, head, tail, count int) {
	if r.finite != nil {
		return sse.VerifFiniteSlots(r.finite)
	}
	slots, _, head, tail, count = sse.VerifValidSlots(r.valid)
	return
}

// hidden: what the backing array references beyond the slice's length
func (r *replayerUnderTest) hidden() []*sse.Message {
	if r.finite != nil {
		return sse.VerifFiniteHidden(r.finite)
	}
	return sse.VerifValidHidden(r.valid)
}

func showPutErr(err error) string {
	switch {
	case errors.Is(err, sse.ErrNoTopic):
		return "P!NOTOPIC"
	case err.Error() == "message has no ID":
		return "P!NOID"
	case strings.HasPrefix(err.Error(), "message already has an ID"):
		return "P!HASID"
	}
	return "P!OTHER(" + strings.ReplaceAll(err.Error(), " ", "_") + ")"
}

func showTagSet(known map[int]bool, unknown bool) string {
	tags := make([]int, 0, len(known))
	for t := range known {
		tags = append(tags, t)
	}
	sort.Ints(tags)
	parts := make([]string, 0, len(tags)+1)
	for _, t := range tags {
		parts = append(parts, strconv.Itoa(t))
	}
	if unknown {
		parts = append(parts, "?")
	}
	return "{" + strings.Join(parts, ",") + "}"
}

// compressRuns prints a list of Put results with every maximal run in which each result is the successor of the one
// before it (the next decimal ID, or the same error) as first>last (the Lean driver does the same, Driver/ReplayD.lean).
func compressRuns(rs []string) string {
	dec := func(r string) (uint64, bool) {
		if !strings.HasPrefix(r, "P=") || r[2:] == "~" {
			return 0, false
		}
		raw := string(unhx(r[2:]))
		v, err := strconv.ParseUint(raw, 10, 62)
		return v, err == nil && strconv.FormatUint(v, 10) == raw
	}
	succ := func(a, b string) bool {
		if a == b && !strings.HasPrefix(a, "P=") {
			return true
		}
		x, ok1 := dec(a)
		y, ok2 := dec(b)
		return ok1 && ok2 && y == x+1
	}
	var parts []string
	for i := 0; i < len(rs); {
		j := i
		for j+1 < len(rs) && succ(rs[j], rs[j+1]) {
			j++
		}
		if j > i {
			parts = append(parts, rs[i]+">"+rs[j])
		} else {
			parts = append(parts, rs[i])
		}
		i = j + 1
	}
	if len(parts) == 0 {
		return "-"
	}
	return strings.Join(parts, ",")
}

// slotTags: the tags of all non-nil messages referenced from any slot (live or dead).
func slotTags(r *replayerUnderTest, tags map[*sse.Message]int) (known map[int]bool, unknown bool, head, tail, count, n int) {
	slots, head, tail, count := r.slots()
	known = map[int]bool{}
	// (n stays the slice's length: a reference kept beyond it counts like one kept in a dead slot)
	for _, m := range append(slots[:len(slots):len(slots)], r.hidden()...) {
		if m == nil {
			continue
		}
		if t, ok := tags[m]; ok {
			known[t] = true
		} else {
			unknown = true
		}
	}
	return known, unknown, head, tail, count, len(slots)
}

// finalizerLog records which tagged messages were finalised (it holds no message pointers).
type finalizerLog struct {
	mu   sync.Mutex
	done map[int]bool
}

func (l *finalizerLog) mark(tag int) {
	l.mu.Lock()
	l.done[tag] = true
	l.mu.Unlock()
}

func (l *finalizerLog) missing(tags []int) []int {
	l.mu.Lock()
	defer l.mu.Unlock()
	var out []int
	for _, t := range tags {
		if !l.done[t] {
			out = append(out, t)
		}
	}
	return out
}

// runHistory runs the ops; it returns the result string and, with finalizers, the tags of the
// successfully Put messages that no slot references at the end. All message pointers the harness
// holds (the pointer→tag map, the subscriber) die with this frame.
//
//go:noinline
func runHistory(r *replayerUnderTest, ops []replayOp, slotReport bool, fl *finalizerLog) (string, []int) {
	tags := map[*sse.Message]int{}
	stored := map[int]bool{} // tags of the messages Put accepted
	res := make([]string, 0, len(ops))
	for k, op := range ops {
		var out string
		switch op.kind {
		case 'P':
			m := &sse.Message{ID: op.id}
			m.AppendData("m" + strconv.Itoa(k))
			got, err := r.put(m, op.topics)
			if err != nil {
				out = showPutErr(err)
			} else {
				tags[got] = k
				stored[k] = true
				if fl != nil {
					tag := k
					runtime.SetFinalizer(got, func(*sse.Message) { fl.mark(tag) })
				}
				out = "P=" + showEventID(got.ID)
			}
		case 'N':
			m := &sse.Message{}
			m.AppendData("m" + strconv.Itoa(k))
			before := m.String()
			rs := make([]string, 0, op.delta)
			for j := int64(0); j < op.delta; j++ {
				got, err := r.put(m, op.topics)
				if err != nil {
					rs = append(rs, showPutErr(err))
					continue
				}
				tags[got] = k
				stored[k] = true
				rs = append(rs, "P="+showEventID(got.ID))
			}
			out = "N=" + compressRuns(rs)
			if m.String() != before {
				out += "!CALLER-MESSAGE-MODIFIED"
			}
		case 'R':
			w := &recWriter{tags: tags, failAt: op.failAt, flushFails: op.flushFails}
			err := r.replay(sse.Subscription{Client: w, LastEventID: op.id, Topics: op.topics})
			calls := "-"
			if len(w.calls) > 0 {
				calls = strings.Join(w.calls, ",")
			}
			e := "nil"
			switch {
			case err == nil:
			case errors.Is(err, errSend):
				e = "SEND"
			case errors.Is(err, errFlush):
				e = "FLUSH"
			default:
				e = "OTHER"
			}
			out = "R=" + calls + "/" + e
		case 'G':
			if r.valid != nil {
				r.valid.GC()
			}
			out = "G"
		case 'T':
			if r.valid != nil {
				r.clock += op.delta
				r.instant = r.instant.Add(time.Duration(op.delta))
			}
			out = "T"
		case 'I':
			if r.valid != nil {
				r.valid.GCInterval = time.Duration(op.delta)
			}
			out = "I"
		}
		if slotReport {
			known, unknown, head, tail, count, n := slotTags(r, tags)
			out += fmt.Sprintf("@%d.%d.%d.%d%s", head, tail, count, n, showTagSet(known, unknown))
		}
		res = append(res, out)
	}
	var unreferenced []int
	if fl != nil {
		known, _, _, _, _, _ := slotTags(r, tags)
		for t := range stored {
			if !known[t] {
				unreferenced = append(unreferenced, t)
			}
		}
		sort.Ints(unreferenced)
		for m := range tags {
			delete(tags, m)
		}
	}
	if len(res) == 0 {
		return "-", unreferenced
	}
	return strings.Join(res, ";"), unreferenced
}

// confirmCollected forces garbage collections until every message of `tags` was finalised;
// it returns the tags that never were.
func confirmCollected(fl *finalizerLog, tags []int) []int {
	missing := fl.missing(tags)
	for round := 0; round < 20 && len(missing) > 0; round++ {
		runtime.GC()
		runtime.Gosched()
		if missing = fl.missing(tags); len(missing) == 0 {
			break
		}
		time.Sleep(time.Duration(round+1) * 500 * time.Microsecond)
		missing = fl.missing(tags)
	}
	return missing
}

var replayClockBase = time.Unix(1000000, 0)

func runReplayHistory(valid, slotReport, finalizers bool) Runner {
	return func(args []string) string {
		r := &replayerUnderTest{}
		var opsArg string
		if !valid {
			if len(args) != 3 {
				return "bad-args"
			}
			n, err := strconv.Atoi(args[0])
			if err != nil || n < 0 {
				return "bad-args"
			}
			opsArg = args[2]
			f, err := sse.NewFiniteReplayer(n, args[1] == "1")
			if err != nil {
				return "NEWERR"
			}
			r.finite = f
		} else {
			if len(args) != 4 {
				return "bad-args"
			}
			ttl, err := strconv.ParseInt(args[0], 10, 64)
			if err != nil {
				return "bad-args"
			}
			opsArg = args[3]
			v, err := sse.NewValidReplayer(time.Duration(ttl), args[2] == "1")
			if err != nil {
				return "NEWERR"
			}
			if args[1] != "d" {
				g, err := strconv.ParseInt(args[1], 10, 64)
				if err != nil {
					return "bad-args"
				}
				v.GCInterval = time.Duration(g)
			}
			r.instant = replayClockBase
			v.Now = func() time.Time { return r.instant }
			r.valid = v
		}
		ops, ok := parseReplayOps(opsArg)
		if !ok {
			return "bad-op"
		}
		var fl *finalizerLog
		if finalizers {
			fl = &finalizerLog{done: map[int]bool{}}
		}
		out, unreferenced := runHistory(r, ops, slotReport, fl)
		if fl != nil {
			// confirmation only: a message no slot references must be collectable while the
			// replayer itself is still alive
			if leaked := confirmCollected(fl, unreferenced); len(leaked) > 0 {
				set := map[int]bool{}
				for _, t := range leaked {
					set[t] = true
				}
				out += " LEAK" + showTagSet(set, false)
			}
			runtime.KeepAlive(r)
		}
		return out
	}
}

func init() {
	runners["FINITE"] = runReplayHistory(false, false, false)
	runners["FINITES"] = runReplayHistory(false, true, false)
	runners["FINITEF"] = runReplayHistory(false, true, true)
	runners["VALID"] = runReplayHistory(true, false, false)
	runners["VALIDS"] = runReplayHistory(true, true, false)
	runners["VALIDF"] = runReplayHistory(true, true, true)
	// the same histories for the translated replayers (Driver/GenReplayD.lean)
	runners["GFINITE"] = runReplayHistory(false, false, false)
	runners["GVALID"] = runReplayHistory(true, false, false)
}
