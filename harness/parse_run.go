package main

import (
	"bufio"
	"bytes"
	"context"
	"errors"
	"fmt"
	"io"
	"net/http"
	"strconv"
	"strings"
	"sync/atomic"
	"time"

	sse "github.com/tmaxmax/go-sse"
)

var errRead = errors.New("verif: scripted read error")

// readErrFor picks the flavour of the scripted read error from the stream itself (so a case line replays the same):
// the plain sentinel, or an error that wraps it *and* io.EOF — a read error all the same ("a read error is reported
// as itself"), whatever else is in its chain
func readErrFor(chunks [][]byte) error {
	n := 0
	for _, c := range chunks {
		n += len(c)
	}
	if n%3 == 1 {
		return fmt.Errorf("%w (the peer went away: %w)", errRead, io.EOF)
	}
	return errRead
}

// scriptedReader returns the given chunks (cut to the destination size), then io.EOF or
// errRead, optionally together with the last bytes.
type scriptedReader struct {
	chunks      [][]byte
	endErr      error
	errWithLast bool
	pulled      int
	closed      atomic.Bool
}

// errBodyClosed: what net/http's response bodies answer to a Read after Close
var errBodyClosed = errors.New("http: read on closed response body")

func (r *scriptedReader) Read(p []byte) (int, error) {
	if r.closed.Load() {
		return 0, errBodyClosed
	}
	if len(r.chunks) == 0 {
		return 0, r.endErr
	}
	c := r.chunks[0]
	n := copy(p, c)
	r.pulled += n
	if n < len(c) {
		r.chunks[0] = c[n:]
		return n, nil
	}
	r.chunks = r.chunks[1:]
	if len(r.chunks) == 0 && r.errWithLast {
		return n, r.endErr
	}
	return n, nil
}
func (r *scriptedReader) Close() error { r.closed.Store(true); return nil }

func errClass(err error) string {
	switch {
	case err == nil:
		return "nil"
	case err == io.EOF:
		return "EOF"
	case errors.Is(err, sse.ErrUnexpectedEOF):
		return "UEOF"
	case errors.Is(err, errRead):
		return "READ"
	case errors.Is(err, bufio.ErrTooLong):
		return "TOOLONG"
	case errors.Is(err, context.Canceled):
		return "CANCELED"
	case errors.Is(err, context.DeadlineExceeded):
		return "DEADLINE"
	}
	return "OTHER(" + strings.ReplaceAll(err.Error(), " ", "_") + ")"
}

func showEvent(e sse.Event) string {
	return "E " + hxs(e.LastEventID) + " " + hxs(e.Type) + " " + hxs(e.Data)
}

func showEvents(ev []string) string {
	if len(ev) == 0 {
		return "-"
	}
	return strings.Join(ev, ";")
}

type rtFunc func(*http.Request) (*http.Response, error)

func (f rtFunc) RoundTrip(r *http.Request) (*http.Response, error) { return f(r) }

const parseInitialInterval = time.Hour + 7

// PARSE <conn> <endErr> <errWithLast> <cfg> <stop> <lastID> <chunks>
// cfg: "-" none | "r:<max>" ReadConfig{MaxEventSize} | "c:<cap|n>:<max>[:w]" Connection.Buffer(buf, max); with ":w" the
// stream is served to the connection's second attempt (the first gets a body that stops inside an event, after its id and event lines: that ID and type
// was never dispatched and does not count; the initial interval is 1 ms + 7 ns then): the buffer
// settings hold for every attempt of a Connection
func runParse(args []string) string {
	if len(args) != 7 {
		return "bad-args"
	}
	conn := args[0] == "1"
	rd := &scriptedReader{chunks: unhxList(args[6]), endErr: io.EOF, errWithLast: args[2] == "1"}
	if args[1] == "1" {
		rd.endErr = readErrFor(rd.chunks)
	}
	// drop empty chunks, as the model does
	var cs [][]byte
	for _, c := range rd.chunks {
		if len(c) > 0 {
			cs = append(cs, c)
		}
	}
	rd.chunks = cs
	cfg := strings.Split(args[3], ":")
	stop := -1
	if args[4] != "-" {
		stop = atoi(args[4])
	}
	var events []string
	if !conn {
		var rc *sse.ReadConfig
		if cfg[0] == "r" {
			rc = &sse.ReadConfig{MaxEventSize: atoi(cfg[1])}
		}
		errOut := "nil"
		n := 0
		// a whole stream handed over in one piece is, every other time, a *bytes.Reader (a reader that knows its
		// length: Len()) — what most callers of Read have in hand
		var src io.Reader = rd
		var lenRd *bytes.Reader
		total := 0
		if len(rd.chunks) == 1 && args[1] != "1" && args[2] != "1" && len(rd.chunks[0])%2 == 1 {
			total = len(rd.chunks[0])
			lenRd = bytes.NewReader(rd.chunks[0])
			src = lenRd
		}
		seq := sse.Read(src, rc)
		seq(func(e sse.Event, err error) bool {
			if err != nil {
				errOut = errClass(err)
				if e != (sse.Event{}) {
					errOut += "+EVENT"
				}
				return true
			}
			if errOut != "nil" {
				errOut += "+EVENT-AFTER-ERROR"
			}
			events = append(events, showEvent(e))
			n++
			return n != stop
		})
		pulled := rd.pulled
		if lenRd != nil {
			pulled = total - lenRd.Len()
		}
		// the returned sequence may be ranged over again (Go iterators are re-entrant by convention): whatever a
		// second pass finds in the reader, it must not panic (a panic is caught by the case runner)
		seq(func(sse.Event, error) bool { return true })
		return fmt.Sprintf("%s | %s | %d | -", showEvents(events), errOut, pulled)
	}
	ctx, cancel := context.WithCancel(context.Background())
	defer cancel()
	attempts := 0
	warm := len(cfg) == 4 && cfg[3] == "w"
	client := sse.Client{
		HTTPClient: &http.Client{Transport: rtFunc(func(r *http.Request) (*http.Response, error) {
			attempts++
			if warm && attempts == 1 {
				return &http.Response{StatusCode: 200, Header: http.Header{"Content-Type": {"text/event-stream"}}, Body: io.NopCloser(strings.NewReader("id: warm-up\nevent: warm-up\ndata: x")), Request: r}, nil
			}
			if attempts > 1 && !(warm && attempts == 2) {
				return nil, ctx.Err()
			}
			return &http.Response{StatusCode: 200, Header: http.Header{"Content-Type": {"text/event-stream"}}, Body: rd, Request: r}, nil
		})},
		ResponseValidator: sse.NoopValidator,
		Backoff:           sse.Backoff{InitialInterval: parseInitialInterval, Jitter: -1, Multiplier: 1},
	}
	if warm {
		client.Backoff.InitialInterval = time.Millisecond + 7
	}
	errOut, wait := "NO-RETRY", "-"
	var c *sse.Connection
	setBuffer := func() {
		if cfg[0] == "c" {
			var buf []byte
			if cfg[1] != "n" {
				buf = make([]byte, 0, atoi(cfg[1]))
			}
			c.Buffer(buf, atoi(cfg[2]))
		}
	}
	// every other `:w` case sets the buffer between the two attempts (from OnRetry) instead of before Connect: what
	// Connection.Buffer says holds for the attempts that follow the call
	lateBuffer := warm && len(rd.chunks)%2 == 0
	client.OnRetry = func(err error, d time.Duration) {
		if warm && attempts == 1 {
			if lateBuffer {
				setBuffer()
			}
			return
		}
		var ce *sse.ConnectionError
		if errors.As(err, &ce) {
			errOut = errClass(ce.Err)
		} else {
			errOut = "UNWRAPPED:" + errClass(err)
		}
		wait = strconv.FormatInt(int64(d), 10)
		cancel()
	}
	req, _ := http.NewRequestWithContext(ctx, http.MethodGet, "http://verif.invalid/", http.NoBody)
	c = client.NewConnection(req)
	if !lateBuffer {
		setBuffer()
	}
	c.SubscribeToAll(func(e sse.Event) {
		if warm && attempts == 1 {
			events = append(events, "WARMUP:"+showEvent(e))
			return
		}
		events = append(events, showEvent(e))
	})
	err := c.Connect()
	if !errors.Is(err, context.Canceled) || errOut == "NO-RETRY" {
		errOut = "CONNECT-RETURNED:" + errClass(err) + ":" + errOut
	}
	return fmt.Sprintf("%s | %s | %d | %s", showEvents(events), errOut, rd.pulled, wait)
}

var _ = bytes.Equal

func init() { runners["PARSE"] = runParse }
