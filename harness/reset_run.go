package main

// GRST <body> <hdr0> <ids>: Connection.resetRequest step by step (through the verif-tag export), for the function as
// translated (Gen/Reset.lean). body: none | nobody | gb | gbfail:<k> | nogb (as in CONN); hdr0: "-" or the hex value of a
// Last-Event-ID header the request starts with; ids: the connection's last event ID before each call (hex, "_" = empty),
// separated by ';'. Output per call: "<err> <header values> <body> <GetBody calls>".

import (
	"errors"
	"fmt"
	"io"
	"math/rand"
	"net/http"
	"strings"

	sse "github.com/tmaxmax/go-sse"
)

func runGRST(args []string) string {
	if len(args) != 3 {
		return "bad-args"
	}
	req, _ := http.NewRequest(http.MethodPost, "http://verif.invalid/", nil)
	gbCalls := 0
	kind := strings.Split(args[0], ":")
	switch kind[0] {
	case "none":
	case "nobody":
		req.Body = http.NoBody
	case "gb", "gbfail":
		failAt := -1
		if kind[0] == "gbfail" && len(kind) == 2 {
			failAt = atoi(kind[1])
		}
		req.Body = &tagBody{k: 0}
		req.GetBody = func() (io.ReadCloser, error) {
			k := gbCalls
			gbCalls++
			if k == failAt {
				return nil, errGetBody
			}
			return &tagBody{k: gbCalls}, nil
		}
	case "nogb":
		req.Body = &tagBody{k: 0}
	default:
		return "bad-args"
	}
	if args[1] != "-" {
		req.Header.Set("Last-Event-ID", string(unhx(args[1])))
	}
	c := (&sse.Client{}).NewConnection(req)
	var out []string
	for _, id := range strings.Split(args[2], ";") {
		v := ""
		if id != "_" {
			v = string(unhx(id))
		}
		err := c.VerifResetRequest(v)
		e := "nil"
		switch {
		case err == nil:
		case errors.Is(err, sse.ErrNoGetBody):
			e = "NOGETBODY"
		case errors.Is(err, errGetBody):
			e = "GETBODY"
		default:
			e = "OTHER"
		}
		r := c.VerifRequest()
		hv := "-"
		if vals := r.Header.Values("Last-Event-ID"); len(vals) > 0 {
			hs := make([]string, len(vals))
			for i, x := range vals {
				hs[i] = hxs(x)
			}
			hv = strings.Join(hs, ",")
		}
		body := "nil"
		switch b := r.Body.(type) {
		case nil:
		case *tagBody:
			body = fmt.Sprintf("B%d", b.k)
		default:
			if r.Body == http.NoBody {
				body = "nobody"
			} else {
				body = "unknown"
			}
		}
		out = append(out, fmt.Sprintf("%s %s %s %d", e, hv, body, gbCalls))
	}
	return strings.Join(out, " | ")
}

func genGRST(rng *rand.Rand, n int, thorough bool, emit func(string)) {
	ids := []string{"_", "_", "31", "3432", "61206220", "c3a9", "6964", "00"}
	for i := 0; i < n; i++ {
		body := pick(rng, "none", "nobody", "gb", "gb", "nogb", fmt.Sprintf("gbfail:%d", rng.Intn(4)))
		hdr := pick(rng, "-", "-", "6f6c64", "31")
		k := 1 + rng.Intn(6)
		seq := make([]string, k)
		for j := range seq {
			seq[j] = pick(rng, ids...)
		}
		emit(fmt.Sprintf("GRST %s %s %s", body, hdr, strings.Join(seq, ";")))
	}
}

func init() {
	runners["GRST"] = runGRST
	generators["GRST"] = genGRST
}
