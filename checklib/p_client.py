"""Client group: C10 (Last-Event-ID / body reset), C11 (why Connect returns), C12 (retry schedule),
C13 (callback registry). Ops and formats: lean/Driver/ClientD.lean, harness/client_run.go."""
import os
import re


def _items(tr):
    return tr.split(" | ")


def cmp_conn(case, go, m, s):
    """CONN: GO and M are whole traces 'A hdr body gb | C events | R res wait | … | RET res'; S is the trace the
    specification prescribes (Spec.run for the streams, closed forms for header / body / schedule), with a
    marker appended when an observed randomised wait is out of bounds."""
    return go == m, go == s


def cmp_float(case, go, m, s):
    """FLOAT: the float64 code against exact rational arithmetic — TESTING, tolerance 1 ns (+ 2^-51 relative for
    values beyond 2^52 ns where float64 cannot represent every integer)."""
    try:
        g, mm, ss = int(go), int(m), int(s)
    except ValueError:
        return False, False
    tol = 1 + (abs(mm) >> 51)
    return abs(g - mm) <= tol, abs(g - ss) <= tol


def cmp_client(case, go, m, s):
    op = case.split(" ", 1)[0]
    if op == "PARSE":
        # C11 at the level of sse.Read / Connection.read (op and generator of the parser group): events, the error yielded at the
        # end (EOF / UEOF / READ as the specification prescribes) — and for a connection the error is never nil
        import props
        ok_c, ok_p = props.cmp_parse(case, go, m, s)
        g = go.split(" | ")
        if case.split(" ")[1] == "1" and len(g) == 4 and ("nil" in g[1] or g[1].startswith("CONNECT-RETURNED")):
            ok_p = False
        return ok_c, ok_p
    if op == "FLOAT":
        return cmp_float(case, go, m, s)
    if op == "CONN":
        ok_c, ok_p = cmp_conn(case, go, m, s)
        # C11 headline, checked on the observation itself whatever model and specification say
        if go.endswith("RET B:nil") or "TIMEOUT" in go:
            ok_p = False
        return ok_c, ok_p
    return go == m, go == s


def shrink_client(case):
    """candidates: drop ';'-separated elements of the last argument (history / ops / script); for stream
    attempts merge the chunks into one and drop bytes. The configuration arguments are left alone."""
    toks = case.split(" ")
    if toks[0] == "PARSE":
        import runner
        yield from runner.generic_candidates(case)
        return
    if len(toks) < 3 or toks[0] in ("FLOAT", "MERGE", "REGC"):
        return
    parts = toks[-1].split(";")
    n = len(parts)
    chunk = n // 2
    while chunk >= 1:
        for st in range(0, n, chunk):
            cand = parts[:st] + parts[st + chunk:]
            yield " ".join(toks[:-1] + [";".join(cand) if cand else "-"])
        chunk //= 2
    if toks[0] == "CONN":
        for j, pt in enumerate(parts):
            f = pt.split(":")
            if len(f) == 3 and f[0].lstrip("!").startswith("S") and f[2] not in ("-", ""):
                hexs = "".join(c for c in f[2].split(",") if c != "_")
                if "," in f[2]:
                    yield " ".join(toks[:-1] + [";".join(parts[:j] + [":".join(f[:2] + [hexs])] + parts[j + 1:])])
                nb = len(hexs) // 2
                ch = nb // 2
                while ch >= 1:
                    for st in range(0, nb, ch):
                        q = hexs[:2 * st] + hexs[2 * (st + ch):]
                        yield " ".join(toks[:-1] + [";".join(parts[:j] + [":".join(f[:2] + [q or "-"])] + parts[j + 1:])])
                    ch //= 2


def hist_client(case, go):
    a = case.split(" ")
    op = a[0]
    out = ["op:" + op]
    if op == "PARSE":
        g = go.split(" | ")
        return out + ["entry:" + ("Connection.read" if a[1] == "1" else "Read"), "read-end:" + (g[1] if len(g) == 4 else "?")]
    if op == "CONN":
        bk = a[1].split(",")
        out.append("maxRetries:" + ("neg" if bk[5].startswith("-") else "0" if bk[5] == "0" else "pos"))
        out.append("jitter:" + ("off" if bk[2] == "-1/1" else "on"))
        out.append("maxInterval:" + ("unset" if int(bk[3]) <= 0 else "set"))
        out.append("maxElapsed:" + ("unset" if int(bk[4]) <= 0 else "set"))
        out.append("multiplier:" + bk[1])
        out.append("body:" + a[3].split(":")[0])
        its = _items(go)
        na = sum(1 for i in its if i.startswith("A "))
        out.append("attempts:" + (str(na) if na < 4 else "4+"))
        out.append("ret:" + its[-1][4:])
        for h in a[6].split(";"):
            h = h.lstrip("!")
            if h[:1] == "S":
                out.append("stream-end:" + h[1])
                c = h.split(":")[1]
                if c != "-":
                    out.append("cancel:" + c[0])
            elif h != "-":
                out.append("attempt:" + h[:2])
        if "!" in a[6]:
            out.append("cancel:onretry")
        if any(i.startswith("A h:") for i in its):
            out.append("header:sent")
    elif op == "CTRL":
        bk = a[1].split(",")
        out.append("jitter:" + ("off" if bk[2] == "-1/1" else "on"))
        out.append("maxRetries:" + ("neg" if bk[5].startswith("-") else "0" if bk[5] == "0" else "pos"))
        out.append("maxElapsed:" + ("unset" if int(bk[4]) <= 0 else "set"))
        if " stop " in go or "N stop" in go:
            out.append("ctrl:refused")
    elif op == "FLOAT":
        out.append("float:" + a[1])
    elif op == "REG":
        out.append("mode:" + a[1])
        out.append("stale-or-repeated-remover:" + ("y" if len(re.findall(r"u:(\d+)", a[2])) != len(set(re.findall(r"u:(\d+)", a[2]))) else "n"))
    return out


CLIENT_ASSUME = [
    "http.Client.Do is a parameter: it returns a *url.Error or a response (scripted http.RoundTripper in the check)",
    "the body reader, the response validator, GetBody, the clock and the PRNG are parameters with the contracts stated in Model/Connection.lean",
    "bufio.Scanner is re-modelled, not verified (shared with C01)",
    "when the retry timer and ctx.Done() are both ready Go's select chooses at random: the model takes the choice as an oracle "
    "(theorems hold for every oracle); the check reads the choice off the observed trace",
    "reading of 'context done => its error': the context's error is returned when the attempt's own error is the context's error "
    "or when the cancellation is seen at the wait; an attempt that fails for an independent reason while the context is being "
    "cancelled is classified by its own error",
]

C12_ASSUME = CLIENT_ASSUME + [
    "float64 arithmetic of growInterval / nextInterval is abstract in Lean (functions grow, capped, jitter with explicit hypotheses); "
    "the real float code is compared with exact rational arithmetic by the FLOAT cases: this part is TESTING, tolerance 1 ns",
    "controller-level cases use dyadic Multiplier/Jitter and intervals below 2^49 ns (2^38 with jitter) so that float64 arithmetic is exact and the comparison is exact",
    "int64 overflow of an unbounded interval and time.Time overflow are excluded by hypothesis",
    "retry: 0 restores InitialInterval (reset's documented contract) — recorded reading",
    "Connect-level cases assume the time spent between reset and next() is far below MaxElapsedTime margins (>= 50 ms)",
]


def lock_discipline(ctx):
    """C13, race-freedom clause (outside Lean): every function of client_connection.go that touches
    callbacks / callbacksAll / callbackID does so with c.mu held — writers Lock, dispatch RLock."""
    Failure = ctx["Failure"]
    src = open(os.path.join(ctx["REPO"], "client_connection.go")).read()
    # split into top-level funcs
    funcs = re.split(r"\nfunc ", src)[1:]
    bad = []
    seen = 0
    for f in funcs:
        name = f.split("{", 1)[0].strip()
        body = f
        if not re.search(r"c\.callbacks|c\.callbacksAll|c\.callbackID", body):
            continue
        seen += 1
        writes = re.search(r"c\.callbackID\+\+|c\.callbacks(All)?\[[^\]]*\](\[[^\]]*\])?\s*=|delete\(c\.callbacks", body)
        # every closure / function body that touches the maps must take the lock first
        for blk in re.split(r"\n\s*return func\(\) \{", body):
            if not re.search(r"c\.callbacks|c\.callbacksAll|c\.callbackID", blk):
                continue
            w = re.search(r"c\.callbackID\+\+|c\.callbacks(All)?\[[^\]]*\](\[[^\]]*\])?\s*=|delete\(c\.callbacks", blk)
            first_touch = re.search(r"c\.callbacks|c\.callbackID", blk).start()
            lock = re.search(r"c\.mu\.Lock\(\)\s*\n\s*defer c\.mu\.Unlock\(\)", blk)
            rlock = re.search(r"c\.mu\.RLock\(\)\s*\n\s*defer c\.mu\.RUnlock\(\)", blk)
            if w:
                if not lock or lock.start() > first_touch:
                    bad.append(name + ": writes the registry without c.mu.Lock")
            else:
                if not ((lock and lock.start() < first_touch) or (rlock and rlock.start() < first_touch)):
                    bad.append(name + ": reads the registry without c.mu")
    if seen < 3:
        bad.append("expected addSubscriber, addSubscriberToAll and dispatch to touch the registry; found %d functions" % seen)
    fails = []
    if bad:
        fails.append({"kind": "property", "case": "<lock discipline of client_connection.go>", "go": "; ".join(bad), "model": "", "spec": "",
                      "why": "a function touches callbacks/callbacksAll/callbackID without holding mu"})
    return {"coverage": {"lock_discipline_functions": seen}, "fails": fails}


def register(PROPS):
    PROPS["C10"] = {
        "generated_layer": True,   # event.go read (which ID counts as dispatched)
        "gens": [{"id": "C10", "quick": 30000, "thorough": 800000, "thorough_seeds": 12},
                 {"id": "GRST", "quick": 3000, "thorough": 80000, "thorough_seeds": 4}],
        "compare": cmp_client,
        "shrink_candidates": shrink_client,
        "nontrivial": lambda c, g: g.count("A ") >= 2 or c.startswith("GRST "),
        "rule": "random outcome histories (transport failure, rejected response, streams with ID-setting / NUL / empty-ID / cut events ending "
                "cleanly, with a read error, blocked until cancelled) x body kinds (none, NoBody, GetBody ok / failing at call k, no GetBody) "
                "x initial header; non-trivial = at least two attempts reached the RoundTripper; distinct by case line",
        "hist": hist_client,
        "assumptions": CLIENT_ASSUME,
    }
    PROPS["C11"] = {
        "generated_layer": True,
        "gens": [{"id": "C11", "quick": 30000, "thorough": 800000, "thorough_seeds": 12},
                 {"id": "C01", "quick": 15000, "thorough": 300000, "thorough_seeds": 6},
                 # "retried according to the backoff policy … the last error when retries are exhausted": the controller that
                 # decides whether there is a next retry (CTRL, with MaxRetries / MaxElapsedTime set), as in C12
                 {"id": "C12", "quick": 6000, "thorough": 100000, "thorough_seeds": 4}],
        "compare": cmp_client,
        "shrink_candidates": shrink_client,
        "corpus_also": ["C10", "C01"],
        "nontrivial": lambda c, g: True,
        "rule": "stream (fixed corner list, ID streams, hostile streams; cut after any byte) x ending (EOF, read error, blocked reader released by "
                "cancellation, spurious context error; error with the last bytes) x cancellation point (RoundTripper, callback at event k, OnRetry, "
                "before Connect) x validator verdict x MaxRetries (-1, 0, 1..3) x body kinds; plus the parser group's stream generator through "
                "sse.Read and Connection.read (error yielded at the end); distinct by case line",
        "hist": hist_client,
        "assumptions": CLIENT_ASSUME,
    }
    PROPS["C12"] = {
        "generated_layer": True,   # event.go read (which retry values are reported)
        "gens": [{"id": "C12", "quick": 60000, "thorough": 1500000, "thorough_seeds": 12}],
        "compare": cmp_client,
        "shrink_candidates": shrink_client,
        "nontrivial": lambda c, g: " R " in (" " + g) or g.startswith("N ") or c.startswith("FLOAT") or c.startswith("MERGE"),
        "rule": "mergeDefaults table (zero / negative / NaN / boundary floats); growInterval and nextInterval against exact rationals (testing); "
                "controller op sequences (next with chosen elapsed time and PRNG draw, reset with server values) over dyadic configurations; "
                "Connect runs with Jitter -1 (exact waits) and with jitter (bounds), MaxRetries <0 / 0 / >0, MaxInterval, MaxElapsedTime, "
                "server retry fields valid / zero / invalid / overflowing; distinct by case line",
        "hist": hist_client,
        "assumptions": C12_ASSUME,
        "level_note": "Trusted: Lean kernel (axioms propext, Classical.choice, Quot.sound only), the hand-written model (validated by "
                      "correspondence), the harness. PARTIAL by design (DESIGN.md §6/C12): the float64 arithmetic of growInterval / nextInterval "
                      "is abstract in the theorems (explicit hypotheses, satisfied by the exact-arithmetic instance: exactFloats_capOK, "
                      "wait_within_jitter_exact) and the real float code is only TESTED against exact rationals (tolerance 1 ns); int64 overflow "
                      "of an interval is excluded by hypothesis. " + " ".join(C12_ASSUME),
    }
    PROPS["C13"] = {
        "generated_layer": True,   # addSubscriber / addSubscriberToAll / their removers / dispatch, translated on every run
        "gens": [{"id": "C13", "quick": 60000, "thorough": 1200000, "thorough_seeds": 12, "race": True}],
        "race": True,
        "compare": cmp_client,
        "shrink_candidates": shrink_client,
        "nontrivial": lambda c, g: any(ch.isdigit() for ch in g.split(" | ")[0]) or c.startswith("REGC") or c.startswith("GREG "),
        "rule": "random subscribe / subscribe-all / unsubscribe (repeated, stale, after re-subscribing the same type) / event scripts, events "
                "through VerifDispatch or through a real Connect with a stepped body; concurrent churn variant (REGC), under the race detector "
                "in the thorough tier; GREG: a quarter of the scripts judged against the registry functions as translated; non-trivial = some callback was invoked; distinct by case line; mode w: the stepped stream is the connection's second one (the first was cut inside a typed event)",
        "hist": hist_client,
        "extra": lock_discipline,
        "level_note": "Trusted: Lean kernel (axioms propext, Classical.choice, Quot.sound only), the hand-written model (validated by "
                      "correspondence), the harness. PARTIAL by design (DESIGN.md §6/C13): routing, uniqueness, remover idempotence/locality and "
                      "order are proved; the race-freedom clause is outside Lean — lock discipline is checked on the source text and the "
                      "concurrent variant runs under the Go race detector in the thorough tier (testing).",
        "assumptions": [
            "map iteration order is arbitrary: invoked callbacks are compared as sorted lists per event",
            "in the translated registry functions (Gen/Reset.lean) a callback is a number and a call through it an entry of a log, maps are "
            "association lists ranged over in an order that is a parameter (any), mu.Lock/RLock/Unlock are no-ops (each function is one "
            "critical section: that they do hold mu is the lock-discipline check on the source text), a returned function literal is its "
            "captured variables plus a definition for its body (closure conversion)",
            "race freedom is outside Lean: lock discipline is checked on the source text (every function touching the registry holds mu) "
            "and the concurrent variant runs under the Go race detector in the thorough tier — this clause is TESTING",
        ],
    }
