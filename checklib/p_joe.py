"""Joe (C03, C04, C06, C07, C17): scenario runner + trace inclusion + predicates on the trace."""


def replay_premise(case, go, m, s):
    """C04's theorem (`resume_exact`) is about runs whose replayer conforms to ReplaySpec; that the real replayers
    do is checked here on Put/Replay/GC/clock histories (grow, wrap, collect, shrink): only what Replay calls
    without injected Send/Flush failures send is judged (the rest is C08/C09/C18's subject)."""
    ops = case.split(" ")[-1].split(";")
    g, sp = go.split(";"), s.split(";")
    if len(g) != len(ops) or len(sp) != len(ops):
        return go == m, go == s
    ok = True
    for o, a, b in zip(ops, g, sp):
        f = o.split(":")
        if f[0] == "R" and f[3] == "-" and f[4] == "0" and a != b:
            ok = False
    return go == m or ok, ok


def mk_compare(pid):
    def compare(case, go, m, s):
        if case.startswith(("SPUB ", "SPUBH ")):
            # publishing through the Server's own entry point: who is sent what is a plain list computation
            return go == m, go == s
        if pid == "C04" and (case.startswith("VALID ") or case.startswith("FINITE ")):
            return replay_premise(case, go, m, s)
        if case.startswith("SESS "):
            # the subscriber a Server hands to its provider is a Session: its own Send / Flush error starts there (which
            # writer method flushes, what a failed write leaves behind for the next Send)
            return go == m, s == "ok"
        if case.startswith("E2E "):
            # resumption through the library's own server and client: the ID presented is the request's Last-Event-ID as
            # Upgrade / Server.getSubscription hand it to the provider (with and without OnSession topics)
            import p_e2e
            return p_e2e.cmp_c05(case, go, m, s)
        corr = m == "accept"
        if s == "ok":
            return corr, True
        if not s.startswith("viol "):
            return corr, False
        items = s[5:].split(" ;; ")
        mine = [x for x in items if x.startswith(pid + ":")]
        return corr, not mine
    return compare


def hist(case, go):
    if case[0] in "VF" or case.startswith(("SPUB ", "SPUBH ", "E2E ", "SESS ")):
        return ["op:" + case.split(" ")[0]]
    parts = go.split(" ## ")
    if len(parts) != 3:
        return ["malformed"]
    scen = dict(kv.split("=", 1) for kv in parts[1].split(";") if "=" in kv)
    tr = parts[2].split(",")
    subs = [] if scen.get("subs", "-") == "-" else scen["subs"].split("|")
    pubs = [] if scen.get("pubs", "-") == "-" else scen["pubs"].split("|")
    out = ["replayer:" + scen.get("rep", "?").split(":")[0], "subs:%d" % min(len(subs), 6), "pubs:%s" % ("0" if not pubs else "1-3" if len(pubs) < 4 else "4+")]
    tags = set(e[:2] for e in tr)
    if any(e.startswith("fs") and not e.endswith(":11") for e in tr):
        out.append("ev:send-or-flush-failure")
    if "ua" in tags:
        out.append("ev:unsubscribe")
    if "cx" in tags:
        out.append("ev:cancel")
    if any(e.startswith("sa") and ":ws" in e for e in tr):
        out.append("ev:replayed-sends")
    if any(e.startswith("sa") and e.endswith(":err") for e in tr):
        out.append("ev:replay-error")
    if any(e.endswith(":panic") for e in tr):
        out.append("ev:replayer-panic")
    if any(e.startswith("pa") and e.endswith(":err") for e in tr):
        out.append("ev:put-error")
    if "hr" in tags:
        out.append("ev:second-shutdown")
    if "se" in tags or "pe" in tags:
        out.append("ev:call-after-close")
    if "hx" in tags:
        out.append("ev:shutdown-ctx")
    return out


ASSUME = [
    "Go's channel/select/scheduler semantics are modelled (DESIGN §4), validated by trace inclusion, not proved",
    "the theorems cover every interleaving of the model; no interleaving finer than the hook points is assumed to matter",
    "the recorder takes one global lock per event; events of different goroutines may be recorded out of order, the "
    "validator searches for a consistent linearisation",
    "Send/Flush/Put/Replay calls return (they are single labels of the model)",
]

RULE = ("random scenarios (1-9 subscribers with overlapping topic sets, 0-14 publishes from 1-3 goroutines, cancellations at "
        "start / after the k-th write / with the failing write / after a publish / after a delay, 0-3 Shutdown calls possibly "
        "concurrent or with a cancelled context, k-th Send/Flush failures, replayer none / recording / real FiniteReplayer "
        "(manual and automatic IDs, resuming subscribers) / faulty (error or panic at call k)), run against the real Joe with "
        "random Gosched/sleep perturbation at every hook; writers' own errors that wrap context errors; subscriptions to no topic; one "
        "scenario in fifteen a late resumer (more publications than the ring holds, a subscriber resuming from the oldest held IDs "
        "with a writer failing once), one in fifty a crowd (64-110 subscribers, most failing at once); non-trivial = at least one publish accepted and one subscriber "
        "registered; distinct by scenario seed; C03 also: publications through Server.Publish (SPUB: 1-4 subscribers, 1-5 "
        "publications, topic lists that mix names, the default topic \"\", a name with a comma, a blank, and no topics at all; "
        "SPUBH: the same with the subscribers as Server.ServeHTTP sessions whose topics come from OnSession, some on the default topic); C04 also: end-to-end scenarios (E2E) through the library's server and client")


def nontrivial(case, go):
    if case.startswith(("SPUB ", "SPUBH ")):
        return any(c.isdigit() for c in go)
    if case[0] in "VF":
        return "R=S" in go
    if case.startswith("E2E "):
        return "resumed=0" not in go
    if case.startswith("SESS "):
        return "W" in go or "F" in go
    return ",pa" in go and ",sa" in go or go.startswith("sa")


def register(PROPS):
    for pid in ["C03", "C04", "C06", "C07", "C17"]:
        PROPS[pid] = {
            "gens": [{"id": pid, "quick": 2500, "thorough": 60000, "thorough_seeds": 12, "race": True, "gomaxprocs": [1, 2, 16]}],
            "compare": mk_compare(pid),
            # topicsIntersect; the ring buffer behind the replayers; removeSubscriber / closeSubscribers / the fan-out of joe.go
            "generated_layer": True,
            # C06 forbids every panic; C07 forbids a panic of a repeated or concurrent Shutdown call, and one that kills Joe's own
            # goroutine (no pending call returns any more)
            "on_crash": ("property" if pid == "C06" else
                         (lambda text: "property" if "(*Joe).Shutdown" in text or "(*Joe).start" in text else "correspondence") if pid == "C07" else
                         # C03 / C17: a panic that kills Joe's goroutine ends every delivery ("delivery continues", "every message ... is handed")
                         (lambda text: "property" if "(*Joe).start" in text else "correspondence") if pid in ("C03", "C17") else
                         "correspondence"),
            "nontrivial": nontrivial,
            "rule": RULE,
            "hist": hist,
            "assumptions": ASSUME,
            "race": True,
            "shrink_candidates": lambda case: iter(()),
            "corpus_also": ["JOE"],
            "replay_repeats": 300,
            # the trace recorder relies on these hook call sites (tag verif) being where the model expects them
            **({"gens": [{"id": "C03", "quick": 2500, "thorough": 60000, "thorough_seeds": 12, "race": True, "gomaxprocs": [1, 2, 16]},
                         {"id": "SPUB", "quick": 2000, "thorough": 60000, "thorough_seeds": 6}]} if pid == "C03" else {}),
            **({"gens": [{"id": "C04", "quick": 2500, "thorough": 60000, "thorough_seeds": 12, "race": True, "gomaxprocs": [1, 2, 16]},
                         {"id": "C09", "quick": 12000, "thorough": 300000, "thorough_seeds": 8},
                         {"id": "C08", "quick": 8000, "thorough": 200000, "thorough_seeds": 8},
                         {"id": "C05", "quick": 150, "thorough": 4000, "thorough_seeds": 4}]} if pid == "C04" else {}),
            **({"gens": [{"id": pid, "quick": 2500, "thorough": 60000, "thorough_seeds": 12, "race": True, "gomaxprocs": [1, 2, 16]},
                         {"id": "C16S", "quick": 4000, "thorough": 100000, "thorough_seeds": 4},
                         # sessions of a Server (with and without a Logger) under Joe, one of them on a writer whose flush fails
                         {"id": "SPUB", "quick": 600, "thorough": 20000, "thorough_seeds": 4}]} if pid in ("C06", "C17") else {}),
            "facts": {"hooks": ["Joe.Publish:3", "Joe.Shutdown:5", "Joe.Subscribe:7", "Joe.closeSubscribers:1", "Joe.init:6",
                                "Joe.removeSubscriber:1", "Joe.start:11"]},
        }
