"""Message side: C02 (encode/decode, no injection), C14 (EventID/EventType are single lines),
C15 (text round trip, writer accounting), C19 (Put does not mutate, clones are independent).
Case formats: lean/Driver/MessageD.lean, harness/message_run.go."""
import re


def _parts(s, n):
    p = s.split(" | ")
    return p if len(p) == n else None


def _hexlen(h):
    return 0 if h in ("-", "_", "") else len(h) // 2


# ------------------------------------------------------------------------------------ C02
def cmp_enc(case, go, m, s):
    """GO/M: 'bytes | three-encoders-agree | events(sse.Read) | err'.
    S: 'spec-decode(gosse) of the real bytes | end | spec-decode(whatwg) | end | expected(gosse) | expected(whatwg)'.
    Property: the real bytes, decoded by the WHATWG interpreter (both dispatch rules) and by sse.Read,
    give exactly the expected events; the three encoders agree."""
    corr = go == m
    g, sp = _parts(go, 4), _parts(s, 6)
    if g is None or sp is None:
        return corr, False
    ok = (g[1] == "1" and sp[0] == sp[4] and sp[2] == sp[5] and sp[1] == "nil" and sp[3] == "nil"
          and g[2] == sp[4] and g[3] == "nil")
    return corr, ok


def hist_enc(case, go):
    if not case.startswith("ENC "):
        return ["op:" + " ".join(case.split(" ")[:2 if case.startswith("FLD ") else 1])]
    a = case.split(" ")[1:]
    g = _parts(go, 4) or ["-", "?", "-", "?"]
    ops = ";".join(x for x in a if x != "-").split(";") if any(x != "-" for x in a) else []
    raw = " ".join(a)
    lab = ["messages:" + (str(len(a)) if len(a) < 5 else "5+"),
           "events:" + (str(0 if g[2] == "-" else g[2].count(";") + 1) if g[2].count(";") < 3 else "4+")]
    for k, name in (("d:", "data"), ("c:", "comment"), ("i:", "id"), ("t:", "type"), ("r:", "retry")):
        if any(o.startswith(k) for o in ops):
            lab.append("has:" + name)
    for o in ops:
        if o.startswith("r:"):
            v = int(o[2:])
            lab.append("retry:" + ("neg" if v < 0 else "0" if v == 0 else "sub-ms" if v < 1000000 else
                                   "max" if v >= 9223372036854775807 - 2000000 else "ms" if v % 1000000 == 0 else "frac"))
    for pat, name in (("0d0a", "crlf"), ("0d", "cr"), ("0a", "lf"), ("00", "nul"), ("efbbbf", "bom"), ("3a", "colon")):
        if re.search(r"(?:^|[:,;])(?:[0-9a-f]{2})*?" + pat, raw):
            lab.append("payload:" + name)
    return lab


# ------------------------------------------------------------------------------------ C15
def cmp_c15(case, go, m, s):
    op = case.split(" ")[0]
    corr = go == m
    if op == "WT":
        # the specification judges what the real code did whatever the number and boundaries of its Write calls
        # (Driver/MessageD.lean wtVerdict): a rewrite that batches its writes breaks the correspondence, not the property
        return corr, s == "ok"
    if op == "RT":
        return corr, s == "n/a" or go == s
    if op == "UT":
        return corr, s == "ok"
    if op in ("FLD", "GFLD", "CFLD"):
        return cmp_c14(case, go, m, s)
    return corr, go == s


def hist_c15(case, go):
    a = case.split(" ")
    lab = ["op:" + a[0]]
    if a[0] == "WT":
        g = _parts(go, 5) or ["0", "?", "-", "0", "0"]
        lab.append("write:" + g[1])
        if a[2] != "-":
            lab.append("fault-at:" + ("first" if a[2] == "0" else "later"))
            lab.append("fault:" + ("short" if a[3] != "1000" else "full") + ("+err" if a[4] == "1" else ""))
    elif a[0] in ("RT", "UT", "GUT"):
        lab.append("result:" + go.split(" | ")[0][:40])
    return lab


# ------------------------------------------------------------------------------------ C14
def cmp_c14(case, go, m, s):
    if case.startswith("CFLD "):
        return go == m, go == s
    if case.startswith("GFLD "):
        # model column = Scan / UnmarshalJSON as translated, specification column = the hand-written model: the real code equals both
        return go == m, go == s
    return go == m, s == "ok"


def hist_c14(case, go):
    if case.startswith(("GFLD ", "CFLD ")):
        return ["op:" + case.split(" ")[0]]
    a = case.split(" ")
    if a[0] == "UT":
        return ["route:Message.UnmarshalText", "result:" + go.split(" | ")[0]]
    g = go.split(" ")
    route = a[1] if a[1] != "hdr" else "hdr-" + a[2]
    if a[1].startswith("scan"):
        route += "-" + a[2]
    return ["route:" + route, "set:" + (g[0] if g else "?"), "err:" + (g[2] if len(g) > 2 else "?")]


# ------------------------------------------------------------------------------------ C19
def hist_c19(case, go):
    ops = case.split(" ")[1].split(";") if " " in case else []
    g = _parts(go, 2) or ["-", "-"]
    lab = ["ops:" + ("<6" if len(ops) < 6 else "<12" if len(ops) < 12 else "12+")]
    for k in sorted(set(o[0] for o in ops if o)):
        lab.append("has:" + k)
    members = 0 if g[0] == "-" else g[0].split(";")[-1].count(",") + 1
    lab.append("members:" + (str(members) if members < 5 else "5+"))
    for p in set(x[0] for x in g[1].split(",") if x and x != "-"):
        lab.append("put:" + p)
    return lab


def shrink_msgs(case):
    """drop whole message tokens of ENC cases, then the generic candidates"""
    import runner
    toks = case.split(" ")
    if toks[0] == "ENC" and len(toks) > 2:
        for i in range(1, len(toks)):
            yield " ".join(toks[:i] + toks[i + 1:])
    yield from runner.generic_candidates(case)


MSG_ASSUME = [
    "Go strings are byte lists; Retry is an int64 number of nanoseconds (no overflow inside Duration.Milliseconds)",
    "the io.Writer contract (0 <= n <= len(p); n < len(p) implies err != nil) for the accounting theorem",
]


def register(PROPS):
    def cmp_c02(case, go, m, s):
        # clone families (FAM): messages built by Clone + appends must encode to their own history too —
        # "no string ... can leak into a neighbouring message" covers messages that share a backing array
        if case.startswith("FAM "):
            return go == m, go == s
        # the ID / type of an encoded message may come from any construction route (Scan, UnmarshalText, JSON, header):
        # a route that lets a line break through — or keeps a reference to a buffer its caller reuses — puts foreign
        # lines on the wire; the routes are run here as well (their own property is C14)
        # what reaches a writer that is slow, fails, or writes other messages meanwhile (WT) is the wire form as well
        if case.startswith(("WT ", "RT ", "UT ", "GUT ", "GWT ")):
            return cmp_c15(case, go, m, s)
        if not case.startswith("ENC "):
            return cmp_c14(case, go, m, s)
        return cmp_enc(case, go, m, s)

    PROPS["C02"] = {
        "generated_layer": True,
        "gens": [{"id": "C02", "quick": 30000, "thorough": 1200000, "thorough_seeds": 12},
                 {"id": "C19", "quick": 6000, "thorough": 200000, "thorough_seeds": 8},
                 {"id": "C14", "quick": 6000, "thorough": 200000, "thorough_seeds": 8},
                 {"id": "C15", "quick": 6000, "thorough": 200000, "thorough_seeds": 8}],
        "compare": cmp_c02,
        "shrink_candidates": shrink_msgs,
        "nontrivial": lambda c, g: not g.startswith("- |"),
        "rule": "1-4 (sometimes up to 12) messages, each built by 0-6 random AppendData/AppendComment/NewID/NewType/Retry ops; "
                "payloads assembled from CR/LF/CRLF runs, colons, spaces, 'id: x' look-alikes, BOM, NUL, multi-byte runes, "
                "invalid UTF-8; Retry from negative/0/sub-ms/1ms/fractional/large/MaxInt64/MinInt64 and every digit-count "
                "boundary; non-trivial = the concatenated wire form is non-empty; distinct by case line",
        "hist": hist_enc,
        "assumptions": MSG_ASSUME + ["sse.Read is given the whole wire form in one read (segmentation is C01's subject)"],
    }
    PROPS["C15"] = {
        "generated_layer": True,
        "gens": [{"id": "C15", "quick": 40000, "thorough": 1500000, "thorough_seeds": 12},
                 # "decode(encode(m)) = m" is about every message that can be built: an ID or type that reached the message by
                 # any of its routes (Scan, JSON, text, the constructors) is a single line or is not set — the C14 cases
                 {"id": "C14", "quick": 8000, "thorough": 150000, "thorough_seeds": 4},
                 # "ordered data/comment lines, identical bytes from every encoder" holds of every message however it came
                 # about — cloned, appended to after its clone was, published: the family scripts of C19
                 {"id": "C19", "quick": 6000, "thorough": 150000, "thorough_seeds": 4}],
        "compare": cmp_c15,
        "nontrivial": lambda c, g: not (g.startswith("0 | nil") or g.startswith("UEOF")),
        "rule": "messages as for C02; WT: a writer failing or short-writing (0..3 or all bytes, with/without error) at the k-th "
                "Write for every k of the encoding, one past it, and never; RT: MarshalText then UnmarshalText into a "
                "populated receiver; UT: damaged/hostile wire texts; non-trivial = something was written or parsed; "
                "plus the construction routes of an ID / type (FLD, as in C14): a value that cannot round-trip is never set",
        "hist": hist_c15,
        "assumptions": MSG_ASSUME,
    }
    PROPS["C14"] = {
        "generated_layer": True,
        "gens": [{"id": "C14", "quick": 30000, "thorough": 1000000, "thorough_seeds": 12}],
        "compare": cmp_c14,
        "nontrivial": lambda c, g: True,
        "rule": "every construction route (NewID/NewType, ID/Type, UnmarshalText, UnmarshalJSON direct and through "
                "encoding/json, Scan with nil/[]byte/string/int64/float64/bool/time.Time, Message.UnmarshalText, the "
                "Last-Event-Id header through Upgrade with canonical/lower-case/Add-ed keys and 0-2 values) x single-line, "
                "multi-line and hostile strings; every case counts; distinct by case line",
        "hist": hist_c14,
        # the route inventory: every statement of the package that builds or assigns a messageField must be a modelled one
        "facts": {
            "messageField.assignments": [
                "Message.UnmarshalText:e.ID.set", "Message.UnmarshalText:e.ID.value",
                "Message.UnmarshalText:e.Type.set", "Message.UnmarshalText:e.Type.value",
                "messageField.Scan:*i=f", "messageField.Scan:*i=messageField{}",
                "messageField.UnmarshalJSON:*i=id", "messageField.UnmarshalJSON:*i=messageField{}",
                "messageField.UnmarshalText:*i=id", "messageField.UnmarshalText:*i=messageField{}"],
            "messageField.literals": [
                "messageField.Scan:messageField{}", "messageField.UnmarshalJSON:messageField{}",
                "messageField.UnmarshalText:messageField{}",
                "newMessageField:messageField{value: value, set: true}", "newMessageField:messageField{}"],
        },
        "assumptions": ["encoding/json's decoding of a document into a string is taken from encoding/json itself (parameter of the model)",
                        "the inventory of construction routes is the one read off message_fields.go, message.go and session.go"],
    }
    def cmp_c19(case, go, m, s):
        # an ID or type that aliases a buffer its caller reuses is shared state between a message, its clones and its
        # published copies: the construction routes are run here as well (their own property is C14)
        if case.startswith(("UT ", "GUT ")):
            return cmp_c15(case, go, m, s)
        if case.startswith(("FLD ", "GFLD ")):
            return cmp_c14(case, go, m, s)
        # what sending a message through the library's own Session does to it (Server.Publish reaches every subscriber
        # through Session.Send): the message is what it was before, whatever became of the write
        if case.startswith("SESS "):
            return go == m, s == "ok"
        # Joe scenarios: the caller's message after Publish (whatever the replayer answered) must be what it was before
        if case.startswith("JOE "):
            corr = m == "accept"
            if s == "ok":
                return corr, True
            if not s.startswith("viol "):
                return corr, False
            return corr, not [x for x in s[5:].split(" ;; ") if x.startswith("C19:")]
        return go == m, go == s

    def hist_c19_all(case, go):
        if case.startswith(("FLD ", "UT ", "GUT ", "GFLD ", "SESS ", "CENC ")):
            return ["op:" + " ".join(case.split(" ")[:2 if case.startswith("FLD ") else 1])]
        if case.startswith(("FINITE ", "VALID ")):
            n = sum(int(o.split(":")[2]) for o in case.split(" ")[-1].split(";") if o.startswith("N:"))
            return ["op:LONG", "long:" + ("<2049" if n < 2049 else "<4097" if n < 4097 else "<65537" if n < 65537 else "65537+")]
        return ["op:JOE"] if case.startswith("JOE ") else hist_c19(case, go)

    PROPS["C19"] = {
        "gens": [{"id": "C19", "quick": 15000, "thorough": 500000, "thorough_seeds": 12},
                 {"id": "C17", "quick": 1200, "thorough": 30000, "thorough_seeds": 6},
                 {"id": "C19L", "quick": 8, "thorough": 60, "thorough_seeds": 6},
                 {"id": "C14", "quick": 4000, "thorough": 100000, "thorough_seeds": 6},
                 {"id": "C16S", "quick": 4000, "thorough": 100000, "thorough_seeds": 6}],
        "compare": cmp_c19,
        "on_crash": "correspondence",
        "replay_repeats": 50,
        "nontrivial": lambda c, g: "," in g or c.startswith("CENC "),
        "rule": "scripts of 2-15 ops (AppendData/AppendComment with 1-3 multi-line strings, NewID/NewType/Retry assignment, "
                "Clone, Put of the same message 1-3 times through Finite/Valid replayers with automatic and required IDs) "
                "on a growing family; String() of every member after every op; non-trivial = at least two members; plus Joe "
                "scenarios (faulty, Finite and Valid replayers, ID-mode-violating publishes): every published message is "
                "compared with its state before Publish; plus long histories (op N: ONE message put 257..8232 times, thorough "
                "up to 65576, through a Finite/ValidReplayer with automatic IDs): every publication's ID, the caller's message "
                "afterwards, replays aimed at the end; plus session cases (SESS: Send/Flush sequences with faults, the same message value sent again, the message compared before and after every Send)",
        "hist": hist_c19_all,
        "assumptions": ["append's growth policy is arbitrary (any capacity >= needed): the theorems quantify over it, "
                        "the model run uses one fixed policy",
                        "uint64 wrap-around of the automatic ID counter is out of scope"],
    }
