#!/usr/bin/env python3
"""Regenerates ../MANIFEST.json from props.py (claimed checks) and properties.jsonl."""
import json, os, sys
here = os.path.dirname(os.path.abspath(__file__))
sys.path.insert(0, here)
import props
VERIF = os.path.dirname(here)
ids = [json.loads(l)["id"] for l in open(os.path.join(VERIF, "properties.jsonl")) if l.strip()]
checks = []
for pid in ids:
    if pid not in props.PROPS or not os.path.exists(os.path.join(VERIF, "lean", "GoSSE", "Props", pid + ".lean")):
        continue
    p = props.PROPS[pid]
    checks.append({
        "property_id": pid,
        "quick_cmd": f"VERIF_TIER=quick ./check {pid}",
        "thorough_cmd": f"VERIF_TIER=thorough ./check {pid}",
        "evidence_file": f"/verif/evidence/{pid}.json",
        "replay_cmd_template": f"./check {pid} --replay {{path}}",
        "engine": "lean4-proof+correspondence",
        "level_claimed": {
            "category": "proof",
            "text": p.get("level_text", "Lean 4 theorems about an executable model of the code, proved for all inputs; the model is tied "
                          "to /repo on every run by a differential correspondence check and the Lean specification is evaluated "
                          "on what the real code did."),
            "design_ref": p.get("design_ref", f"DESIGN.md §6/{pid}"),
        },
        "level_note": p.get("level_note", "Trusted: Lean kernel (axioms propext, Classical.choice, Quot.sound only), the hand-written "
                            "model (validated by correspondence), the harness"
                            + (", the Go→Lean translator and its prelude GoRT.lean for the translated functions (for those the "
                               "hand-written model is not trusted: it is proved equal to the translated source text, DESIGN §3a)"
                               if p.get("generated_layer") else "")
                            + ". " + " ".join(p.get("assumptions", []))),
        "technique": p.get("technique", "Lean 4 machine-checked proof over a hand-written model + differential correspondence check against the real code"
                           + ("; the leaf functions of the model are additionally regenerated from /repo's source by a Go→Lean translator on every "
                              "run and proved equal to the model" if p.get("generated_layer") else "")),
    })
na = [{"property_id": i, "reason": props.NOT_YET.get(i, "check not built yet in this round; no claim is made")}
      for i in ids if i not in [c["property_id"] for c in checks]]
man = {
    "version": 1,
    "setup_cmd": "./setup.sh",
    "hooks": {
        "guard": "verif",
        "enable": "go build -tags verif (the harness module replaces github.com/tmaxmax/go-sse with /repo)",
        "baseline_off_cmd": "cd /repo && GOFLAGS=-mod=mod go test -json -vet=off -count=1 -timeout 25m ./...",
        "source_commits": props.HOOK_COMMITS,
        "add_only": True,
    },
    "engines": [{
        "name": "lean4-proof+correspondence",
        "path": "/verif/lean (models, specifications, theorems, driver), /verif/translate (Go→Lean translator for the leaf functions), /verif/harness (Go side), /verif/checklib (driver of the checks)",
        "serves_properties": [c["property_id"] for c in checks],
        "kind_free_text": "Lean 4 theorems over hand-written executable models; model tied to the code by a differential line-protocol "
                          "correspondence check (Go harness vs compiled Lean driver) and go/ast-extracted source facts",
    }],
    "checks": checks,
    "not_applicable": na,
    "notes": "Every check runs: (A') where the property rests on translated leaf functions: regenerate GoSSE/Gen from /repo's source and re-check the equivalence theorems, (A) lake build of its theorems + #print axioms audit, (B) source facts, (C) corpus + generated cases real "
             "code vs Lean model, (D) Lean specification vs real code. Fixed defects are recorded in known_findings.json.",
}
json.dump(man, open(os.path.join(VERIF, "MANIFEST.json"), "w"), indent=1)
print("claimed:", [c["property_id"] for c in checks], "not claimed:", [n["property_id"] for n in na])
