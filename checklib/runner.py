"""Driver of every property check: proof audit, source facts, correspondence, oracle.

See ../check for the contract and DESIGN.md §1 for the verdict logic.
"""
import concurrent.futures
import hashlib
import json
import os
import re
import shutil
import subprocess
import sys
import time

VERIF = os.path.dirname(os.path.dirname(os.path.abspath(__file__)))
LEAN = os.path.join(VERIF, "lean")
HARNESS = os.path.join(VERIF, "harness")
EXTRACT = os.path.join(VERIF, "extract")
WORK = os.path.join(VERIF, ".work")
REPO = os.environ.get("VERIF_REPO", "/repo")
DRIVER = os.path.join(LEAN, ".lake", "build", "bin", "gosse-model")
DRIVER_PROCS = int(os.environ.get("VERIF_DRIVER_PROCS", "8"))
ALLOWED_AXIOMS = {"propext", "Classical.choice", "Quot.sound"}
FORBIDDEN = re.compile(r"\b(sorry|admit|native_decide|bv_decide|implemented_by|unsafe)\b|^\s*axiom\s|maxHeartbeats\s+0")

GOENV = dict(os.environ, GOFLAGS="-mod=mod", GOPROXY="off", GOSUMDB="off", GOTOOLCHAIN="local",
             CGO_ENABLED=os.environ.get("CGO_ENABLED", "0"))


def sh(cmd, cwd=None, env=None, input=None, timeout=None):
    p = subprocess.run(cmd, cwd=cwd, env=env, input=input, capture_output=True, text=True, timeout=timeout)
    return p.returncode, p.stdout, p.stderr


class Failure(Exception):
    """A step that no longer checks, with no concrete failing input."""
    def __init__(self, kind, what, detail=""):
        super().__init__(what)
        self.kind, self.what, self.detail = kind, what, detail


# ----------------------------------------------------------------------------------------
# A. proofs

def strip_comments(src):
    src = re.sub(r"/-.*?-/", "", src, flags=re.S)
    return re.sub(r"--.*", "", src)


def lean_module_files(mod):
    """transitive closure of GoSSE.* / Driver.* imports of a module (file paths)"""
    seen, todo = {}, [mod]
    while todo:
        m = todo.pop()
        if m in seen:
            continue
        path = os.path.join(LEAN, *m.split(".")) + ".lean"
        if not os.path.exists(path):
            continue
        seen[m] = path
        for imp in re.findall(r"^import\s+(\S+)", open(path).read(), flags=re.M):
            if imp.startswith("GoSSE") or imp.startswith("Driver"):
                todo.append(imp)
    return seen


def theorems_of(path):
    src = strip_comments(open(path).read())
    ns = []
    out = []
    for line in src.splitlines():
        m = re.match(r"\s*namespace\s+(\S+)", line)
        if m:
            ns.append(m.group(1))
            continue
        m = re.match(r"\s*end\s+(\S+)", line)
        if m and ns and ns[-1] == m.group(1):
            ns.pop()
            continue
        m = re.match(r"\s*(?:@\[[^\]]*\]\s*)?(?:private\s+|protected\s+)?theorem\s+(\S+)", line)
        if m:
            out.append(".".join(ns + [m.group(1)]))
    return out


def proof_step(pid, thorough):
    mod = f"GoSSE.Props.{pid}"
    files = lean_module_files(mod)
    if mod not in files:
        raise Failure("proof", f"{mod} does not exist")
    for m, path in files.items():
        for i, line in enumerate(strip_comments(open(path).read()).splitlines(), 1):
            if FORBIDDEN.search(line):
                raise Failure("proof", f"forbidden construct in {m}:{i}: {line.strip()}")
    if thorough:
        # clean rebuild of the property module's own olean
        for m in files:
            if m.startswith("GoSSE.Props."):
                for ext in ("olean", "ilean", "trace", "hash"):
                    p = os.path.join(LEAN, ".lake", "build", "lib", "lean", *m.split(".")) + "." + ext
                    if os.path.exists(p):
                        os.remove(p)
    rc, out, err = sh(["lake", "build", mod, "gosse-model"], cwd=LEAN)
    if rc != 0:
        bad = [l for l in (out + err).splitlines() if "error" in l][:5]
        raise Failure("proof", f"lake build {mod} failed", "\n".join(bad) or (out + err)[-2000:])
    thms = theorems_of(files[mod])
    if not thms:
        raise Failure("proof", f"{mod} states no theorem")
    os.makedirs(WORK, exist_ok=True)
    audit = os.path.join(WORK, f"Audit_{pid}.lean")
    with open(audit, "w") as f:
        f.write(f"import {mod}\n")
        for t in thms:
            f.write(f"#print axioms {t}\n")
    rc, out, err = sh(["lake", "env", "lean", audit], cwd=LEAN)
    if rc != 0:
        raise Failure("proof", "axiom audit failed to run", (out + err)[-2000:])
    audited = {}
    for m in re.finditer(r"'([^']+)' (does not depend on any axioms|depends on axioms: \[([^\]]*)\])", out):
        axs = set(a.strip() for a in (m.group(3) or "").replace("\n", " ").split(",") if a.strip())
        audited[m.group(1)] = axs
    discharged = 0
    for t in thms:
        if t not in audited:
            raise Failure("proof", f"theorem {t} missing from the axiom audit", out[-1500:])
        extra = audited[t] - ALLOWED_AXIOMS
        if extra:
            raise Failure("proof", f"theorem {t} depends on {sorted(extra)}")
        discharged += 1
    checker = f"cd lean && lake build {mod} && lake env lean .work/Audit_{pid}.lean  (#print axioms on {len(thms)} theorems)"
    if thorough:
        rc, out, err = sh(["lake", "env", "leanchecker", mod], cwd=LEAN)
        if rc != 0:
            raise Failure("proof", f"leanchecker rejected {mod}", (out + err)[-2000:])
        checker += f" && lake env leanchecker {mod}"
    return {"obligations": len(thms), "discharged": discharged, "theorems": thms, "checker_cmd": checker,
            "modules": sorted(files)}


# ----------------------------------------------------------------------------------------
# A'. the generated layer: /repo's leaf functions translated to Lean on every run

TRANSLATE = os.path.join(VERIF, "translate")
GEN_DIR = os.path.join(LEAN, "GoSSE", "Gen")
GEN_EQUIV = "GoSSE.Proofs.GenEquiv"
GEN_EQUIV_MODS = ["GoSSE.Proofs.GenEquiv", "GoSSE.Proofs.GenEquivQueue", "GoSSE.Proofs.GenEquivFields",
                  "GoSSE.Proofs.GenEquivScan", "GoSSE.Proofs.GenEquivWrite", "GoSSE.Proofs.GenEquivEncode", "GoSSE.Proofs.GenEquivReplay",
                  "GoSSE.Proofs.GenEquivUnmarshal", "GoSSE.Proofs.GenEquivEvent", "GoSSE.Proofs.GenEquivSession", "GoSSE.Proofs.GenEquivServer", "GoSSE.Proofs.GenEquivFieldRoutes", "GoSSE.Proofs.GenEquivReset", "GoSSE.Proofs.GenEquivUpgrade", "GoSSE.Proofs.GenEquivBackoff", "GoSSE.Proofs.GenEquivJoeLoop", "GoSSE.Proofs.GenEquivJoeFanout", "GoSSE.Proofs.GenEquivDispatch", "GoSSE.Proofs.GenEquivRegistry", "GoSSE.Proofs.GenEquivWriters"]
GEN_MODS = ["Parser", "Root", "Bufio", "Fields", "Write", "Replay", "Unmarshal", "Event", "Session", "FieldRoutes", "Upgrade", "Writers", "Server", "Reset", "JoeLoop", "Backoff"]   # in import order


def _theorem_at(path, lineno):
    """name of the theorem of a Lean file that contains the given line"""
    name = None
    for i, l in enumerate(open(path).read().splitlines(), 1):
        m = re.match(r"\s*theorem\s+(\S+)", l)
        if m:
            if i > lineno:
                break
            name = m.group(1)
    return name


def _gen_errors(text):
    bad = [l for l in text.splitlines() if "error" in l][:6]
    names = []
    for l in bad:
        m = re.search(r"(GenEquiv\w*)\.lean:(\d+):", l)
        if m:
            t = _theorem_at(os.path.join(LEAN, "GoSSE", "Proofs", m.group(1) + ".lean"), int(m.group(2)))
            if t and t not in names:
                names.append(t)
    head = ("theorems that no longer check: " + ", ".join("GoSSE.GenEquiv." + n for n in names) + "\n") if names else ""
    return head + "\n".join(bad)


def translate_step():
    """Regenerate GoSSE/Gen/*.lean from REPO's current source with /verif/translate and re-check the theorems of
    GoSSE/Proofs/GenEquiv.lean (each generated definition computes the hand-written model's function, without
    panicking, for every input). For /repo the lake tree itself is regenerated; for a scratch copy (VERIF_REPO) the
    generated files are compiled in a directory of their own, shadowing the lake tree's."""
    binp = os.path.join(TRANSLATE, "translate")
    rc, out, err = sh(["go", "build", "-o", binp, "."], cwd=TRANSLATE, env=GOENV)
    if rc != 0:
        raise Failure("translate", "the translator does not build", err[-1500:])
    tag = "repo" if os.path.abspath(REPO) == "/repo" else hashlib.sha1(os.path.abspath(REPO).encode()).hexdigest()[:8]
    tmp = os.path.join(WORK, "gen-" + tag)
    shutil.rmtree(tmp, ignore_errors=True)
    os.makedirs(tmp)
    try:
        rc, out, err = sh([binp, REPO, tmp])
        if rc != 0:
            raise Failure("translate", "the translator cannot translate the current source of the leaf functions "
                          "(the model's tie to them is no longer checked)", (out + err)[-1500:])
        names = sorted(os.listdir(tmp))
        same = names == sorted(f for f in os.listdir(GEN_DIR) if f.endswith(".lean")) and all(
            open(os.path.join(tmp, n)).read() == open(os.path.join(GEN_DIR, n)).read() for n in names)
        funcs = []
        for n in names:
            funcs += re.findall(r"^/-- `([A-Za-z_0-9]+)` \(", open(os.path.join(tmp, n)).read(), flags=re.M)
        info = {"generated_functions": funcs, "generated_text_changed": not same}
        if os.path.abspath(REPO) == "/repo":
            if not same:
                for n in os.listdir(GEN_DIR):
                    if n.endswith(".lean"):
                        os.remove(os.path.join(GEN_DIR, n))
                for n in names:
                    shutil.copy(os.path.join(tmp, n), os.path.join(GEN_DIR, n))
            rc, out, err = sh(["lake", "build"] + GEN_EQUIV_MODS, cwd=LEAN)
            if rc != 0:
                raise Failure("proof", "the definitions generated from /repo's source are no longer proved equal to the model "
                              f"(lake build {' '.join(GEN_EQUIV_MODS)})", _gen_errors(out + err) or (out + err)[-2000:])
        elif not same:
            olean = os.path.join(tmp, "olean")
            env = dict(os.environ, LEAN_PATH=olean + ":" + os.path.join(LEAN, ".lake", "build", "lib", "lean"))
            # Lean resolves a package from the first search-path entry that has its directory: overlay the built tree
            built = os.path.join(LEAN, ".lake", "build", "lib", "lean")
            for d, _, fs in os.walk(os.path.join(built, "GoSSE")):
                rel = os.path.relpath(d, built)
                os.makedirs(os.path.join(olean, rel), exist_ok=True)
                for fn in fs:
                    # (whatever is compiled into the overlay must not be a link into the built tree: the compiler would write through it)
                    if rel.endswith("Gen") or fn.startswith("GenEquiv") or fn.split(".")[0] in {m.split(".")[-1] for m in GEN_EQUIV_MODS}:
                        continue
                    os.symlink(os.path.join(d, fn), os.path.join(olean, rel, fn))
            for fn in os.listdir(built):
                if fn.startswith("GoSSE."):
                    os.symlink(os.path.join(built, fn), os.path.join(olean, fn))
            srcroot = os.path.join(tmp, "src")
            for mod, orig in [("GoSSE.Gen." + g, os.path.join(tmp, g + ".lean")) for g in GEN_MODS] + [
                    (m, os.path.join(LEAN, *m.split(".")) + ".lean") for m in GEN_EQUIV_MODS]:
                src = os.path.join(srcroot, *mod.split(".")) + ".lean"
                os.makedirs(os.path.dirname(src), exist_ok=True)
                shutil.copy(orig, src)
                dst = os.path.join(olean, *mod.split(".")) + ".olean"
                os.makedirs(os.path.dirname(dst), exist_ok=True)
                rc, out, err = sh(["lean", "--root=" + srcroot, "-o", dst, src], cwd=srcroot, env=env)
                if rc != 0:
                    raise Failure("proof", "the definitions generated from the source are no longer proved equal to the model "
                                  f"({mod})", _gen_errors(out + err) or (out + err)[-2000:])
        return info
    finally:
        shutil.rmtree(tmp, ignore_errors=True)


# ----------------------------------------------------------------------------------------
# B. facts extracted from /repo's source

def facts_step(pid, needed):
    """needed: dict fact-name -> expected value (or a predicate)"""
    if not needed:
        return {"facts_checked": 0}
    binp = os.path.join(EXTRACT, "extract")
    rc, out, err = sh(["go", "build", "-o", binp, "."], cwd=EXTRACT, env=GOENV)
    if rc != 0:
        raise Failure("facts", "extractor does not build", err[-1500:])
    rc, out, err = sh([binp, REPO])
    if rc != 0:
        raise Failure("facts", "extractor failed on /repo", (out + err)[-1500:])
    facts = json.loads(out)
    for name, exp in needed.items():
        got = facts.get(name, "<missing>")
        ok = exp(got) if callable(exp) else got == exp
        if not ok:
            want = "<predicate>" if callable(exp) else exp
            raise Failure("facts", f"source fact {name} changed: model assumes {want!r}, /repo has {got!r}")
    return {"facts_checked": len(needed), "facts": {k: facts.get(k) for k in needed}}


# ----------------------------------------------------------------------------------------
# C/D. correspondence and oracle

def build_harness(race=False):
    binp = os.path.join(HARNESS, "harness" + ("-race" if race else ""))
    env = dict(GOENV)
    cmd = ["go", "build", "-tags", "verif", "-o", binp]
    if os.path.abspath(REPO) != "/repo":
        # VERIF_REPO=<dir>: check a scratch copy of the repository (mutation trials) instead of /repo
        os.makedirs(WORK, exist_ok=True)
        tag = hashlib.sha1(os.path.abspath(REPO).encode()).hexdigest()[:8]
        mod = os.path.join(WORK, f"go.{tag}.mod")
        with open(mod, "w") as f:
            f.write(open(os.path.join(HARNESS, "go.mod")).read().replace("=> /repo", "=> " + os.path.abspath(REPO)))
        open(os.path.join(WORK, f"go.{tag}.sum"), "a").close()
        binp = os.path.join(WORK, f"harness-{tag}" + ("-race" if race else ""))
        cmd = ["go", "build", "-modfile", mod, "-tags", "verif", "-o", binp]
    if race:
        env["CGO_ENABLED"] = "1"
        cmd.insert(2, "-race")
    rc, out, err = sh(cmd + ["."], cwd=HARNESS, env=env)
    if rc != 0:
        raise Failure("build", "harness does not build against /repo (tag verif)", err[-3000:])
    return binp


def _driver_part(lines):
    p = subprocess.run([DRIVER], input="\n".join(lines) + "\n", capture_output=True, text=True)
    outs = p.stdout.splitlines()
    if p.returncode != 0 or len(outs) != len(lines):
        raise Failure("driver", f"model driver failed (rc={p.returncode}, {len(outs)}/{len(lines)} answers)", p.stderr[-1500:])
    return outs


def run_driver(lines):
    """lines: list of 'case\\tgo' -> list of (m, s). The driver is a pure function of each line: large batches are
    split over several driver processes (interleaved, so that long cases spread evenly)."""
    if not lines:
        return []
    k = min(DRIVER_PROCS, max(1, len(lines) // 500))
    if k <= 1:
        outs = _driver_part(lines)
    else:
        parts = [lines[i::k] for i in range(k)]
        with concurrent.futures.ThreadPoolExecutor(max_workers=k) as ex:
            res_parts = list(ex.map(_driver_part, parts))
        outs = [None] * len(lines)
        for i, rp in enumerate(res_parts):
            outs[i::k] = rp
    res = []
    for o in outs:
        f = o.split("\t")
        m = f[0][2:] if f and f[0].startswith("M=") else "?"
        s = f[1][2:] if len(f) > 1 and f[1].startswith("S=") else "?"
        res.append((m, s))
    return res


def run_cases(hbin, case_lines, timeout=600, env=None):
    """run given case lines through the real code: list of (case, go)"""
    if not case_lines:
        return []
    p = subprocess.run([hbin, "run"], input="\n".join(case_lines) + "\n", capture_output=True, text=True,
                       timeout=timeout, env=env)
    res = []
    for l in p.stdout.splitlines():
        if l.startswith("#RUN "):
            continue
        f = l.split("\t")
        res.append((f[0], f[1] if len(f) > 1 else "?"))
    if p.returncode != 0 or len(res) != len(case_lines):
        done = len(res)
        crashed = case_lines[done] if done < len(case_lines) else "?"
        tail = (p.stderr or "")[:1500]
        res.append((crashed, "CRASH " + " ".join(tail.split())[:600]))
        # continue after the crashed case
        if done + 1 < len(case_lines):
            res.extend(run_cases(hbin, case_lines[done + 1:], timeout, env))
    return res


def gen_cases(hbin, gen, seed, n, thorough, timeout=3600, env=None):
    cmd = [hbin, "gen", gen, "-seed", str(seed), "-n", str(n), "-tier", "thorough" if thorough else "quick"]
    p = subprocess.run(cmd, capture_output=True, text=True, timeout=timeout, env=env)
    res = []
    running = None
    for l in p.stdout.splitlines():
        if l.startswith("#RUN "):
            running = l[5:]
            continue
        f = l.split("\t")
        if len(f) >= 2:
            res.append((f[0], f[1]))
            running = None
    crash = None
    if p.returncode != 0:
        crash = (running, " ".join((p.stderr or "").split())[:800])
    return res, crash


def default_compare(case, go, m, s):
    """returns (corr_ok, prop_ok)"""
    return go == m, go == s


def crash_kind(prop, text):
    """a crash is a violation of the property itself when the property forbids it (on_crash may decide by the panic text)"""
    k = prop.get("on_crash", "property")
    return k(text) if callable(k) else k


def evaluate(prop, pairs):
    """pairs: list of (case, go). returns list of dicts for failures and stats"""
    ms = run_driver([c + "\t" + g for c, g in pairs])
    cmpf = prop.get("compare", default_compare)
    fails = []
    for (c, g), (m, s) in zip(pairs, ms):
        if g.startswith("CRASH") or g.startswith("PANIC"):
            fails.append({"kind": crash_kind(prop, g), "case": c, "go": g, "model": m, "spec": s,
                          "why": "the real code crashed / panicked"})
            continue
        corr, ok = cmpf(c, g, m, s)
        if not ok:
            fails.append({"kind": "property", "case": c, "go": g, "model": m, "spec": s,
                          "why": "real code disagrees with the specification"})
        elif not corr:
            fails.append({"kind": "correspondence", "case": c, "go": g, "model": m, "spec": s,
                          "why": "real code disagrees with the Lean model"})
    return fails


# generic shrinking of a case line: drop list elements / bytes while the failure kind persists
def shrink(prop, hbin, fail, budget=400):
    cmpf = prop.get("compare", default_compare)
    kind = fail["kind"]

    def still_fails(case):
        try:
            r = run_cases(hbin, [case], timeout=60)
            if not r:
                return None
            c, g = r[0]
            (m, s), = run_driver([c + "\t" + g])
            if g.startswith("CRASH") or g.startswith("PANIC"):
                return {"kind": "property", "case": c, "go": g, "model": m, "spec": s, "why": fail["why"]} if kind == "property" else None
            corr, ok = cmpf(c, g, m, s)
            k = "property" if not ok else ("correspondence" if not corr else None)
            if k == kind:
                return {"kind": k, "case": c, "go": g, "model": m, "spec": s, "why": fail["why"]}
        except Exception:
            return None
        return None

    best = fail
    shrinker = prop.get("shrink_candidates", generic_candidates)
    tries = 0
    improved = True
    while improved and tries < budget:
        improved = False
        for cand in shrinker(best["case"]):
            tries += 1
            if tries >= budget:
                break
            if len(cand) >= len(best["case"]):
                continue
            r = still_fails(cand)
            if r:
                best = r
                improved = True
                break
    return best


def generic_candidates(case):
    toks = case.split(" ")
    for i in range(len(toks) - 1, 0, -1):
        t = toks[i]
        for sep in (";", ","):
            if sep in t:
                parts = t.split(sep)
                # drop halves, then single elements
                n = len(parts)
                chunk = n // 2
                while chunk >= 1:
                    for st in range(0, n, chunk):
                        cand = parts[:st] + parts[st + chunk:]
                        if cand:
                            yield " ".join(toks[:i] + [sep.join(cand)] + toks[i + 1:])
                    chunk //= 2
                # merge adjacent elements for ',' lists of hex chunks
                if sep == "," and all(re.fullmatch(r"[0-9a-f]*|_", p) for p in parts):
                    for j in range(n - 1):
                        a = "" if parts[j] == "_" else parts[j]
                        b = "" if parts[j + 1] == "_" else parts[j + 1]
                        yield " ".join(toks[:i] + [sep.join(parts[:j] + [a + b or "_"] + parts[j + 2:])] + toks[i + 1:])
                break
        parts = re.split(r"([;,])", t)
        for j, p in enumerate(parts):
            if re.fullmatch(r"(?:[0-9a-f]{2}){2,}", p):
                nb = len(p) // 2
                chunk = nb // 2
                while chunk >= 1:
                    for st in range(0, nb, chunk):
                        q = p[:2 * st] + p[2 * (st + chunk):]
                        if q:
                            yield " ".join(toks[:i] + ["".join(parts[:j] + [q] + parts[j + 1:])] + toks[i + 1:])
                    chunk //= 2


# ----------------------------------------------------------------------------------------

def load_known():
    p = os.path.join(VERIF, "known_findings.json")
    if not os.path.exists(p):
        return []
    return json.load(open(p)).get("findings", [])


def matches_known(pid, fail, known):
    for k in known:
        if k.get("status") != "known" or k.get("property") != pid:
            continue
        m = k.get("match", {})
        if "case_regex" in m and not re.search(m["case_regex"], fail["case"]):
            continue
        if "go_regex" in m and not re.search(m["go_regex"], fail["go"]):
            continue
        return k
    return None


def write_replay(pid, seed, body):
    os.makedirs(os.path.join(VERIF, "replays"), exist_ok=True)
    h = hashlib.sha1(json.dumps(body, sort_keys=True).encode()).hexdigest()[:10]
    path = os.path.join(VERIF, "replays", f"{pid}-seed{seed}-{h}.json")
    body = dict(body, property=pid, seed=seed, rerun=f"./check {pid} --replay {os.path.relpath(path, VERIF)}")
    with open(path, "w") as f:
        json.dump(body, f, indent=1)
    return path


def corpus_cases(pid, prop):
    res = []
    for d in [pid] + prop.get("corpus_also", []):
        p = os.path.join(VERIF, "corpus", d)
        if os.path.isdir(p):
            for fn in sorted(os.listdir(p)):
                for l in open(os.path.join(p, fn)):
                    l = l.rstrip("\n")
                    if l.strip() and not l.startswith("#"):
                        res.append(l.split("\t")[0])
    return res


def main(argv):
    import props
    if not argv:
        print(__doc__)
        return 2
    pid = argv[0]
    if pid not in props.PROPS:
        print(f"unknown property {pid}")
        return 2
    prop = props.PROPS[pid]
    tier = os.environ.get("VERIF_TIER", "quick")
    thorough = tier == "thorough"
    if thorough:
        global DRIVER_PROCS
        DRIVER_PROCS = min(DRIVER_PROCS, 2)   # the thorough tier already runs its generators in parallel
    seed = int(os.environ.get("VERIF_SEED", "1"))
    replay = None
    if "--replay" in argv:
        replay = argv[argv.index("--replay") + 1]
    t0 = time.time()
    hbin = None
    violations = []      # (fail dict)
    known_lines = []
    broken = []          # Failure objects (no concrete input)
    cov = {"evaluations": 0, "distinct_nontrivial": 0}
    assumptions = list(prop.get("assumptions", []))
    proof = {}
    known = load_known()
    samples = []
    hist = {}
    nontrivial = set()
    ntf = prop.get("nontrivial", lambda c, g: g not in ("", "-"))
    histf = prop.get("hist")

    try:
        if prop.get("generated_layer"):
            try:
                cov.update(translate_step())
            except Failure as f:
                broken.append(f)
        try:
            proof = proof_step(pid, thorough)
        except Failure as f:
            broken.append(f)
        try:
            cov.update(facts_step(pid, prop.get("facts", {})))
        except Failure as f:
            broken.append(f)
        hbin = build_harness()
        hrace = build_harness(race=True) if (thorough and prop.get("race")) else None

        def account(pairs):
            for c, g in pairs:
                cov["evaluations"] += 1
                if ntf(c, g):
                    nontrivial.add(hashlib.sha1(c.encode()).digest()[:8])
                if histf:
                    for k in histf(c, g):
                        hist[k] = hist.get(k, 0) + 1
            if pairs and len(samples) < 6:
                step = max(1, len(pairs) // 3)
                for c, g in pairs[::step][:3]:
                    if len(samples) < 6:
                        samples.append({"case": c[:400], "observed": g[:300]})

        if replay:
            body = json.load(open(replay if os.path.isabs(replay) else os.path.join(VERIF, replay)))
            # schedule-dependent cases are re-run several times (the recorded trace is in the replay file)
            cases = [body["case"]] * prop.get("replay_repeats", 1) if "case" in body and not body["case"].startswith("<") else []
            pairs = run_cases(hbin, cases)
            account(pairs)
            violations.extend(evaluate(prop, pairs))
            if not cases and body.get("kind") in ("proof", "facts", "build", "driver"):
                pass  # the proof/facts steps above already re-ran
        else:
            # corpus first
            cc = corpus_cases(pid, prop)
            pairs = run_cases(hbin, cc)
            account(pairs)
            cov["corpus_cases"] = len(pairs)
            violations.extend(evaluate(prop, pairs))
            # generated cases
            jobs = []
            for g in prop.get("gens", []):
                n = g["thorough"] if thorough else g["quick"]
                if n <= 0:
                    continue
                seeds = [seed] if not thorough else [seed * 1000 + k for k in range(g.get("thorough_seeds", 8))]
                per = max(1, n // len(seeds))
                for sd in seeds:
                    jobs.append((g, sd, per, hbin))
                if hrace and g.get("race"):
                    jobs.append((g, seed * 7919 + 1, max(1, per // 4), hrace))
                if thorough and g.get("gomaxprocs"):
                    for gp in g["gomaxprocs"]:
                        jobs.append((g, seed * 31 + gp, max(1, per // 2), hbin, gp))

            def do(job):
                g, sd, n, hb = job[:4]
                env = dict(os.environ)
                if len(job) > 4:
                    env["GOMAXPROCS"] = str(job[4])
                pairs, crash = gen_cases(hb, g["id"], sd, n, thorough, env=env)
                fails = evaluate(prop, pairs)
                if crash:
                    fails.append({"kind": crash_kind(prop, "CRASH " + crash[1]),
                                  "case": crash[0] or f"<generator {g['id']} seed {sd} n {n}>", "go": "CRASH " + crash[1],
                                  "model": "", "spec": "", "why": "the harness process died (panic in the real code)"})
                return pairs, fails

            workers = 1 if not thorough else min(12, max(1, len(jobs)))
            with concurrent.futures.ThreadPoolExecutor(max_workers=workers) as ex:
                for pairs, fails in ex.map(do, jobs):
                    account(pairs)
                    violations.extend(fails)
        # extra, property-specific step (e.g. go vet / race / e2e programs)
        extra = prop.get("extra")
        if extra and not replay:
            r = extra(dict(hbin=hbin, thorough=thorough, seed=seed, sh=sh, GOENV=GOENV, REPO=REPO, VERIF=VERIF, Failure=Failure))
            if r:
                cov.update(r.get("coverage", {}))
                violations.extend(r.get("fails", []))
    except Failure as f:
        broken.append(f)

    # shrink + classify
    reported = []
    seen_known = set()
    try:
        hb = hbin
        uniq = {}
        for v in violations:
            uniq.setdefault((v["kind"], v["why"]), []).append(v)
        for (kind, why), vs in uniq.items():
            vs.sort(key=lambda v: len(v["case"]))
            v = vs[0]
            if not v["case"].startswith("<") and hb and os.path.exists(hb):
                v = shrink(prop, hb, v)
            v["count"] = len(vs)
            reported.append(v)
    except Exception as e:  # shrinking is best effort
        reported = violations[:3]
    final = []
    for v in violations:
        k = matches_known(pid, v, known)
        if k:
            if k["what"] not in seen_known:
                seen_known.add(k["what"])
                print(f"KNOWN-FINDING: property={pid} {k['what']}")
        else:
            final.append(v)
    rc = 0
    if final or broken:
        rc = 1
        rep = [v for v in reported if not matches_known(pid, v, known)] or final[:1]
        prop_v = [v for v in rep if v["kind"] == "property"]
        if prop_v:
            path = write_replay(pid, seed, dict(prop_v[0], others=[v for v in rep if v is not prop_v[0]][:5]))
            print(f"VIOLATION property={pid} replay={os.path.relpath(path, VERIF)}")
        else:
            body = {"kind": "no-failing-input"}
            if rep:
                body = dict(rep[0])
            if broken:
                body["broken"] = [{"kind": b.kind, "what": b.what, "detail": b.detail} for b in broken]
                body.setdefault("kind", broken[0].kind)
            body["note"] = ("the proof / source fact / correspondence named here no longer checks; "
                            "no input was found on which the real code violates the property")
            path = write_replay(pid, seed, body)
            print(f"VIOLATION property={pid} replay={os.path.relpath(path, VERIF)} no-failing-input-found")
        for b in broken:
            print(f"  broken[{b.kind}]: {b.what}", file=sys.stderr)
            if b.detail:
                print("    " + b.detail.replace("\n", "\n    "), file=sys.stderr)
        for v in rep[:3]:
            print(f"  {v['kind']}: {v['why']}\n    case: {v['case'][:300]}\n    real:  {v['go'][:300]}\n    model: {v['model'][:300]}\n    spec:  {v['spec'][:300]}", file=sys.stderr)

    if thorough and prop.get("exhaustive_subruns"):
        cov["exhaustive_subruns"] = prop["exhaustive_subruns"]
    cov["distinct_nontrivial"] = len(nontrivial)
    cov["rule"] = prop.get("rule", "")
    cov["samples"] = samples or [{"note": "no cases generated"}]
    if hist:
        # (an evidence file is a record for a reader: the 300 most frequent labels, the rest summed up)
        if len(hist) > 300:
            top = sorted(hist.items(), key=lambda kv: -kv[1])
            hist = dict(top[:300])
            hist["(%d rarer labels)" % (len(top) - 300)] = sum(v for _, v in top[300:])
        cov["input_histogram"] = dict(sorted((k[:160], v) for k, v in hist.items()))
    cov["obligations"] = proof.get("obligations", 0)
    cov["discharged"] = proof.get("discharged", 0)
    cov["theorems"] = proof.get("theorems", [])
    cov["checker_cmd"] = proof.get("checker_cmd", "lake build (failed)")
    cov["trusted_base"] = TRUSTED + prop.get("trusted", []) + ([
        "the Go-to-Lean translator /verif/translate and its prelude GoSSE/GoRT.lean (the semantics it gives to the subset of Go it accepts: "
        "the list of assumptions at the head of GoRT.lean and in DESIGN.md section 4); for the translated functions the hand-written "
        "model is not trusted: it is proved equal to the generated text, which is regenerated from /repo on every run",
    ] if prop.get("generated_layer") else [])
    cov["correspondence_failures"] = len([v for v in violations if v["kind"] == "correspondence"])
    cov["oracle_failures"] = len([v for v in violations if v["kind"] == "property"])
    ev = {"property_id": pid, "tier": "thorough" if thorough else "quick", "seed": seed, "level": "proof",
          "coverage": cov, "assumptions": assumptions, "wall_s": round(time.time() - t0, 2),
          "violations": len(final) + len(broken)}
    if not replay:
        # a scratch copy (VERIF_REPO, mutation trials) leaves /verif/evidence — what was covered on /repo — alone
        evdir = os.path.join(VERIF, "evidence") if REPO == "/repo" else os.path.join(REPO, ".verif-evidence")
        os.makedirs(evdir, exist_ok=True)
        with open(os.path.join(evdir, f"{pid}.json"), "w") as f:
            json.dump(ev, f, indent=1)
    print(f"{pid}: {'OK' if rc == 0 else 'FAILED'} theorems={cov['discharged']}/{cov['obligations']} cases={cov['evaluations']} "
          f"nontrivial={cov['distinct_nontrivial']} wall={ev['wall_s']}s")
    return rc


TRUSTED = [
    "Lean 4.33.0 kernel; axioms allowed in property theorems: propext, Classical.choice, Quot.sound (audited with #print axioms on every run)",
    "the Lean compiler, for the executable model driver used by the correspondence check only",
    "the hand-written Lean model of the Go code (tied to /repo by the correspondence check and the go/ast fact extractor)",
    "the Go harness: generators, canonicalisation of observations",
]
