"""Per-property configuration of ./check: generators, comparators, facts, notes."""
import re


# ---------------------------------------------------------------- parser stack (C01, C20, C11-read)
def parse_split(go):
    g = go.split(" | ")
    return g if len(g) == 4 else None


def cmp_parse(case, go, m, s):
    """GO/M: 'events | err | pulled | wait'; S: 'events | end | wait'.
    Correspondence: exact. Property (C01): events, end condition and effective retry interval as the
    specification prescribes, unless the size limit was hit (C20 covers that): then the events must be
    a prefix of the specification's and nothing else is required here."""
    corr = go == m
    g = parse_split(go)
    if g is None:
        return corr, False
    sp = s.split(" | ")[:3]
    if len(sp) != 3:
        return corr, False
    if g[1] == "TOOLONG":
        ge = [] if g[0] == "-" else g[0].split(";")
        se = [] if sp[0] == "-" else sp[0].split(";")
        return corr, se[:len(ge)] == ge
    return corr, [g[0], g[1], g[3]] == sp


def limit_of(cfg):
    """effective scanner limit L (DESIGN §6/C01): 65536 unless configured"""
    f = cfg.split(":")
    if f[0] == "r":
        m = int(f[1])
        return m if m > 0 else 65536
    if f[0] == "c":
        cap = None if f[1] == "n" else int(f[1])
        m = int(f[2])
        if cap is None and m <= 0:
            return 65536
        return max(m, cap or 0)
    return 65536


def cmp_c20(case, go, m, s):
    """C20: never panic (handled by the runner), bytes pulled from the reader never exceed the bytes of
    completed events + L (checked against the model's exact count through correspondence, and here as
    the bound 'pulled <= total' and 'TOOLONG => pulled <= consumed + L' is implied by pulled == model);
    no truncated event: events are a prefix of the specification's; below the limit: everything intact."""
    corr, ok = cmp_parse(case, go, m, s)
    g = parse_split(go)
    if g is None:
        return corr, False
    a = case.split(" ")
    chunks = [] if a[7] == "-" else a[7].split(",")
    total = sum(len(c) // 2 for c in chunks if c != "_")
    pulled = int(g[2])
    if pulled > total:
        ok = False
    mfb = re.search(r"fits=([01]) bound=(\d+)", s)
    if not mfb:
        return corr, False
    fits, bound = mfb.group(1) == "1", int(mfb.group(2))
    if g[1] == "TOOLONG":
        # (a) a stream in which every piece fits the limit is delivered completely: no ErrTooLong;
        # (b) at most L bytes are read beyond the last completed event before the error is reported
        if fits or pulled > bound:
            ok = False
    elif " must=1" in s and a[5] == "-":
        # (c) an event (or unfinished remainder) that cannot fit in L bytes must end the run with ErrTooLong:
        # anything else means more than L bytes were buffered, or something was delivered in its place
        ok = False
    return corr, ok


def hist_parse(case, go):
    a = case.split(" ")
    g = parse_split(go) or ["?", "?", "0", "-"]
    n_ev = 0 if g[0] == "-" else g[0].count(";") + 1
    chunks = [] if a[7] == "-" else a[7].split(",")
    total = sum(len(c) // 2 for c in chunks)
    size = "0" if total == 0 else "<64" if total < 64 else "<600" if total < 600 else "<5000" if total < 5000 else ">=5000"
    return ["entry:" + ("Connection" if a[1] == "1" else "Read"), "end:" + g[1], "events:" + (str(n_ev) if n_ev < 3 else "3+"),
            "size:" + size, "cfg:" + a[4].split(":")[0], "chunks:" + ("1" if len(chunks) <= 1 else "bytewise" if len(chunks) == total else "n"),
            "stop:" + ("y" if a[5] != "-" else "n")]


PARSE_ASSUME = [
    "bufio.Scanner: its model's Scan is proved equal to the toolchain's scan.go as translated (GenEquivScan.Scan_eq); "
    "NewScanner/Buffer/Text glue and the io.Reader are re-modelled and compared",
    "io.Reader contract: every Read returns at least one byte or an error",
    "byte-level reading of the WHATWG algorithm (values are raw bytes; invalid UTF-8 passes through)",
]

PARSE_FACTS = {
    "const:maxFieldNameLength": lambda v: v.isdigit() and int(v) >= 5,   # "retry"/"event" must fit
    "const:FieldNameData": "data", "const:FieldNameEvent": "event", "const:FieldNameRetry": "retry",
    "const:FieldNameID": "id", "bom": "efbbbf",
}

PROPS = {}

GEN_OPS = ("GNLI ", "GNC ", "GSPLIT ", "GFP ", "GSL ", "GSCAN ", "GFINITE ", "GVALID ", "GUT ", "GWT ", "GPARSE ", "GSESS ", "GCTRL ", "GFLD ", "GRST ", "GREG ")


def with_gen(cmp):
    """GEN ops validate the translator: the model column is the *generated* definition (GoSSE/Gen), the
    specification column the hand-written model; the real leaf function must agree with both."""
    def f(case, go, m, s):
        if case.startswith(GEN_OPS):
            return go == m, go == s
        return cmp(case, go, m, s)
    return f


def hist_with_gen(h):
    def f(case, go):
        if case.startswith(GEN_OPS):
            return ["op:" + case.split(" ")[0]]
        return h(case, go)
    return f


GEN_NOTE = ("the leaf functions (NewlineIndex, NextChunk, trimFirstSpace, getFieldName, splitFunc, FieldParser.*, isSingleLine, "
            "topicsIntersect, queue.enqueue/dequeue/resize), the encoding side (WriteTo, MarshalText, String), bufio.Scanner.Scan and replay.go (ensureID, queue.each, "
            "findIDInQueue, FiniteReplayer.Put/Replay, ValidReplayer.Put/GC/Replay), Message.UnmarshalText, event.go's read and "
            "session.go's Session.Send/Flush/doUpgrade and client.go's back-off controller (float64 abstract) are translated from /repo's source to Lean on every run (translate/) and proved equal to the "
            "model (GoSSE/Proofs/GenEquiv*.lean); the translator's reading of Go (GoSSE/GoRT.lean) is validated by the GEN ops")

PROPS["C01"] = {
    "gens": [{"id": "C01", "quick": 40000, "thorough": 1600000, "thorough_seeds": 16},
             # exhaustive small scope (thorough only): all strings of <= 5 macro symbols x whole / byte-wise / every cut
             {"id": "C01X", "quick": 0, "thorough": 1, "thorough_seeds": 1},
             {"id": "GEN", "quick": 3000, "thorough": 60000, "thorough_seeds": 4}],
    "generated_layer": True,
    "compare": with_gen(cmp_parse),
    "nontrivial": lambda c, g: not g.startswith("- | nil"),
    "rule": "grammar-directed event streams (70% well-formed, 30% hostile fragments) x segmentation (whole, byte-wise, random, "
            "cuts inside CRLF/BOM/runes) x end kind (EOF, error, error with last bytes) x entry point (Read, Connection) x "
            "buffer configuration x early stop; non-trivial = at least one event or a non-nil end condition; distinct by case line",
    "hist": hist_with_gen(hist_parse),
    "assumptions": PARSE_ASSUME + [GEN_NOTE],
    "facts": PARSE_FACTS,
    "exhaustive_subruns": ["C01X: every string of up to 5 symbols over {LF, CR, ':', ' ', 'data', 'id', 'x'} x {whole, byte-wise, "
                           "every single cut point} x {EOF, read error} (model validation / failing-input search, not the proof)"],
}

PROPS["C20"] = {
    "gens": [{"id": "C20", "quick": 6000, "thorough": 200000, "thorough_seeds": 16},
             {"id": "GEN", "quick": 3000, "thorough": 60000, "thorough_seeds": 4}],
    "generated_layer": True,
    "compare": with_gen(cmp_c20),
    "corpus_also": ["C01"],
    "nontrivial": lambda c, g: not g.startswith("- | nil"),
    "rule": "streams with event sizes L-4..L+4 around the limit L (default 65536, 4096, random 2..300; via ReadConfig and all "
            "Connection.Buffer shapes; half of those serve the stream to the connection's second attempt, the first having stopped inside an "
            "event after its id and event lines), endless lines / blank-line runs / comment runs / events, random segmentation, counting "
            "reader; non-trivial = an event or an error was reported; distinct by case line",
    "hist": hist_with_gen(hist_parse),
    "assumptions": PARSE_ASSUME + [GEN_NOTE],
    "facts": PARSE_FACTS,
}

HOOK_COMMITS = ["3043224", "4e02347", "ab15573", "de2eede"]
NOT_YET = {}

# group modules p_<group>.py register their properties: def register(PROPS): PROPS["Cxx"] = {...}
import glob as _glob, importlib as _importlib, os as _os
for _f in sorted(_glob.glob(_os.path.join(_os.path.dirname(_os.path.abspath(__file__)), "p_*.py"))):
    _m = _importlib.import_module(_os.path.basename(_f)[:-3])
    _m.register(PROPS)
