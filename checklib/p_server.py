"""Server group: C16 (Session and Server keep the HTTP side of the protocol)."""
import re


def cmp_c16(case, go, m, s):
    """GO/M: the observation (log of the recording ResponseWriter per Send/Flush call, return values,
    subscription seen by the provider) of the real code / of the Lean model: must be identical.
    S: verdict of the Lean specification (Spec/HttpLog) on the real code's observation."""
    if go == "bad-args" and m == "bad-args":
        return True, True  # not a case (only the shrinker can produce one)
    if case.startswith("GSESS "):
        # model column = session.go as translated, specification column = the hand-written model: the real code equals both
        return go == m, go == s
    return go == m, s == "ok"


def _events(go):
    return [t for t in re.split(r"[,;>| +]", go) if re.match(r"[HWFCD]\d", t)]


def hist_c16(case, go):
    if case.startswith("GSESS "):
        return ["op:GSESS"]
    a = case.split(" ")
    op = a[0]
    layers = a[1].split(".")
    first = next((i for i, c in enumerate(layers) if c != "n"), None)
    shape = "cannot-flush" if first is None else ("depth%d:%s" % (min(first, 2), {"f": "Flush", "e": "FlushError", "b": "both"}[layers[first]]))
    if first is not None and len(layers) > first + 1:
        shape += "+inner"
    nf = 0 if a[2] == "-" else a[2].count(",") + 1
    out = ["op:" + op, "shape:" + shape, "faults:" + (str(nf) if nf < 2 else "2+")]
    evs = _events(go)
    out.append("reported-errors:" + ("y" if any("!" in e for e in evs) else "n"))
    out.append("short-write:" + ("y" if any(e[0] == "W" and "/" in e and e.split(":")[1].split("/")[0] != e.split("/")[1].split("!")[0] for e in evs) else "n"))
    if op == "SESS":
        ops = [] if a[3] == "-" else a[3].split(";")
        out.append("ops:" + ("0" if not ops else "1-2" if len(ops) < 3 else "3+"))
        out.append("flush-ops:" + ("y" if "F" in ops else "n"))
    else:
        hdr = a[3]
        if hdr == "-":
            h = "none"
        else:
            keys = [bytes.fromhex(kv.split("=")[0]).decode("latin1") for kv in hdr.split(";")]
            vals = {bytes.fromhex(kv.split("=")[0]).decode("latin1"): kv.split("=")[1] for kv in hdr.split(";")}
            if "Last-Event-Id" in keys:
                v = vals["Last-Event-Id"]
                first_v = v.split(",")[0]
                fb = b"" if first_v in ("_", "-") else bytes.fromhex(first_v)
                h = ("no-values" if v == "-" else "empty" if first_v == "_" else
                     "multiline" if (b"\n" in fb or b"\r" in fb) else "valid")
                if "," in v:
                    h += "+more-values"
            elif any(k.lower().strip() == "last-event-id" for k in keys):
                h = "non-canonical-key"
            else:
                h = "other-headers"
        out.append("last-event-id:" + h)
        ons = a[4]
        if ons == "nil":
            o = "nil"
        else:
            ok, topics, acts = ons.split("/")
            o = ("accept" if ok == "1" else "reject") + ("+topics" if topics != "-" else "") + ("+own-response" if acts != "-" else "")
        out.append("onsession:" + o)
        out.append("provider-ret:" + a[5].split("/")[0].split(":")[0])
        g = go.split(" | ")
        if len(g) == 4:
            out.append("answer:" + ("500" if "C0:500" in g[3] else "none"))
    return out


def shrink_c16(case):
    import runner
    toks = case.split(" ")
    # fewer layers
    layers = toks[1].split(".")
    for i in range(len(layers)):
        if len(layers) > 1:
            yield " ".join([toks[0], ".".join(layers[:i] + layers[i + 1:])] + toks[2:])
    if toks[2] != "-":
        yield " ".join(toks[:2] + ["-"] + toks[3:])
    for i in (3, 4, 5):
        if i < len(toks) and toks[i] not in ("-", "nil") and toks[0] == "SERVE" and i in (3, 4):
            yield " ".join(toks[:i] + ["-" if i == 3 else "nil"] + toks[i + 1:])
    yield from runner.generic_candidates(case)
    # inside the ops: drop build steps of a message, shorten payloads
    oi = 3 if toks[0] == "SESS" else 5
    if oi < len(toks):
        head, ops = ("", toks[oi]) if toks[0] == "SESS" else tuple(toks[oi].split("/", 1)) if "/" in toks[oi] else ("", toks[oi])
        pre = head + "/" if toks[0] == "SERVE" else ""
        ol = ops.split(";")
        for j, o in enumerate(ol):
            if not o.startswith("S:") or o == "S:-":
                continue
            items = o[2:].split(",")
            for k in range(len(items)):
                rest = items[:k] + items[k + 1:]
                yield " ".join(toks[:oi] + [pre + ";".join(ol[:j] + ["S:" + (",".join(rest) or "-")] + ol[j + 1:])] + toks[oi + 1:])
            for k, it in enumerate(items):
                key, _, val = it.partition("=")
                if key in ("i", "t", "d", "c") and len(val) > 2 and val != "-":
                    for cut in (val[:len(val) // 4 * 2] or "-", val[2:]):
                        yield " ".join(toks[:oi] + [pre + ";".join(ol[:j] + ["S:" + ",".join(items[:k] + [key + "=" + cut] + items[k + 1:])] + ol[j + 1:])] + toks[oi + 1:])


def register(PROPS):
    PROPS["C16"] = {
        "gens": [{"id": "C16", "quick": 30000, "thorough": 800000, "thorough_seeds": 16}],
        "generated_layer": True,   # Session.Send / Flush / doUpgrade over Message.WriteTo, translated on every run (op GSESS)
        "compare": cmp_c16,
        "facts": {"const:headerLastEventID": "Last-Event-Id", "const:headerContentType": "Content-Type",
                  "const:headerContentTypeValue": "text/event-stream", "const:DefaultTopic": ""},
        "nontrivial": lambda c, g: bool(re.search(r"[WF]\d", g)),
        "shrink_candidates": shrink_c16,
        "rule": "SESS: random Send/Flush sequences (0-6 calls) of messages built through the public API (ID/Type/Retry/AppendData/"
                "AppendComment with hostile payloads) on sse.Upgrade over a recording, fault-injecting ResponseWriter in every shape "
                "(Flush only / FlushError only / both / neither, behind 0-3 Unwrap layers that may flush themselves), with no fault, "
                "a fault at one writer call (quick: 3 random calls, thorough: every call, short and full-length failing writes) and "
                "2-4 faults; SERVE: Server.ServeHTTP with Last-Event-ID absent / no values / empty / valid / multiline / several values / "
                "non-canonical keys, OnSession nil / accepting with and without topics / rejecting with and without its own response, "
                "a recording provider that makes Send/Flush calls and returns nil, its own error or the first Send error; "
                "non-trivial = at least one Write or Flush reached the writer; distinct by case line",
        "hist": hist_c16,
        "assumptions": [
            "Session.Send / Flush / doUpgrade (and Message.WriteTo below them) are translated from /repo's source to Lean on every run and proved "
            "equal to the model over the recording writer (GoSSE/Proofs/GenEquivSession.lean); op GSESS: real = translated = model",
            "the response writer obeys the io.Writer contract (a successful Write accepts everything; a failing one accepts at most what was offered); "
            "every Write/Flush call may fail independently (fault schedule = arbitrary function of the call number)",
            "http.Flusher.Flush() cannot report an error: a fault scheduled on such a call is invisible to the session (flusherWrapper returns nil)",
            "the message encoding is taken as the list of Write calls of Message.WriteTo (its correctness is C02/C15); Retry is an int64 duration",
            "http.Error is re-modelled from net/http of Go 1.23 (two headers, WriteHeader, one Write of text+LF); its Del(Content-Length) is not modelled",
            "header assignments are observed through the live map at the next writer call (values compared by slice identity, so re-assigning an equal value is seen)",
            "ServeHTTP answering after the stream has started (provider error after a Send) is outside the property's wording; it is modelled and compared as is",
        ],
    }
