"""Replayers: C08 (FiniteReplayer), C09 (ValidReplayer), C18 (nothing evicted/expired stays referenced).

Case lines and outputs: see lean/Driver/ReplayD.lean and harness/replay_run.go.
  FINITE <N> <auto> <ops> | VALID <ttl> <gcInterval|d> <auto> <ops>;  ...S / ...F variants add the slot
  report `@head.tail.count.len{tags}` (Go, model) resp. `{tags}` (specification) to every op's result.
"""
import re

_DIMS = re.compile(r"@(\d+)\.(\d+)\.(\d+)\.(\d+)\{")
_TAGSETS = re.compile(r"\{([^}]*)\}")


def _ops(case):
    a = case.split(" ")
    return [] if not a or a[-1] == "-" else a[-1].split(";")


def _items(out):
    return [] if out in ("", "-") else out.split(";")


def _tags(s):
    return [] if s == "" else s.split(",")


def cmp_c18(case, go, m, s):
    """Correspondence: exact. Property (C18): after every op, every message referenced from a slot of
    the backing array is one the specification still stores (go tags subset of spec tags); the
    FiniteReplayer's array keeps its length N (so at most N messages are referenced); the op results
    are the specification's; no unknown pointer in a slot; the finalizer confirmation found no leak.
    Go item: `<res>@head.tail.count.len{tags}`, specification item: `<res>{tags}` (string operations
    instead of regular expressions: the thorough tier compares some 10^8 items)."""
    corr = go == m
    if go == "NEWERR" or s == "NEWERR":
        return corr, go == s
    if " LEAK{" in go:
        return corr, False
    a = case.split(" ")
    n = int(a[1]) if a[0].startswith("FINITE") else None
    gi, si = _items(go), _items(s)
    if len(gi) != len(si) or len(gi) != len(_ops(case)):
        return corr, False
    for git, sit in zip(gi, si):
        at = git.rfind("@")
        gb = git.find("{", at)
        sb = sit.rfind("{")
        if at < 0 or gb < 0 or sb < 0 or git[-1] != "}" or sit[-1] != "}" or git[:at] != sit[:sb]:
            return corr, False
        dims = git[at + 1:gb].split(".")
        if len(dims) != 4:
            return corr, False
        count, ln = int(dims[2]), int(dims[3])
        gt, st = git[gb + 1:-1], sit[sb + 1:-1]
        if gt != st and ("?" in gt or not set(_tags(gt)) <= set(_tags(st))):
            return corr, False
        ntags = gt.count(",") + 1 if gt else 0
        if "?" in gt or count > ln or ntags > ln or (n is not None and ln != n):
            return corr, False
    return corr, True


def nontrivial_replay(case, go):
    return "R=S" in go


def nontrivial_c18(case, go):
    """some slot referenced a message, and some message stopped being referenced (evicted / collected)"""
    prev = ""
    for cur in _TAGSETS.findall(go):
        if cur != prev:
            if prev and (not cur or set(prev.split(",")) - set(cur.split(","))):
                return True
            prev = cur
    return False


def _bucket_len(n):
    return "0" if n == 0 else "1-5" if n <= 5 else "6-20" if n <= 20 else "21-60" if n <= 60 else "61+"


def hist_replay(case, go):
    a = case.split(" ")
    kind = a[0]
    finite = kind.startswith("FINITE")
    ops = _ops(case)
    labels = ["kind:" + kind, "len:" + _bucket_len(len(ops))]
    if go == "NEWERR":
        return labels + ["new:error"]
    labels.append("auto:" + (a[2] if finite else a[3]))
    accepted = go.count("P=")
    labels.append("reject:" + ("y" if "P!" in go else "n"))
    labels.append("failure:" + ((("send" if "/SEND" in go else "") + ("flush" if "/FLUSH" in go else "")) or "none"))
    labels.append("sends:" + ("y" if "R=S" in go else "n"))
    g = [tuple(map(int, d)) for d in _DIMS.findall(go)] if kind[-1] in "SF" else None
    if finite:
        n = int(a[1])
        labels.append("N:" + (str(n) if n <= 4 else "5-8" if n <= 8 else "9+"))
        labels.append("puts:" + ("<N" if accepted < n else "N" if accepted == n else "N+1" if accepted == n + 1
                                 else "<=2N" if accepted <= 2 * n else ">2N"))
    else:
        ttl = int(a[1])
        labels.append("ttl:" + (a[1] if ttl <= 2 else "5-10" if ttl <= 10 else "100-1000" if ttl <= 1000 else "2^40"))
        labels.append("gcinterval:" + ("default" if a[2] == "d" else "off" if int(a[2]) <= 0 else "<ttl" if int(a[2]) < ttl else ">=ttl"))
        labels.append("gc:" + ("explicit" if "G" in ops else "none"))
        labels.append("puts:" + ("0" if accepted == 0 else "1-4" if accepted <= 4 else "5-8" if accepted <= 8
                                 else "9-16" if accepted <= 16 else "17-32" if accepted <= 32 else "33+"))
    if g:
        wrapped = any(c > 0 and h >= t for h, t, c, _ in g)  # the tail is back at 0 or behind the head
        labels.append("wrapped:" + ("y" if wrapped else "n"))
        if not finite:
            lens = [it[3] for it in g]
            labels.append("maxlen:" + str(max(lens)))
            labels.append("shrunk:" + ("y" if any(y < x for x, y in zip(lens, lens[1:])) else "n"))
    return labels


REPLAY_ASSUME = [
    "the injected clock never returns the zero time.Time and is non-decreasing",
    "uint64 wrap-around of the automatic ID counter is out of scope",
    "for IDs that give no starting point Replay makes no call at all (no Flush) — recorded reading",
    "ValidReplayer specification follows the documented collection schedule (explicit GC, or Put after "
    "GCInterval counted from the first Put)",
]

_IDS = ("presented LastEventID aimed through the generator's bookkeeping of the accepted Puts: newest stored (>= 17% of "
        "the Replays, more right after the write index wrapped), oldest, middle, second newest, just evicted, long "
        "evicted, expired but not collected, never issued, unset, set-but-empty; automatic IDs also non-numeric, "
        "leading zeros, 2^64-1 / 2^64 / huge, and numbers just below / at / above the oldest and newest stored; "
        "topics from {\"\", a, b, c} (1-3 per Put and per subscription, rarely none); Puts without topics, without ID "
        "(manual mode), with ID (automatic mode), duplicate / empty / numeric-looking manual IDs; subscriber whose "
        "k-th Send fails (30%) or whose Flush fails (15%)")


def _with_translated(h):
    """GFINITE / GVALID: the same histories run through the translated replayers (model column) and the hand-written
    model (specification column)"""
    def f(case, go):
        if case.startswith(("GFINITE ", "GVALID ")):
            return ["op:" + case.split(" ")[0], "len:" + _bucket_len(len(_ops(case)))]
        return h(case, go)
    return f


_GREP = {"id": "GREP", "quick": 6000, "thorough": 150000, "thorough_seeds": 4}
_GREP_RULE = ("; plus the same kind of histories (GFINITE / GVALID, long ones included) run through the replayers as "
              "TRANSLATED from replay.go (GoSSE/Gen/Replay.lean): real code = translated code = hand-written model")


def register(PROPS):
    PROPS["C08"] = {
        "generated_layer": True,
        "gens": [{"id": "C08", "quick": 40000, "thorough": 800000, "thorough_seeds": 8}, _GREP],
        "nontrivial": nontrivial_replay,
        "rule": "whole histories (Put / Replay) on a fresh FiniteReplayer: N 2..8 mostly, 9..40 sometimes, 0/1 rarely "
                "(constructor error), both ID modes, number of accepted Puts below / at N-1, N, N+1 / up to 6N / 60-140, "
                "Replays placed preferably when the write index has just wrapped (after k*N, k*N+1, k*N-1 accepted Puts); "
                + _IDS + ". Thorough tier: additionally ALL histories of length <= 5 over {Put, Replay from oldest / "
                "newest / second newest / first ever / unset ID}, of length 6 starting with a Put, and of length 7 over "
                "{Put, Replay oldest / newest / first ever} starting with a Put, for N in {2,3} x both ID modes (84 808 "
                "histories, emitted for every seed). Non-trivial = some Replay of the history sent at least one event; "
                "distinct by case line" + _GREP_RULE,
        "hist": _with_translated(hist_replay),
        "assumptions": REPLAY_ASSUME[1:3],
    }
    PROPS["C09"] = {
        "generated_layer": True,
        "gens": [{"id": "C09", "quick": 40000, "thorough": 800000, "thorough_seeds": 8}, _GREP],
        "nontrivial": nontrivial_replay,
        "rule": "whole histories (Put / Replay / GC / clock advance) on a fresh ValidReplayer with an injected clock: TTL in "
                "{1,2,5,10,100,1000,2^40, 250 years, the largest Duration} ns (rarely 0 / -5: constructor error), GCInterval default or in {0,-1,1,ttl/2,ttl,"
                "2ttl,10ttl}, both ID modes; bursts of 1-40 Puts without clock advance (buffer 4->8->16->32->64), clock "
                "advances 0, 1, ttl/3, ttl/2, ttl-1, ttl, ttl+1, 2ttl, 3ttl, 100ttl and advances aimed to expire exactly the k "
                "oldest entries, explicit GC anywhere (fresh replayer, twice in a row), 30% scripted wrap scenarios (fill to "
                "length L, expire a prefix, collect, Put until the tail wraps, then grow while wrapped or expire + collect to "
                "shrink while wrapped); " + _IDS + ". Thorough tier: additionally ALL histories of length <= 5 over {Put, three "
                "Puts, Replay from oldest / newest stored ID, GC, clock+1} and of length 6 starting with three Puts, for "
                "ttl=2, GCInterval in {0,1} x both ID modes (68 424 histories, emitted for every seed). Non-trivial = some "
                "Replay of the history sent at least one event; distinct by case line" + _GREP_RULE,
        "hist": _with_translated(hist_replay),
        "assumptions": REPLAY_ASSUME,
    }
    PROPS["C18"] = {
        "generated_layer": True,
        "gens": [{"id": "C18", "quick": 30000, "thorough": 400000, "thorough_seeds": 8}],
        "compare": cmp_c18,
        "nontrivial": nontrivial_c18,
        "rule": "the FiniteReplayer histories of C08 and the ValidReplayer histories of C09 (half each, same generators incl. "
                "the exhaustive small-scope part in the thorough tier), run with the slot report: after EVERY op the harness "
                "reads every slot of the backing array (VerifFiniteSlots / VerifValidSlots, live or not) and reports "
                "head.tail.count.len and the set of messages referenced, by pointer identity with the messages Put returned; "
                "oracle: referenced set is a subset of what the specification stores, FiniteReplayer array length stays N. "
                "Thorough tier: ~5% of the random cases (manual IDs) additionally set a finalizer on every stored message and, "
                "at the end of the history with the replayer still alive, force collections until every message not referenced "
                "from a slot was finalised (confirmation only). Non-trivial = some message was referenced from a slot and later "
                "no longer (evicted / collected); distinct by case line",
        "hist": hist_replay,
        "assumptions": REPLAY_ASSUME + [
            "C18: 'reachable' is modelled as 'referenced from a slot of the current backing array'; the Go collector is "
            "not modelled (finalizers in the thorough tier only confirm)"],
    }
