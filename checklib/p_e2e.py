"""C05: end to end — real Server + Joe + replayer behind httptest, real Client, connection cuts."""
import re


def cmp_c05(case, go, m, s):
    """GO: verdict of the run ("ok ..." / "BAD ...") + the observation (published IDs, received IDs).
    S: the Lean specification (Spec/Sessions: the log after the first received event, each once, in order)
    judged on the observation. M: the observation is explained by a composition of sessions."""
    if go.startswith("BAD"):
        return True, False
    if s in ("no-observation", "need-observation"):
        return False, go.startswith("ok")
    return m == "explained", go.startswith("ok") and s == "ok"


def cmp_c05_all(case, go, m, s):
    # Premises of the composition theorem, checked on Joe scenarios with real replayers: exactly-once/in-order
    # delivery (C03) and exact resumption (C04) — if either breaks, events are lost or duplicated across reconnects.
    if case.startswith("JOE "):
        corr = m == "accept"
        if s == "ok":
            return corr, True
        if not s.startswith("viol "):
            return corr, False
        mine = [x for x in s[5:].split(" ;; ") if x.startswith("C03:") or x.startswith("C04:")]
        return corr, not mine
    if case.startswith("VALID ") or case.startswith("FINITE "):
        # another premise: what the real replayers replay for a presented ID, over histories that grow, wrap,
        # collect and shrink the buffer. Only the outcome of Replay calls without injected Send/Flush failures is
        # judged here (Put results, slots and failing subscribers are C08/C09/C18's subject).
        ops = case.split(" ")[-1].split(";")
        g, sp = go.split(";"), s.split(";")
        if len(g) != len(ops) or len(sp) != len(ops):
            return go == m, go == s
        ok = True
        for o, a, b in zip(ops, g, sp):
            f = o.split(":")
            if f[0] == "R" and f[3] == "-" and f[4] == "0" and a != b:
                ok = False
        return go == m or ok, ok
    return cmp_c05(case, go, m, s)


def hist(case, go):
    if case.startswith("JOE "):
        return ["op:JOE"]
    if case.startswith("VALID ") or case.startswith("FINITE "):
        return ["op:" + case.split(" ")[0]]
    a = case.split(" ")
    out = ["replayer:" + a[1]]
    plan = a[5] if len(a) > 5 else "-"
    kinds = set(re.findall(r"[crhn]", plan))
    out += ["plan:" + k for k in sorted(kinds)]
    m = re.search(r"sessions=(\d+)", go)
    if m:
        n = int(m.group(1))
        out.append("sessions:" + ("1" if n <= 1 else "2-4" if n <= 4 else "5+"))
    m = re.search(r"resumed=(\d+)", go)
    if m:
        out.append("resumed:" + ("0" if m.group(1) == "0" else "1+"))
    return out


def register(PROPS):
    PROPS["C05"] = {
        # the property is anchored in message.go, event.go, session.go, replay.go, joe.go, the parser: their translated leaf
        # functions are re-derived and re-checked on every run of this check too
        "generated_layer": True,
        "gens": [{"id": "C05", "quick": 500, "thorough": 20000, "thorough_seeds": 8},
                 {"id": "C04", "quick": 2500, "thorough": 60000, "thorough_seeds": 8},
                 {"id": "C09", "quick": 12000, "thorough": 300000, "thorough_seeds": 8},
                 {"id": "C08", "quick": 8000, "thorough": 200000, "thorough_seeds": 8}],
        "compare": cmp_c05_all,
        "on_crash": "property",
        "nontrivial": lambda c, g: ("R=S" in g) if c[0] in "VF" else ("resumed=0" not in g and (not c.startswith("JOE ") or ":ws" in g)),
        "shrink_candidates": lambda case: iter(()),
        "rule": "scenarios: real sse.Server + Joe + Finite/Valid replayer (manual/automatic IDs) behind httptest on loopback, real "
                "Client connection with 1 ms backoff, concurrent publishers, a connection plan cutting the response after k bytes "
                "(FIN or RST, any offset incl. inside headers and inside an event) or ending the handler after the n-th Send; "
                "non-trivial = at least one session resumed with a Last-Event-ID; distinct by case line. Plus, as premises of the "
                "composition: Joe scenarios with resuming subscribers (judged on the C03/C04 predicates) and Put/Replay/GC/clock "
                "histories of both real replayers (judged on what non-failing Replay calls send); one scenario in five publishes events of about 4 KiB, one in seven builds its events by Clone + AppendData from a shared template, a quarter reconnect by calling Connect again (MaxRetries < 0), a third let OnSession name the topic",
        "hist": hist,
        "assumptions": [
            "net/http framing, chunking and request-context cancellation on write errors are observed, not modelled",
            "the composition theorems take their premises from C01/C02/C04/C10/C16 (each tied to the code by its own check)",
            "a client that has not yet received any event has no ID to resume from (outside the property)",
        ],
        "corpus_also": [],
        "replay_repeats": 20,
    }
