"""C05: end to end — real Server + Joe + replayer behind httptest, real Client, connection cuts."""
import re


def cmp_c05(case, go, m, s):
    """GO: verdict of the run ("ok ..." / "BAD ...") + the observation (published IDs, received IDs).
    S: the Lean specification (Spec/Sessions: the log after the first received event, each once, in order)
    judged on the observation. M: the observation is explained by a composition of sessions."""
    if go.startswith("BAD"):
        return True, False
    if s in ("no-observation", "need-observation"):
        return False, go.startswith("ok")
    return m == "explained", go.startswith("ok") and s == "ok"


def hist(case, go):
    a = case.split(" ")
    out = ["replayer:" + a[1]]
    plan = a[5] if len(a) > 5 else "-"
    kinds = set(re.findall(r"[crhn]", plan))
    out += ["plan:" + k for k in sorted(kinds)]
    m = re.search(r"sessions=(\d+)", go)
    if m:
        n = int(m.group(1))
        out.append("sessions:" + ("1" if n <= 1 else "2-4" if n <= 4 else "5+"))
    m = re.search(r"resumed=(\d+)", go)
    if m:
        out.append("resumed:" + ("0" if m.group(1) == "0" else "1+"))
    return out


def register(PROPS):
    PROPS["C05"] = {
        "gens": [{"id": "C05", "quick": 500, "thorough": 20000, "thorough_seeds": 8}],
        "compare": cmp_c05,
        "on_crash": "property",
        "nontrivial": lambda c, g: "resumed=0" not in g,
        "shrink_candidates": lambda case: iter(()),
        "rule": "scenarios: real sse.Server + Joe + Finite/Valid replayer (manual/automatic IDs) behind httptest on loopback, real "
                "Client connection with 1 ms backoff, concurrent publishers, a connection plan cutting the response after k bytes "
                "(FIN or RST, any offset incl. inside headers and inside an event) or ending the handler after the n-th Send; "
                "non-trivial = at least one session resumed with a Last-Event-ID; distinct by case line",
        "hist": hist,
        "assumptions": [
            "net/http framing, chunking and request-context cancellation on write errors are observed, not modelled",
            "the composition theorems take their premises from C01/C02/C04/C10/C16 (each tied to the code by its own check)",
            "a client that has not yet received any event has no ID to resume from (outside the property)",
        ],
        "corpus_also": [],
        "replay_repeats": 20,
    }
