import Driver.Common
import Driver.ParserD
/-!
Model driver: one case per input line `<OP> <args…>[\t<go output>]`, one output line
`M=<model output>\tS=<specification output>` per case.
-/
open Driver

def handle (line : String) : String :=
  let caseStr := (line.splitOn "\t").headD ""
  match (caseStr.splitOn " ").filter (· ≠ "") with
  | [] => "M=empty\tS=empty"
  | op :: args =>
    let r : String × String :=
      match op with
      | "PARSE" => ParserD.parse args
      | _ => ("bad-op", "bad-op")
    s!"M={r.1}\tS={r.2}"

partial def loop (h : IO.FS.Stream) (out : IO.FS.Stream) : IO Unit := do
  let line ← h.getLine
  if line.isEmpty then return ()
  out.putStrLn (handle (line.trimAsciiEnd.toString))
  loop h out

def main : IO Unit := do
  let out ← IO.getStdout
  loop (← IO.getStdin) out
  out.flush
