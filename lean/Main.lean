import Driver.Common
import Driver.ParserD
import Driver.MessageD
import Driver.ReplayD
import Driver.JoeD
import Driver.ClientD
import Driver.ServerD
import Driver.GenD
import Driver.GenReplayD
import Driver.GenEventD
import Driver.GenSessionD
import Driver.GenBackoffD
import Driver.GenResetD
import Driver.GenRegistryD
/-!
Model driver: one case per input line `<OP> <args…>[\t<go output>]`, one output line
`M=<model output>\tS=<specification output>` per case. Each group module handles its own ops.
The go output (what the real code did on this case) is passed to the handlers as the last
argument list element prefixed with `GO=` when present, for oracles that judge an observed
trace rather than predict it.
-/
open Driver

def handlers : List (String → List String → Option (String × String)) :=
  [ParserD.handle, MessageD.handle, ReplayD.handle, JoeD.handle, ClientD.handle, ServerD.handle, GenD.handle, GenReplayD.handle, GenEventD.handle, GenSessionD.handle, GenBackoffD.handle, GenResetD.handle, GenRegistryD.handle]

def handle (line : String) : String :=
  let parts := line.splitOn "\t"
  let caseStr := parts.headD ""
  let go := (parts.drop 1).headD ""
  match (caseStr.splitOn " ").filter (· ≠ "") with
  | [] => "M=empty\tS=empty"
  | op :: args =>
    let args := if go.isEmpty then args else args ++ ["GO=" ++ go]
    let r := handlers.findSome? (fun h => h op args)
    match r with
    | some r => s!"M={r.1}\tS={r.2}"
    | none => "M=bad-op\tS=bad-op"

partial def loop (h : IO.FS.Stream) (out : IO.FS.Stream) : IO Unit := do
  let line ← h.getLine
  if line.isEmpty then return ()
  out.putStrLn (handle (line.trimAsciiEnd.toString))
  loop h out

def main : IO Unit := do
  let out ← IO.getStdout
  loop (← IO.getStdin) out
  out.flush
