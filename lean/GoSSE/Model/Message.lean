import GoSSE.Model.Fields
/-!
# Model of `message.go`

`appendText` (the `NextChunk` loop), the encoders `chunk.WriteTo`, `writeMessageField`,
`writeID/writeType`, `writeRetry` (with its 13-byte digit buffer), `WriteTo` over an abstract
`io.Writer`, `MarshalText`/`String`, `UnmarshalText` (over the `FieldParser` model of
`Model/Parser.lean`) and `Clone` (value level; the aliasing level is `Model/Heap.lean`).
-/
namespace GoSSE.Model
open GoSSE GoSSE.Spec

structure Chunk where
  content : Bytes
  isComment : Bool
deriving DecidableEq, Repr

structure Message where
  chunks : List Chunk := []
  id : MField := {}
  typ : MField := {}
  /-- `time.Duration`: nanoseconds -/
  retry : Int := 0
deriving DecidableEq, Repr

/-! ## appendText -/

/-- the inner `for c != ""` loop of `appendText`; `fuel ≥ len(c)` suffices -/
def appendLoop (isComment : Bool) : Nat → Bytes → List Chunk → List Chunk
  | 0, _, cs => cs
  | fuel + 1, c, cs =>
    if c.isEmpty then cs else
    let r := nextChunk c
    appendLoop isComment fuel r.2.1 (cs ++ [⟨r.1, isComment⟩])

/-- `appendText(isComment, chunks...)` -/
def Message.appendText (m : Message) (isComment : Bool) (strs : List Bytes) : Message :=
  strs.foldl (fun m c => { m with chunks := appendLoop isComment c.length c m.chunks }) m

def Message.appendData (m : Message) (strs : List Bytes) : Message := m.appendText false strs
def Message.appendComment (m : Message) (strs : List Bytes) : Message := m.appendText true strs

/-! ## the writer -/

/-- An `io.Writer` as a state machine: `write st p = (n, err, st')`. -/
structure Writer (σ ε : Type) where
  write : σ → Bytes → Nat × Option ε × σ

/-- The `io.Writer` contract: `0 ≤ n ≤ len(p)`, and `n < len(p)` comes with an error. -/
def Writer.Obeys {σ ε : Type} (w : Writer σ ε) : Prop :=
  ∀ st p, (w.write st p).1 ≤ p.length ∧ ((w.write st p).1 < p.length → (w.write st p).2.1 ≠ none)

/-- What a (sub-)encoder returns — `n`, `err` — plus the writer's state, the ghost log of the
`Write` calls made so far (argument, count accepted, error returned), and whether the code
panicked. -/
structure WR (σ ε : Type) where
  n : Nat
  err : Option ε
  st : σ
  log : List (Bytes × Nat × Option ε)
  panic : Bool := false

/-- the Go code returns now: `err != nil` (or it panicked) -/
def WR.stop {σ ε : Type} (r : WR σ ε) : Bool := r.err.isSome || r.panic

/-- `m, err = w.Write(p); n += m` -/
def WR.write {σ ε : Type} (w : Writer σ ε) (r : WR σ ε) (p : Bytes) : WR σ ε :=
  let q := w.write r.st p
  { n := r.n + q.1, err := q.2.1, st := q.2.2, log := r.log ++ [(p, q.1, q.2.1)], panic := r.panic }

/-- bytes the writer accepted, in order -/
def accepted {ε : Type} (log : List (Bytes × Nat × Option ε)) : Bytes := log.flatMap fun c => c.1.take c.2.1

def fieldBytesData : Bytes := fData ++ [58, 32]
def fieldBytesEvent : Bytes := fEvent ++ [58, 32]
def fieldBytesRetry : Bytes := fRetry ++ [58, 32]
def fieldBytesID : Bytes := fId ++ [58, 32]
def fieldBytesComment : Bytes := [58, 32]
def newline : Bytes := [10]

/-- the shape shared by `chunk.WriteTo`, `writeMessageField` and `writeRetry`:
three `Write`s, returning after the first that fails; `n` counts from zero. -/
def write3 {σ ε : Type} (w : Writer σ ε) (st : σ) (log : List (Bytes × Nat × Option ε)) (a b c : Bytes) : WR σ ε :=
  let r := WR.write w { n := 0, err := none, st := st, log := log } a
  if r.stop then r else
  let r := r.write w b
  if r.stop then r else
  r.write w c

/-- `chunk.WriteTo` -/
def Chunk.writeTo {σ ε : Type} (w : Writer σ ε) (st : σ) (log : List (Bytes × Nat × Option ε)) (c : Chunk) : WR σ ε :=
  let name := if c.isComment then fieldBytesComment else fieldBytesData
  write3 w st log name c.content newline

/-- `writeMessageField` -/
def writeMessageField {σ ε : Type} (w : Writer σ ε) (st : σ) (log : List (Bytes × Nat × Option ε)) (f : MField) (fieldBytes : Bytes) : WR σ ε :=
  if !f.set then { n := 0, err := none, st := st, log := log }
  else write3 w st log fieldBytes f.value newline

def Message.writeID {σ ε : Type} (w : Writer σ ε) (st : σ) (log : List (Bytes × Nat × Option ε)) (m : Message) : WR σ ε :=
  writeMessageField w st log m.id fieldBytesID
def Message.writeType {σ ε : Type} (w : Writer σ ε) (st : σ) (log : List (Bytes × Nat × Option ε)) (m : Message) : WR σ ε :=
  writeMessageField w st log m.typ fieldBytesEvent

/-- `Duration.Milliseconds`: integer division truncating toward zero -/
def Message.millis (m : Message) : Int := Int.tdiv m.retry 1000000

/-- the digit loop of `writeRetry` over `var buf [13]byte`. First argument: `i + 1`
(the loop writes `buf[i]` and decrements); `none` = index `-1`, i.e. a panic. -/
def retryLoop : Nat → Nat → List Byte → Option (Nat × List Byte)
  | 0, millis, buf => if millis = 0 then some (0, buf) else none
  | j + 1, millis, buf =>
    if millis = 0 then some (j + 1, buf)
    else retryLoop j (millis / 10) (buf.set j (48 + UInt8.ofNat (millis % 10)))

/-- `buf[i+1:]` after the loop -/
def retryDigits (millis : Nat) : Option Bytes :=
  (retryLoop 13 millis (List.replicate 13 0)).map fun r => r.2.drop r.1

/-- `writeRetry` -/
def Message.writeRetry {σ ε : Type} (w : Writer σ ε) (st : σ) (log : List (Bytes × Nat × Option ε)) (m : Message) : WR σ ε :=
  let millis := m.millis
  if millis ≤ 0 then { n := 0, err := none, st := st, log := log } else
  -- Go writes the field name first and only then fills the buffer
  match retryDigits millis.toNat with
  | some ds => write3 w st log fieldBytesRetry ds newline
  | none =>
    let r := WR.write w { n := 0, err := none, st := st, log := log } fieldBytesRetry
    if r.stop then r else { r with panic := true }

/-- `n += m` after a sub-encoder that counted from zero -/
def WR.addTo {σ ε : Type} (n : Nat) (q : WR σ ε) : WR σ ε := { q with n := n + q.n }

/-- the `for i := range e.chunks` loop of `WriteTo` -/
def writeChunks {σ ε : Type} (w : Writer σ ε) : WR σ ε → List Chunk → WR σ ε
  | r, [] => r
  | r, c :: cs =>
    let r := WR.addTo r.n (c.writeTo w r.st r.log)
    if r.stop then r else writeChunks w r cs

/-- `Message.WriteTo` -/
def Message.writeTo {σ ε : Type} (w : Writer σ ε) (st : σ) (m : Message) : WR σ ε :=
  let r := m.writeID w st []
  if r.stop then r else
  let r := WR.addTo r.n (m.writeType w r.st r.log)
  if r.stop then r else
  let r := WR.addTo r.n (m.writeRetry w r.st r.log)
  if r.stop then r else
  let r := writeChunks w r m.chunks
  if r.stop then r else
  if r.n == 0 then { r with n := 0, err := none } else
  r.write w newline

/-- `bytes.Buffer` / `strings.Builder`: accepts everything, never fails. -/
def bufWriter : Writer Bytes Empty := ⟨fun st p => (p.length, none, st ++ p)⟩

/-- `MarshalText` (the error is the one of `WriteTo`) and `String` -/
def Message.marshalText (m : Message) : Bytes := (m.writeTo bufWriter []).st
def Message.string (m : Message) : Bytes := (m.writeTo bufWriter []).st

/-! ## the encoding as data -/

/-- the `Write` calls of one field line -/
def fieldWrites (name value : Bytes) : List Bytes := [name, value, newline]

/-- the `Write` calls `WriteTo` makes before the final newline, on a writer that never fails -/
def Message.bodyWrites (m : Message) : List Bytes :=
  (if m.id.set then fieldWrites fieldBytesID m.id.value else []) ++
  (if m.typ.set then fieldWrites fieldBytesEvent m.typ.value else []) ++
  (if m.millis ≤ 0 then [] else fieldWrites fieldBytesRetry ((retryDigits m.millis.toNat).getD [])) ++
  m.chunks.flatMap fun c => fieldWrites (if c.isComment then fieldBytesComment else fieldBytesData) c.content

/-- `encode` as the list of `Write` calls -/
def Message.writes (m : Message) : List Bytes :=
  if m.bodyWrites.isEmpty then [] else m.bodyWrites ++ [newline]

/-- `encode` as flat bytes -/
def Message.encode (m : Message) : Bytes := m.writes.flatten

/-! ## UnmarshalText -/

inductive UErr | nil | retryNonDigit | retrySyntax | retryRange | unexpectedEOF deriving DecidableEq, Repr

/-- the `for s.Next(&f)` loop of `UnmarshalText`; an error is the early `return` (the receiver
keeps what was assigned so far). -/
def unmarshalLoop : Nat → FP → Message → Message × FP × UErr
  | 0, fp, m => (m, fp, .nil)
  | fuel + 1, fp, m =>
    match FP.next (fp.data.length + 1) fp with
    | (none, fp) => (m, fp, .nil)
    | (some f, fp) =>
      match f.name with
      | .retry =>
        if !f.value.all isDigit then (m, fp, .retryNonDigit)
        else match parseInt f.value with
          | none => (m, fp, if f.value.isEmpty then .retrySyntax else .retryRange)
          | some milli => unmarshalLoop fuel fp { m with retry := wrap64 (milli * 1000000) }
      | .data => unmarshalLoop fuel fp { m with chunks := m.chunks ++ [⟨f.value, false⟩] }
      | .comment => unmarshalLoop fuel fp { m with chunks := m.chunks ++ [⟨f.value, true⟩] }
      | .event => unmarshalLoop fuel fp { m with typ := { value := f.value, set := true } }
      | .id =>
        if f.value.contains 0 then unmarshalLoop fuel fp m
        else unmarshalLoop fuel fp { m with id := { value := f.value, set := true } }
      | .none => (m, fp, .nil)

/-- `Message.UnmarshalText`: the receiver afterwards and the error class -/
def Message.unmarshalText (p : Bytes) : Message × UErr :=
  let fp := ({ data := p, keepComments := true } : FP).setRemoveBOM true
  let r := unmarshalLoop (p.length + 1) fp {}
  if r.2.2 != .nil then (r.1, r.2.2)
  else if (r.1.chunks.isEmpty && !r.1.typ.set && r.1.retry == 0 && !r.1.id.set) || r.2.1.err then ({}, .unexpectedEOF)
  else (r.1, .nil)

/-- `Clone`, at the level of values (see `Model/Heap.lean` for the slice that is shared) -/
def Message.clone (m : Message) : Message :=
  { chunks := m.chunks, retry := m.retry, typ := m.typ, id := m.id }

/-! ## building messages through the public API -/

/-- the public mutators of a `Message` -/
inductive BuildOp
  | appendData (strs : List Bytes)
  | appendComment (strs : List Bytes)
  /-- `m.ID, _ = NewID(v)` -/
  | setID (v : Bytes)
  /-- `m.Type, _ = NewType(v)` -/
  | setType (v : Bytes)
  | setRetry (d : Int)
deriving Repr

def Message.apply (m : Message) : BuildOp → Message
  | .appendData s => m.appendData s
  | .appendComment s => m.appendComment s
  | .setID v => { m with id := (newID v).1 }
  | .setType v => { m with typ := (newType v).1 }
  | .setRetry d => { m with retry := d }

def build (ops : List BuildOp) : Message := ops.foldl Message.apply {}

end GoSSE.Model
