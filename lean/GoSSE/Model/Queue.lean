import GoSSE.Spec.Replay
/-!
# Model of `replay.go`: `queue`, `ensureID`, `findIDInQueue`, `topicsIntersect`

Function by function after the Go code. `buf` holds EVERY slot of the backing array
(`none` = the zero value `*new(T)`: nil message, nil topics, zero expiry). Indexing out of
range, slicing out of range and dereferencing the nil message of a zero slot are explicit
`panic` outcomes. `head/tail/count` are `Nat` (Go `int`s that are only ever incremented,
reset to 0, or — `count` — decremented under a `count > 0` guard).
-/
namespace GoSSE.Model
open GoSSE GoSSE.Spec

/-- outcome of a piece of Go code that may panic -/
inductive QRes (α : Type) where
  | ok (a : α)
  | panic
deriving Repr, DecidableEq

namespace QRes
@[inline] def bind : QRes α → (α → QRes β) → QRes β
  | ok a, f => f a
  | panic, _ => panic
instance : Monad QRes where
  pure := ok
  bind := QRes.bind
@[simp] theorem bind_ok (a : α) (f : α → QRes β) : (QRes.ok a >>= f) = f a := rfl
@[simp] theorem bind_panic (f : α → QRes β) : ((QRes.panic : QRes α) >>= f) = QRes.panic := rfl
@[simp] theorem pure_eq (a : α) : (pure a : QRes α) = QRes.ok a := rfl
end QRes

abbrev Slot := Option Entry

/-- `queue[T]`: `buf` is the whole backing array (`len(q.buf)` = `buf.length`). -/
structure Queue where
  buf : List Slot
  head : Nat
  tail : Nat
  count : Nat
deriving Repr, DecidableEq

/-! ## strconv -/

/-- `strconv.FormatUint(n, 10)`: digits are produced from the least significant one into the
end of a buffer (`formatBits`, base 10). `fuel` bounds the loop. -/
def formatBits : Nat → Nat → Bytes → Bytes
  | 0, _, acc => acc
  | fuel + 1, u, acc =>
    if u ≥ 10 then formatBits fuel (u / 10) (UInt8.ofNat (48 + u % 10) :: acc)
    else UInt8.ofNat (48 + u) :: acc

def fmtUint (n : Nat) : Bytes := formatBits (n + 1) n []

/-- the digit loop of `strconv.ParseUint(s, 10, 64)`: `(value, err ≠ nil)`; a non-digit is a
syntax error `(0, true)`, leaving the `uint64` range a range error `(maxUint64, true)`,
whichever comes first from the left. -/
def parseUintLoop : Bytes → Nat → Nat × Bool
  | [], n => (n, false)
  | c :: t, n =>
    if !isDigit c then (0, true) else
    let n1 := n * 10 + (c.toNat - 48)
    if n1 > maxUint64 then (maxUint64, true) else parseUintLoop t n1

def parseUint (s : Bytes) : Nat × Bool := if s.isEmpty then (0, true) else parseUintLoop s 0

/-! ## helpers of `replay.go` -/

/-- `topicsIntersect`: the nested loops, returning at the first common topic -/
def topicsIntersect (a b : List Bytes) : Bool :=
  a.any fun at' => b.any fun bt => at' == bt

/-- `ensureID(m, currentID)`: the (possibly cloned) message's ID and the counter afterwards.
The counter is an unbounded `Nat` (uint64 wrap-around is out of scope, DESIGN §3). -/
def ensureID (id : EventID) (currentID : Option Nat) : Except PutErr (EventID × Option Nat) :=
  match currentID with
  | none => if !id.isSome then .error .noID else .ok (id, none)
  | some cur => if id.isSome then .error .hasID else .ok (some (fmtUint cur), some (cur + 1))

namespace Queue

/-- one `for i := …; i < …; i++ { if !yield(i, q.buf[i]) { return } }` loop: `n` iterations
from index `i`; the Bool tells whether the callback asked to continue. -/
def eachLoop (buf : List Slot) (f : σ → Nat → Slot → QRes (σ × Bool)) : Nat → Nat → σ → QRes (σ × Bool)
  | 0, _, s => .ok (s, true)
  | n + 1, i, s =>
    match buf[i]? with
    | none => .panic
    | some x =>
      match f s i x with
      | .panic => .panic
      | .ok (s', cont) => if cont then eachLoop buf f n (i + 1) s' else .ok (s', false)

/-- `q.each(startAt)(yield)`, the callback threading a state and returning `false` to stop. -/
def each (q : Queue) (startAt : Nat) (f : σ → Nat → Slot → QRes (σ × Bool)) (s : σ) : QRes σ :=
  if startAt < q.tail then
    match eachLoop q.buf f (q.tail - startAt) startAt s with
    | .panic => .panic
    | .ok r => .ok r.1
  else
    match eachLoop q.buf f (q.buf.length - startAt) startAt s with
    | .panic => .panic
    | .ok (s1, cont) =>
      if !cont then .ok s1 else
      match eachLoop q.buf f q.tail 0 s1 with
      | .panic => .panic
      | .ok r => .ok r.1

def enqueue (q : Queue) (v : Entry) : QRes Queue :=
  if q.tail < q.buf.length then
    let buf := q.buf.set q.tail (some v)
    let tail := q.tail + 1
    let overwritten := decide (tail > q.head) && decide (q.count = buf.length)
    let head := if overwritten then tail else q.head
    let count := if overwritten then q.count else q.count + 1
    if tail = buf.length then
      .ok { buf, tail := 0, head := if overwritten then 0 else head, count }
    else .ok { buf, tail, head, count }
  else .panic

/-- `dequeue` (only called under `count > 0`) -/
def dequeue (q : Queue) : QRes Queue :=
  if q.head < q.buf.length then
    let buf := q.buf.set q.head none
    let head := q.head + 1
    .ok { buf, head := if head = buf.length then 0 else head, tail := q.tail, count := q.count - 1 }
  else .panic

/-- `copy(dst, src)`: the new `dst` and the number of elements copied -/
def copy (dst src : List Slot) : List Slot × Nat :=
  let n := min dst.length src.length
  (src.take n ++ dst.drop n, n)

def resize (q : Queue) (newSize : Nat) : QRes Queue :=
  let buf := List.replicate newSize (none : Slot)
  if q.head < q.tail then
    if q.tail ≤ q.buf.length then
      .ok { buf := (copy buf ((q.buf.take q.tail).drop q.head)).1, head := 0, tail := q.count, count := q.count }
    else .panic
  else
    if q.head ≤ q.buf.length then
      let r := copy buf (q.buf.drop q.head)
      if q.tail ≤ q.buf.length then
        let r2 := copy (r.1.drop r.2) (q.buf.take q.tail)
        .ok { buf := r.1.take r.2 ++ r2.1, head := 0, tail := q.count, count := q.count }
      else .panic
    else .panic

end Queue

/-- `m.ID()` of a slot: dereferences `m.message` -/
def slotID : Slot → QRes EventID
  | none => .panic
  | some e => .ok e.id

/-- the callback of the scan in `findIDInQueue`: `if m.ID() == id { i = j; return false }; return true` -/
def findStep (id : EventID) (i : Int) (j : Nat) (m : Slot) : QRes (Int × Bool) :=
  match slotID m with
  | .panic => .panic
  | .ok mid => if mid = id then .ok ((j : Int), false) else .ok (i, true)

/-- `findIDInQueue(q, id, autoID)`: the index to start replaying at, or −1. -/
def findIDInQueue (q : Queue) (id : EventID) (autoID : Bool) : QRes Int :=
  if q.count = 0 then .ok (-1) else
  if autoID then
    let p := parseUint (id.getD [])
    if p.2 then .ok (-1) else
    match q.buf[q.head]? with
    | none => .panic
    | some slot =>
      match slotID slot with
      | .panic => .panic
      | .ok fid =>
        let firstID := (parseUint (fid.getD [])).1
        let idn := p.1
        -- `delta := id - firstID` is only used when `id >= firstID`
        if idn ≥ firstID ∧ idn - firstID ≥ q.count - 1 then .ok (-1) else
        let pos : Int := if idn ≥ firstID then ((idn - firstID : Nat) : Int) else -1
        let i : Int := pos + q.head + 1
        .ok (if i ≥ q.buf.length then i - q.buf.length else i)
  else
    match q.each q.head (findStep id) (-1 : Int) with
    | .panic => .panic
    | .ok i =>
      if i ≠ -1 then
        let i := i + 1
        let i := if i = q.buf.length then 0 else i
        .ok (if i = q.tail then -1 else i)
      else .ok i

/-! ## the subscriber seen by `Replay` (`Sub`, `Call`, `ReplayOut` are defined in `Spec/Replay.lean`) -/

/-- state threaded through the `each` callback of `Replay`: calls so far, and whether a Send failed -/
structure SendSt where
  calls : List Call
  failed : Bool
deriving Repr

/-- the callback of `Replay`: `cond` is the filter (`topicsIntersect`, and for the
ValidReplayer `exp.After(now)`); a zero slot has nil topics and a zero expiry: skipped. -/
def sendStep (sub : Sub) (cond : Entry → Bool) (st : SendSt) (_ : Nat) (m : Slot) : QRes (SendSt × Bool) :=
  match m with
  | none => .ok (st, true)
  | some e =>
    if cond e then
      let k := st.calls.length
      if sub.failAt = some k then .ok ({ calls := st.calls ++ [.send e], failed := true }, false)
      else .ok ({ st with calls := st.calls ++ [.send e] }, true)
    else .ok (st, true)

def finishReplay (sub : Sub) (st : SendSt) : ReplayOut :=
  if st.failed then { calls := st.calls, err := .send }
  else { calls := st.calls ++ [.flush], err := if sub.flushFails then .flush else .nil }

end GoSSE.Model
