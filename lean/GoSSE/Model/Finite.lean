import GoSSE.Model.Queue
/-!
# Model of `FiniteReplayer` (`replay.go`)
-/
namespace GoSSE.Model
open GoSSE GoSSE.Spec

/-- `FiniteReplayer`: `currentID = none` is the nil pointer (manual IDs) -/
structure Finite where
  currentID : Option Nat
  buf : Queue
deriving Repr

/-- `NewFiniteReplayer(count, autoIDs)`; `none` = the constructor's error (`count < 2`) -/
def newFinite (count : Nat) (autoIDs : Bool) : Option Finite :=
  if count < 2 then none
  else some { currentID := if autoIDs then some 0 else none,
              buf := { buf := List.replicate count none, head := 0, tail := 0, count := 0 } }

namespace Finite

/-- `Put(message, topics)`: `msg` is the identity of the stored message (the caller's message
with manual IDs, its clone with automatic IDs). Returns the stored entry (the ID-carrying copy). -/
def put (f : Finite) (msg : Nat) (id : EventID) (topics : List Bytes) : QRes (Except PutErr Entry × Finite) :=
  if topics.isEmpty then .ok (.error .noTopic, f) else
  match ensureID id f.currentID with
  | .error e => .ok (.error e, f)
  | .ok (id', cur') =>
    let e : Entry := { msg, id := id', topics, exp := 0 }
    match f.buf.enqueue e with
    | .panic => .panic
    | .ok q => .ok (.ok e, { currentID := cur', buf := q })

/-- `Replay(subscription)` -/
def replay (f : Finite) (sub : Sub) : QRes ReplayOut :=
  match findIDInQueue f.buf sub.lastEventID f.currentID.isSome with
  | .panic => .panic
  | .ok i =>
    if i < 0 then .ok { calls := [], err := .nil } else
    match f.buf.each i.toNat (sendStep sub fun e => topicsIntersect sub.topics e.topics)
        { calls := [], failed := false } with
    | .panic => .panic
    | .ok st => .ok (finishReplay sub st)

end Finite
end GoSSE.Model
