import GoSSE.Spec.Client
/-!
# Model of go-sse's back-off machinery (`client.go`)

`mergeDefaults` (Backoff part), `Backoff.new`, `backoffController.reset`, `backoffController.next`,
`nextInterval`, `growInterval` — function by function.

Durations and instants are `Int` nanoseconds (`time.Duration`, `time.Time`). `int64` overflow of an
interval after many unbounded multiplications is out of scope (DESIGN.md §3).

**Floats.** `Multiplier` and `Jitter` are `float64` in Go; Lean's `Float` is opaque to proofs, so
* `mergeDefaults` is written over an abstract carrier `F` with exactly the four comparisons the
  Go code performs (`FloatOps`);
* the controller is written over three abstract functions (`Floats`): `grow` (the product
  `time.Duration(float64(current) * Multiplier)`), `capped` (the comparison
  `float64(current) >= float64(maxInterval)/Multiplier`) and `jitter` (the randomised branch of
  `nextInterval`, second argument = the random draw).
Theorems state their hypotheses on these functions explicitly; the driver instantiates them with
exact rational arithmetic and the harness compares the real float code against that instance
(testing, tolerance 1 ns).
-/
namespace GoSSE.Model.Client

/-- `Backoff` with the float fields in an abstract carrier `F` -/
structure Backoff (F : Type) where
  initialInterval : Int
  multiplier : F
  jitter : F
  maxInterval : Int
  maxElapsedTime : Int
  maxRetries : Int
deriving Repr

/-- the comparisons `mergeDefaults` performs on the float fields -/
structure FloatOps (F : Type) where
  ltOne : F → Bool        -- `x < 1`
  isMinusOne : F → Bool   -- `x == -1`   (`x != -1` is its negation, also for NaN)
  leZero : F → Bool       -- `x <= 0`
  geOne : F → Bool        -- `x >= 1`

/-- `mergeDefaults`, the `Backoff` part; `d` is `DefaultClient.Backoff`. -/
def mergeDefaults {F : Type} (o : FloatOps F) (d : Backoff F) (b : Backoff F) : Backoff F :=
  let b := if b.initialInterval ≤ 0 then { b with initialInterval := d.initialInterval } else b
  let b := if o.ltOne b.multiplier then { b with multiplier := d.multiplier } else b
  let b := if !o.isMinusOne b.jitter && (o.leZero b.jitter || o.geOne b.jitter) then { b with jitter := d.jitter } else b
  b

/-- The merged configuration as the controller sees it. `jitterOff` is `Jitter == -1`. -/
structure Cfg where
  initialInterval : Int
  maxInterval : Int := 0
  maxElapsedTime : Int := 0
  maxRetries : Int := 0
  jitterOff : Bool := true
deriving Repr, DecidableEq

/-- the float computations of `nextInterval` / `growInterval`, abstract -/
structure Floats where
  grow : Int → Int            -- `time.Duration(float64(current) * mul)`
  capped : Int → Int → Bool   -- `float64(current) >= float64(maxInterval)/mul` (current, maxInterval)
  jitter : Int → Int → Int    -- `time.Duration(min + rng.Float64()*(max-min+1))` (current, draw)

def toCfg {F : Type} (o : FloatOps F) (b : Backoff F) : Cfg :=
  { initialInterval := b.initialInterval, maxInterval := b.maxInterval, maxElapsedTime := b.maxElapsedTime,
    maxRetries := b.maxRetries, jitterOff := o.isMinusOne b.jitter }

/-- `backoffController` (without the PRNG: draws are inputs of `next`) -/
structure Ctl where
  start : Int
  interval : Int
  numRetries : Int
deriving Repr, DecidableEq

/-- `Backoff.new` at clock reading `now` -/
def Ctl.new (cfg : Cfg) (now : Int) : Ctl := { start := now, interval := cfg.initialInterval, numRetries := 0 }

/-- `backoffController.reset` at clock reading `now` -/
def Ctl.reset (cfg : Cfg) (_c : Ctl) (newInterval : Int) (now : Int) : Ctl :=
  { interval := if newInterval > 0 then newInterval else cfg.initialInterval, numRetries := 0, start := now }

/-- `nextInterval` -/
def nextInterval (cfg : Cfg) (fl : Floats) (current : Int) (draw : Int) : Int :=
  if cfg.jitterOff then current else fl.jitter current draw

/-- `growInterval` -/
def growInterval (fl : Floats) (current maxInterval : Int) : Int :=
  if maxInterval > 0 && fl.capped current maxInterval then maxInterval else fl.grow current

/-- `backoffController.next` at clock reading `now` with random draw `draw`:
`none` = `(0, false)`, `some d` = `(d, true)`. The state changes exactly as in Go: nothing is
touched when the retry limit refuses; counter and interval are already advanced when
`MaxElapsedTime` refuses. -/
def Ctl.next (cfg : Cfg) (fl : Floats) (c : Ctl) (now : Int) (draw : Int) : Ctl × Option Int :=
  if cfg.maxRetries < 0 || (cfg.maxRetries > 0 && c.numRetries == cfg.maxRetries) then (c, none)
  else
    let c1 := { c with numRetries := c.numRetries + 1 }
    let elapsed := now - c1.start
    let next := nextInterval cfg fl c1.interval draw
    let c2 := { c1 with interval := growInterval fl c1.interval cfg.maxInterval }
    if cfg.maxElapsedTime > 0 && elapsed + next > cfg.maxElapsedTime then (c2, none)
    else (c2, some next)

/-! ## The exact-arithmetic instance used by the driver (and as non-vacuity witness) -/

/-- a float value as the driver sees it: NaN or an exact rational `num/den` (`den > 0`) -/
inductive FV
  | nan
  | rat (num : Int) (den : Nat)
deriving Repr, DecidableEq

def FV.ops : FloatOps FV where
  ltOne := fun x => match x with | .nan => false | .rat n d => n < d
  isMinusOne := fun x => match x with | .nan => false | .rat n d => n == -(d : Int)
  leZero := fun x => match x with | .nan => false | .rat n _ => n ≤ 0
  geOne := fun x => match x with | .nan => false | .rat n d => n ≥ d

/-- the class of a value in the specification's `mergeDefaults` table -/
def FV.cls : FV → GoSSE.Spec.Client.FClass
  | .nan => .nan
  | .rat n d => if n == -(d : Int) then .minusOne else if n ≤ 0 then .nonPositive else if n < d then .unit else .geOne

/-- exact versions of the float computations for `Multiplier = mn/md`, `Jitter = jn/jd`, random
draws `u = draw / 2^53`: truncation toward zero as `time.Duration(float64)` does. -/
def exactFloats (mn : Int) (md : Nat) (jn : Int) (jd : Nat) : Floats where
  grow := fun c => (c * mn).tdiv md
  capped := fun c m => decide (c * mn ≥ m * md)
  jitter := fun c u =>
    -- min + u*(max - min + 1) with min = c - J c, max = c + J c; common denominator jd * 2^53
    let den : Int := (jd : Int) * 9007199254740992
    let num : Int := (c * jd - jn * c) * 9007199254740992 + u * (2 * jn * c + jd)
    num.tdiv den

end GoSSE.Model.Client
