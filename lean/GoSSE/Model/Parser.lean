import GoSSE.Spec.EventStream
/-!
# Model of go-sse's parser stack

`internal/parser/chunk.go`, `field_parser.go`, `parser.go`, and `read()` of `event.go`,
function by function. `bufio.Scanner` is re-modelled (DESIGN.md §3): pending bytes, the
physical buffer length and its growth, "buffer full and at the limit ⇒ ErrTooLong", the
final token at EOF, first error wins.
-/
namespace GoSSE.Model
open GoSSE GoSSE.Spec

/-- `NewlineIndex`: index of the first newline sequence and its length (0 if none). -/
def newlineIndex : Bytes → Nat × Nat
  | [] => (0, 0)
  | b :: t =>
    if isNl b then (0, if b == 13 && t.head? == some 10 then 2 else 1)
    else let r := newlineIndex t; (r.1 + 1, r.2)

/-- `NextChunk`: chunk, remaining, hasNewline -/
def nextChunk (s : Bytes) : Bytes × Bytes × Bool :=
  let r := newlineIndex s
  (s.take r.1, s.drop (r.1 + r.2), r.2 != 0)

/-- the `for` loop of `splitFunc`: returns `(advance, start)`. `rest` is `data[advance:]`
and `len` is `len(data)`. -/
def splitLoop (len : Nat) : Nat → Bytes → Nat → Nat → Nat × Nat
  | 0, _, adv, st => (adv, st)
  | fuel + 1, rest, adv, st =>
    let r := newlineIndex rest
    let adv' := adv + r.1 + r.2
    let rest' := rest.drop (r.1 + r.2)
    let st' := if r.1 == 0 then st + r.2 else st
    if adv' == len || (isNl (rest'.headD 0) && r.1 > 0) then (adv', st')
    else splitLoop len fuel rest' adv' st'

/-- `splitFunc`: `(advance, token)`; `none` = request more data. -/
def splitFunc (data : Bytes) (atEOF : Bool) : Nat × Option Bytes :=
  let l := data.length
  if l == 0 then (0, none) else
  let r := splitLoop l (l + 1) data 0 0
  if r.1 == l && !atEOF then (0, none)
  else
    let adv2 :=
      if r.1 < l then
        let a := r.1 + 1
        if a < l && data.getD (a - 1) 0 == 13 && data.getD a 0 == 10 then a + 1 else a
      else r.1
    (adv2, some ((data.take adv2).drop r.2))

inductive SErr | eof | read | tooLong deriving DecidableEq, Repr

/-- The byte source: the chunks successive `Read` calls would return if the destination
were large enough, then `io.EOF` or an error, possibly delivered together with the last
bytes. -/
structure Source where
  chunks : List Bytes
  endErr : Bool
  errWithLast : Bool := false
deriving Repr

structure Scanner where
  start : Nat := 0          -- s.start
  data : Bytes := []        -- s.buf[s.start:s.end]
  bufLen : Nat := 0         -- len(s.buf)
  maxTok : Int := 65536     -- s.maxTokenSize
  src : Source
  err : Option SErr := none
  pulled : Nat := 0         -- ghost: bytes obtained from the reader so far
deriving Repr

def startBufSize : Nat := 4096

/-- One `Read` into a destination with `free` bytes of room: `(bytes, error, rest)`. -/
def Source.read (s : Source) (free : Nat) : Bytes × Option SErr × Source :=
  let e := if s.endErr then SErr.read else SErr.eof
  match s.chunks with
  | [] => ([], some e, s)
  | c :: rest =>
    if c.length ≤ free then
      if rest.isEmpty && s.errWithLast then (c, some e, { s with chunks := [] })
      else (c, none, { s with chunks := rest })
    else (c.take free, none, { s with chunks := c.drop free :: rest })

/-- `Scanner.Scan`: `(advance, token)` of the successful split call, or `none`. -/
def Scanner.scan : Nat → Scanner → Option (Nat × Bytes) × Scanner
  | 0, s => (none, s)
  | fuel + 1, s =>
    let r : Option (Nat × Bytes) × Scanner :=
      if !s.data.isEmpty || s.err.isSome then
        let q := splitFunc s.data s.err.isSome
        match q.2 with
        | some t => (some (q.1, t), { s with start := s.start + q.1, data := s.data.drop q.1 })
        | none => (none, s)
      else (none, s)
    match r.1 with
    | some t => (some t, r.2)
    | none =>
      let s := r.2
      if s.err.isSome then (none, { s with start := 0, data := [] })
      else
        -- shift data to the beginning of the buffer
        let s := if s.start > 0 && (s.start + s.data.length == s.bufLen || s.start > s.bufLen / 2)
                 then { s with start := 0 } else s
        -- buffer full: resize or give up
        if s.start + s.data.length == s.bufLen then
          if (s.bufLen : Int) ≥ s.maxTok then (none, { s with err := some .tooLong })
          else
            let n0 := if s.bufLen * 2 == 0 then startBufSize else s.bufLen * 2
            let n := min n0 s.maxTok.toNat
            let s := { s with bufLen := n, start := 0 }
            let q := s.src.read (s.bufLen - (s.start + s.data.length))
            Scanner.scan fuel { s with data := s.data ++ q.1, err := q.2.1, src := q.2.2, pulled := s.pulled + q.1.length }
        else
          let q := s.src.read (s.bufLen - (s.start + s.data.length))
          Scanner.scan fuel { s with data := s.data ++ q.1, err := q.2.1, src := q.2.2, pulled := s.pulled + q.1.length }

inductive FName | data | event | retry | id | comment | none deriving DecidableEq, Repr
structure Field where
  name : FName
  value : Bytes
deriving DecidableEq, Repr

def trimFirstSpace : Bytes → Bytes
  | 32 :: t => t
  | s => s

def maxFieldNameLength : Nat := 5

def getFieldName (b : Bytes) : Option FName :=
  if b == fData then some .data else if b == fEvent then some .event
  else if b == fRetry then some .retry else if b == fId then some .id else none

/-- `strings.IndexByte` -/
def indexByte (s : Bytes) (c : Byte) : Option Nat :=
  let i := s.findIdx (· == c)
  if i < s.length then some i else none

/-- `FieldParser.scanSegment` -/
def scanSegment (keepComments : Bool) (chunk : Bytes) : Option Field :=
  let l := chunk.length
  match indexByte chunk 58 with
  | some cp =>
    if cp > maxFieldNameLength then none else
    match getFieldName (chunk.take cp) with
    | some n => some ⟨n, trimFirstSpace (chunk.drop (min (cp + 1) l))⟩
    | none =>
      if chunk.isEmpty then some ⟨.none, []⟩
      else if cp == 0 && keepComments then some ⟨.comment, trimFirstSpace (chunk.drop (min 1 l))⟩
      else none
  | none =>
    match getFieldName chunk with
    | some n => some ⟨n, []⟩
    | none => if chunk.isEmpty then some ⟨.none, []⟩ else none

structure FP where
  data : Bytes := []
  err : Bool := false
  started : Bool := false
  keepComments : Bool := false
  removeBOM : Bool := false
deriving Repr

def FP.doRemoveBOM (f : FP) : FP :=
  if f.removeBOM && !f.started && bom.isPrefixOf f.data then { f with data := f.data.drop 3, started := true } else f
def FP.reset (f : FP) (d : Bytes) : FP := FP.doRemoveBOM { f with data := d, err := false, started := false }
def FP.setRemoveBOM (f : FP) (b : Bool) : FP := FP.doRemoveBOM { f with removeBOM := b }

/-- `FieldParser.Next` -/
def FP.next : Nat → FP → Option Field × FP
  | 0, f => (none, f)
  | fuel + 1, f =>
    if f.data.isEmpty then (none, f) else
    let f := { f with started := true }
    let r := nextChunk f.data
    if !r.2.2 then (none, { f with err := true })
    else
      let f := { f with data := r.2.1 }
      match scanSegment f.keepComments r.1 with
      | some fld => (some fld, f)
      | none => FP.next fuel f

structure Parser where
  sc : Scanner
  gone : Bool := false     -- inputScanner == nil
  fp : FP := { removeBOM := true }
  skippedBlankLines : Bool := false

def Source.size (s : Source) : Nat := s.chunks.foldl (fun n c => n + c.length + 1) 0

/-- `Parser.Next` (with its loop over input chunks) -/
def Parser.next : Nat → Parser → Option Field × Parser
  | 0, p => (none, p)
  | fuel + 1, p =>
    match FP.next (p.fp.data.length + 1) p.fp with
    | (some f, fp) => (some f, { p with fp := fp })
    | (none, fp) =>
      match Scanner.scan (p.sc.src.size + p.sc.data.length + 4) p.sc with
      | (none, sc) => (none, { p with fp := fp, sc := sc, gone := sc.err == some .eof })
      | (some (adv, tok), sc) =>
        let skipped := p.skippedBlankLines || adv > tok.length
        let fp := if fp.started || skipped then fp.setRemoveBOM false else fp
        let fp := fp.reset tok
        Parser.next fuel { p with fp := fp, sc := sc, skippedBlankLines := skipped }

inductive PErr | none | eof | unexpectedEOF | read | tooLong deriving DecidableEq, Repr

/-- `Parser.Err` -/
def Parser.err (p : Parser) : PErr :=
  let scErr : PErr := if p.gone then .none else match p.sc.err with
    | some .read => .read
    | some .tooLong => .tooLong
    | _ => .none     -- bufio.Scanner.Err() maps io.EOF to nil
  if scErr != .none then scErr
  else if p.fp.err then .unexpectedEOF
  else if p.gone then .eof
  else .none

/-- Go's `strconv.ParseInt(v, 10, 64)`: optional sign, digits, range. -/
def parseInt (v : Bytes) : Option Int :=
  let sd : Bool × Bytes := match v with
    | 43 :: t => (false, t)
    | 45 :: t => (true, t)
    | _ => (false, v)
  if sd.2.isEmpty || !sd.2.all isDigit then none
  else
    let n := digitsVal sd.2
    if sd.1 then (if n ≤ maxInt64 + 1 then some (-(n : Int)) else none)
    else (if n ≤ maxInt64 then some n else none)

structure RState where
  lastID : Bytes
  typ : Bytes := []
  sb : Bytes := []
  dirty : Bool := false
deriving DecidableEq, Repr

def doYield (st : RState) : Event := { lastEventID := st.lastID, type := st.typ, data := st.sb.dropLast }

/-- one iteration of the `switch` in `read()` -/
def readField (conn : Bool) (st : RState) (f : Field) : RState × List Out :=
  match f.name with
  | .data => ({ st with sb := st.sb ++ f.value ++ [10], dirty := true }, [])
  | .event => ({ st with typ := f.value, dirty := true }, [])
  | .id =>
    if f.value.contains 0 then (st, [])
    else ({ st with lastID := f.value, dirty := true }, [])
  | .retry =>
    if !f.value.all isDigit then (st, []) else
    match parseInt f.value with
    | some n => if n ≥ 0 && conn then ({ st with dirty := true }, [.retry n.toNat]) else (st, [])
    | none => (st, [])
  | _ =>
    if st.dirty then ({ lastID := st.lastID }, [.event (doYield st)]) else (st, [])

def countEvents (o : List Out) : Nat := (o.filter fun x => match x with | .event _ => true | _ => false).length

/-- has the consumer said stop? `stopAt = some k`: it returns `false` from its `k`-th yield -/
def stopped (stopAt : Option Nat) (outs : List Out) : Bool :=
  match stopAt with
  | none => false
  | some k => countEvents outs ≥ k

/-- the `for p.Next(&f)` loop of `read()`; the `Bool` says the consumer stopped the iteration -/
def readLoop (conn : Bool) (stopAt : Option Nat) : Nat → Parser → RState → List Out → Parser × RState × List Out × Bool
  | 0, p, st, outs => (p, st, outs, false)
  | fuel + 1, p, st, outs =>
    match p.next (p.sc.src.size + p.sc.data.length + 4) with
    | (none, p) => (p, st, outs, false)
    | (some f, p) =>
      let r := readField conn st f
      if !r.2.isEmpty && stopped stopAt (outs ++ r.2) then (p, r.1, outs ++ r.2, true)
      else readLoop conn stopAt fuel p r.1 (outs ++ r.2)

/-- Scanner configuration as done by `Read` (`cfg.MaxEventSize`) and `Connection.read`
(`Buffer(buf, max)`): `none` = `Buffer` not called. -/
def mkScanner (src : Source) (cfg : Option (Nat × Int)) : Scanner :=
  match cfg with
  | none => { src := src }
  | some (capBuf, max) => { src := src, bufLen := capBuf, maxTok := max }

/-- events/retries yielded, the error yielded at the end (`.none` = no error yield), and
bytes pulled from the reader. `stopAt = some k` (k ≥ 1): the consumer returns `false` from
its `k`-th event yield. -/
def implRun (conn : Bool) (lastID : Bytes) (src : Source) (cfg : Option (Nat × Int)) (stopAt : Option Nat := none) :
    List Out × PErr × Nat :=
  let total := src.size
  let p : Parser := { sc := mkScanner src cfg }
  let r := readLoop conn stopAt (total + 4) p { lastID := lastID } []
  if r.2.2.2 then (r.2.2.1, .none, r.1.sc.pulled) else
  let e := r.1.err
  if r.2.1.dirty && e == .eof then
    let outs := r.2.2.1 ++ [.event (doYield r.2.1)]
    if stopped stopAt outs then (outs, .none, r.1.sc.pulled)
    else (outs, if !conn then .none else e, r.1.sc.pulled)
  else (r.2.2.1, if e == .eof && !conn then .none else e, r.1.sc.pulled)

/-- option glue of `Read`: `ReadConfig{MaxEventSize}` (nil config = `none`) -/
def cfgOfRead (rc : Option Int) : Option (Nat × Int) :=
  match rc with
  | some m => if m > 0 then some (0, m) else none
  | none => none

/-- option glue of `Connection.read` after `Connection.Buffer(buf, max)`; `buf = none` is a nil slice -/
def cfgOfConn (buf : Option Nat) (max : Int) : Option (Nat × Int) :=
  if buf.isSome || max > 0 then some (buf.getD 0, max) else none

/-- Go's wrapping `int64` arithmetic -/
def wrap64 (x : Int) : Int := ((x + 9223372036854775808) % 18446744073709551616) - 9223372036854775808

/-- The base reconnection interval (ns) in force after a connection that reported `outs`:
`setRetry(0)` on connect, then `reset(time.Duration(n) * time.Millisecond)` per retry field;
`reset d` installs `d` if positive, the configured initial interval otherwise. -/
def retryInterval (initial : Int) (outs : List Out) : Int :=
  outs.foldl (fun cur o => match o with
    | .retry n => let d := wrap64 ((n : Int) * 1000000); if d > 0 then d else initial
    | _ => cur) initial

end GoSSE.Model
