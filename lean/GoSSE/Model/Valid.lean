import GoSSE.Model.Queue
/-!
# Model of `ValidReplayer` (`replay.go`)

Instants and durations are `Int` (nanoseconds); the clock (`ValidReplayer.Now`) is an input
of every operation. `lastGC = none` is the zero `time.Time` (assumption: the clock never
returns the zero instant itself).
-/
namespace GoSSE.Model
open GoSSE GoSSE.Spec

structure Valid where
  lastGC : Option Int
  currentID : Option Nat
  messages : Queue
  ttl : Int
  gcInterval : Int
deriving Repr

def minCap : Nat := 4

/-- `NewValidReplayer(ttl, autoIDs)` followed by an assignment to the exported `GCInterval`
(`none` keeps the default `ttl / 4`); `none` result = the constructor's error (`ttl <= 0`) -/
def newValid (ttl : Int) (autoIDs : Bool) (gcInterval : Option Int) : Option Valid :=
  if ttl ≤ 0 then none
  else some { lastGC := none, currentID := if autoIDs then some 0 else none,
              messages := { buf := [], head := 0, tail := 0, count := 0 },
              ttl, gcInterval := gcInterval.getD (Int.tdiv ttl 4) }

namespace Valid

def shouldGC (v : Valid) (now : Int) : Bool :=
  decide (v.gcInterval > 0) && decide (now - v.lastGC.getD 0 ≥ v.gcInterval)

/-- the `for v.messages.count > 0 { … }` loop of `doGC`; every iteration decrements `count`,
so `fuel = count` iterations suffice. A zero slot has the zero expiry, which is not after `now`. -/
def gcLoop : Nat → Int → Queue → QRes Queue
  | 0, _, q => .ok q
  | fuel + 1, now, q =>
    if q.count > 0 then
      match q.buf[q.head]? with
      | none => .panic
      | some slot =>
        if (match slot with | some e => decide (e.exp > now) | none => false) then .ok q
        else
          match q.dequeue with
          | .panic => .panic
          | .ok q' => gcLoop fuel now q'
    else .ok q

def doGCq (now : Int) (q : Queue) : QRes Queue :=
  match gcLoop q.count now q with
  | .panic => .panic
  | .ok q =>
    if q.count ≤ q.buf.length / 4 then
      let newCap := q.buf.length / 2
      q.resize (if newCap < minCap then minCap else newCap)
    else .ok q

def doGC (v : Valid) (now : Int) : QRes Valid :=
  match doGCq now v.messages with
  | .panic => .panic
  | .ok q => .ok { v with messages := q }

/-- `GC()` -/
def gc (v : Valid) (now : Int) : QRes Valid := v.doGC now

/-- `if v.lastGC.IsZero() { v.lastGC = now }; if v.shouldGC(now) { v.doGC(now); v.lastGC = now }` -/
def gcIfDue (v : Valid) (now : Int) : QRes Valid :=
  let v := if v.lastGC.isNone then { v with lastGC := some now } else v
  if v.shouldGC now then
    match v.doGC now with
    | .panic => .panic
    | .ok v' => .ok { v' with lastGC := some now }
  else .ok v

/-- `if count == len(buf) { resize(max(2*len, minCap)) }` -/
def growIfFull (q : Queue) : QRes Queue :=
  if q.count = q.buf.length then
    let newCap := q.buf.length * 2
    q.resize (if newCap < minCap then minCap else newCap)
  else .ok q

/-- the second half of `Put`: `ensureID`, grow when full, `enqueue` with `exp = now + ttl` -/
def putStore (v : Valid) (now : Int) (msg : Nat) (id : EventID) (topics : List Bytes) :
    QRes (Except PutErr Entry × Valid) :=
  match ensureID id v.currentID with
  | .error e => .ok (.error e, v)
  | .ok (id', cur') =>
    match growIfFull v.messages with
    | .panic => .panic
    | .ok q =>
      let e : Entry := { msg, id := id', topics, exp := now + v.ttl }
      match q.enqueue e with
      | .panic => .panic
      | .ok q' => .ok (.ok e, { v with currentID := cur', messages := q' })

/-- `Put(message, topics)` with `v.Now() = now` -/
def put (v : Valid) (now : Int) (msg : Nat) (id : EventID) (topics : List Bytes) :
    QRes (Except PutErr Entry × Valid) :=
  if topics.isEmpty then .ok (.error .noTopic, v) else
  match v.gcIfDue now with
  | .panic => .panic
  | .ok v => v.putStore now msg id topics

/-- `Replay(subscription)` with `v.Now() = now` -/
def replay (v : Valid) (now : Int) (sub : Sub) : QRes ReplayOut :=
  match findIDInQueue v.messages sub.lastEventID v.currentID.isSome with
  | .panic => .panic
  | .ok i =>
    if i < 0 then .ok { calls := [], err := .nil } else
    match v.messages.each i.toNat
        (sendStep sub fun e => decide (e.exp > now) && topicsIntersect sub.topics e.topics)
        { calls := [], failed := false } with
    | .panic => .panic
    | .ok st => .ok (finishReplay sub st)

end Valid
end GoSSE.Model
