import GoSSE.Model.Message
/-!
# Heap / slice model for C19

`Message.chunks` is a Go slice: a window `(array, len, cap)` onto a backing array that other
messages (clones) may share. `append` writes in place when `len < cap` and otherwise moves to
a fresh array whose capacity is **any** value `≥ len + 1` (chosen by the oracle `extra`, which
is indexed by the allocation — so every sequence of growth decisions is covered).
`Clone` is `chunks[:len:len]`. `ensureID` is the part of `Put` that concerns the message.
-/
namespace GoSSE.Model
open GoSSE

/-- a slice header; the offset into the array is always 0 in this code -/
structure Slice where
  arr : Nat := 0
  len : Nat := 0
  cap : Nat := 0
deriving DecidableEq, Repr

/-- a `*Message` whose `chunks` live in the heap -/
structure HMsg where
  sl : Slice := {}
  id : MField := {}
  typ : MField := {}
  retry : Int := 0
deriving DecidableEq, Repr

/-- backing arrays by allocation number; each has a fixed length (its capacity) -/
abbrev Heap := List (List Chunk)

def zeroChunk : Chunk := ⟨[], false⟩

def Heap.array (h : Heap) (a : Nat) : List Chunk := (h[a]?).getD []

/-- what a message logically is: the first `len` cells of its array, and its fields -/
def view (h : Heap) (m : HMsg) : Message :=
  { chunks := (h.array m.sl.arr).take m.sl.len, id := m.id, typ := m.typ, retry := m.retry }

/-- Go's `append(s, x)` -/
def happend (extra : Nat → Nat) (h : Heap) (s : Slice) (x : Chunk) : Heap × Slice :=
  if s.len < s.cap then
    (h.set s.arr ((h.array s.arr).set s.len x), { s with len := s.len + 1 })
  else
    let newCap := s.len + 1 + extra h.length
    let fresh := (h.array s.arr).take s.len ++ [x] ++ List.replicate (newCap - (s.len + 1)) zeroChunk
    (h ++ [fresh], { arr := h.length, len := s.len + 1, cap := newCap })

def happendAll (extra : Nat → Nat) (h : Heap) (s : Slice) (xs : List Chunk) : Heap × Slice :=
  xs.foldl (fun hs x => happend extra hs.1 hs.2 x) (h, s)

/-- the chunks `appendText(isComment, strs...)` appends, one `append` each, in order -/
def textChunks (isComment : Bool) (strs : List Bytes) : List Chunk :=
  strs.flatMap fun c => appendLoop isComment c.length c []

/-- `Clone`: `chunks[:len:len]` -/
def HMsg.clone (m : HMsg) : HMsg :=
  { sl := { arr := m.sl.arr, len := m.sl.len, cap := m.sl.len }, retry := m.retry, typ := m.typ, id := m.id }

/-- `strconv.FormatUint(n, 10)`'s digit loop -/
def digitsLoop : Nat → Nat → Bytes → Bytes
  | 0, _, acc => acc
  | f + 1, n, acc => if n = 0 then acc else digitsLoop f (n / 10) ((48 + UInt8.ofNat (n % 10)) :: acc)

def formatUint (n : Nat) : Bytes := if n = 0 then [48] else digitsLoop n n []

/-- operations on a family of messages (member `i` of the family) -/
inductive FOp
  | appendData (i : Nat) (strs : List Bytes)
  | appendComment (i : Nat) (strs : List Bytes)
  /-- `m.ID, _ = NewID(v)` -/
  | setID (i : Nat) (v : Bytes)
  /-- `m.Type, _ = NewType(v)` -/
  | setType (i : Nat) (v : Bytes)
  | setRetry (i : Nat) (d : Int)
  /-- `m.Clone()`, the clone joins the family -/
  | clone (i : Nat)
  /-- `replayer[rep].Put(m, topics)`; even `rep` = automatic IDs, odd = IDs required -/
  | put (i : Nat) (rep : Nat)
  /-- `m.UnmarshalText(p)`: the receiver is reset (its slice becomes nil) and refilled by `append` -/
  | unmarshal (i : Nat) (p : Bytes)
deriving Repr

inductive PutRes
  /-- "message has no ID" -/
  | errNoID
  /-- "message already has an ID, can't use generated ID" -/
  | errHasID
  /-- the pointer given is returned -/
  | same (i : Nat)
  /-- a new message (family member `k`) is returned -/
  | fresh (k : Nat)
  | panic
deriving DecidableEq, Repr

def autoIDs (rep : Nat) : Bool := rep % 2 == 0

structure FamState where
  heap : Heap := []
  fam : List HMsg := [{}]
  /-- `*currentID` of each replayer -/
  ctr : Nat → Nat := fun _ => 0
  puts : List PutRes := []

def FamState.appendText (extra : Nat → Nat) (st : FamState) (i : Nat) (isComment : Bool) (strs : List Bytes) : FamState :=
  match st.fam[i]? with
  | none => st
  | some m =>
    let r := happendAll extra st.heap m.sl (textChunks isComment strs)
    { st with heap := r.1, fam := st.fam.set i { m with sl := r.2 } }

def FamState.modify (st : FamState) (i : Nat) (f : HMsg → HMsg) : FamState :=
  match st.fam[i]? with
  | none => st
  | some m => { st with fam := st.fam.set i (f m) }

/-- `ensureID(m, currentID)` as used by `FiniteReplayer.Put` and `ValidReplayer.Put` -/
def FamState.ensureID (st : FamState) (i : Nat) (rep : Nat) : FamState :=
  match st.fam[i]? with
  | none => st
  | some m =>
    if !autoIDs rep then
      if !m.id.set then { st with puts := st.puts ++ [.errNoID] }
      else { st with puts := st.puts ++ [.same i] }
    else if m.id.set then { st with puts := st.puts ++ [.errHasID] }
    else
      match mustID (formatUint (st.ctr rep)) with
      | none => { st with puts := st.puts ++ [.panic] }
      | some f =>
        let c := { m.clone with id := f }
        { st with fam := st.fam ++ [c],
                  ctr := fun r => if r = rep then st.ctr rep + 1 else st.ctr r,
                  puts := st.puts ++ [.fresh st.fam.length] }

/-- `Message.UnmarshalText` on member `i`: `reset()` makes the slice nil, the parsed chunks are appended
one by one (the first append allocates a fresh array), the fields are those of the parsed message -/
def FamState.unmarshal (extra : Nat → Nat) (st : FamState) (i : Nat) (p : Bytes) : FamState :=
  match st.fam[i]? with
  | none => st
  | some _ =>
    let r := (Message.unmarshalText p).1
    let m0 : HMsg := { sl := {}, id := r.id, typ := r.typ, retry := r.retry }
    let a := happendAll extra st.heap m0.sl r.chunks
    { st with heap := a.1, fam := st.fam.set i { m0 with sl := a.2 } }

def FamState.step (extra : Nat → Nat) (st : FamState) : FOp → FamState
  | .appendData i s => st.appendText extra i false s
  | .appendComment i s => st.appendText extra i true s
  | .setID i v => st.modify i fun m => { m with id := (newID v).1 }
  | .setType i v => st.modify i fun m => { m with typ := (newType v).1 }
  | .setRetry i d => st.modify i fun m => { m with retry := d }
  | .clone i =>
    match st.fam[i]? with
    | none => st
    | some m => { st with fam := st.fam ++ [m.clone] }
  | .put i rep => st.ensureID i rep
  | .unmarshal i p => st.unmarshal extra i p

def FamState.run (extra : Nat → Nat) (st : FamState) (ops : List FOp) : FamState := ops.foldl (FamState.step extra) st

def FamState.views (st : FamState) : List Message := st.fam.map (view st.heap)

end GoSSE.Model
