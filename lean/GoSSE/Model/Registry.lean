import GoSSE.Spec.Client
/-!
# Model of the callback registry of `Connection` (`client_connection.go`)

`callbacks map[string]map[int]EventCallback`, `callbacksAll map[int]EventCallback`, `callbackID`;
`addSubscriber`, `addSubscriberToAll`, the remover closures they return (capturing the type and
the id), and `dispatch`. Maps are association lists with unique keys; the order in which
`dispatch` ranges over a map is unspecified in Go, so theorems about `dispatch` are stated up to
permutation (`List.Perm`) and the driver sorts.
-/
namespace GoSSE.Model.Client
open GoSSE GoSSE.Spec GoSSE.Spec.Client

/-- `map[string]map[int]cb`: type ↦ ids (the callbacks themselves are identified by their id) -/
abbrev TMap := List (Bytes × List Nat)

/-- `m[t]` with the comma-ok flag: `none` = key absent -/
def TMap.get (m : TMap) (t : Bytes) : Option (List Nat) :=
  match m with
  | [] => none
  | (k, v) :: rest => if k == t then some v else TMap.get rest t

/-- `m[t] = v` -/
def TMap.set (m : TMap) (t : Bytes) (v : List Nat) : TMap :=
  match m with
  | [] => [(t, v)]
  | (k, w) :: rest => if k == t then (k, v) :: rest else (k, w) :: TMap.set rest t v

/-- `delete(m, t)` -/
def TMap.del (m : TMap) (t : Bytes) : TMap :=
  match m with
  | [] => []
  | (k, w) :: rest => if k == t then TMap.del rest t else (k, w) :: TMap.del rest t

structure Registry where
  byType : TMap := []        -- c.callbacks
  all : List Nat := []       -- c.callbacksAll
  next : Nat := 0            -- c.callbackID
deriving Repr, DecidableEq

/-- a remover closure: what it captured -/
inductive Remover
  | typed (event : Bytes) (id : Nat)
  | all (id : Nat)
deriving Repr, DecidableEq

def Remover.id : Remover → Nat
  | .typed _ id => id
  | .all id => id

/-- `addSubscriber` -/
def Registry.addSubscriber (r : Registry) (event : Bytes) : Registry × Remover :=
  let m := match r.byType.get event with
    | some _ => r.byType
    | none => r.byType.set event []
  let id := r.next
  let inner := (m.get event).getD []
  ({ r with byType := m.set event (inner ++ [id]), next := r.next + 1 }, .typed event id)

/-- `addSubscriberToAll` -/
def Registry.addSubscriberToAll (r : Registry) : Registry × Remover :=
  let id := r.next
  ({ r with all := r.all ++ [id], next := r.next + 1 }, .all id)

/-- calling a remover closure -/
def Registry.remove (r : Registry) : Remover → Registry
  | .all id => { r with all := r.all.filter (· != id) }       -- delete(c.callbacksAll, id)
  | .typed event id =>
    match r.byType.get event with
    | none => r     -- delete on a nil map is a no-op; len(nil) == 0; delete of an absent key is a no-op
    | some inner =>
      let inner' := inner.filter (· != id)       -- delete(c.callbacks[event], id)
      if inner'.isEmpty then { r with byType := r.byType.del event }
      else { r with byType := r.byType.set event inner' }

/-- `dispatch`: the ids of the callbacks invoked for an event of type `typ`, in the model's order -/
def Registry.dispatch (r : Registry) (typ : Bytes) : List Nat :=
  let cbs := (r.byType.get typ).getD []
  if cbs.length + r.all.length == 0 then []
  else cbs ++ r.all

/-! ## scripts -/

structure RegState where
  reg : Registry := {}
  removers : List Remover := []       -- removers handed out so far, in order
  log : List (List Nat) := []         -- per dispatched event: ids invoked
deriving Repr

def RegState.step (s : RegState) : ROp → RegState
  | .sub ev => let q := s.reg.addSubscriber ev; { s with reg := q.1, removers := s.removers ++ [q.2] }
  | .subAll => let q := s.reg.addSubscriberToAll; { s with reg := q.1, removers := s.removers ++ [q.2] }
  | .unsub k =>
    match s.removers[k]? with
    | some rm => { s with reg := s.reg.remove rm }
    | none => s
  | .event typ => { s with log := s.log ++ [s.reg.dispatch typ] }

def runScript (ops : List ROp) : RegState := ops.foldl RegState.step {}

end GoSSE.Model.Client
