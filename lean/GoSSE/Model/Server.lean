import GoSSE.Model.Session
/-!
# Model of `Upgrade` / `getResponseWriter` (session.go) and `Server.ServeHTTP` /
`getSubscription` (server.go)

`ServeHTTP` is a decision procedure over
* the *shape* of the `http.ResponseWriter` (which layers implement `Flush()`, `FlushError() error`,
  `Unwrap()`),
* the request header map,
* what `OnSession` does (nil; or: its own use of the response writer, the topics and the
  verdict it returns),
* what the provider does (the `Send`/`Flush` calls it makes on `Subscription.Client` before
  `Subscribe` returns, and the error it returns),
* the fault schedule of the writer.
`http.Error` is re-modelled (net/http, Go 1.23): it sets `Content-Type: text/plain; charset=utf-8`
and `X-Content-Type-Options: nosniff`, calls `WriteHeader(code)` and writes the text and a
newline in one `Write`. (Its `Del("Content-Length")` is not modelled: nothing here sets that header.)
-/
namespace GoSSE.Model.Server
open GoSSE GoSSE.Model.Session

/-- the flushing methods one layer of a response writer implements -/
inductive Caps | plain | flusher | flushError | both
deriving DecidableEq, Repr

/-- `flushError | flusher | both | plain` are `base c`; `wrapped c inner` is a layer with an
`Unwrap()` method returning `inner` (and possibly flushing methods of its own, `c`). -/
inductive Shape
  | base (c : Caps)
  | wrapped (c : Caps) (inner : Shape)
deriving DecidableEq, Repr

abbrev Shape.flushError := Shape.base .flushError
abbrev Shape.flusher := Shape.base .flusher
abbrev Shape.plain := Shape.base .plain

/-- the type switch of `getResponseWriter` on one layer: `writeFlusherError` is tried first,
then `writeFlusher` -/
def Caps.pick : Caps → Option FlushKind
  | .flushError => some .flushError
  | .both => some .flushError
  | .flusher => some .flusher
  | .plain => none

/-- `getResponseWriter`: the loop over `Unwrap()`; `lvl` = number of unwraps so far. `none` = nil. -/
def getResponseWriter : Shape → Nat → Option Res
  | .base c, lvl => c.pick.map fun k => ⟨lvl, k⟩
  | .wrapped c inner, lvl =>
    match c.pick with
    | some k => some ⟨lvl, k⟩
    | none => getResponseWriter inner (lvl + 1)

/-- `http.Header` as far as it is read here: a map from the exact key to its values -/
abbrev Header := List (Bytes × List Bytes)

def headerLastEventID : Bytes := [76, 97, 115, 116, 45, 69, 118, 101, 110, 116, 45, 73, 100]  -- "Last-Event-Id"

/-- `isSingleLine` (message.go): no CR, no LF -/
def isSingleLine (v : Bytes) : Bool := v.all fun b => !isNl b

/-- `NewID`: a set ID, or the unset one -/
def newID (v : Bytes) : Option Bytes := if isSingleLine v then some v else none

/-- the header rule of `Upgrade`: `r.Header["Last-Event-Id"]`, first value, non-empty, valid -/
def lastEventIDOf (h : Header) : Option Bytes :=
  match h.lookup headerLastEventID with
  | some (v :: _) => if v.isEmpty then none else newID v
  | _ => none

/-- `Upgrade`: `none` = `ErrUpgradeUnsupported` -/
def upgrade (shape : Shape) (h : Header) : Option (Session × Option Bytes) :=
  match getResponseWriter shape 0 with
  | none => none
  | some res => some (⟨res, false⟩, lastEventIDOf h)

/-- what the recording provider sees -/
structure Subscription where
  lastEventID : Option Bytes
  topics : List Bytes
deriving DecidableEq, Repr

def defaultTopic : Bytes := []
def defaultTopicSlice : List Bytes := [defaultTopic]

/-- `getSubscription`; `onSession = none`: the callback is nil; else what it returned -/
def getSubscription (lastEventID : Option Bytes) (onSession : Option (List Bytes × Bool)) : Subscription × Bool :=
  let sub : Subscription := ⟨lastEventID, defaultTopicSlice⟩
  match onSession with
  | some (topics, ok) =>
    if ok && topics.length > 0 then ({ sub with topics := topics }, ok) else (sub, ok)
  | none => (sub, true)

/-- a use of the `http.ResponseWriter` by user code (`OnSession` gets `sess.Res`) -/
inductive WAct
  | setHeader (k v : Bytes)
  | writeHeader (code : Nat)
  | write (p : Bytes)
  | flush
deriving DecidableEq, Repr

def runActs (sched : Sched) (res : Res) : Nat → List WAct → List Ev × Nat
  | c, [] => ([], c)
  | c, a :: as =>
    match a with
    | .setHeader k v => let q := runActs sched res c as; (.headerSet res.lvl k v :: q.1, q.2)
    | .writeHeader code => let q := runActs sched res c as; (.writeHeader res.lvl code :: q.1, q.2)
    | .write p => let q := runActs sched res (c + 1) as; ((wWrite sched res.lvl c p).1 :: q.1, q.2)
    | .flush => let q := runActs sched res (c + 1) as; ((wFlush sched res.lvl res.kind c).1 :: q.1, q.2)

structure OnSessionB where
  acts : List WAct
  topics : List Bytes
  ok : Bool
deriving DecidableEq, Repr

/-- what `Subscribe` returns: nil, an error of the provider's own, or (as Joe does) the first
error a `Send`/`Flush` on the client returned (nil if none did) -/
inductive ProvRet
  | nil
  | own (text : Bytes)
  | firstErr
deriving DecidableEq, Repr

structure ProviderB where
  ops : List Op
  ret : ProvRet
deriving DecidableEq, Repr

def textPlain : Bytes := "text/plain; charset=utf-8".toUTF8.toList
def headerXCTO : Bytes := "X-Content-Type-Options".toUTF8.toList
def nosniff : Bytes := "nosniff".toUTF8.toList
def unsupportedText : Bytes := "Server-sent events unsupported".toUTF8.toList
/-- `Error()` of the error the harness injects at writer call `k` -/
def faultText (k : Nat) : Bytes := "verif: injected fault at call ".toUTF8.toList ++ digits k

/-- `http.Error(w, text, code)` on the writer handed to `ServeHTTP` (layer 0) -/
def httpError (sched : Sched) (c : Nat) (text : Bytes) (code : Nat) : List Ev :=
  [.headerSet 0 headerContentType textPlain, .headerSet 0 headerXCTO nosniff, .writeHeader 0 code,
   (wWrite sched 0 c (text ++ [10])).1]

def firstRet : List Entry → Option Nat
  | [] => none
  | e :: es => match e.ret with | some k => some k | none => firstRet es

/-- the error text `Subscribe` returns, if it returns one -/
def provError (ret : ProvRet) (obs : List Entry) : Option Bytes :=
  match ret with
  | .nil => none
  | .own t => some t
  | .firstErr => (firstRet obs).map faultText

structure Served where
  /-- was `OnSession` called, and the events of its own use of the writer -/
  onSessionCalled : Bool
  pre : List Ev
  /-- the subscription handed to `Provider.Subscribe` (`none`: not called) -/
  sub : Option Subscription
  /-- the provider's calls on the session -/
  obs : List Entry
  /-- what `ServeHTTP` itself did to the response afterwards -/
  tail : List Ev
deriving DecidableEq, Repr

def serveHTTP (sched : Sched) (shape : Shape) (h : Header) (onSession : Option OnSessionB)
    (prov : ProviderB) : Served :=
  match upgrade shape h with
  | none => ⟨false, [], none, [], httpError sched 0 unsupportedText 500⟩
  | some (sess, lastID) =>
    let pre := match onSession with
      | some b => runActs sched sess.res 0 b.acts
      | none => ([], 0)
    let g := getSubscription lastID (onSession.map fun b => (b.topics, b.ok))
    if !g.2 then ⟨onSession.isSome, pre.1, none, [], []⟩
    else
      let r := runOps sched sess pre.2 prov.ops
      match provError prov.ret r.obs with
      | none => ⟨onSession.isSome, pre.1, some g.1, r.obs, []⟩
      | some text => ⟨onSession.isSome, pre.1, some g.1, r.obs, httpError sched r.calls text 500⟩

/-- the whole log of a `ServeHTTP` call -/
def Served.log (s : Served) : List Ev := s.pre ++ trace s.obs ++ s.tail

end GoSSE.Model.Server
