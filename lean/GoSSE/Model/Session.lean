import GoSSE.Basic
/-!
# Model of `session.go`: `Session.Send / Flush / doUpgrade` over a recording `ResponseWriter`

The response writer is external code: it is a parameter with a stated contract (DESIGN §3).
* Every `Write` and every `Flush`/`FlushError` call is a *writer call*; they are numbered
  0, 1, 2, … in the order they happen (`calls`). A **fault schedule** `sched : Nat → Option Nat`
  says, for every call number, whether that call succeeds (`none`) or fails (`some n`).
  A failing `Write p` accepts `p.take n` (so `n ≥ len p` is "everything accepted, error
  nevertheless" and `n < len p` is a short write) — the `io.Writer` contract: a call that
  accepts fewer bytes than offered returns an error; a successful call accepts everything.
  The error returned by failing call number `k` is identified with `k`.
* `http.Flusher.Flush()` has no result: a fault scheduled on such a call cannot be reported
  (`flusherWrapper.Flush` always returns nil). `FlushError()` reports it.
* Every call is logged as an `Ev`, together with the layer (`lvl`) of the (possibly wrapped)
  response writer on which it arrived: 0 is the writer handed to `Upgrade`/`ServeHTTP`, `n+1`
  is what layer `n`'s `Unwrap()` returns. A `Session` talks to the layer `getResponseWriter`
  stopped at.

Functions return the events they emit (`evs`) and the call counter afterwards; the log of a
run is the concatenation of the emitted events.

The message encoding is kept tiny and self-contained here (`Msg`, `encodeWrites`): the list
of `Write` calls `Message.WriteTo` makes. `Message` itself is modelled in depth elsewhere
(C02/C15).
-/
namespace GoSSE.Model.Session
open GoSSE

/-- which method flushes: `flusherWrapper` (`http.Flusher.Flush()`, no error) or
`flusherErrorWrapper` (`FlushError() error`) -/
inductive FlushKind | flusher | flushError
deriving DecidableEq, Repr

/-- one logged call on the recording `http.ResponseWriter` -/
inductive Ev
  /-- `Header()[key] = []string{value}` -/
  | headerSet (lvl : Nat) (key value : Bytes)
  /-- `Write(offered)` accepted `accepted`; `err = some k`: failed, this was writer call `k` -/
  | write (lvl : Nat) (accepted offered : Bytes) (err : Option Nat)
  /-- `Flush()` / `FlushError()`; `err` is what the caller got back -/
  | flush (lvl : Nat) (kind : FlushKind) (err : Option Nat)
  | writeHeader (lvl : Nat) (code : Nat)
deriving DecidableEq, Repr

abbrev Sched := Nat → Option Nat

def Ev.err : Ev → Option Nat
  | .write _ _ _ e => e
  | .flush _ _ e => e
  | _ => none

def Ev.isWrite : Ev → Bool
  | .write .. => true
  | _ => false

def Ev.isFlush : Ev → Bool
  | .flush .. => true
  | _ => false

def Ev.isHeaderSet : Ev → Bool
  | .headerSet .. => true
  | _ => false

/-- body bytes the writer accepted in this call -/
def Ev.body : Ev → Bytes
  | .write _ a _ _ => a
  | _ => []

/-- `w.Write(p)` as writer call number `c` -/
def wWrite (sched : Sched) (lvl c : Nat) (p : Bytes) : Ev × Option Nat :=
  match sched c with
  | none => (.write lvl p p none, none)
  | some n => (.write lvl (p.take n) p (some c), some c)

/-- `Res.Flush()` as writer call number `c` -/
def wFlush (sched : Sched) (lvl : Nat) (kind : FlushKind) (c : Nat) : Ev × Option Nat :=
  let err := match kind, sched c with
    | .flushError, some _ => some c
    | _, _ => none
  (.flush lvl kind err, err)

/-! ## The message's write sequence (`Message.WriteTo`) -/

structure Msg where
  id : Option Bytes
  typ : Option Bytes
  /-- `Retry.Milliseconds()` when positive, else 0 (= field not written) -/
  retryMs : Nat
  /-- `(content, isComment)` -/
  chunks : List (Bytes × Bool)
deriving DecidableEq, Repr

def nl : Bytes := [10]
def bytesID : Bytes := [105, 100, 58, 32]                       -- "id: "
def bytesEvent : Bytes := [101, 118, 101, 110, 116, 58, 32]     -- "event: "
def bytesRetry : Bytes := [114, 101, 116, 114, 121, 58, 32]     -- "retry: "
def bytesData : Bytes := [100, 97, 116, 97, 58, 32]             -- "data: "
def bytesComment : Bytes := [58, 32]                            -- ": "

/-- decimal digits, as `writeRetry`'s buffer loop produces them -/
def digits (n : Nat) : Bytes := (Nat.toDigits 10 n).map fun ch => UInt8.ofNat ch.toNat

def writeMessageField (f : Option Bytes) (name : Bytes) : List Bytes :=
  match f with
  | some v => [name, v, nl]
  | none => []

def writeRetry (ms : Nat) : List Bytes := if ms = 0 then [] else [bytesRetry, digits ms, nl]

def chunkWrites (c : Bytes × Bool) : List Bytes := [if c.2 then bytesComment else bytesData, c.1, nl]

def fieldWrites (m : Msg) : List Bytes :=
  writeMessageField m.id bytesID ++ writeMessageField m.typ bytesEvent ++ writeRetry m.retryMs
    ++ m.chunks.flatMap chunkWrites

/-- The `Write` calls `WriteTo` makes when no call fails. The closing newline is written iff
the byte count so far is non-zero; every field starts with a non-empty name that a successful
`Write` accepts in full, so that is "iff some field was written". -/
def encodeWrites (m : Msg) : List Bytes :=
  let ws := fieldWrites m
  if ws.isEmpty then [] else ws ++ [nl]

def encode (m : Msg) : Bytes := (encodeWrites m).flatten

/-- result of a sequence of writer calls -/
structure WOut where
  evs : List Ev
  calls : Nat
  err : Option Nat

/-- `WriteTo` on the response writer: the `Write` calls one after the other, stopping at
the first error (every `if err != nil { return }` of `message.go`) -/
def writeAll (sched : Sched) (lvl : Nat) : Nat → List Bytes → WOut
  | c, [] => ⟨[], c, none⟩
  | c, p :: ps =>
    let r := wWrite sched lvl c p
    match r.2 with
    | some k => ⟨[r.1], c + 1, some k⟩
    | none =>
      let q := writeAll sched lvl (c + 1) ps
      ⟨r.1 :: q.evs, q.calls, q.err⟩

/-! ## Session -/

/-- `Session.Res`: the layer the session writes to and how it flushes -/
structure Res where
  lvl : Nat
  kind : FlushKind
deriving DecidableEq, Repr

structure Session where
  res : Res
  didUpgrade : Bool
deriving DecidableEq, Repr

def headerContentType : Bytes := [67, 111, 110, 116, 101, 110, 116, 45, 84, 121, 112, 101]  -- "Content-Type"
def headerContentTypeValue : Bytes :=
  [116, 101, 120, 116, 47, 101, 118, 101, 110, 116, 45, 115, 116, 114, 101, 97, 109]          -- "text/event-stream"

/-- result of one Session method -/
structure Step where
  evs : List Ev
  s : Session
  calls : Nat
  err : Option Nat

/-- the header assignment of `doUpgrade` -/
def upgradeHeader (r : Res) : Ev := .headerSet r.lvl headerContentType headerContentTypeValue

def doUpgrade (sched : Sched) (s : Session) (c : Nat) : Step :=
  if s.didUpgrade then ⟨[], s, c, none⟩
  else
    let f := wFlush sched s.res.lvl s.res.kind c
    match f.2 with
    | some k => ⟨[upgradeHeader s.res, f.1], s, c + 1, some k⟩
    | none => ⟨[upgradeHeader s.res, f.1], { s with didUpgrade := true }, c + 1, none⟩

def send (sched : Sched) (s : Session) (c : Nat) (m : Msg) : Step :=
  let u := doUpgrade sched s c
  match u.err with
  | some k => ⟨u.evs, u.s, u.calls, some k⟩
  | none =>
    let w := writeAll sched s.res.lvl u.calls (encodeWrites m)
    ⟨u.evs ++ w.evs, u.s, w.calls, w.err⟩

def flush (sched : Sched) (s : Session) (c : Nat) : Step :=
  let prevDidUpgrade := s.didUpgrade
  let u := doUpgrade sched s c
  match u.err with
  | some k => ⟨u.evs, u.s, u.calls, some k⟩
  | none =>
    if prevDidUpgrade == u.s.didUpgrade then
      let f := wFlush sched s.res.lvl s.res.kind u.calls
      ⟨u.evs ++ [f.1], u.s, u.calls + 1, f.2⟩
    else ⟨u.evs, u.s, u.calls, none⟩

/-- what a caller (a provider, a replayer) does with the `MessageWriter` -/
inductive Op
  | send (m : Msg)
  | flush
deriving DecidableEq, Repr

def step (sched : Sched) (s : Session) (c : Nat) : Op → Step
  | .send m => send sched s c m
  | .flush => flush sched s c

/-- one call and what it did: the events it caused and its return value -/
structure Entry where
  op : Op
  evs : List Ev
  ret : Option Nat
deriving DecidableEq, Repr

structure Run where
  obs : List Entry
  s : Session
  calls : Nat

def runOps (sched : Sched) : Session → Nat → List Op → Run
  | s, c, [] => ⟨[], s, c⟩
  | s, c, op :: ops =>
    let r := step sched s c op
    let q := runOps sched r.s r.calls ops
    ⟨⟨op, r.evs, r.err⟩ :: q.obs, q.s, q.calls⟩

/-- the whole log of a run -/
def trace (obs : List Entry) : List Ev := obs.flatMap (·.evs)

/-- the response body: everything the writer accepted -/
def bodyOf (evs : List Ev) : Bytes := evs.flatMap Ev.body

end GoSSE.Model.Session
