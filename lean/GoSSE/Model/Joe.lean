import GoSSE.Basic
/-!
# Model of `joe.go`: a labelled transition system

One goroutine (the loop) and any number of `Subscribe`, `Publish` and `Shutdown` calls that
communicate over unbuffered channels (`subscription`, `message`, `unsubscription`), the
per-subscription channel `done` (buffer 1) and the broadcast channels `j.done` / `j.closed`.
Every transition is one atomic region of the Go code between two communication points; what
the environment decides (outcomes of `Send`, `Flush`, `Put`, `Replay`, which ready `select`
case fires, the order of map iteration) is part of the label.

Modelled, not verified: Go's channel and `select` semantics — rendez-vous on unbuffered
channels, a buffered send succeeds iff there is room, receiving from a closed channel yields
the zero value, closing a closed channel and sending on a closed channel panic (`panicked`),
sending on a full buffered channel with nobody receiving blocks forever (`blocked` — also a
state the theorems show unreachable).
-/
namespace GoSSE.Model.Joe

abbrev SubId := Nat
abbrev PubId := Nat
abbrev ShutId := Nat
abbrev Topic := Nat

inductive Err
  | own (s : SubId)      -- the error of subscriber s's own Send/Flush
  | replay (s : SubId)   -- the error Replay returned for subscriber s
  | put (p : PubId)      -- the error Put returned for publication p
  | closed               -- ErrProviderClosed
  | noTopic              -- ErrNoTopic
  | ctx (k : ShutId)     -- the error of Shutdown call k's context
deriving DecidableEq, Repr

/-- the per-subscription channel `done := make(chan error, 1)` -/
structure Chan where
  buf : Option Err := none
  closed : Bool := false
deriving DecidableEq, Repr

inductive SubPc
  | idle                       -- Subscribe not called yet
  | start                      -- at the first select
  | waiting                    -- accepted by the loop; at the second select
  | cancelled                  -- saw ctx.Done(); at the third select
  | returned (r : Option Err)
deriving DecidableEq, Repr

/-- a call on a subscription's `MessageWriter` -/
inductive Call
  | send (p : PubId) (ok : Bool)
  | flush (ok : Bool)
deriving DecidableEq, Repr

structure SubSt where
  pc : SubPc := .idle
  ctxCancelled : Bool := false
  ch : Chan := {}
  /-- ghost: every call made on this subscription's MessageWriter, in order -/
  calls : List Call := []
  /-- ghost: calls made by the replayer during Replay (a prefix of `calls`) -/
  replayed : Nat := 0
  /-- ghost: length of `log` when the loop registered the subscription -/
  regAt : Option Nat := none
  /-- ghost: length of `log` when the loop stopped delivering to it -/
  endAt : Option Nat := none
  /-- ghost: what the replayer held when the loop accepted the subscription -/
  storeAt : List PubId := []
deriving DecidableEq, Repr

inductive PubPc
  | idle | start
  | handed (e : Option Err)    -- the loop took the message; `errs` holds e (or is just closed)
  | returned (r : Option Err)
deriving DecidableEq, Repr

structure PubSt where
  pc : PubPc := .idle
deriving DecidableEq, Repr

/-- The arguments of the calls, fixed up front: topics of every subscription and publication. -/
structure Cfg where
  subTopics : SubId → List Topic
  pubTopics : PubId → List Topic
  /-- the publication whose ID a subscription presents as Last-Event-ID, if any (used by the
  specification of conforming replayers only; `step` does not look at it) -/
  subLast : SubId → Option PubId := fun _ => none

inductive ShutPc
  | idle | start | waiting | returned (r : Option Err)
deriving DecidableEq, Repr

structure ShutSt where
  pc : ShutPc := .idle
  ctxDone : Bool := false
deriving DecidableEq, Repr

inductive JoePc
  | idle
  | fanout (p : PubId) (rest : List SubId)           -- delivering p; `rest` still to visit
  | failed (p : PubId) (s : SubId) (rest : List SubId) -- s's error placed, s not yet removed
  | exited
  | panicked   -- close of closed channel / send on closed channel
  | blocked    -- send on a full channel nobody will drain
deriving DecidableEq, Repr

structure St where
  joe : JoePc := .idle
  subscribers : List SubId := []
  /-- is a replayer still in use (`replay != nil`; Joe substitutes a no-op replayer for nil,
  which is observationally "ok with nothing replayed and nothing stored") -/
  replayer : Bool := true
  /-- ghost: publications currently held by the replayer, oldest first -/
  store : List PubId := []
  doneClosed : Bool := false
  closedClosed : Bool := false
  subs : SubId → SubSt
  pubs : PubId → PubSt
  shuts : ShutId → ShutSt
  /-- ghost: publications in the order the loop accepted them -/
  log : List PubId := []

def upd {α} (f : Nat → α) (i : Nat) (v : α) : Nat → α := fun j => if j = i then v else f j

def topicsIntersect (a b : List Topic) : Bool := a.any (fun x => b.contains x)

/-- what the environment decided for a `Replay` call -/
inductive ROutcome
  | ok | err | panic
deriving DecidableEq, Repr

/-- what the environment decided for a `Put` call: stored (evicting `evict` oldest entries),
error, panic -/
inductive POutcome
  | ok (evict : Nat) | err | panic
deriving DecidableEq, Repr

inductive Label
  | subCall (i : SubId)
  | subAccept (i : SubId) (rc : List Call) (o : ROutcome)
  | subClosedEarly (i : SubId)
  | subSeeCancel (i : SubId)
  | subRecv (i : SubId)
  | unsubAccept (i : SubId)
  | cancel (i : SubId)
  | pubCall (p : PubId)
  | pubNoTopic (p : PubId)
  | pubAccept (p : PubId) (o : POutcome)
  | pubClosedEarly (p : PubId)
  | pubRecv (p : PubId)
  | fanStep (i : SubId) (sendOk flushOk : Bool)
  | fanRemove
  | fanDone
  | loopExit
  | shutCall (k : ShutId)
  | shutClose (k : ShutId)
  | shutRecovered (k : ShutId)
  | shutSeeClosed (k : ShutId)
  | shutCtx (k : ShutId)
  | shutCancel (k : ShutId)
deriving DecidableEq, Repr

def setSub (s : St) (i : SubId) (v : SubSt) : St := { s with subs := upd s.subs i v }
def setPub (s : St) (p : PubId) (v : PubSt) : St := { s with pubs := upd s.pubs p v }
def setShut (s : St) (k : ShutId) (v : ShutSt) : St := { s with shuts := upd s.shuts k v }

/-- `close(ch)`; closing a closed channel panics -/
def closeChan (s : St) (i : SubId) : St :=
  if (s.subs i).ch.closed then { s with joe := .panicked }
  else setSub s i { s.subs i with ch := { (s.subs i).ch with closed := true } }

/-- `ch <- e` on the buffered(1) channel, executed by the loop: closed → panic; full → the loop
blocks forever (only `Subscribe` receives from it, and at most once) -/
def sendChan (s : St) (i : SubId) (e : Err) : St :=
  if (s.subs i).ch.closed then { s with joe := .panicked }
  else if (s.subs i).ch.buf.isSome then { s with joe := .blocked }
  else setSub s i { s.subs i with ch := { (s.subs i).ch with buf := some e } }

/-- `removeSubscriber` (with the membership guard of commit 3335174) -/
def removeSubscriber (s : St) (i : SubId) : St :=
  if s.subscribers.contains i then
    let s1 := closeChan { s with subscribers := s.subscribers.erase i } i
    setSub s1 i { s1.subs i with endAt := (s1.subs i).endAt.or (some s.log.length) }
  else s

/-- `closeSubscribers`: removes every registered subscriber (map iteration, any order) -/
def closeAll : List SubId → St → St
  | [], s => s
  | i :: is, s => closeAll is (removeSubscriber s i)

def bad (s : St) : Bool := s.joe == .panicked || s.joe == .blocked

def step (c : Cfg) (s : St) : Label → Option St
  | .subCall i =>
    if (s.subs i).pc = .idle then some (setSub s i { s.subs i with pc := .start }) else none
  | .subAccept i rc o =>
    if (s.subs i).pc = .start ∧ s.joe = .idle then
      let st := { s.subs i with pc := .waiting, calls := (s.subs i).calls ++ rc, replayed := rc.length, storeAt := s.store }
      if s.replayer then
        match o with
        | .ok => some { setSub s i { st with regAt := some s.log.length } with subscribers := i :: s.subscribers }
        | .panic => some { setSub s i { st with regAt := some s.log.length } with subscribers := i :: s.subscribers, replayer := false }
        | .err => some (closeChan (sendChan (setSub s i st) i (.replay i)) i)
      else if o = .ok ∧ rc = [] then
        some { setSub s i { st with regAt := some s.log.length } with subscribers := i :: s.subscribers }
      else none
    else none
  | .subClosedEarly i =>
    if (s.subs i).pc = .start ∧ s.doneClosed then
      some (setSub s i { s.subs i with pc := .returned (some .closed) })
    else none
  | .subSeeCancel i =>
    if (s.subs i).pc = .waiting ∧ (s.subs i).ctxCancelled then
      some (setSub s i { s.subs i with pc := .cancelled })
    else none
  | .subRecv i =>
    let st := s.subs i
    if st.pc = .waiting ∨ st.pc = .cancelled then
      match st.ch.buf with
      | some e => some (setSub s i { st with pc := .returned (some e), ch := { st.ch with buf := none } })
      | none => if st.ch.closed then some (setSub s i { st with pc := .returned none }) else none
    else none
  | .unsubAccept i =>
    if (s.subs i).pc = .cancelled ∧ s.joe = .idle then
      let s1 := removeSubscriber s i
      some (setSub s1 i { s1.subs i with pc := .returned none })
    else none
  | .cancel i =>
    if (s.subs i).ctxCancelled then none else some (setSub s i { s.subs i with ctxCancelled := true })
  | .pubCall p =>
    if (s.pubs p).pc = .idle then some (setPub s p { s.pubs p with pc := .start }) else none
  | .pubNoTopic p =>
    if (s.pubs p).pc = .start ∧ c.pubTopics p = [] then
      some (setPub s p { s.pubs p with pc := .returned (some .noTopic) })
    else none
  | .pubAccept p o =>
    if (s.pubs p).pc = .start ∧ s.joe = .idle ∧ c.pubTopics p ≠ [] then
      if ¬ s.replayer ∧ o ≠ .ok 0 then none else
      let e : Option Err := if o = .err then some (.put p) else none
      let store := match o with
        | .ok n => if s.replayer then (s.store ++ [p]).drop n else s.store
        | _ => s.store
      some { setPub s p { s.pubs p with pc := .handed e } with
        replayer := s.replayer && o != .panic,
        store := store,
        log := s.log ++ [p],
        joe := .fanout p (s.subscribers.filter fun i => topicsIntersect (c.subTopics i) (c.pubTopics p)) }
    else none
  | .pubClosedEarly p =>
    if (s.pubs p).pc = .start ∧ c.pubTopics p ≠ [] ∧ s.doneClosed then
      some (setPub s p { s.pubs p with pc := .returned (some .closed) })
    else none
  | .pubRecv p =>
    match (s.pubs p).pc with
    | .handed e => some (setPub s p { s.pubs p with pc := .returned e })
    | _ => none
  | .fanStep i sendOk flushOk =>
    match s.joe with
    | .fanout p rest =>
      if rest.contains i then
        let rest' := rest.erase i
        let calls := (s.subs i).calls ++ [.send p sendOk] ++ (if sendOk then [.flush flushOk] else [])
        let s1 := setSub s i { s.subs i with calls := calls }
        if sendOk && flushOk then some { s1 with joe := .fanout p rest' }
        else
          let s2 := sendChan s1 i (.own i)
          some (if bad s2 then s2 else { setSub s2 i { s2.subs i with endAt := some s2.log.length } with joe := .failed p i rest' })
      else none
    | _ => none
  | .fanRemove =>
    match s.joe with
    | .failed p i rest =>
      let s1 := removeSubscriber s i
      some (if bad s1 then s1 else { s1 with joe := .fanout p rest })
    | _ => none
  | .fanDone =>
    match s.joe with
    | .fanout _ [] => some { s with joe := .idle }
    | _ => none
  | .loopExit =>
    if s.joe = .idle ∧ s.doneClosed then
      let s1 := closeAll s.subscribers s
      some (if bad s1 then s1 else { s1 with joe := .exited, closedClosed := true })
    else none
  | .shutCall k =>
    if (s.shuts k).pc = .idle then some (setShut s k { s.shuts k with pc := .start }) else none
  | .shutClose k =>
    if (s.shuts k).pc = .start ∧ ¬ s.doneClosed then
      some { setShut s k { s.shuts k with pc := .waiting } with doneClosed := true }
    else none
  | .shutRecovered k =>
    if (s.shuts k).pc = .start ∧ s.doneClosed then
      some (setShut s k { s.shuts k with pc := .returned (some .closed) })
    else none
  | .shutSeeClosed k =>
    if (s.shuts k).pc = .waiting ∧ s.closedClosed then
      some (setShut s k { s.shuts k with pc := .returned none })
    else none
  | .shutCtx k =>
    if (s.shuts k).pc = .waiting ∧ (s.shuts k).ctxDone then
      some (setShut s k { s.shuts k with pc := .returned (some (.ctx k)) })
    else none
  | .shutCancel k =>
    if (s.shuts k).ctxDone then none else some (setShut s k { s.shuts k with ctxDone := true })

/-- The initial state: nothing called yet. -/
def init (replayer : Bool) : St :=
  { replayer := replayer, subs := fun _ => {}, pubs := fun _ => {}, shuts := fun _ => {} }

def IsInit (s : St) : Prop :=
  s.joe = .idle ∧ s.subscribers = [] ∧ s.store = [] ∧ s.doneClosed = false ∧ s.closedClosed = false ∧ s.log = [] ∧
  (∀ i, (s.subs i).pc = .idle ∧ (s.subs i).ctxCancelled = false ∧ (s.subs i).ch = {} ∧ (s.subs i).calls = [] ∧
        (s.subs i).replayed = 0 ∧ (s.subs i).regAt = none ∧ (s.subs i).endAt = none) ∧
  (∀ p, (s.pubs p).pc = .idle) ∧ (∀ k, (s.shuts k).pc = .idle ∧ (s.shuts k).ctxDone = false)

/-- run a list of labels; `none` if some label is not enabled -/
def run (c : Cfg) (s : St) : List Label → Option St
  | [] => some s
  | l :: ls => match step c s l with
    | some s' => run c s' ls
    | none => none

inductive Reachable (c : Cfg) : St → Prop
  | init {s} : IsInit s → Reachable c s
  | step {s s' l} : Reachable c s → step c s l = some s' → Reachable c s'

end GoSSE.Model.Joe
