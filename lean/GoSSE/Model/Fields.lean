import GoSSE.Model.Parser
/-!
# Model of `message_fields.go` (+ the `Last-Event-Id` route of `session.go`)

`messageField` and every statement of package `sse` that produces one:
`newMessageField` (behind `NewID/NewType/ID/Type`), `UnmarshalText`, `UnmarshalJSON`
(the string `encoding/json` decodes is a parameter), `Scan`, `Upgrade`. The two direct
assignments of `Message.UnmarshalText` are in `Model/Message.lean`.
-/
namespace GoSSE.Model
open GoSSE

/-- `messageField`; the zero value is the unset field. -/
structure MField where
  value : Bytes := []
  set : Bool := false
deriving DecidableEq, Repr

/-- `isSingleLine` of `message.go` -/
def isSingleLine (p : Bytes) : Bool := (newlineIndex p).2 == 0

/-- `newMessageField`: the field and whether an error ("input is multiline") is returned. -/
def newMessageField (value : Bytes) : MField × Bool :=
  if !isSingleLine value then ({}, true) else ({ value := value, set := true }, false)

/-- `NewID` / `NewType` (they only wrap the error) -/
def newID (value : Bytes) : MField × Bool :=
  let r := newMessageField value
  if r.2 then ({}, true) else (r.1, false)
def newType (value : Bytes) : MField × Bool := newID value

/-- `ID` / `Type`: `none` is the panic of `must`. -/
def mustID (value : Bytes) : Option MField :=
  let r := newID value
  if r.2 then none else some r.1
def mustType (value : Bytes) : Option MField := mustID value

/-- `(*messageField).UnmarshalText`: the receiver afterwards, and whether an error is returned.
The receiver is zeroed first, so the previous value does not matter. -/
def MField.unmarshalText (_prev : MField) (data : Bytes) : MField × Bool :=
  let i : MField := {}
  let r := newMessageField data
  if r.2 then (i, true) else (r.1, false)

inductive FErr | nil | json | multiline | unsupported deriving DecidableEq, Repr

def jsonNull : Bytes := [110, 117, 108, 108]

/-- `(*messageField).UnmarshalJSON`. `decoded` is what `json.Unmarshal(data, &string)` yields
(`none` = it returned an error); `encoding/json` itself is not modelled. -/
def MField.unmarshalJSON (_prev : MField) (data : Bytes) (decoded : Option Bytes) : MField × FErr :=
  let i : MField := {}
  if data == jsonNull then (i, .nil) else
  match decoded with
  | none => (i, .json)
  | some input =>
    let r := newMessageField input
    if r.2 then (i, .multiline) else (r.1, .nil)

/-- the dynamic type of the `interface{}` given to `Scan` -/
inductive ScanSrc
  | nil
  | bytes (v : Bytes)
  | string (v : Bytes)
  | other
deriving DecidableEq, Repr

/-- `(*messageField).Scan` -/
def MField.scan (_prev : MField) (src : ScanSrc) : MField × FErr :=
  let i : MField := {}
  match src with
  | .nil => (i, .nil)
  | .other => (i, .unsupported)
  | .bytes v | .string v =>
    let r := newMessageField v
    if r.2 then (i, .multiline) else (r.1, .nil)

/-- `Upgrade`: `h` is `r.Header["Last-Event-Id"]` (`[]` = absent). The validity flag of `NewID`
is ignored. -/
def upgradeLastEventID (h : List Bytes) : MField :=
  match h with
  | [] => {}
  | h0 :: _ => if h0.isEmpty then {} else (newID h0).1

end GoSSE.Model
