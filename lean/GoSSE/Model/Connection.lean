import GoSSE.Model.Parser
import GoSSE.Model.Backoff
import GoSSE.Spec.Client
/-!
# Model of `Connection` (`client_connection.go`): request reset, `doConnect`, the `Connect` loop

The environment is a parameter (DESIGN.md §3): a *history* of attempt outcomes. Each attempt says
what `HTTPClient.Do` did (transport failure / response rejected by the validator / a body stream
given as read chunks and an end kind), at which instants the request context was cancelled, how
the `select` in `Connect` resolved when both the timer and `ctx.Done()` were ready, what the clock
read and which random draw the back-off controller got.

Errors are the small enum `ErrV`; `ErrV.ctx` stands for any error `e` with
`errors.Is(e, <the context's error>)`. `ctx.Err()` is `nil` until the context is cancelled, so
`errors.Is(err, ctx.Err())` is modelled on the shapes that occur, **including
`errors.Is(nil, nil) = true`** (`errorsIs .nil .nil`): that is the shape through which `Connect`
could return `nil`; `Props/C11.lean` shows it is unreachable.
-/
namespace GoSSE.Model.Client
open GoSSE GoSSE.Spec GoSSE.Spec.Client

/-- `errors.Is(e, target)` for `target = ctx.Err()` (`.nil` or `.ctx`) -/
def errorsIs (e target : ErrV) : Bool := e == target

/-- `ctx.Err()` -/
def ctxErr (done : Bool) : ErrV := if done then .ctx else .nil

structure Req where
  header : Option Bytes        -- the Last-Event-ID header
  body : BodyRef
  getBody : GetBody
  getBodyCalls : Nat := 0
deriving DecidableEq, Repr

/-- `resetRequestBody`: the request afterwards and the error, if any -/
def resetRequestBody (r : Req) : Req × Option ErrV :=
  if r.body == .none || r.body == .noBody then (r, none)
  else match r.getBody with
    | .absent => (r, some .noGetBody)
    | .present failAt =>
      let r' := { r with getBodyCalls := r.getBodyCalls + 1 }
      if failAt == some r.getBodyCalls then (r', some .getBody)
      else ({ r' with body := .fresh (r.getBodyCalls + 1) }, none)

structure Conn where
  req : Req
  lastEventID : Bytes := []
  isRetry : Bool := false
  buf : Option (Nat × Int) := none     -- `Connection.Buffer`, as `cfgOfConn` yields it
deriving Repr

/-- `Connection.resetRequest` -/
def resetRequest (c : Conn) : Conn × Option ErrV :=
  if !c.isRetry then ({ c with isRetry := true }, none)
  else
    let r := resetRequestBody c.req
    match r.2 with
    | some e => ({ c with req := r.1 }, some e)
    | none =>
      if c.lastEventID.isEmpty then ({ c with req := { r.1 with header := none } }, none)
      else ({ c with req := { r.1 with header := some c.lastEventID } }, none)

inductive Outcome
  | transport (isCtx : Bool)                 -- `Do` fails with `*url.Error{Err: e}`; `isCtx`: `e` is the context's error
  | rejected                                  -- the response validator returns an error
  | stream (src : Source) (errIsCtx : Bool)   -- a body; `errIsCtx`: the reader's final error is the context's error
deriving Repr

structure Attempt where
  /-- the `select` before this attempt picks the timer although `ctx.Done()` is ready too
  (irrelevant while the context is not cancelled) -/
  timerWins : Bool := true
  out : Outcome
  /-- the context is cancelled at some instant of this attempt before `doConnect` looks at `ctx.Err()` -/
  cancelDuring : Bool := false
  /-- the context is cancelled in `OnRetry` or during the wait that follows this attempt -/
  cancelAfter : Bool := false
  tReset : Int := 0    -- clock reading of the `reset` calls of this attempt
  tNext : Int := 0     -- clock reading of `next()` after this attempt
  draw : Int := 0      -- random draw `next()` gets
deriving Repr

/-- the controller after `setRetry(0)` and one `reset` per retry field -/
def applyRetries (cfg : Cfg) (ctl : Ctl) (outs : List Out) (now : Int) : Ctl :=
  outs.foldl (fun ctl o => match o with
    | .retry n => ctl.reset cfg (wrap64 ((n : Int) * 1000000)) now
    | _ => ctl) (ctl.reset cfg 0 now)

/-- the error `Connection.read` returns -/
def readErr (e : PErr) (errIsCtx : Bool) : ErrV :=
  match e with
  | .none => .nil
  | .eof => .eof
  | .unexpectedEOF => .ueof
  | .read => if errIsCtx then .ctx else .read
  | .tooLong => .tooLong

structure DoRes where
  shouldRetry : Bool
  err : Res
  conn : Conn
  ctl : Ctl
  items : List TItem

/-- `Connection.doConnect`; `done` = the context was cancelled before this attempt began -/
def doConnect (cfg : Cfg) (c : Conn) (ctl : Ctl) (a : Attempt) (done : Bool) : DoRes :=
  let rr := resetRequest c
  match rr.2 with
  | some e => ⟨false, .wrapped .resetFailed e, rr.1, ctl, []⟩
  | none =>
    let c := rr.1
    let att := TItem.attempt c.req.header c.req.body c.req.getBodyCalls
    let done := done || a.cancelDuring
    match a.out with
    | .transport isCtx =>
      let e : ErrV := if isCtx then .ctx else .transport
      if errorsIs e (ctxErr done) then ⟨false, .bare e, c, ctl, [att]⟩
      else ⟨true, .wrapped .connFailed e, c, ctl, [att]⟩
    | .rejected => ⟨false, .wrapped .validation .validator, c, ctl, [att]⟩
    | .stream src errIsCtx =>
      let r := implRun true c.lastEventID src c.buf
      let ctl := applyRetries cfg ctl r.1 a.tReset
      let c := { c with lastEventID := lastDispatched c.lastEventID r.1 }
      let err := readErr r.2.1 errIsCtx
      if errorsIs err (ctxErr done) then ⟨false, .bare err, c, ctl, [att, .connected r.1]⟩
      else ⟨true, .wrapped .lost err, c, ctl, [att, .connected r.1]⟩

structure ConnRes where
  trace : List TItem
  result : Option Res      -- `none`: the history is exhausted, `Connect` is still running
  conn : Conn

/-- the `for { select … }` loop of `Connect`, one iteration per element of the history -/
def connectLoop (cfg : Cfg) (fl : Floats) : List Attempt → Conn → Ctl → Bool → ConnRes
  | [], c, _, _ => ⟨[], none, c⟩
  | a :: rest, c, ctl, done =>
    if done && !a.timerWins then ⟨[], some (.bare .ctx), c⟩          -- `case <-ctx.Done(): return ctx.Err()`
    else
      let r := doConnect cfg c ctl a done
      if !r.shouldRetry then ⟨r.items, some r.err, r.conn⟩
      else
        let n := r.ctl.next cfg fl a.tNext a.draw
        match n.2 with
        | none => ⟨r.items, some r.err, r.conn⟩
        | some w =>
          let q := connectLoop cfg fl rest r.conn n.1 (done || a.cancelDuring || a.cancelAfter)
          ⟨r.items ++ TItem.retry r.err w :: q.trace, q.result, q.conn⟩

/-- `Connection.Connect` at clock reading `t0`; `done0`: the context is already cancelled -/
def connect (cfg : Cfg) (fl : Floats) (c : Conn) (t0 : Int) (done0 : Bool) (h : List Attempt) : ConnRes :=
  connectLoop cfg fl h c (Ctl.new cfg t0) done0

end GoSSE.Model.Client
