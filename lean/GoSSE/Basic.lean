/-!
# Basic vocabulary shared by every model and specification

Go strings and `[]byte` are modelled as `List UInt8` (DESIGN.md §3): the event-stream
format only ever inspects ASCII bytes and the three bytes of the BOM.
-/
namespace GoSSE

abbrev Byte := UInt8
abbrev Bytes := List Byte

def LF : Byte := 10
def CR : Byte := 13
def COLON : Byte := 58
def SPACE : Byte := 32

/-- `isNewlineChar` of `internal/parser/chunk.go`. -/
def isNl (b : Byte) : Bool := b == 10 || b == 13

def bom : Bytes := [0xEF, 0xBB, 0xBF]
def fData : Bytes := [100, 97, 116, 97]
def fEvent : Bytes := [101, 118, 101, 110, 116]
def fId : Bytes := [105, 100]
def fRetry : Bytes := [114, 101, 116, 114, 121]

def isDigit (b : Byte) : Bool := 48 ≤ b && b ≤ 57
/-- value of a string of ASCII digits, most significant first -/
def digitsVal (v : Bytes) : Nat := v.foldl (fun n b => n * 10 + (b.toNat - 48)) 0
def maxInt64 : Nat := 9223372036854775807
def maxUint64 : Nat := 18446744073709551615

end GoSSE
