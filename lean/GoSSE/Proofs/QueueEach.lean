import GoSSE.Proofs.Queue
/-!
Helper lemmas: `each` as a plain traversal of the live slots, the `Replay` callback as
`Spec.serve`, and `findIDInQueue` against `Spec.after`.
-/
namespace GoSSE.Proofs
open GoSSE GoSSE.Spec GoSSE.Model

/-- run a callback over a list of (index, slot) pairs until it asks to stop -/
def runL (f : σ → Nat → Slot → QRes (σ × Bool)) : List (Nat × Slot) → σ → QRes (σ × Bool)
  | [], s => .ok (s, true)
  | (j, x) :: t, s =>
    match f s j x with
    | .panic => .panic
    | .ok (s', cont) => if cont then runL f t s' else .ok (s', false)

theorem runL_append (f : σ → Nat → Slot → QRes (σ × Bool)) (a b : List (Nat × Slot)) (s : σ) :
    runL f (a ++ b) s =
      match runL f a s with
      | .panic => .panic
      | .ok (s1, cont) => if cont then runL f b s1 else .ok (s1, false) := by
  induction a generalizing s with
  | nil => simp [runL]
  | cons p t ih =>
    obtain ⟨j, x⟩ := p
    simp only [List.cons_append, runL]
    cases hf : f s j x with
    | panic => rfl
    | ok r =>
      obtain ⟨s', c⟩ := r
      cases c with
      | true => simp [ih]
      | false => simp

def pairAt (q : Queue) (j : Nat) : Nat × Slot := (j, slotAt q j)

theorem eachLoop_eq (q : Queue) (f : σ → Nat → Slot → QRes (σ × Bool)) (n i : Nat) (s : σ)
    (h : n = 0 ∨ i + n ≤ q.buf.length) :
    Queue.eachLoop q.buf f n i s = runL f ((List.range' i n).map (pairAt q)) s := by
  induction n generalizing i s with
  | zero => simp [Queue.eachLoop, runL]
  | succ n ih =>
    have hi : i < q.buf.length := by omega
    simp only [Queue.eachLoop, List.range', List.map_cons, runL, pairAt, slotAt]
    rw [List.getElem?_eq_getElem hi]
    simp only [Option.join_some]
    cases hf : f s i (q.buf[i]) with
    | panic => rfl
    | ok r =>
      obtain ⟨s', c⟩ := r
      cases c with
      | true =>
        simp only [if_true]
        rw [ih (i + 1) s' (by omega)]
      | false => simp

/-- the slots `each(startAt)` visits, in order -/
def visit (q : Queue) (s : Nat) : List (Nat × Slot) :=
  if s < q.tail then (List.range' s (q.tail - s)).map (pairAt q)
  else (List.range' s (q.buf.length - s)).map (pairAt q) ++ (List.range' 0 q.tail).map (pairAt q)

theorem each_eq (q : Queue) (ht : q.tail ≤ q.buf.length) (f : σ → Nat → Slot → QRes (σ × Bool)) (s : Nat) (st : σ) :
    q.each s f st = (match runL f (visit q s) st with | .panic => .panic | .ok r => .ok r.1) := by
  unfold Queue.each visit
  split
  · rw [eachLoop_eq q f _ _ _ (by omega)]
    cases runL f (List.map (pairAt q) (List.range' s (q.tail - s))) st <;> rfl
  · have e2 : ∀ s1, Queue.eachLoop q.buf f q.tail 0 s1 = runL f ((List.range' 0 q.tail).map (pairAt q)) s1 :=
      fun s1 => eachLoop_eq q f _ _ _ (by omega)
    rw [eachLoop_eq q f _ _ _ (by omega), runL_append]
    simp only [e2]
    cases runL f (List.map (pairAt q) (List.range' s (q.buf.length - s))) st with
    | panic => rfl
    | ok r =>
      obtain ⟨s1, c⟩ := r
      cases c
      · simp
      · simp only [Bool.not_true, Bool.false_eq_true, if_false, if_true]
        cases runL f (List.map (pairAt q) (List.range' 0 q.tail)) s1 <;> rfl

theorem map_range'_congr (f g : Nat → α) (a b n : Nat) (h : ∀ t, t < n → f (a + t) = g (b + t)) :
    (List.range' a n).map f = (List.range' b n).map g := by
  induction n generalizing a b with
  | zero => simp
  | succ n ih =>
    simp only [List.range', List.map_cons]
    congr 1
    · simpa using h 0 (by omega)
    · apply ih
      intro t ht
      have := h (t + 1) (by omega)
      simpa [Nat.add_assoc, Nat.add_comm 1 t] using this

/-- starting at the `k`-th live slot, `each` visits exactly the live slots from `k` on -/
theorem visit_idx {q : Queue} (h : WF q) (k : Nat) (hk : k < q.count) :
    visit q (idx q k) = (List.range' k (q.count - k)).map fun j => pairAt q (idx q j) := by
  have hcnt := h.cnt; have hhd := h.hd; have htl := h.tl; have hring := h.ring
  unfold visit
  split
  · rename_i hlt
    have hlen : q.tail - idx q k = q.count - k := by
      simp only [idx] at hlt ⊢; revert hlt; somega
    rw [hlen]
    apply map_range'_congr
    intro t ht
    congr 1
    simp only [idx] at hlt ⊢; revert hlt; somega
  · rename_i hlt
    have hsplit : q.count - k = (q.buf.length - idx q k) + q.tail := by
      simp only [idx] at hlt ⊢; revert hlt; somega
    rw [hsplit, ← List.range'_append_1, List.map_append]
    congr 1
    · apply map_range'_congr
      intro t ht
      congr 1
      simp only [idx] at hlt ht ⊢; revert hlt ht; somega
    · apply map_range'_congr
      intro t ht
      congr 1
      simp only [idx] at hlt ht ⊢; revert hlt ht; somega


/-- the `Replay` callback run over live entries behaves as `Spec.serve` prescribes -/
theorem runL_send (sub : Sub) (cond : Entry → Bool) (l : List (Nat × Slot)) (es pre : List Entry)
    (hl : l.map Prod.snd = es.map some) (hpre : ∀ k, sub.failAt = some k → pre.length ≤ k) :
    ∃ st c, runL (sendStep sub cond) l { calls := pre.map .send, failed := false } = .ok (st, c) ∧
      finishReplay sub st = serve sub true (pre ++ es.filter cond) := by
  induction l generalizing es pre with
  | nil =>
    cases es with
    | cons _ _ => simp at hl
    | nil =>
      refine ⟨_, true, rfl, ?_⟩
      simp only [finishReplay, serve, List.filter_nil, List.append_nil, Bool.not_true, Bool.false_eq_true, if_false]
      cases hf : sub.failAt with
      | none => rfl
      | some k =>
        have := hpre k hf
        simp only [show ¬ k < pre.length from by omega, if_false]
  | cons p t ih =>
    obtain ⟨j, x⟩ := p
    cases es with
    | nil => simp at hl
    | cons e es' =>
      simp only [List.map_cons, List.cons.injEq] at hl
      obtain ⟨hx, ht⟩ := hl
      subst hx
      simp only [runL, sendStep, List.length_map]
      by_cases hc : cond e = true
      · simp only [hc, if_true, List.filter_cons]
        by_cases hf : sub.failAt = some pre.length
        · simp only [hf, if_true]
          refine ⟨_, false, rfl, ?_⟩
          simp only [finishReplay, serve, Bool.not_true, Bool.false_eq_true, if_false, if_true, hf]
          have : pre.length < (pre ++ e :: List.filter cond es').length := by simp
          simp only [this, if_true]
          simp [List.take_append]
          rw [List.take_of_length_le (by simp)]
        · simp only [hf, if_false, if_true]
          have := ih es' (pre ++ [e]) ht (by
            intro k hk
            have := hpre k hk
            have : k ≠ pre.length := by intro h; subst h; exact hf hk
            simp; omega)
          simpa using this
      · simp only [hc, Bool.false_eq_true, if_false, if_true, List.filter_cons]
        exact ih es' pre ht hpre


theorem drop_range (n k : Nat) : (List.range n).drop k = List.range' k (n - k) := by
  apply List.ext_getElem?
  intro i
  simp only [List.getElem?_drop, List.getElem?_range', List.getElem?_range]
  by_cases h : k + i < n
  · simp [h, show i < n - k from by omega]
  · simp [h, show ¬ i < n - k from by omega]

theorem visit_snd {q : Queue} (h : WF q) (k : Nat) (hk : k < q.count) :
    (visit q (idx q k)).map Prod.snd = ((abs q).drop k).map some := by
  rw [visit_idx h k hk, List.map_drop, ← h.slots_eq, slots, ← List.map_drop, drop_range]
  simp [pairAt]

/-- `Replay`'s traversal from the `k`-th live slot serves exactly the entries from `k` on -/
theorem each_send {q : Queue} (h : WF q) (k : Nat) (hk : k < q.count) (sub : Sub) (cond : Entry → Bool) :
    ∃ st, q.each (idx q k) (sendStep sub cond) { calls := [], failed := false } = .ok st ∧
      finishReplay sub st = serve sub true (((abs q).drop k).filter cond) := by
  have htl : q.tail ≤ q.buf.length := by have := h.tl; omega
  obtain ⟨st, c, hr, hf⟩ := runL_send sub cond _ _ [] (visit_snd h k hk) (by intro k _; simp)
  refine ⟨st, ?_, by simpa using hf⟩
  rw [each_eq q htl]
  simp only [List.map_nil] at hr
  rw [hr]


/-! ## `findIDInQueue`, manual IDs -/

theorem afterManual_none (id : EventID) (es : List Entry) (h : ∀ e ∈ es, e.id ≠ id) : afterManual id es = [] := by
  induction es with
  | nil => rfl
  | cons e t ih =>
    simp only [afterManual, h e (by simp), if_false]
    exact ih (fun x hx => h x (by simp [hx]))

theorem afterManual_first (id : EventID) (es : List Entry) (k : Nat) (hk : k < es.length)
    (hid : es[k].id = id) (hfirst : ∀ k' (h' : k' < k), (es[k']'(by omega)).id ≠ id) :
    afterManual id es = es.drop (k + 1) := by
  induction es generalizing k with
  | nil => simp at hk
  | cons e t ih =>
    cases k with
    | zero =>
      simp only [List.getElem_cons_zero] at hid
      simp [afterManual, hid]
    | succ k =>
      have h0 := hfirst 0 (by omega)
      simp only [List.getElem_cons_zero] at h0
      simp only [afterManual, h0, if_false, List.drop_succ_cons]
      apply ih k (by simpa using hk) (by simpa using hid)
      intro k' h'
      have := hfirst (k' + 1) (by omega)
      simpa using this

theorem runL_find (id : EventID) (l : List (Nat × Slot)) (es : List Entry) (i0 : Int)
    (hl : l.map Prod.snd = es.map some) :
    ∃ r c, runL (findStep id) l i0 = .ok (r, c) ∧
      ((c = true ∧ r = i0 ∧ ∀ e ∈ es, e.id ≠ id) ∨
       (c = false ∧ ∃ k, ∃ hk : k < es.length, (l[k]?).map Prod.fst = some r.toNat ∧ 0 ≤ r ∧ es[k].id = id ∧
          ∀ k' (h' : k' < k), (es[k']'(by omega)).id ≠ id)) := by
  induction l generalizing es with
  | nil =>
    cases es with
    | cons _ _ => simp at hl
    | nil => exact ⟨i0, true, rfl, Or.inl ⟨rfl, rfl, by simp⟩⟩
  | cons p t ih =>
    obtain ⟨j, x⟩ := p
    cases es with
    | nil => simp at hl
    | cons e es' =>
      simp only [List.map_cons, List.cons.injEq] at hl
      obtain ⟨hx, ht⟩ := hl
      subst hx
      simp only [runL, findStep, slotID]
      by_cases he : e.id = id
      · simp only [he, if_true]
        refine ⟨_, false, rfl, Or.inr ⟨rfl, 0, by simp, by simp, by omega, by simpa using he, ?_⟩⟩
        intro k' h'; omega
      · simp only [he, if_false, if_true]
        obtain ⟨r, c, hr, hcase⟩ := ih es' ht
        refine ⟨r, c, hr, ?_⟩
        rcases hcase with ⟨hc, hr0, hall⟩ | ⟨hc, k, hk, hfst, hpos, hid, hfirst⟩
        · exact Or.inl ⟨hc, hr0, by intro x hx; simp at hx; rcases hx with rfl | hx; exact he; exact hall x hx⟩
        · refine Or.inr ⟨hc, k + 1, by simpa using hk, by simpa using hfst, hpos, by simpa using hid, ?_⟩
          intro k' h'
          cases k' with
          | zero => simpa using he
          | succ k' => simpa using hfirst k' (by omega)


theorem abs_nil_of_count {q : Queue} (h : q.count = 0) : abs q = [] := by
  simp [abs, slots, h]

/-- `findIDInQueue` with manual IDs: −1 when nothing follows the presented ID, otherwise the
slot of the entry right after its first occurrence. -/
theorem findID_manual {q : Queue} (h : WF q) (id : EventID) :
    ∃ r, findIDInQueue q id false = .ok r ∧
      ((r = -1 ∧ afterManual id (abs q) = []) ∨
       (∃ k, k < q.count ∧ r = (idx q k : Nat) ∧ afterManual id (abs q) = (abs q).drop k)) := by
  have hcnt := h.cnt; have hhd := h.hd; have htl := h.tl; have hring := h.ring
  unfold findIDInQueue
  by_cases hc : q.count = 0
  · simp only [hc, if_true]
    exact ⟨-1, rfl, Or.inl ⟨rfl, by rw [abs_nil_of_count hc]; rfl⟩⟩
  · simp only [hc, if_false, Bool.false_eq_true]
    have hpos : 0 < q.count := by omega
    have hidx0 : idx q 0 = q.head := by simp only [idx]; somega
    have hv := visit_snd h 0 hpos
    rw [hidx0] at hv
    simp only [List.drop_zero] at hv
    obtain ⟨r, c, hr, hcase⟩ := runL_find id (visit q q.head) (abs q) (-1) hv
    have heach : q.each q.head (findStep id) (-1 : Int) = .ok r := by
      rw [each_eq q (by omega), hr]
    rw [heach]
    simp only
    rcases hcase with ⟨_, hr0, hall⟩ | ⟨_, k, hk, hfst, hrpos, hid, hfirst⟩
    · subst hr0
      exact ⟨-1, by simp, Or.inl ⟨rfl, afterManual_none id _ hall⟩⟩
    · have hklt : k < q.count := by rw [abs_length h] at hk; exact hk
      have hvis := visit_idx h 0 hpos
      rw [hidx0] at hvis
      rw [hvis] at hfst
      simp only [Nat.sub_zero, List.getElem?_map, List.getElem?_range', hklt, pairAt] at hfst
      simp at hfst
      have hne : r ≠ -1 := by omega
      simp only [hne, ne_eq, not_false_eq_true, if_true]
      have hafter := afterManual_first id (abs q) k hk hid hfirst
      by_cases hlast : k + 1 = q.count
      · refine ⟨-1, ?_, Or.inl ⟨rfl, ?_⟩⟩
        · have : (if (if r + 1 = (q.buf.length : Int) then 0 else r + 1) = (q.tail : Int) then (-1 : Int)
              else if r + 1 = (q.buf.length : Int) then 0 else r + 1) = -1 := by
            simp only [idx] at hfst; revert hfst; somega
          rw [this]
        · rw [hafter, List.drop_of_length_le]; rw [abs_length h]; omega
      · refine ⟨(idx q (k + 1) : Nat), ?_, Or.inr ⟨k + 1, by omega, rfl, hafter⟩⟩
        have : (if (if r + 1 = (q.buf.length : Int) then 0 else r + 1) = (q.tail : Int) then (-1 : Int)
              else if r + 1 = (q.buf.length : Int) then 0 else r + 1) = (idx q (k + 1) : Nat) := by
          simp only [idx] at hfst ⊢; revert hfst; somega
        rw [this]

end GoSSE.Proofs
