import GoSSE.Proofs.MessageDecode
import GoSSE.Spec.Sessions
/-!
Helper lemmas for C05: what a client decodes from a *prefix* of a session's body, and how the
sessions of a reconnecting client compose.
-/
namespace GoSSE.Proofs
open GoSSE GoSSE.Spec GoSSE.Model

theorem splitLines_nlFree (r acc : Bytes) (h : NlFree r) : splitLines r acc false = ([], acc.reverse ++ r) := by
  induction r generalizing acc with
  | nil => simp [splitLines]
  | cons b t ih =>
    have hb := (nlFree_cons.1 h).1
    have h10 : (b == 10) = false := by simp [isNl] at hb; simp [hb.1]
    have h13 : (b == 13) = false := by simp [isNl] at hb; simp [hb.2]
    simp only [splitLines, Bool.false_and, Bool.false_eq_true, if_false, h10, h13]
    rw [ih _ (nlFree_cons.1 h).2]; simp

/-- the first `n` bytes of LF-terminated lines: some complete lines and a piece of the next one -/
theorem take_term (ls : List Bytes) (n : Nat) :
    ∃ j r, j ≤ ls.length ∧ (term ls).take n = term (ls.take j) ++ r ∧
      (∀ hj : j < ls.length, r <+: ls[j]) ∧ (j = ls.length → r = []) := by
  induction ls generalizing n with
  | nil => exact ⟨0, [], by simp, by simp [term], fun hj => by simp at hj, fun _ => rfl⟩
  | cons l ls ih =>
    have e : term (l :: ls) = l ++ (10 :: term ls) := by simp [term]
    by_cases hn : n ≤ l.length
    · refine ⟨0, l.take n, by simp, ?_, fun _ => by simpa using List.take_prefix n l, fun h => by simp at h⟩
      rw [e, List.take_append_of_le_length hn]; simp [term]
    · obtain ⟨j, r, hj, ht, hr, hend⟩ := ih (n - (l.length + 1))
      refine ⟨j + 1, r, by simp; omega, ?_, ?_, ?_⟩
      · rw [e, List.take_append]
        have h1 : l.take n = l := List.take_of_length_le (by omega)
        have h2 : n - l.length = (n - (l.length + 1)) + 1 := by omega
        rw [h1, h2, List.take_succ_cons, ht]
        simp [term]
      · intro hj'
        have : j < ls.length := by simpa using hj'
        simpa using hr this
      · intro hje
        exact hend (by simpa using hje)

/-- in a Read (no connection) only blank lines produce output -/
theorem procLine_nonblank_silent (mode : Mode) (st : IState) (l : Bytes) (h : l ≠ []) :
    (procLine mode false st l).2 = [] := by
  unfold procLine
  have : l.isEmpty = false := by cases l <;> simp_all
  simp only [this, Bool.false_eq_true, if_false]
  split
  · rfl
  · split
    · rfl
    · split
      · rfl
      · split
        · split <;> rfl
        · split
          · split <;> simp
          · rfl

theorem interp_nonblank_silent (mode : Mode) (st : IState) (ls : List Bytes) (h : ∀ l ∈ ls, l ≠ []) :
    (interp mode false st ls).2 = [] := by
  induction ls generalizing st with
  | nil => rfl
  | cons l ls ih =>
    simp only [interp]
    rw [procLine_nonblank_silent mode st l (h l (by simp)), ih _ (fun x hx => h x (by simp [hx]))]
    rfl


theorem lines_nonempty (m : Message) : ∀ l ∈ lines m, l ≠ [] := by
  intro l hl
  simp only [lines, List.mem_append, List.mem_map] at hl
  rcases hl with ((h | h) | h) | ⟨c, _, h⟩
  · split at h <;> simp at h; subst h; simp [fieldBytesID, fId]
  · split at h <;> simp at h; subst h; simp [fieldBytesEvent, fEvent]
  · split at h <;> simp at h; subst h; simp [fieldBytesRetry, fRetry]
  · subst h; unfold chunkLine; split <;> simp [fieldBytesComment, fieldBytesData, fData]

/-- the first `j` lines of a sequence of messages: some complete messages and a proper part of the next -/
theorem take_flatMap_msgLines (ms : List Message) (j : Nat) :
    ∃ k j', k ≤ ms.length ∧ (ms.flatMap msgLines).take j = (ms.take k).flatMap msgLines ++ (lines ((ms[k]?).getD {})).take j' ∧
      (k = ms.length → j' = 0) := by
  induction ms generalizing j with
  | nil => exact ⟨0, 0, by simp, by simp, fun _ => rfl⟩
  | cons m ms ih =>
    by_cases hj : j < (msgLines m).length
    · -- inside the first message: a proper prefix of its lines (never reaches the blank line)
      refine ⟨0, j, by simp, ?_, fun h => by simp at h⟩
      simp only [List.flatMap_cons, List.take_zero, List.flatMap_nil, List.nil_append, List.getElem?_cons_zero, Option.getD_some]
      rw [List.take_append_of_le_length (by omega)]
      unfold msgLines at hj ⊢
      split
      · rename_i he; simp [he] at hj
      · rename_i he
        simp only [he, Bool.false_eq_true, if_false, List.length_append, List.length_singleton] at hj
        rw [List.take_append_of_le_length (by omega)]
    · obtain ⟨k, j', hk, ht, hend⟩ := ih (j - (msgLines m).length)
      refine ⟨k + 1, j', by simp; omega, ?_, fun h => hend (by simpa using h)⟩
      simp only [List.flatMap_cons, List.take_succ_cons, List.getElem?_cons_succ]
      rw [List.take_append, List.take_of_length_le (by omega), ht, List.append_assoc]


/-! ### sessions of a reconnecting client -/

section Sessions
variable {ι : Type} [DecidableEq ι]

theorem dropWhile_ne_not_mem (pre : List ι) (k : ι) (rest : List ι) (h : k ∉ pre) :
    (pre ++ rest).dropWhile (· != k) = rest.dropWhile (· != k) := by
  induction pre with
  | nil => rfl
  | cons x xs ih =>
    have hx : x ≠ k := fun e => h (by simp [e])
    have hxs : k ∉ xs := fun e => h (by simp [e])
    simp [List.dropWhile, hx, ih hxs]

theorem afterG_decomp (pre post : List ι) (k : ι) (h : k ∉ pre) : afterG (pre ++ k :: post) k = post := by
  simp [afterG, dropWhile_ne_not_mem pre k _ h, List.dropWhile]

/-- after dispatching the first `k` entries following `cur`, what follows the new ID is the rest -/
theorem afterG_advance (L : List ι) (hn : L.Nodup) (cur : ι) (hc : cur ∈ L) (k : Nat) :
    afterG L (((afterG L cur).take k).getLast?.getD cur) = (afterG L cur).drop k := by
  obtain ⟨pre, post, hL⟩ := List.append_of_mem hc
  have hpre : cur ∉ pre := by
    intro hm
    rw [hL] at hn
    exact (List.nodup_append.mp hn).2.2 cur hm cur (by simp) rfl
  have hA : afterG L cur = post := by rw [hL]; exact afterG_decomp pre post cur hpre
  rw [hA]
  cases hseg : (post.take k).getLast? with
  | none =>
    -- nothing dispatched: k = 0 or nothing follows
    have : post.take k = [] := List.getLast?_eq_none_iff.mp hseg
    simp only [Option.getD_none, hA]
    rcases List.take_eq_nil_iff.mp this with h | h
    · subst h; simp
    · subst h; simp
  | some x =>
    simp only [Option.getD_some]
    -- x is the last of the first k entries of post
    have hne : post.take k ≠ [] := by intro e; rw [e] at hseg; simp at hseg
    have hx : post.take k = (post.take k).dropLast ++ [x] := by
      obtain ⟨ys, hys⟩ := List.getLast?_eq_some_iff.mp hseg
      rw [hys]; simp
    have hpost : post = (post.take k).dropLast ++ x :: post.drop k := by
      conv => lhs; rw [← List.take_append_drop k post, hx]
      simp
    have hxnot : x ∉ pre ++ cur :: (post.take k).dropLast := by
      intro hm
      have hn' := hn
      rw [hL, hpost] at hn'
      have e : pre ++ cur :: ((post.take k).dropLast ++ x :: post.drop k) =
          (pre ++ cur :: (post.take k).dropLast) ++ x :: post.drop k := by simp
      rw [e] at hn'
      exact (List.nodup_append.mp hn').2.2 x hm x (by simp) rfl
    have e2 : L = (pre ++ cur :: (post.take k).dropLast) ++ x :: post.drop k := by
      rw [hL]; conv => lhs; rw [hpost]
      simp
    rw [e2]
    exact afterG_decomp _ _ x hxnot

theorem last_mem_of_take (L : List ι) (cur : ι) (hc : cur ∈ L) (k : Nat) :
    ((afterG L cur).take k).getLast?.getD cur ∈ L := by
  cases h : ((afterG L cur).take k).getLast? with
  | none => simpa using hc
  | some x =>
    simp only [Option.getD_some]
    have hx : x ∈ (afterG L cur).take k := List.mem_of_getLast? h
    have : x ∈ afterG L cur := List.mem_of_mem_take hx
    exact (List.dropWhile_sublist _).subset (List.mem_of_mem_drop this)

/-- **Sessions compose**: with unique IDs, whatever the number of sessions and however little each one
delivers, the concatenation of what the client dispatched is exactly the log after the ID it started
from, in order, each entry once, up to the total number dispatched. -/
theorem sessions_compose (L : List ι) (hn : L.Nodup) (cur : ι) (hc : cur ∈ L) (ks : List Nat) :
    (playSessions L cur ks).1 = (afterG L cur).take ks.sum := by
  induction ks generalizing cur with
  | nil => simp [playSessions]
  | cons k ks ih =>
    simp only [playSessions, List.sum_cons]
    rw [ih _ (last_mem_of_take L cur hc k), afterG_advance L hn cur hc k]
    rw [← List.take_add]

end Sessions

end GoSSE.Proofs
