import GoSSE.Gen.Upgrade
import GoSSE.Proofs.GenEquivFields
/-!
# `sse.Upgrade` as translated from session.go

Which response writer the session gets is `getResponseWriter`'s answer — a parameter of the translated function (any
function stands for it; its own model is `Model/Server.lean`, tied by the SERVE / SESS correspondence). Given that answer:
`nil` means `ErrUpgradeUnsupported` and no session; otherwise the session holds that writer and the request, has not
upgraded yet, and its `LastEventID` is the model's `upgradeLastEventID` of the values stored under the canonical
`Last-Event-Id` key — unset when there are none, when the first is empty or when it is not a single line.
-/
set_option linter.unusedSimpArgs false
namespace GoSSE.GenEquiv
open GoSSE GoSSE.GoRT GoSSE.Model

/-- the canonical key `Upgrade` indexes the header map with -/
def lastEventIdKey : Bytes := [76, 97, 115, 116, 45, 69, 118, 101, 110, 116, 45, 73, 100]

/-- the session `Upgrade` returns for writer `rw`, request `r` and last event ID `f` -/
def sessOf {σ : Type} (rw : ResW σ) (r : HttpReq) (f : MField) : Gen.Session σ :=
  ⟨rw, some r, ⟨toGenF f⟩, false⟩

theorem Upgrade_eq {σ : Type} (fuel : Nat) (w : HttpRW) (r : HttpReq) (grw : HttpRW → Option (ResW σ))
    (hf : ∀ v ∈ (headerGet r.Header lastEventIdKey).head?, v.length < fuel) :
    Gen.Upgrade fuel w r grw =
      .ok (match grw w with
           | none => (none, some "ErrUpgradeUnsupported", r)
           | some rw => (some (sessOf rw r (upgradeLastEventID (headerGet r.Header lastEventIdKey))), none, r)) := by
  unfold Gen.Upgrade
  cases hg : grw w with
  | none => simp [pure, Except.pure]
  | some rw =>
    simp only [Option.isNone_some, Bool.false_eq_true, if_false, bind, Except.bind, derefPtr, pure, Except.pure]
    show _ = Except.ok (some _, none, r)
    cases hh : headerGet r.Header lastEventIdKey with
    | nil =>
      have : headerGet r.Header [76, 97, 115, 116, 45, 69, 118, 101, 110, 116, 45, 73, 100] = [] := hh
      simp [this, len, upgradeLastEventID, toGenF, sessOf]
    | cons h0 t =>
      have hh' : headerGet r.Header [76, 97, 115, 116, 45, 69, 118, 101, 110, 116, 45, 73, 100] = h0 :: t := hh
      have hlen : h0.length < fuel := hf h0 (by simp [hh])
      have hne : ¬ ((((h0 :: t).length : Nat) : Int) = 0) := by
        simp only [List.length_cons]; omega
      simp only [hh', len, hne, bne_iff_ne, ne_eq, not_false_eq_true, if_true, idx, decide_true]
      have hidx : (0 : Int) ≤ 0 ∧ (0 : Int) < ((h0 :: t).length : Nat) := by
        constructor
        · omega
        · simp only [List.length_cons]; omega
      simp only [hidx, and_self, if_true, pure, Except.pure, bind, Except.bind, Int.toNat_zero, List.getD_cons_zero]
      by_cases he : h0 = []
      · simp [he, upgradeLastEventID, toGenF, sessOf]
      · have he' : (h0 != ([] : Bytes)) = true := by simpa using he
        obtain ⟨err, hn, _⟩ := NewID_eq fuel h0 hlen
        simp only [he', if_true, hn]
        have hne' : h0.isEmpty = false := by simpa [List.isEmpty_iff] using he
        simp [upgradeLastEventID, hne', toGenF, sessOf]

end GoSSE.GenEquiv
