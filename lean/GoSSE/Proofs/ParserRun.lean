import GoSSE.Proofs.ParserFP
import GoSSE.Proofs.ParserScan
/-!
`Parser.next` and the loop of `read()` against the specification machine.
-/
namespace GoSSE.Proofs
open GoSSE GoSSE.Spec GoSSE.Model

/-! ### shape of a token -/

theorem tok_shape (D : Bytes) (e : Bool) (adv : Nat) (tok : Bytes) (h : splitFunc D e = (adv, some tok)) :
    ∃ B, D = B ++ tok ++ D.drop adv ∧ AllNl B ∧ adv = B.length + tok.length ∧ 0 < adv ∧
      (∀ b, tok.head? = some b → isNl b = false) ∧
      ((∃ T nl rest, tok = T ++ nl ∧ LastIsNl T ∧ (T.getLast? = some 13 → nl.head? ≠ some 10) ∧ IsTerm nl rest) ∨
       (e = true ∧ adv = D.length)) := by
  cases splitFunc_cases D e with
  | empty hd hr => rw [hr] at h; simp at h
  | more B T he hd hB hT _ hr => rw [hr] at h; simp at h
  | tok B T nl rest hd hB hT hl hcr hnl _ hr =>
    rw [hr] at h
    simp only [Prod.mk.injEq, Option.some.injEq] at h
    obtain ⟨h1, h2⟩ := h
    subst h1 h2
    have hdrop : D.drop (B ++ T ++ nl).length = rest := drop_of_split D _ rest _ hd rfl
    obtain ⟨b, hb1, hb2⟩ := hl
    have hTne : T ≠ [] := by intro h; simp [h] at hb1
    refine ⟨B, ?_, hB, by simp, ?_, ?_, .inl ⟨T, nl, rest, rfl, ⟨b, hb1, hb2⟩, hcr, hnl⟩⟩
    · rw [hdrop, hd]; simp
    · have := List.length_pos_iff.2 hTne; simp; omega
    · intro b hb; rw [head?_append_of_ne_nil _ _ hTne] at hb; exact hT b hb
  | final B T he hd hne hB hT _ hr =>
    rw [hr] at h
    simp only [Prod.mk.injEq, Option.some.injEq] at h
    obtain ⟨h1, h2⟩ := h
    subst h1 h2
    refine ⟨B, by simp [hd], hB, by simp [hd], List.length_pos_iff.2 hne, hT, .inr ⟨he, rfl⟩⟩

/-! ### the byte-order mark -/

theorem bom_not_nl (b : Byte) (t : Bytes) (hb : isNl b = true) : bom.isPrefixOf (b :: t) = false := by
  rcases (isNl_true_iff b).1 hb with h | h <;> subst h <;> simp [bom, List.isPrefixOf]

theorem stripBOM_nl (b : Byte) (t : Bytes) (hb : isNl b = true) : stripBOM (b :: t) = b :: t := by
  simp [stripBOM, bom_not_nl b t hb]

/-- whether a token starts with the BOM does not depend on what follows the token -/
theorem bom_prefix_tok (T X : Bytes) (hT : LastIsNl T) : bom.isPrefixOf (T ++ X) = bom.isPrefixOf T := by
  obtain ⟨b, hb1, hb2⟩ := hT
  have hb : b ≠ 0xEF ∧ b ≠ 0xBB ∧ b ≠ 0xBF := by
    rcases (isNl_true_iff b).1 hb2 with h | h <;> subst h <;> decide
  match T, hb1 with
  | [a], h => simp at h; subst h; simp [bom, List.isPrefixOf, Ne.symm hb.1]
  | [a, c], h => simp at h; subst h; simp [bom, List.isPrefixOf, Ne.symm hb.2.1]
  | [a, c, d], h => simp [bom, List.isPrefixOf]
  | a :: c :: d :: f :: T', _ => simp [bom, List.isPrefixOf]

theorem bom_strip_tok (T : Bytes) (hT : LastIsNl T) (hp : bom.isPrefixOf T = true) :
    ∃ T', T = bom ++ T' ∧ LastIsNl T' ∧ T'.getLast? = T.getLast? := by
  obtain ⟨b, hb1, hb2⟩ := hT
  have hb : b ≠ 0xEF ∧ b ≠ 0xBB ∧ b ≠ 0xBF := by
    rcases (isNl_true_iff b).1 hb2 with h | h <;> subst h <;> decide
  match T, hb1, hp with
  | [a], h, hp => simp [bom, List.isPrefixOf] at hp
  | [a, c], h, hp => simp [bom, List.isPrefixOf] at hp
  | [a, c, d], h, hp =>
    simp at h; subst h
    simp [bom, List.isPrefixOf] at hp
    exact absurd hp.2.2.symm hb.2.2
  | a :: c :: d :: f :: T', h, hp =>
    simp [bom, List.isPrefixOf] at hp
    obtain ⟨h1, h2, h3⟩ := hp
    subst h1 h2 h3
    refine ⟨f :: T', by simp [bom], ⟨b, ?_, hb2⟩, ?_⟩
    · simpa using h
    · simp

theorem isPrefixOf_bom_split (l : Bytes) (h : bom.isPrefixOf l = true) : l = bom ++ l.drop 3 := by
  match l, h with
  | [], h => simp [bom] at h
  | [a], h => simp [bom, List.isPrefixOf] at h
  | [a, c], h => simp [bom, List.isPrefixOf] at h
  | a :: c :: d :: t, h =>
    simp [bom, List.isPrefixOf] at h
    obtain ⟨h1, h2, h3⟩ := h
    subst h1 h2 h3
    simp [bom]

/-! ### `Parser.next` -/

def pending (p : Parser) : Bytes := p.fp.data ++ remaining p.sc
/-- fuel measure of the parser -/
def nu (p : Parser) : Nat := weight p.sc + p.fp.data.length
/-- the scanner has delivered everything -/
def Final (s : Scanner) : Prop := s.data = [] ∧ s.err.isSome = true
/-- the BOM question is settled -/
def Normal (p : Parser) : Prop :=
  p.fp.data ≠ [] ∨ p.fp.started = true ∨ p.skippedBlankLines = true ∨ p.fp.removeBOM = false

/-- invariant at the head of the loops of `Parser.next` and `read()`; the specification machine
is in state `⟨toI st, [], sk⟩` and `pending p` is what both still have to process -/
structure PInv (conn : Bool) (p : Parser) (st : RState) (sk : Bool) : Prop where
  sc : SInv p.sc
  gone : p.gone = false
  kc : p.fp.keepComments = false
  err : p.fp.err = false
  normal : Normal p
  clean : CleanInv st
  skip : sk = true → p.fp.data.head? ≠ some 10
  tokEnd : Final p.sc ∨ ((feed conn ⟨toI st, [], sk⟩ p.fp.data).1.acc = [] ∧
    Boundary (feed conn ⟨toI st, [], sk⟩ p.fp.data).1.ist)

theorem parserNext_succ_some (fuel : Nat) (p : Parser) (f : Field) (fp' : FP)
    (h : FP.next (p.fp.data.length + 1) p.fp = (some f, fp')) :
    Parser.next (fuel + 1) p = (some f, { p with fp := fp' }) := by
  rw [Parser.next, h]

theorem parserNext_succ_none_none (fuel : Nat) (p : Parser) (fp' : FP) (sc' : Scanner)
    (h1 : FP.next (p.fp.data.length + 1) p.fp = (none, fp'))
    (h2 : Scanner.scan (p.sc.src.size + p.sc.data.length + 4) p.sc = (none, sc')) :
    Parser.next (fuel + 1) p = (none, { p with fp := fp', sc := sc', gone := sc'.err == some .eof }) := by
  rw [Parser.next, h1]; simp only; rw [h2]

theorem parserNext_succ_none_tok (fuel : Nat) (p : Parser) (fp' : FP) (sc' : Scanner) (adv : Nat) (tok : Bytes)
    (h1 : FP.next (p.fp.data.length + 1) p.fp = (none, fp'))
    (h2 : Scanner.scan (p.sc.src.size + p.sc.data.length + 4) p.sc = (some (adv, tok), sc')) :
    Parser.next (fuel + 1) p = Parser.next fuel { p with
      fp := (if fp'.started || (p.skippedBlankLines || decide (adv > tok.length)) then fp'.setRemoveBOM false else fp').reset tok,
      sc := sc', skippedBlankLines := p.skippedBlankLines || decide (adv > tok.length) } := by
  rw [Parser.next, h1]; simp only; rw [h2]

theorem fp_install_normal (fp : FP) (skipped : Bool) (tok : Bytes)
    (h : fp.started = true ∨ skipped = true ∨ fp.removeBOM = false) :
    (if fp.started || skipped then fp.setRemoveBOM false else fp).reset tok =
      { data := tok, err := false, started := false, keepComments := fp.keepComments, removeBOM := false } := by
  obtain ⟨d, e, s, k, r⟩ := fp
  simp only at h
  by_cases hc : (s || skipped) = true
  · simp [hc, FP.setRemoveBOM, FP.reset, FP.doRemoveBOM]
  · have hr : r = false := by
      rcases h with h | h | h
      · simp [h] at hc
      · simp [h] at hc
      · exact h
    subst hr
    simp [hc, FP.reset, FP.doRemoveBOM]

/-- what a call of `Parser.next` does, for the bytes `W` that were pending -/
inductive NextRes (conn : Bool) (W : Bytes) (n : Nat) (s0 : Scanner) (st : RState) (sk : Bool) :
    Option Field × Parser → Prop
  /-- a field: the bytes `C` were consumed; for the specification they amount to this field -/
  | field (fld : Field) (p' : Parser) (C : Bytes) (sk' : Bool)
      (hW : W = C ++ pending p')
      (hfeed : feed conn ⟨toI st, [], sk⟩ C =
        (⟨toI (readField conn st fld).1, [], sk'⟩, (readField conn st fld).2))
      (hinv : PInv conn p' (readField conn st fld).1 sk')
      (hnu : nu p' < n) (hcfg : SameCfg s0 p'.sc) : NextRes conn W n s0 st sk (some fld, p')
  | tooLong (p' : Parser) (herr : p'.sc.err = some .tooLong) (hgone : p'.gone = false)
      (hcfg : SameCfg s0 p'.sc) : NextRes conn W n s0 st sk (none, p')
  /-- end of input: all pending bytes were consumed without a further field -/
  | done (p' : Parser) (sk' : Bool)
      (hfeed : feed conn ⟨toI st, [], sk⟩ W = (⟨toI st, p'.fp.data.reverse, sk'⟩, []))
      (herr : p'.sc.err = some (endE s0.src)) (hgone : p'.gone = (p'.sc.err == some .eof))
      (hfp : p'.fp.err = !p'.fp.data.isEmpty) (hcfg : SameCfg s0 p'.sc) : NextRes conn W n s0 st sk (none, p')

theorem endE_eq {s s' : Scanner} (h : SameCfg s s') : endE s'.src = endE s.src := by
  simp only [endE, h.endErr]

theorem NextRes.transport {conn : Bool} {W W1 C0 : Bytes} {n n1 : Nat} {s0 s1 : Scanner} {st : RState}
    {sk sk1 : Bool} {r : Option Field × Parser}
    (h : NextRes conn W1 n1 s1 st sk1 r) (hW : W = C0 ++ W1)
    (hfeed : feed conn ⟨toI st, [], sk⟩ C0 = (⟨toI st, [], sk1⟩, [])) (hn : n1 ≤ n) (hcfg : SameCfg s0 s1) :
    NextRes conn W n s0 st sk r := by
  cases h with
  | field fld p' C sk' h1 h2 h3 h4 h5 =>
    refine .field fld p' (C0 ++ C) sk' (by rw [hW, h1, List.append_assoc]) ?_ h3 (by omega) (hcfg.trans h5)
    rw [feed_append, hfeed, h2]; simp
  | tooLong p' h1 h2 h3 => exact .tooLong p' h1 h2 (hcfg.trans h3)
  | done p' sk' h1 h2 h3 h4 h5 =>
    refine .done p' sk' ?_ (by rw [h2, endE_eq hcfg]) h3 h4 (hcfg.trans h5)
    rw [hW, feed_append, hfeed, h1]; simp

/-- the invariant right after a token was handed to the field parser -/
theorem pinv_token (conn : Bool) (p1 : Parser) (st : RState) (sk2 : Bool) (D : Bytes) (adv : Nat) (tok : Bytes)
    (hsplit : splitFunc D p1.sc.err.isSome = (adv, some tok))
    (hsc : SInv p1.sc) (hgone : p1.gone = false) (hkc : p1.fp.keepComments = false) (herr : p1.fp.err = false)
    (hnormal : Normal p1) (hclean : CleanInv st) (hdata : p1.fp.data = tok) (hsd : p1.sc.data = D.drop adv) :
    PInv conn p1 st sk2 := by
  obtain ⟨B, hD, hB, hadv, hpos, hhead, hshape⟩ := tok_shape D _ adv tok hsplit
  refine ⟨hsc, hgone, hkc, herr, hnormal, hclean, ?_, ?_⟩
  · intro _ h
    rw [hdata] at h
    have := hhead 10 h
    simp [isNl] at this
  · rcases hshape with ⟨T, nl, rest, ht, hl, hcr, hnl⟩ | ⟨he, ha⟩
    · right
      rw [hdata, ht]
      exact feed_token_boundary conn ⟨toI st, [], sk2⟩ T nl rest (by simp [M.WF]) hl hcr hnl
    · left
      exact ⟨by rw [hsd, ha]; simp, he⟩

theorem parserNext_normal (conn : Bool) (st : RState) (fuel : Nat) (p : Parser) (sk : Bool)
    (hinv : PInv conn p st sk) (hfuel : weight p.sc + 1 ≤ fuel) :
    NextRes conn (pending p) (nu p) p.sc st sk (Parser.next fuel p) := by
  induction fuel generalizing p sk with
  | zero => omega
  | succ fuel ih =>
    have hpost := FP_next_feed conn (p.fp.data.length + 1) p.fp st sk hinv.kc (by omega) hinv.clean hinv.skip
    cases hR : FP.next (p.fp.data.length + 1) p.fp with
    | mk o fp' =>
    rw [hR] at hpost
    obtain ⟨hkc', hrb', hpost⟩ := hpost
    cases o with
    | some fld =>
      obtain ⟨C, sk', h1, h2, h3, h4, h5, h6, h7⟩ := hpost
      simp only at h1 h3 h5 h6 hkc' hrb'
      rw [parserNext_succ_some fuel p fld fp' hR]
      refine .field fld _ C sk' ?_ h2
        ⟨hinv.sc, hinv.gone, hkc'.trans hinv.kc, h5.trans hinv.err, .inr (.inl h6), h4, h3, ?_⟩ ?_ (SameCfg.refl _)
      · simp only [pending]; rw [h1, List.append_assoc]
      · rcases hinv.tokEnd with hF | ⟨ha, hb⟩
        · exact .inl hF
        · right
          rw [h1, feed_append, h2] at ha hb
          exact ⟨ha, hb⟩
      · have hlen := congrArg List.length h1
        have := List.length_pos_iff.2 h7
        simp only [List.length_append] at hlen
        simp only [nu]; omega
    | none =>
      obtain ⟨sk1, h1, h2, h3, h4⟩ := hpost
      simp only at h1 h2 h3 h4 hkc' hrb'
      have hscan := scan_spec (p.sc.src.size + p.sc.data.length + 4) p.sc hinv.sc (by split <;> omega)
      cases hS : Scanner.scan (p.sc.src.size + p.sc.data.length + 4) p.sc with
      | mk ot sc' =>
      rw [hS] at hscan
      cases hscan with
      | done s' herr hrem hdata hsrc _ hcfg =>
        rw [parserNext_succ_none_none fuel p fp' sc' hR hS]
        refine .done _ sk1 ?_ herr rfl ?_ hcfg
        · simp only [pending, hrem, List.append_nil]; exact h1
        · simp only [h3, hinv.err, Bool.false_or]
      | tooLong D s' herr hnone hrem hsplit hdata hfull hlim hcfg =>
        rw [parserNext_succ_none_none fuel p fp' sc' hR hS]
        exact .tooLong _ herr (by simp [herr]) hcfg
      | tok D adv tok _ hrem hsplit hdata hinv' hcfg hwt =>
        rw [parserNext_succ_none_tok fuel p fp' sc' adv tok hR hS]
        obtain ⟨B, hD, hB, hadv, hpos, hhead, hshape⟩ := tok_shape D _ adv tok hsplit
        have hnf : ¬ Final p.sc := by
          intro ⟨hd, he⟩
          obtain ⟨e, he'⟩ := Option.isSome_iff_exists.1 he
          have hc := (hinv.sc.errEnd e he').2
          have : remaining p.sc = [] := by simp [remaining, hd, hc]
          rw [this] at hrem
          have hD0 : D = [] := (List.append_eq_nil_iff.1 hrem.symm).1
          have hlen := congrArg List.length hD
          simp [hD0] at hlen
          omega
        rcases hinv.tokEnd with hF | ⟨ha, hb⟩
        · exact absurd hF hnf
        rw [h1] at ha hb
        simp only [List.reverse_eq_nil_iff] at ha
        rw [ha] at h1
        have hstarted : fp'.started = true ∨ (p.skippedBlankLines || decide (adv > tok.length)) = true ∨
            fp'.removeBOM = false := by
          rcases hinv.normal with h | h | h | h
          · left; rw [h4]; simp [h]
          · left; rw [h4, h]; simp
          · right; left; simp [h]
          · right; right; rw [hrb', h]
        rw [fp_install_normal fp' _ tok hstarted]
        obtain ⟨sk2, hbl⟩ := feed_blanks conn (toI st) sk1 B hb hB
        have hC0 : feed conn ⟨toI st, [], sk⟩ (p.fp.data ++ B) = (⟨toI st, [], sk2⟩, []) := by
          rw [feed_append, h1]; simp [hbl]
        have hp1 : PInv conn { p with
            fp := { data := tok, err := false, started := false, keepComments := fp'.keepComments, removeBOM := false },
            sc := sc', skippedBlankLines := p.skippedBlankLines || decide (adv > tok.length) } st sk2 :=
          pinv_token conn _ st sk2 D adv tok hsplit hinv' hinv.gone (hkc'.trans hinv.kc) rfl
            (.inr (.inr (.inr rfl))) hinv.clean rfl hdata
        refine (ih _ sk2 hp1 ?_).transport (C0 := p.fp.data ++ B) ?_ hC0 ?_ hcfg
        · simp only; omega
        · simp only [pending, hrem]
          have : D ++ sc'.src.chunks.flatten = B ++ tok ++ D.drop adv ++ sc'.src.chunks.flatten := by rw [← hD]
          rw [this]; simp [remaining, hdata]
        · simp only [nu]; omega

theorem stripBOM_bom (Z : Bytes) : stripBOM (bom ++ Z) = Z := by
  simp [stripBOM, bom, List.isPrefixOf]

theorem stripBOM_not (Z : Bytes) (h : bom.isPrefixOf Z = false) : stripBOM Z = Z := by
  simp [stripBOM, h]

/-- the very first call of `Parser.next`: this is where the BOM is dealt with -/
theorem parserNext_fresh (conn : Bool) (st : RState) (fuel : Nat) (p : Parser)
    (hfp : p.fp = { removeBOM := true }) (hskipped : p.skippedBlankLines = false) (hgone : p.gone = false)
    (hsc : SInv p.sc) (hclean : CleanInv st) (hb : Boundary (toI st)) (hfuel : weight p.sc + 1 ≤ fuel) :
    NextRes conn (stripBOM (remaining p.sc)) (nu p) p.sc st false (Parser.next fuel p) := by
  obtain ⟨sc, gone, fp, skipped⟩ := p
  simp only at hfp hskipped hgone hsc hfuel
  subst hfp hskipped hgone
  cases fuel with
  | zero => omega
  | succ fuel =>
    have hR : FP.next (({ sc := sc, gone := false, fp := { removeBOM := true }, skippedBlankLines := false } : Parser).fp.data.length + 1)
        ({ sc := sc, gone := false, fp := { removeBOM := true }, skippedBlankLines := false } : Parser).fp =
        (none, { removeBOM := true }) := rfl
    have hscan := scan_spec (sc.src.size + sc.data.length + 4) sc hsc (by split <;> omega)
    cases hS : Scanner.scan (sc.src.size + sc.data.length + 4) sc with
    | mk ot sc' =>
    rw [hS] at hscan
    cases hscan with
    | done s' herr hrem hdata hsrc _ hcfg =>
      rw [parserNext_succ_none_none fuel _ _ sc' hR hS]
      refine .done _ false ?_ herr rfl rfl hcfg
      rw [hrem]; rfl
    | tooLong D s' herr hnone hrem hsplit hdata hfull hlim hcfg =>
      rw [parserNext_succ_none_none fuel _ _ sc' hR hS]
      exact .tooLong _ herr (by simp [herr]) hcfg
    | tok D adv tok _ hrem hsplit hdata hinv' hcfg hwt =>
      rw [parserNext_succ_none_tok fuel _ _ sc' adv tok hR hS]
      obtain ⟨B, hD, hB, hadv, hpos, hhead, hshape⟩ := tok_shape D _ adv tok hsplit
      simp only [Bool.false_or]
      rw [hrem]
      by_cases hBnil : B = []
      · -- the first token starts at stream offset 0
        subst hBnil
        simp only [List.length_nil, Nat.zero_add, List.nil_append] at hadv hD
        have hns : decide (adv > tok.length) = false := by simp; omega
        simp only [hns, Bool.false_eq_true, if_false]
        have htokne : tok ≠ [] := by intro h; simp [h] at hadv; omega
        -- what follows the token does not influence the BOM test
        have hpre : bom.isPrefixOf (D ++ sc'.src.chunks.flatten) = bom.isPrefixOf tok := by
          rcases hshape with ⟨T, nl, rest, ht, hl, hcr, hnl⟩ | ⟨he, ha⟩
          · rw [hD, ht]
            have h1 := bom_prefix_tok T (nl ++ (D.drop adv ++ sc'.src.chunks.flatten)) hl
            have h2 := bom_prefix_tok T nl hl
            simp only [List.append_assoc] at h1 h2 ⊢
            rw [h1, h2]
          · obtain ⟨e, he'⟩ := Option.isSome_iff_exists.1 he
            have hc := (hinv'.errEnd e he').2
            have : D.drop adv = [] := by rw [ha]; simp
            rw [this, List.append_nil] at hD
            rw [hc, ← hD]; simp
        by_cases hbom : bom.isPrefixOf tok = true
        · have hfp1 : FP.reset { removeBOM := true } tok =
              { data := tok.drop 3, err := false, started := true, keepComments := false, removeBOM := true } := by
            simp [FP.reset, FP.doRemoveBOM, hbom]
          rw [hfp1]
          have htok := isPrefixOf_bom_split tok hbom
          have hp1 : PInv conn {
              sc := sc', gone := false,
              fp := { data := tok.drop 3, err := false, started := true, keepComments := false, removeBOM := true },
              skippedBlankLines := false } st false := by
            refine ⟨hinv', rfl, rfl, rfl, .inr (.inl rfl), hclean, by simp, ?_⟩
            rcases hshape with ⟨T, nl, rest, ht, hl, hcr, hnl⟩ | ⟨he, ha⟩
            · right
              have hbT : bom.isPrefixOf T = true := by rw [← bom_prefix_tok T nl hl, ← ht]; exact hbom
              obtain ⟨T', hT', hl', hlast'⟩ := bom_strip_tok T hl hbT
              have : tok.drop 3 = T' ++ nl := by rw [ht, hT']; simp [bom]
              simp only [this]
              exact feed_token_boundary conn ⟨toI st, [], false⟩ T' nl rest (by simp [M.WF]) hl' (by rw [hlast']; exact hcr) hnl
            · left
              exact ⟨by simp only; rw [hdata, ha]; simp, he⟩
          refine (parserNext_normal conn st fuel _ false hp1 (by simp only; omega)).transport (C0 := []) ?_ rfl ?_ hcfg
          · have : D ++ sc'.src.chunks.flatten = bom ++ (tok.drop 3 ++ D.drop adv ++ sc'.src.chunks.flatten) := by
              conv => lhs; rw [hD, htok]
              simp
            rw [this, stripBOM_bom]
            simp [pending, remaining, hdata]
          · have : (tok.drop 3).length ≤ tok.length := by simp
            simp only [nu]; omega
        · have hbom' : bom.isPrefixOf tok = false := Bool.eq_false_iff.mpr hbom
          have hfp1 : FP.reset { removeBOM := true } tok =
              { data := tok, err := false, started := false, keepComments := false, removeBOM := true } := by
            simp [FP.reset, FP.doRemoveBOM, hbom']
          rw [hfp1]
          have hp1 : PInv conn {
              sc := sc', gone := false,
              fp := { data := tok, err := false, started := false, keepComments := false, removeBOM := true },
              skippedBlankLines := false } st false :=
            pinv_token conn _ st false D adv tok hsplit hinv' rfl rfl rfl (.inl htokne) hclean rfl hdata
          refine (parserNext_normal conn st fuel _ false hp1 (by simp only; omega)).transport (C0 := []) ?_ rfl ?_ hcfg
          · rw [stripBOM_not _ (hpre.trans hbom')]
            conv => lhs; rw [hD]
            simp [pending, remaining, hdata]
          · simp only [nu]; omega
      · -- blank lines were skipped: the token is not at the start of the stream
        have hBpos := List.length_pos_iff.2 hBnil
        have hs : decide (adv > tok.length) = true := by simp; omega
        simp only [hs, if_true]
        have hfp1 : (FP.setRemoveBOM { removeBOM := true } false).reset tok =
            { data := tok, err := false, started := false, keepComments := false, removeBOM := false } := by
          simp [FP.setRemoveBOM, FP.reset, FP.doRemoveBOM]
        rw [hfp1]
        obtain ⟨sk2, hbl⟩ := feed_blanks conn (toI st) false B hb hB
        have hp1 : PInv conn {
            sc := sc', gone := false,
            fp := { data := tok, err := false, started := false, keepComments := false, removeBOM := false },
            skippedBlankLines := true } st sk2 :=
          pinv_token conn _ st sk2 D adv tok hsplit hinv' rfl rfl rfl (.inr (.inr (.inr rfl))) hclean rfl hdata
        refine (parserNext_normal conn st fuel _ sk2 hp1 (by simp only; omega)).transport (C0 := B) ?_ hbl ?_ hcfg
        · have : stripBOM (D ++ sc'.src.chunks.flatten) = D ++ sc'.src.chunks.flatten := by
            rw [hD]
            cases B with
            | nil => exact absurd rfl hBnil
            | cons b B' => exact stripBOM_nl b _ (hB b (by simp))
          rw [this]
          conv => lhs; rw [hD]
          simp [pending, remaining, hdata]
        · simp only [nu]; omega

/-! ### the loop of `read()` -/

/-- the error `Parser.Err` reports at the end of the input -/
def endPErr (endErr : Bool) (acc : Bytes) : PErr :=
  if endErr then .read else if acc ≠ [] then .unexpectedEOF else .eof

/-- what the loop of `read()` (never stopped by the consumer) achieves from a state where the
specification machine is in `⟨toI st, [], sk⟩` with `W` still to be read -/
def RunRes (conn : Bool) (W : Bytes) (s0 : Scanner) (st : RState) (sk : Bool) (outs : List Out)
    (r : Parser × RState × List Out × Bool) : Prop :=
  r.2.2.2 = false ∧
  ((r.1.err = PErr.tooLong ∧ ∃ t, r.2.2.1 = outs ++ t ∧ t <+: (feed conn ⟨toI st, [], sk⟩ W).2) ∨
   (r.2.2.1 = outs ++ (feed conn ⟨toI st, [], sk⟩ W).2 ∧ toI r.2.1 = (feed conn ⟨toI st, [], sk⟩ W).1.ist ∧
    r.1.err = endPErr s0.src.endErr (feed conn ⟨toI st, [], sk⟩ W).1.acc))

theorem readLoop_none_succ (conn : Bool) (fuel : Nat) (p : Parser) (st : RState) (outs : List Out) :
    readLoop conn none (fuel + 1) p st outs =
      match p.next (p.sc.src.size + p.sc.data.length + 4) with
      | (none, p') => (p', st, outs, false)
      | (some f, p') => readLoop conn none fuel p' (readField conn st f).1 (outs ++ (readField conn st f).2) := by
  rw [readLoop]
  split <;> simp [stopped, *]

theorem readLoop_of_next (conn : Bool) (fuel : Nat) (p : Parser) (st : RState) (sk : Bool) (outs : List Out)
    (W : Bytes) (n : Nat)
    (hnext : NextRes conn W n p.sc st sk (p.next (p.sc.src.size + p.sc.data.length + 4)))
    (hcont : ∀ p' st' sk' outs', PInv conn p' st' sk' → nu p' < n →
      RunRes conn (pending p') p'.sc st' sk' outs' (readLoop conn none fuel p' st' outs')) :
    RunRes conn W p.sc st sk outs (readLoop conn none (fuel + 1) p st outs) := by
  rw [readLoop_none_succ]
  generalize p.next (p.sc.src.size + p.sc.data.length + 4) = R at hnext ⊢
  cases hnext with
  | field fld p' C sk' hW hfeed hinv hnu hcfg =>
    simp only
    obtain ⟨h1, h2⟩ := hcont p' _ sk' (outs ++ (readField conn st fld).2) hinv hnu
    refine ⟨h1, ?_⟩
    have hF : feed conn ⟨toI st, [], sk⟩ W =
        ((feed conn ⟨toI (readField conn st fld).1, [], sk'⟩ (pending p')).1,
          (readField conn st fld).2 ++ (feed conn ⟨toI (readField conn st fld).1, [], sk'⟩ (pending p')).2) := by
      rw [hW, feed_append, hfeed]
    rw [hF]
    rcases h2 with ⟨he, t, ht1, ht2⟩ | ⟨ho, hi, he⟩
    · left
      refine ⟨he, (readField conn st fld).2 ++ t, by rw [ht1, List.append_assoc], ?_⟩
      exact (List.prefix_append_right_inj _).2 ht2
    · right
      refine ⟨by rw [ho, List.append_assoc], hi, ?_⟩
      rw [he, hcfg.endErr]
  | tooLong p' herr hgone hcfg =>
    simp only
    refine ⟨rfl, .inl ⟨?_, [], by simp, List.nil_prefix⟩⟩
    simp [Parser.err, hgone, herr]
  | done p' sk' hfeed herr hgone hfp hcfg =>
    simp only
    refine ⟨rfl, .inr ⟨by rw [hfeed]; simp, by rw [hfeed], ?_⟩⟩
    rw [hfeed]
    simp only [Parser.err, hgone, herr, hfp, endPErr, endE]
    cases p.sc.src.endErr <;> cases hd : p'.fp.data <;> simp

theorem readLoop_normal (conn : Bool) (fuel : Nat) (p : Parser) (st : RState) (sk : Bool) (outs : List Out)
    (hinv : PInv conn p st sk) (hfuel : nu p + 1 ≤ fuel) :
    RunRes conn (pending p) p.sc st sk outs (readLoop conn none fuel p st outs) := by
  induction fuel generalizing p st sk outs with
  | zero => omega
  | succ fuel ih =>
    refine readLoop_of_next conn fuel p st sk outs (pending p) (nu p)
      (parserNext_normal conn st _ p sk hinv (by simp only [weight]; omega)) ?_
    intro p' st' sk' outs' hinv' hnu
    exact ih p' st' sk' outs' hinv' (by omega)

theorem readLoop_fresh (conn : Bool) (fuel : Nat) (p : Parser) (st : RState) (outs : List Out)
    (hfp : p.fp = { removeBOM := true }) (hskipped : p.skippedBlankLines = false) (hgone : p.gone = false)
    (hsc : SInv p.sc) (hclean : CleanInv st) (hb : Boundary (toI st)) (hfuel : nu p + 1 ≤ fuel) :
    RunRes conn (stripBOM (remaining p.sc)) p.sc st false outs (readLoop conn none fuel p st outs) := by
  cases fuel with
  | zero => omega
  | succ fuel =>
    refine readLoop_of_next conn fuel p st false outs _ (nu p)
      (parserNext_fresh conn st _ p hfp hskipped hgone hsc hclean hb (by simp only [weight]; omega)) ?_
    intro p' st' sk' outs' hinv' hnu
    exact readLoop_normal conn fuel p' st' sk' outs' hinv' (by omega)

/-! ### the whole run -/

/-- the error `Read` (`conn = false`) / `Connection.read` (`conn = true`) yields for the
specification's end condition -/
def endErr (conn : Bool) : EndCond → PErr
  | .clean => if conn then .eof else .none
  | .unexpectedEOF => .unexpectedEOF
  | .readErr => .read

theorem mkScanner_facts (src : Source) (cfg : Option (Nat × Int)) :
    SInv (mkScanner src cfg) ∧ remaining (mkScanner src cfg) = src.chunks.flatten ∧
    (mkScanner src cfg).src = src ∧ (mkScanner src cfg).data = [] := by
  cases cfg with
  | none => exact ⟨⟨by simp [mkScanner], by simp [mkScanner]⟩, by simp [mkScanner, remaining], rfl, rfl⟩
  | some c => exact ⟨⟨by simp [mkScanner], by simp [mkScanner]⟩, by simp [mkScanner, remaining], rfl, rfl⟩

theorem implRun_conforms (conn : Bool) (lastID : Bytes) (src : Source) (cfg : Option (Nat × Int)) :
    let r := implRun conn lastID src cfg none
    let sp := Spec.run .gosse conn lastID src.chunks.flatten (if src.endErr then .err else .eof)
    (r.2.1 = PErr.tooLong ∧ r.1 <+: sp.1) ∨ (r.1 = sp.1 ∧ r.2.1 = endErr conn sp.2) := by
  obtain ⟨hsinv, hrem, hsrc, hdata⟩ := mkScanner_facts src cfg
  have hrun := readLoop_fresh conn (src.size + 4) { sc := mkScanner src cfg } { lastID := lastID } []
    rfl rfl rfl hsinv (by simp [CleanInv]) (by simp [Boundary, toI])
    (by simp only [nu, weight, hsrc, hdata]; simp)
  simp only [hrem] at hrun
  intro r sp
  have hsp : sp = endRule (feed conn ⟨{ lastID := lastID }, [], false⟩ (stripBOM src.chunks.flatten))
      (if src.endErr then .err else .eof) := run_eq_feed conn lastID _ _
  have hr : r = implRun conn lastID src cfg none := rfl
  unfold implRun at hr
  simp only at hr
  generalize readLoop conn none (src.size + 4) { sc := mkScanner src cfg } { lastID := lastID } [] = R at hrun hr
  obtain ⟨hstop, hres⟩ := hrun
  have htoI : toI { lastID := lastID } = ({ lastID := lastID } : IState) := rfl
  rw [htoI] at hres
  generalize feed conn ⟨{ lastID := lastID }, [], false⟩ (stripBOM src.chunks.flatten) = F at hres hsp
  simp only [hstop, Bool.false_eq_true, if_false, stopped] at hr
  rcases hres with ⟨he, t, ht1, ht2⟩ | ⟨ho, hi, he⟩
  · left
    simp only [he] at hr
    have h1 : r.1 = R.2.2.1 := by rw [hr]; simp
    have h2 : r.2.1 = PErr.tooLong := by rw [hr]; simp
    refine ⟨h2, ?_⟩
    rw [h1, ht1, List.nil_append, hsp]
    refine List.IsPrefix.trans ht2 ?_
    unfold endRule
    split
    · exact List.prefix_refl _
    · split
      · exact List.prefix_refl _
      · split
        · exact List.prefix_append _ _
        · exact List.prefix_refl _
  · right
    have hdirty : R.2.1.dirty = F.1.ist.dirty := by rw [← hi]; rfl
    have hev : doYield R.2.1 = mkEvent F.1.ist := by rw [← hi]; rfl
    simp only [List.nil_append] at ho
    rw [hsrc] at he
    rw [hsp, hr]
    simp only [he, ho, hdirty, hev, endPErr, endRule]
    by_cases hE : src.endErr = true
    · simp [hE, endErr]
    · have hE' : src.endErr = false := by simpa using hE
      by_cases hacc : F.1.acc = []
      · by_cases hd : F.1.ist.dirty = true
        · cases conn <;> simp [hE', hacc, hd, endErr]
        · have hd' : F.1.ist.dirty = false := by simpa using hd
          cases conn <;> simp [hE', hacc, hd', endErr]
      · simp [hE', hacc, endErr]

end GoSSE.Proofs
