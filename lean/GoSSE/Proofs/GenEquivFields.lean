import GoSSE.Proofs.GenEquiv
import GoSSE.Gen.Fields
import GoSSE.Model.Message
/-!
# The translated construction routes of `messageField` (message_fields.go) compute the model's

`newMessageField`, `(*messageField).UnmarshalText`, `NewID`, `NewType` as translated from /repo's current source
agree with `Model/Fields.lean` for every input: the same field, an error exactly when the model reports one.
(`UnmarshalJSON`, `Scan` and `Upgrade` use `encoding/json`, a type switch and `net/http`: hand-written model and
correspondence only.)
-/
set_option linter.unusedSimpArgs false
namespace GoSSE.GenEquiv
open GoSSE GoSSE.GoRT GoSSE.Model

def toGenF (m : MField) : Gen.messageField := { value := m.value, set := m.set }

theorem newMessageField_eq (fuel : Nat) (v : Bytes) (hf : v.length < fuel) :
    Gen.newMessageField fuel v =
      .ok (toGenF (newMessageField v).1, if (newMessageField v).2 then some "input is multiline" else none) := by
  unfold Gen.newMessageField newMessageField
  simp only [bind, Except.bind, isSingleLine_eq fuel v hf]
  cases hs : isSingleLine v <;> simp [pure, Except.pure, toGenF]

theorem UnmarshalText_eq (fuel : Nat) (prev : Gen.messageField) (data : Bytes) (hf : data.length < fuel)
    (prevM : MField) :
    ∃ err, Gen.messageField_UnmarshalText fuel prev data = .ok (err, toGenF (MField.unmarshalText prevM data).1) ∧
      err.isSome = (MField.unmarshalText prevM data).2 := by
  unfold Gen.messageField_UnmarshalText MField.unmarshalText
  simp only [bind, Except.bind, newMessageField_eq fuel data hf]
  cases hs : (newMessageField data).2
  · exact ⟨none, by simp [pure, Except.pure], by simp⟩
  · exact ⟨some "input is multiline", by simp [pure, Except.pure, toGenF], by simp⟩

theorem NewID_eq (fuel : Nat) (v : Bytes) (hf : v.length < fuel) :
    ∃ err, Gen.NewID fuel v = .ok ({ messageField := toGenF (newID v).1 }, err) ∧ err.isSome = (newID v).2 := by
  unfold Gen.NewID newID
  simp only [bind, Except.bind, newMessageField_eq fuel v hf]
  cases hs : (newMessageField v).2
  · exact ⟨none, by simp [pure, Except.pure], by simp⟩
  · exact ⟨some "invalid event ID: %w", by simp [pure, Except.pure, toGenF], by simp⟩

theorem NewType_eq (fuel : Nat) (v : Bytes) (hf : v.length < fuel) :
    ∃ err, Gen.NewType fuel v = .ok ({ messageField := toGenF (newType v).1 }, err) ∧ err.isSome = (newType v).2 := by
  unfold Gen.NewType newType newID
  simp only [bind, Except.bind, newMessageField_eq fuel v hf]
  cases hs : (newMessageField v).2
  · exact ⟨none, by simp [pure, Except.pure], by simp⟩
  · exact ⟨some "invalid event type: %w", by simp [pure, Except.pure, toGenF], by simp⟩

end GoSSE.GenEquiv

namespace GoSSE.GenEquiv
open GoSSE GoSSE.GoRT GoSSE.Model

/-! ## `Message.appendText` (message.go): the `NextChunk` loop behind `AppendData` / `AppendComment` -/

def gC (c : Chunk) : Gen.chunk := { content := c.content, isComment := c.isComment }

theorem nextChunk_rem_lt' (s : Bytes) (h : s ≠ []) : (nextChunk s).2.1.length < s.length := by
  have hb := newlineIndex_bound s
  have hp := newlineIndex_pos s h
  unfold nextChunk
  simp only [List.length_drop]
  have : 0 < s.length := List.length_pos_iff.mpr h
  omega

/-- the model's chunk list after appending all the strings -/
def appendAll (isComment : Bool) (strs : List Bytes) (cs : List Chunk) : List Chunk :=
  strs.foldl (fun cs c => appendLoop isComment c.length c cs) cs

theorem appendText_chunks (m : Message) (isComment : Bool) (strs : List Bytes) :
    (m.appendText isComment strs).chunks = appendAll isComment strs m.chunks := by
  unfold Message.appendText appendAll
  induction strs generalizing m with
  | nil => rfl
  | cons c t ih => simp only [List.foldl_cons]; rw [ih]

/-- more fuel than needed changes nothing -/
theorem appendLoop_fuel (isComment : Bool) : ∀ (m k : Nat) (c : Bytes) (cs : List Chunk), c.length ≤ m →
    appendLoop isComment (m + k) c cs = appendLoop isComment m c cs := by
  intro m
  induction m with
  | zero =>
    intro k c cs h
    have : c = [] := List.length_eq_zero_iff.mp (by omega)
    subst this
    cases k <;> simp [appendLoop]
  | succ m ih =>
    intro k c cs h
    have e : m + 1 + k = (m + k) + 1 := by omega
    rw [e]
    unfold appendLoop
    by_cases hc : c = []
    · simp [hc]
    · have : c.isEmpty = false := by simpa using hc
      simp only [this, Bool.false_eq_true, if_false]
      exact ih k _ _ (by have := nextChunk_rem_lt' c hc; omega)

theorem appendText_loop2_step (fuel : Nat) (isComment : Bool) (e : Gen.Message) (c content : Bytes)
    (hf : c.length < fuel) :
    Gen.Message_appendText_loop2 fuel isComment (e, c, content) =
      .ok (if c = [] then .brk (e, c, content) else
        .next ({ e with chunks := e.chunks ++ [({ content := (nextChunk c).1, isComment := isComment } : Gen.chunk)] },
               (nextChunk c).2.1, (nextChunk c).1)) := by
  unfold Gen.Message_appendText_loop2
  by_cases hc : c = []
  · subst hc; simp [pure, Except.pure]
  · have c1 : (c != ([] : Bytes)) = true := by simpa using hc
    simp only [c1, if_true, bind, Except.bind, NextChunk_eq fuel c hf, pure, Except.pure, hc, if_false]

theorem appendText_loop2_eq (fuel : Nat) (isComment : Bool) :
    ∀ (m n : Nat) (c : Bytes) (cs : List Chunk) (e : Gen.Message) (content : Bytes),
      c.length ≤ m → m < n → c.length < fuel → e.chunks = cs.map gC →
      ∃ content', loopM (Gen.Message_appendText_loop2 fuel isComment) n (e, c, content) =
        .ok (.inl ({ e with chunks := (appendLoop isComment m c cs).map gC }, [], content')) := by
  intro m
  induction m with
  | zero =>
    intro n c cs e content h hn hf he
    have : c = [] := List.length_eq_zero_iff.mp (by omega)
    subst this
    obtain ⟨n', rfl⟩ : ∃ n', n = n' + 1 := ⟨n - 1, by omega⟩
    refine ⟨content, ?_⟩
    unfold loopM
    rw [appendText_loop2_step fuel isComment e [] content hf]
    simp only [if_true, pure, Except.pure, appendLoop, ← he]
  | succ m ih =>
    intro n c cs e content h hn hf he
    obtain ⟨n', rfl⟩ : ∃ n', n = n' + 1 := ⟨n - 1, by omega⟩
    by_cases hc : c = []
    · subst hc
      refine ⟨content, ?_⟩
      unfold loopM
      rw [appendText_loop2_step fuel isComment e [] content hf]
      simp only [if_true, pure, Except.pure, appendLoop, List.isEmpty_nil, ← he]
    · have c2 : c.isEmpty = false := by simpa using hc
      have hrem := nextChunk_rem_lt' c hc
      obtain ⟨content', h'⟩ := ih n' (nextChunk c).2.1 (cs ++ [⟨(nextChunk c).1, isComment⟩])
        { e with chunks := e.chunks ++ [({ content := (nextChunk c).1, isComment := isComment } : Gen.chunk)] }
        (nextChunk c).1 (by omega) (by omega) (by omega) (by simp [he, gC])
      refine ⟨content', ?_⟩
      unfold loopM
      rw [appendText_loop2_step fuel isComment e c content hf]
      simp only [hc, if_false]
      rw [h']
      conv => rhs; unfold appendLoop
      simp only [c2, Bool.false_eq_true, if_false]

theorem appendText_eq (fuel : Nat) (e : Gen.Message) (isComment : Bool) (strs : List Bytes) (cs : List Chunk)
    (he : e.chunks = cs.map gC) (hf : ∀ c ∈ strs, c.length + 1 < fuel) (hn : strs.length < fuel) :
    Gen.Message_appendText fuel e isComment strs =
      .ok { e with chunks := (appendAll isComment strs cs).map gC } := by
  have h := loopM_rule (Gen.Message_appendText_loop1 fuel isComment strs)
    (fun st => ∃ i : Nat, st.1 = (i : Int) ∧ i ≤ strs.length ∧
      st.2 = { e with chunks := (appendAll isComment (strs.take i) cs).map gC })
    (fun st => strs.length - st.1.toNat)
    (fun r => r = .inl ((strs.length : Int), { e with chunks := (appendAll isComment strs cs).map gC }))
    (by
      rintro ⟨i', e'⟩ ⟨i, hi, hle, hst⟩
      simp only at hi hst
      subst hi; subst hst
      unfold Gen.Message_appendText_loop1
      by_cases hlt : i < strs.length
      · have c1 : ((i : Int) < len strs) := by unfold len; omega
        have hfc := hf strs[i] (List.getElem_mem hlt)
        obtain ⟨content', h2⟩ := appendText_loop2_eq fuel isComment strs[i].length fuel strs[i]
          (appendAll isComment (strs.take i) cs)
          { e with chunks := (appendAll isComment (strs.take i) cs).map gC } [] (Nat.le_refl _) (by omega) (by omega) rfl
        simp only [c1, if_true, idx_ok strs i hlt, bind, Except.bind, h2, pure, Except.pure]
        refine ⟨⟨i + 1, by omega, by omega, ?_⟩, by simp; omega⟩
        simp only [appendAll, List.take_succ_eq_append_getElem hlt, List.foldl_append, List.foldl_cons, List.foldl_nil]
      · have c1 : ¬ ((i : Int) < len strs) := by unfold len; omega
        have : i = strs.length := by omega
        subst this
        simp only [c1, if_false, pure, Except.pure, List.take_length])
    fuel ((0 : Int), e) ⟨0, rfl, by omega, by simp [appendAll, ← he]⟩ (by simpa using hn)
  obtain ⟨r, hr, hp⟩ := h
  subst hp
  unfold Gen.Message_appendText
  simp only [bind, Except.bind, pure, Except.pure]
  rw [hr]

theorem AppendData_eq (fuel : Nat) (e : Gen.Message) (strs : List Bytes) (cs : List Chunk)
    (he : e.chunks = cs.map gC) (hf : ∀ c ∈ strs, c.length + 1 < fuel) (hn : strs.length < fuel) :
    Gen.Message_AppendData fuel e strs = .ok { e with chunks := (appendAll false strs cs).map gC } := by
  unfold Gen.Message_AppendData
  simp only [bind, Except.bind, appendText_eq fuel e false strs cs he hf hn, pure, Except.pure]

theorem AppendComment_eq (fuel : Nat) (e : Gen.Message) (strs : List Bytes) (cs : List Chunk)
    (he : e.chunks = cs.map gC) (hf : ∀ c ∈ strs, c.length + 1 < fuel) (hn : strs.length < fuel) :
    Gen.Message_AppendComment fuel e strs = .ok { e with chunks := (appendAll true strs cs).map gC } := by
  unfold Gen.Message_AppendComment
  simp only [bind, Except.bind, appendText_eq fuel e true strs cs he hf hn, pure, Except.pure]

end GoSSE.GenEquiv
