import GoSSE.Proofs.GenEquiv
import GoSSE.Gen.Fields
/-!
# The translated construction routes of `messageField` (message_fields.go) compute the model's

`newMessageField`, `(*messageField).UnmarshalText`, `NewID`, `NewType` as translated from /repo's current source
agree with `Model/Fields.lean` for every input: the same field, an error exactly when the model reports one.
(`UnmarshalJSON`, `Scan` and `Upgrade` use `encoding/json`, a type switch and `net/http`: hand-written model and
correspondence only.)
-/
set_option linter.unusedSimpArgs false
namespace GoSSE.GenEquiv
open GoSSE GoSSE.GoRT GoSSE.Model

def toGenF (m : MField) : Gen.messageField := { value := m.value, set := m.set }

theorem newMessageField_eq (fuel : Nat) (v : Bytes) (hf : v.length < fuel) :
    Gen.newMessageField fuel v =
      .ok (toGenF (newMessageField v).1, if (newMessageField v).2 then some "input is multiline" else none) := by
  unfold Gen.newMessageField newMessageField
  simp only [bind, Except.bind, isSingleLine_eq fuel v hf]
  cases hs : isSingleLine v <;> simp [pure, Except.pure, toGenF]

theorem UnmarshalText_eq (fuel : Nat) (prev : Gen.messageField) (data : Bytes) (hf : data.length < fuel)
    (prevM : MField) :
    ∃ err, Gen.messageField_UnmarshalText fuel prev data = .ok (err, toGenF (MField.unmarshalText prevM data).1) ∧
      err.isSome = (MField.unmarshalText prevM data).2 := by
  unfold Gen.messageField_UnmarshalText MField.unmarshalText
  simp only [bind, Except.bind, newMessageField_eq fuel data hf]
  cases hs : (newMessageField data).2
  · exact ⟨none, by simp [pure, Except.pure], by simp⟩
  · exact ⟨some "input is multiline", by simp [pure, Except.pure, toGenF], by simp⟩

theorem NewID_eq (fuel : Nat) (v : Bytes) (hf : v.length < fuel) :
    ∃ err, Gen.NewID fuel v = .ok ({ messageField := toGenF (newID v).1 }, err) ∧ err.isSome = (newID v).2 := by
  unfold Gen.NewID newID
  simp only [bind, Except.bind, newMessageField_eq fuel v hf]
  cases hs : (newMessageField v).2
  · exact ⟨none, by simp [pure, Except.pure], by simp⟩
  · exact ⟨some "invalid event ID: %w", by simp [pure, Except.pure, toGenF], by simp⟩

theorem NewType_eq (fuel : Nat) (v : Bytes) (hf : v.length < fuel) :
    ∃ err, Gen.NewType fuel v = .ok ({ messageField := toGenF (newType v).1 }, err) ∧ err.isSome = (newType v).2 := by
  unfold Gen.NewType newType newID
  simp only [bind, Except.bind, newMessageField_eq fuel v hf]
  cases hs : (newMessageField v).2
  · exact ⟨none, by simp [pure, Except.pure], by simp⟩
  · exact ⟨some "invalid event type: %w", by simp [pure, Except.pure, toGenF], by simp⟩

end GoSSE.GenEquiv
