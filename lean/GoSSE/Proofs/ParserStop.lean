import GoSSE.Model.Parser
/-!
# Early stop of the consumer (`yield` returning `false`)

A consumer that returns `false` from its `k`-th event yield sees exactly the first `k`
event yields of the full run; a cut run reports no error; a run with fewer than `k`
events is unaffected. Pure simulation argument on `readLoop` (`Parser.next` is opaque).
-/
namespace GoSSE.Proofs
open GoSSE GoSSE.Spec GoSSE.Model

/-- the shortest prefix of `o` that contains `k` event yields (all of `o` if it has fewer);
retries are kept where they occur before the k-th event -/
def takeEvents : Nat → List Out → List Out
  | 0, _ => []
  | _, [] => []
  | k + 1, .event e :: t => .event e :: takeEvents k t
  | k + 1, .retry n :: t => .retry n :: takeEvents (k + 1) t

theorem takeEvents_nil (k : Nat) : takeEvents k [] = [] := by
  cases k <;> rfl

theorem countEvents_nil : countEvents [] = 0 := rfl

theorem countEvents_event_cons (e : Event) (t : List Out) :
    countEvents (.event e :: t) = countEvents t + 1 := by
  simp [countEvents]

theorem countEvents_retry_cons (n : Nat) (t : List Out) :
    countEvents (.retry n :: t) = countEvents t := by
  simp [countEvents]

theorem countEvents_append (a b : List Out) :
    countEvents (a ++ b) = countEvents a + countEvents b := by
  simp [countEvents]

/-- nothing is cut in front of the `k`-th event -/
theorem takeEvents_append_lt (k : Nat) (a b : List Out) (h : countEvents a < k) :
    takeEvents k (a ++ b) = a ++ takeEvents (k - countEvents a) b := by
  induction a generalizing k with
  | nil => simp [countEvents_nil]
  | cons x t ih =>
    cases k with
    | zero => omega
    | succ k =>
      cases x with
      | event e =>
        rw [countEvents_event_cons] at h ⊢
        have := ih k (by omega)
        have hsub : k + 1 - (countEvents t + 1) = k - countEvents t := by omega
        simp only [List.cons_append, takeEvents, this, hsub]
      | retry n =>
        rw [countEvents_retry_cons] at h ⊢
        have := ih (k + 1) h
        simp only [List.cons_append, takeEvents, this]

/-- everything after the `k`-th event is cut -/
theorem takeEvents_append_ge (k : Nat) (a b : List Out) (h : k ≤ countEvents a) :
    takeEvents k (a ++ b) = takeEvents k a := by
  induction a generalizing k with
  | nil =>
    have : k = 0 := by simpa [countEvents_nil] using h
    subst this
    simp [takeEvents]
  | cons x t ih =>
    cases k with
    | zero => simp [takeEvents]
    | succ k =>
      cases x with
      | event e =>
        rw [countEvents_event_cons] at h
        simp only [List.cons_append, takeEvents, ih k (by omega)]
      | retry n =>
        rw [countEvents_retry_cons] at h
        simp only [List.cons_append, takeEvents, ih (k + 1) h]

theorem takeEvents_of_lt (k : Nat) (a : List Out) (h : countEvents a < k) :
    takeEvents k a = a := by
  have := takeEvents_append_lt k a [] h
  cases hk : k - countEvents a <;> simpa [hk, takeEvents] using this

/-- `readField` yields nothing, one event, or one retry -/
theorem readField_out (conn : Bool) (st : RState) (f : Field) :
    (readField conn st f).2 = [] ∨ (∃ e, (readField conn st f).2 = [.event e]) ∨
      (∃ n, (readField conn st f).2 = [.retry n]) := by
  unfold readField
  split
  · simp
  · simp
  · split <;> simp
  · split
    · simp
    · split
      · split <;> simp
      · simp
  · split <;> simp

theorem readLoop_zero (conn : Bool) (s : Option Nat) (p : Parser) (st : RState)
    (outs : List Out) : readLoop conn s 0 p st outs = (p, st, outs, false) := by
  rw [readLoop]

theorem readLoop_succ_none (conn : Bool) (s : Option Nat) (fuel : Nat) (p p' : Parser)
    (st : RState) (outs : List Out)
    (h : p.next (p.sc.src.size + p.sc.data.length + 4) = (none, p')) :
    readLoop conn s (fuel + 1) p st outs = (p', st, outs, false) := by
  rw [readLoop, h]

theorem readLoop_succ_some (conn : Bool) (s : Option Nat) (fuel : Nat) (p p' : Parser) (f : Field)
    (st : RState) (outs : List Out)
    (h : p.next (p.sc.src.size + p.sc.data.length + 4) = (some f, p')) :
    readLoop conn s (fuel + 1) p st outs =
      if (!(readField conn st f).2.isEmpty && stopped s (outs ++ (readField conn st f).2)) = true
      then (p', (readField conn st f).1, outs ++ (readField conn st f).2, true)
      else readLoop conn s fuel p' (readField conn st f).1 (outs ++ (readField conn st f).2) := by
  rw [readLoop, h]

theorem stopped_none (o : List Out) : stopped none o = false := rfl
theorem stopped_some_iff (k : Nat) (o : List Out) :
    stopped (some k) o = true ↔ k ≤ countEvents o := by
  simp [stopped]

theorem readLoop_succ_some_none (conn : Bool) (fuel : Nat) (p p' : Parser) (f : Field)
    (st : RState) (outs : List Out)
    (h : p.next (p.sc.src.size + p.sc.data.length + 4) = (some f, p')) :
    readLoop conn none (fuel + 1) p st outs =
      readLoop conn none fuel p' (readField conn st f).1 (outs ++ (readField conn st f).2) := by
  rw [readLoop_succ_some _ _ _ _ _ _ _ _ h, stopped_none, Bool.and_false,
    if_neg Bool.false_ne_true]

theorem next_cases (p : Parser) (n : Nat) :
    (∃ p', p.next n = (none, p')) ∨ (∃ f p', p.next n = (some f, p')) := by
  rcases h : p.next n with ⟨_ | f, p'⟩
  · exact .inl ⟨p', rfl⟩
  · exact .inr ⟨f, p', rfl⟩

/-- without a stopping consumer the loop never reports "stopped" -/
theorem readLoop_none_not_stopped (conn : Bool) (fuel : Nat) (p : Parser) (st : RState)
    (outs : List Out) : (readLoop conn none fuel p st outs).2.2.2 = false := by
  induction fuel generalizing p st outs with
  | zero => rw [readLoop_zero]
  | succ fuel ih =>
    rcases next_cases p (p.sc.src.size + p.sc.data.length + 4) with ⟨p', h⟩ | ⟨f, p', h⟩
    · rw [readLoop_succ_none _ _ _ _ _ _ _ h]
    · rw [readLoop_succ_some_none _ _ _ _ _ _ _ h]
      exact ih _ _ _

/-- the loop only extends the outputs -/
theorem readLoop_extends (conn : Bool) (stopAt : Option Nat) (fuel : Nat) (p : Parser)
    (st : RState) (outs : List Out) :
    ∃ t, (readLoop conn stopAt fuel p st outs).2.2.1 = outs ++ t := by
  induction fuel generalizing p st outs with
  | zero => exact ⟨[], by rw [readLoop_zero, List.append_nil]⟩
  | succ fuel ih =>
    rcases next_cases p (p.sc.src.size + p.sc.data.length + 4) with ⟨p', h⟩ | ⟨f, p', h⟩
    · exact ⟨[], by rw [readLoop_succ_none _ _ _ _ _ _ _ h, List.append_nil]⟩
    · rw [readLoop_succ_some _ _ _ _ _ _ _ _ h]
      split
      · exact ⟨_, rfl⟩
      · obtain ⟨t, ht⟩ := ih p' (readField conn st f).1 (outs ++ (readField conn st f).2)
        exact ⟨_, by rw [ht, List.append_assoc]⟩

/-- simulation of the stopping run by the full run -/
theorem readLoop_sim (conn : Bool) (k : Nat) (fuel : Nat) (p : Parser) (st : RState)
    (outs : List Out) (h : countEvents outs < k) :
    ((readLoop conn (some k) fuel p st outs).2.2.2 = false ∧
      readLoop conn (some k) fuel p st outs = readLoop conn none fuel p st outs ∧
      countEvents (readLoop conn none fuel p st outs).2.2.1 < k) ∨
    ((readLoop conn (some k) fuel p st outs).2.2.2 = true ∧
      (readLoop conn (some k) fuel p st outs).2.2.1 =
        takeEvents k (readLoop conn none fuel p st outs).2.2.1 ∧
      k ≤ countEvents (readLoop conn none fuel p st outs).2.2.1) := by
  induction fuel generalizing p st outs with
  | zero => left; rw [readLoop_zero, readLoop_zero]; exact ⟨rfl, rfl, h⟩
  | succ fuel ih =>
    rcases next_cases p (p.sc.src.size + p.sc.data.length + 4) with ⟨p', hn⟩ | ⟨f, p', hn⟩
    · left
      rw [readLoop_succ_none _ _ _ _ _ _ _ hn, readLoop_succ_none _ _ _ _ _ _ _ hn]
      exact ⟨rfl, rfl, h⟩
    · rw [readLoop_succ_some_none _ _ _ _ _ _ _ hn, readLoop_succ_some _ _ _ _ _ _ _ _ hn]
      obtain ⟨t, ht⟩ := readLoop_extends conn none fuel p' (readField conn st f).1
        (outs ++ (readField conn st f).2)
      by_cases hc : ((!(readField conn st f).2.isEmpty) &&
          stopped (some k) (outs ++ (readField conn st f).2)) = true
      · rw [if_pos hc]
        right
        simp only [Bool.and_eq_true, stopped_some_iff] at hc
        obtain ⟨hne, hge⟩ := hc
        rcases readField_out conn st f with h0 | ⟨e, he⟩ | ⟨n, hn⟩
        · simp [h0] at hne
        · rw [he] at hge ht ⊢
          rw [countEvents_append, countEvents_event_cons, countEvents_nil] at hge
          have hk1 : k - countEvents outs = 1 := by omega
          refine ⟨rfl, ?_, ?_⟩
          · show outs ++ [Out.event e] = _
            rw [ht, List.append_assoc, takeEvents_append_lt k outs _ h, hk1]
            simp [takeEvents]
          · rw [ht, countEvents_append, countEvents_append, countEvents_event_cons,
              countEvents_nil]
            omega
        · rw [hn] at hge
          rw [countEvents_append, countEvents_retry_cons, countEvents_nil] at hge
          omega
      · rw [if_neg hc]
        have hlt : countEvents (outs ++ (readField conn st f).2) < k := by
          rcases readField_out conn st f with h0 | ⟨e, he⟩ | ⟨n, hn⟩
          · rw [h0]; simpa using h
          · rw [he] at hc ⊢
            simpa [stopped_some_iff] using hc
          · rw [hn, countEvents_append, countEvents_retry_cons, countEvents_nil]
            omega
        exact ih p' (readField conn st f).1 (outs ++ (readField conn st f).2) hlt

/-- the part of `implRun` after the loop -/
def finish (conn : Bool) (stopAt : Option Nat) (r : Parser × RState × List Out × Bool) :
    List Out × PErr × Nat :=
  if r.2.2.2 then (r.2.2.1, .none, r.1.sc.pulled) else
  if r.2.1.dirty && r.1.err == .eof then
    if stopped stopAt (r.2.2.1 ++ [.event (doYield r.2.1)])
    then (r.2.2.1 ++ [.event (doYield r.2.1)], .none, r.1.sc.pulled)
    else (r.2.2.1 ++ [.event (doYield r.2.1)], if !conn then .none else r.1.err, r.1.sc.pulled)
  else (r.2.2.1, if r.1.err == .eof && !conn then .none else r.1.err, r.1.sc.pulled)

theorem implRun_eq_finish (conn : Bool) (lastID : Bytes) (src : Source) (cfg : Option (Nat × Int))
    (stopAt : Option Nat) :
    implRun conn lastID src cfg stopAt =
      finish conn stopAt (readLoop conn stopAt (src.size + 4) { sc := mkScanner src cfg }
        { lastID := lastID } []) := rfl

theorem finish_early_stop (conn : Bool) (k : Nat) (F K : Parser × RState × List Out × Bool)
    (hns : F.2.2.2 = false)
    (hsim : (K.2.2.2 = false ∧ K = F ∧ countEvents F.2.2.1 < k) ∨
      (K.2.2.2 = true ∧ K.2.2.1 = takeEvents k F.2.2.1 ∧ k ≤ countEvents F.2.2.1)) :
    (finish conn (some k) K).1 = takeEvents k (finish conn none F).1 ∧
    (k ≤ countEvents (finish conn none F).1 → (finish conn (some k) K).2.1 = PErr.none) ∧
    (countEvents (finish conn none F).1 < k → finish conn (some k) K = finish conn none F) := by
  rcases hsim with ⟨hKs, hKF, hlt⟩ | ⟨hKs, hKo, hge⟩
  · subst hKF
    unfold finish
    simp only [hKs, Bool.false_eq_true, if_false, stopped_none]
    by_cases hd : (K.2.1.dirty && K.1.err == PErr.eof) = true
    · simp only [if_pos hd]
      have hcnt : countEvents (K.2.2.1 ++ [Out.event (doYield K.2.1)]) = countEvents K.2.2.1 + 1 := by
        rw [countEvents_append, countEvents_event_cons, countEvents_nil]
      have htk : takeEvents k (K.2.2.1 ++ [Out.event (doYield K.2.1)]) =
          K.2.2.1 ++ [Out.event (doYield K.2.1)] := by
        rw [takeEvents_append_lt k _ _ hlt]
        cases hm : k - countEvents K.2.2.1 with
        | zero => omega
        | succ m => simp [takeEvents, takeEvents_nil]
      by_cases hs : stopped (some k) (K.2.2.1 ++ [Out.event (doYield K.2.1)]) = true
      · simp only [if_pos hs, htk, true_and]
        simp only [stopped_some_iff] at hs
        exact ⟨fun _ => by trivial, fun h => by omega⟩
      · simp only [if_neg hs, htk, true_and]
        simp only [stopped_some_iff] at hs
        exact ⟨fun h => by omega, fun _ => by trivial⟩
    · simp only [if_neg hd, takeEvents_of_lt k _ hlt, true_and]
      exact ⟨fun h => by omega, fun _ => by trivial⟩
  · have hK : finish conn (some k) K = (K.2.2.1, .none, K.1.sc.pulled) := by
      unfold finish; rw [if_pos hKs]
    have hF : (finish conn none F).1 = F.2.2.1 ∨
        (finish conn none F).1 = F.2.2.1 ++ [Out.event (doYield F.2.1)] := by
      unfold finish
      simp only [hns, Bool.false_eq_true, if_false, stopped_none]
      split
      · exact .inr rfl
      · exact .inl rfl
    rw [hK]
    refine ⟨?_, fun _ => rfl, ?_⟩
    · show K.2.2.1 = _
      rcases hF with hF | hF
      · rw [hF, hKo]
      · rw [hF, hKo, takeEvents_append_ge k _ _ hge]
    · intro hlt
      exfalso
      rcases hF with hF | hF
      · rw [hF] at hlt; omega
      · rw [hF, countEvents_append] at hlt; omega

theorem implRun_early_stop (conn : Bool) (lastID : Bytes) (src : Source) (cfg : Option (Nat × Int))
    (k : Nat) (hk : 1 ≤ k) :
    let r := implRun conn lastID src cfg none
    let rk := implRun conn lastID src cfg (some k)
    rk.1 = takeEvents k r.1 ∧
    (k ≤ countEvents r.1 → rk.2.1 = PErr.none) ∧
    (countEvents r.1 < k → rk = r) := by
  intro r rk
  show (implRun conn lastID src cfg (some k)).1 = takeEvents k (implRun conn lastID src cfg none).1 ∧
    (k ≤ countEvents (implRun conn lastID src cfg none).1 →
      (implRun conn lastID src cfg (some k)).2.1 = PErr.none) ∧
    (countEvents (implRun conn lastID src cfg none).1 < k →
      implRun conn lastID src cfg (some k) = implRun conn lastID src cfg none)
  rw [implRun_eq_finish, implRun_eq_finish]
  exact finish_early_stop conn k _ _ (readLoop_none_not_stopped _ _ _ _ _)
    (readLoop_sim conn k _ _ _ [] (by rw [countEvents_nil]; omega))

end GoSSE.Proofs
