import GoSSE.Proofs.GenEquivUnmarshal
import GoSSE.Proofs.ClientRead
import GoSSE.Gen.Event
/-!
# event.go's `read` as translated computes the model's `readLoop` / `implRun`

`GoSSE/Gen/Event.lean` holds `read` as translated from /repo's event.go: an iterator (`func(yield func(Event, error) bool)`)
with a local function literal (`doYield`), a loop whose condition advances the parser, the `switch` over the field
names with its `break`s, the retry checks, and the end-of-stream handling. The parser it reads from is an interface
(`ParserI`); here it is instantiated with the hand-written model of `parser.Parser` (`parserI`), the consumer with one
that records what it is given and stops at its `k`-th event (`yieldOf`, `onRetryOf`).
-/
set_option linter.unusedSimpArgs false
namespace GoSSE.GenEquiv
open GoSSE GoSSE.GoRT GoSSE.Spec GoSSE.Model GoSSE.Proofs GoSSE.Proofs.ClientRead

def perrStr : PErr → Option String
  | .none => none
  | .eof => some "io.EOF"
  | .unexpectedEOF => some "parser.ErrUnexpectedEOF"
  | .read => some "READ"
  | .tooLong => some "TOOLONG"

/-- the model's parser as the field source of the translated `read` -/
def parserI (p : Model.Parser) : ParserI Gen.Field Model.Parser :=
  { st := p,
    next := fun p f =>
      match p.next (p.sc.src.size + p.sc.data.length + 4) with
      | (some fld, p') => (true, fieldOf fld, p')
      | (none, p') => (false, f, p'),
    err := fun p => perrStr p.err }

/-- the consumer: what it was given so far and the error it was handed at the end -/
structure Cons where
  outs : List Out := []
  err : Option String := none

/-- `yield`: an error is noted; an event is recorded, and the consumer stops at its `stopAt`-th -/
def yieldOf (stopAt : Option Nat) : Gen.Event → Option String → Cons → GoM (Bool × Cons) := fun ev err st =>
  if err.isSome then pure (true, { st with err := err })
  else
    let outs := st.outs ++ [.event { lastEventID := ev.LastEventID, type := ev.Type', data := ev.Data }]
    pure (!stopped stopAt outs, { st with outs := outs })

/-- `onRetry`: a Connection records the value, `Read` passes nil -/
def onRetryOf (conn : Bool) : Option (Int → Cons → GoM Cons) :=
  if conn then some (fun n st => pure { st with outs := st.outs ++ [.retry n.toNat] }) else none

theorem stopped_retry (stopAt : Option Nat) (outs : List Out) (k : Nat) :
    stopped stopAt (outs ++ [.retry k]) = stopped stopAt outs := by
  unfold stopped countEvents
  cases stopAt <;> simp [List.filter_append]

/-- what the local function literal `doYield` has to do (proved of the literal in `read` below) -/
def DoYieldSpec (stopAt : Option Nat)
    (dy : Bytes → Bytes → Bytes → Cons → GoM (Bool × Cons)) : Prop :=
  ∀ (sb lid typ : Bytes) (outs : List Out),
    dy sb lid typ { outs := outs } =
      .ok (!stopped stopAt (outs ++ [.event { lastEventID := lid, type := typ, data := sb.dropLast }]),
           { outs := outs ++ [.event { lastEventID := lid, type := typ, data := sb.dropLast }] })

/-- the translated loop's state for a state of the model's `readLoop` -/
def rstate (p : Model.Parser) (st : RState) (f : Gen.Field) (outs : List Out) :
    Bytes × ParserI Gen.Field Model.Parser × Bytes × Bytes × Bool × Gen.Field × Cons :=
  (st.lastID, parserI p, st.typ, st.sb, st.dirty, f, { outs := outs })

/-- how the translated loop ends, for an outcome of the model's `readLoop` -/
def RLoopAgrees (res : Model.Parser × RState × List Out × Bool)
    (lhs : GoM ((Bytes × ParserI Gen.Field Model.Parser × Bytes × Bytes × Bool × Gen.Field × Cons) ⊕ Cons)) : Prop :=
  if res.2.2.2 = true then lhs = .ok (.inr { outs := res.2.2.1 })
  else ∃ f', lhs = .ok (.inl (rstate res.1 res.2.1 f' res.2.2.1))

theorem parserI_next_some (p p' : Model.Parser) (fld : Model.Field) (f : Gen.Field)
    (h : p.next (p.sc.src.size + p.sc.data.length + 4) = (some fld, p')) :
    (parserI p).next (parserI p).st f = (true, fieldOf fld, p') := by
  show (match p.next (p.sc.src.size + p.sc.data.length + 4) with
    | (some fld, p') => (true, fieldOf fld, p')
    | (none, p') => (false, f, p')) = _
  rw [h]

theorem parserI_next_none (p p' : Model.Parser) (f : Gen.Field)
    (h : p.next (p.sc.src.size + p.sc.data.length + 4) = (none, p')) :
    (parserI p).next (parserI p).st f = (false, f, p') := by
  show (match p.next (p.sc.src.size + p.sc.data.length + 4) with
    | (some fld, p') => (true, fieldOf fld, p')
    | (none, p') => (false, f, p')) = _
  rw [h]

theorem parserI_st (p p' : Model.Parser) : ({ parserI p with st := p' } : ParserI Gen.Field Model.Parser) = parserI p' := rfl

theorem onRetry_isSome (conn : Bool) : (onRetryOf conn).isSome = conn := by
  cases conn <;> rfl

/-- the `default:` case of the switch (a blank line ends the event; comments never reach `read`): dispatch if dirty -/
theorem rloop_dispatch (conn : Bool) (stopAt : Option Nat) (fuel : Nat)
    (dy : Bytes → Bytes → Bytes → Cons → GoM (Bool × Cons)) (hdy : DoYieldSpec stopAt dy) (n : Nat)
    (ih : ∀ (p : Model.Parser) (st : RState) (outs : List Out) (f : Gen.Field) (F : Nat),
      SInv p.sc → M3 p + 1 ≤ n → n < F → stopped stopAt outs = false →
      RLoopAgrees (readLoop conn stopAt n p st outs)
        (loopM (Gen.read_loop1 fuel (onRetryOf conn) dy) F (rstate p st f outs)))
    (p p' : Model.Parser) (st : RState) (outs : List Out) (f : Gen.Field) (fld : Model.Field) (k : Nat)
    (hI' : SInv p'.sc) (hM' : M3 p' + 1 ≤ n) (hF : n + 1 < k + 1) (hns : stopped stopAt outs = false)
    (hnx : (parserI p).next (parserI p).st f = (true, fieldOf fld, p'))
    (hname : fld.name = .comment ∨ fld.name = .none) :
    RLoopAgrees
      (if (!(readField conn st fld).2.isEmpty && stopped stopAt (outs ++ (readField conn st fld).2)) = true then
        (p', (readField conn st fld).1, outs ++ (readField conn st fld).2, true)
       else readLoop conn stopAt n p' (readField conn st fld).1 (outs ++ (readField conn st fld).2))
      (loopM (Gen.read_loop1 fuel (onRetryOf conn) dy) (k + 1) (rstate p st f outs)) := by
  have hrf : readField conn st fld =
      if st.dirty then ({ lastID := st.lastID }, [.event (doYield st)]) else (st, []) := by
    unfold readField; rcases hname with h | h <;> simp only [h]
  have hnb : nameBytes fld.name = [58] ∨ nameBytes fld.name = [] := by
    rcases hname with h | h <;> simp [h, nameBytes]
  rw [hrf]
  by_cases hd : st.dirty = true
  · simp only [hd, if_true, List.isEmpty_cons, Bool.not_false, Bool.true_and]
    have hy := hdy st.sb st.lastID st.typ outs
    have hev : doYield st = { lastEventID := st.lastID, type := st.typ, data := st.sb.dropLast } := rfl
    rw [hev]
    by_cases hst : stopped stopAt (outs ++ [.event { lastEventID := st.lastID, type := st.typ, data := st.sb.dropLast }]) = true
    · have hstep : Gen.read_loop1 fuel (onRetryOf conn) dy (rstate p st f outs) =
          .ok (Step.ret { outs := outs ++ [.event { lastEventID := st.lastID, type := st.typ, data := st.sb.dropLast }] }) := by
        unfold Gen.read_loop1 rstate
        rcases hnb with h | h <;>
          simp [hnx, parserI_st, fieldOf, h, fData, fEvent, fId, fRetry, hd, hy, hst, bind, Except.bind, pure, Except.pure]
      simp only [hst, if_true]
      unfold loopM RLoopAgrees; rw [hstep]; rfl
    · have hst' : stopped stopAt (outs ++ [.event { lastEventID := st.lastID, type := st.typ, data := st.sb.dropLast }]) = false := by
        simpa using hst
      have hstep : Gen.read_loop1 fuel (onRetryOf conn) dy (rstate p st f outs) =
          .ok (Step.next (rstate p' { lastID := st.lastID } (fieldOf fld)
            (outs ++ [.event { lastEventID := st.lastID, type := st.typ, data := st.sb.dropLast }]))) := by
        unfold Gen.read_loop1 rstate
        rcases hnb with h | h <;>
          simp [hnx, parserI_st, fieldOf, h, fData, fEvent, fId, fRetry, hd, hy, hst', bind, Except.bind, pure, Except.pure]
      simp only [hst', Bool.false_eq_true, if_false]
      unfold loopM; rw [hstep]
      exact ih p' _ _ (fieldOf fld) k hI' hM' (by omega) hst'
  · have hd' : st.dirty = false := by simpa using hd
    have hstep : Gen.read_loop1 fuel (onRetryOf conn) dy (rstate p st f outs) =
        .ok (Step.next (rstate p' st (fieldOf fld) outs)) := by
      unfold Gen.read_loop1 rstate
      rcases hnb with h | h <;>
        simp [hnx, parserI_st, fieldOf, h, fData, fEvent, fId, fRetry, hd', pure, Except.pure]
    simp only [hd', Bool.false_eq_true, if_false, List.isEmpty_nil, Bool.not_true, Bool.false_and, List.append_nil]
    unfold loopM; rw [hstep]
    exact ih p' _ outs (fieldOf fld) k hI' hM' (by omega) hns

theorem rloop_eq (conn : Bool) (stopAt : Option Nat) (fuel : Nat)
    (dy : Bytes → Bytes → Bytes → Cons → GoM (Bool × Cons)) (hdy : DoYieldSpec stopAt dy) :
    ∀ (n : Nat) (p : Model.Parser) (st : RState) (outs : List Out) (f : Gen.Field) (F : Nat),
      SInv p.sc → M3 p + 1 ≤ n → n < F → stopped stopAt outs = false →
      RLoopAgrees (readLoop conn stopAt n p st outs)
        (loopM (Gen.read_loop1 fuel (onRetryOf conn) dy) F (rstate p st f outs)) := by
  intro n
  induction n with
  | zero => intro p st outs f F _ h; omega
  | succ n ih =>
    intro p st outs f F hI hM hF hns
    obtain ⟨k, rfl⟩ : ∃ k, F = k + 1 := ⟨F - 1, by omega⟩
    have hnp := next_spec (p.sc.src.size + p.sc.data.length + 4) p hI (by simp only [M]; omega)
    unfold readLoop
    cases hp : p.next (p.sc.src.size + p.sc.data.length + 4) with
    | mk o p' =>
      rw [hp] at hnp
      obtain ⟨hI', _, _, hdec⟩ := hnp
      cases o with
      | none =>
        have hnx := parserI_next_none p p' f hp
        have hstep : Gen.read_loop1 fuel (onRetryOf conn) dy (rstate p st f outs) = .ok (Step.brk (rstate p' st f outs)) := by
          unfold Gen.read_loop1 rstate
          simp only [hnx, parserI_st, Bool.false_eq_true, if_false, pure, Except.pure]
        unfold loopM; rw [hstep]
        exact ⟨f, rfl⟩
      | some fld =>
        have hnx := parserI_next_some p p' fld f hp
        have hM' : M3 p' + 1 ≤ n := by have h0 : M3 p' + 1 ≤ M3 p := hdec rfl; omega
        -- the iteration as a step: every field kind
        simp only []
        cases hname : fld.name with
        | data =>
          have hrf : readField conn st fld = ({ st with sb := st.sb ++ fld.value ++ [10], dirty := true }, []) := by
            unfold readField; simp only [hname]
          have hstep : Gen.read_loop1 fuel (onRetryOf conn) dy (rstate p st f outs) =
              .ok (Step.next (rstate p' { st with sb := st.sb ++ fld.value ++ [10], dirty := true } (fieldOf fld) outs)) := by
            unfold Gen.read_loop1 rstate
            simp [hnx, parserI_st, fieldOf, nameBytes, hname, fData, pure, Except.pure]
          rw [hrf]
          simp only [List.isEmpty_nil, Bool.not_true, Bool.false_and, Bool.false_eq_true, if_false, List.append_nil]
          unfold loopM; rw [hstep]
          exact ih p' _ outs (fieldOf fld) k hI' hM' (by omega) hns
        | event =>
          have hrf : readField conn st fld = ({ st with typ := fld.value, dirty := true }, []) := by
            unfold readField; simp only [hname]
          have hstep : Gen.read_loop1 fuel (onRetryOf conn) dy (rstate p st f outs) =
              .ok (Step.next (rstate p' { st with typ := fld.value, dirty := true } (fieldOf fld) outs)) := by
            unfold Gen.read_loop1 rstate
            simp [hnx, parserI_st, fieldOf, nameBytes, hname, fData, fEvent, pure, Except.pure]
          rw [hrf]
          simp only [List.isEmpty_nil, Bool.not_true, Bool.false_and, Bool.false_eq_true, if_false, List.append_nil]
          unfold loopM; rw [hstep]
          exact ih p' _ outs (fieldOf fld) k hI' hM' (by omega) hns
        | id =>
          have hcon := indexByte_contains fld.value 0
          by_cases hz : fld.value.contains 0 = true
          · have hrf : readField conn st fld = (st, []) := by
              unfold readField; simp only [hname, hz, if_true]
            have hstep : Gen.read_loop1 fuel (onRetryOf conn) dy (rstate p st f outs) =
                .ok (Step.next (rstate p' st (fieldOf fld) outs)) := by
              unfold Gen.read_loop1 rstate
              rw [hz] at hcon
              simp [hnx, parserI_st, fieldOf, nameBytes, hname, fData, fEvent, fId, hcon, pure, Except.pure]
            rw [hrf]
            simp only [List.isEmpty_nil, Bool.not_true, Bool.false_and, Bool.false_eq_true, if_false, List.append_nil]
            unfold loopM; rw [hstep]
            exact ih p' _ outs (fieldOf fld) k hI' hM' (by omega) hns
          · have hz' : fld.value.contains 0 = false := by simpa using hz
            have hrf : readField conn st fld = ({ st with lastID := fld.value, dirty := true }, []) := by
              unfold readField; simp only [hname, hz', Bool.false_eq_true, if_false]
            have hstep : Gen.read_loop1 fuel (onRetryOf conn) dy (rstate p st f outs) =
                .ok (Step.next (rstate p' { st with lastID := fld.value, dirty := true } (fieldOf fld) outs)) := by
              unfold Gen.read_loop1 rstate
              rw [hz'] at hcon
              simp [hnx, parserI_st, fieldOf, nameBytes, hname, fData, fEvent, fId, hcon, pure, Except.pure]
            rw [hrf]
            simp only [List.isEmpty_nil, Bool.not_true, Bool.false_and, Bool.false_eq_true, if_false, List.append_nil]
            unfold loopM; rw [hstep]
            exact ih p' _ outs (fieldOf fld) k hI' hM' (by omega) hns
        | retry =>
          have hv := indexOutside_spec fld.value
          -- the retry field either changes nothing or records a value
          by_cases hgo : fld.value.all isDigit = true ∧ ∃ nn, parseInt fld.value = some nn ∧ nn ≥ 0 ∧ conn = true
          · obtain ⟨hdig, nn, hpn, hnn, hconn⟩ := hgo
            subst hconn
            have hne : (stringsIndexOutside fld.value 48 57 != (-1 : Int)) = false := by rw [hv.1, hdig]; rfl
            have hpi := parseInt_digits fld.value hdig
            rw [hpn] at hpi
            have hrf : readField true st fld = ({ st with dirty := true }, [.retry nn.toNat]) := by
              unfold readField; simp [hname, hdig, hpn, hnn]
            have hstep : Gen.read_loop1 fuel (onRetryOf true) dy (rstate p st f outs) =
                .ok (Step.next (rstate p' { st with dirty := true } (fieldOf fld) (outs ++ [.retry nn.toNat]))) := by
              unfold Gen.read_loop1 rstate
              have hb : ((strconvParseInt fld.value).2 != none) = false := by rw [hpi]; rfl
              have hval : (strconvParseInt fld.value).1 = nn := by rw [hpi]
              simp [hnx, parserI_st, fieldOf, nameBytes, hname, fData, fEvent, fId, fRetry, hne, hb, hval, hnn, onRetryOf,
                derefPtr, bind, Except.bind, pure, Except.pure]
            rw [hrf]
            have hst : stopped stopAt (outs ++ [.retry nn.toNat]) = false := by rw [stopped_retry]; exact hns
            simp only [List.isEmpty_cons, Bool.not_false, Bool.true_and, hst, Bool.false_eq_true, if_false]
            unfold loopM; rw [hstep]
            exact ih p' _ _ (fieldOf fld) k hI' hM' (by omega) hst
          · have hrf : readField conn st fld = (st, []) := by
              unfold readField
              simp only [hname]
              by_cases hdig : fld.value.all isDigit = true
              · simp only [hdig, Bool.not_true, Bool.false_eq_true, if_false]
                cases hpn : parseInt fld.value with
                | none => rfl
                | some nn =>
                  simp only []
                  by_cases hc : (decide (nn ≥ 0) && conn) = true
                  · exfalso; apply hgo
                    simp only [Bool.and_eq_true, decide_eq_true_eq] at hc
                    exact ⟨hdig, nn, hpn, hc.1, hc.2⟩
                  · simp [hc]
              · simp [hdig]
            have hstep : Gen.read_loop1 fuel (onRetryOf conn) dy (rstate p st f outs) =
                .ok (Step.next (rstate p' st (fieldOf fld) outs)) := by
              unfold Gen.read_loop1 rstate
              by_cases hdig : fld.value.all isDigit = true
              · have hne : (stringsIndexOutside fld.value 48 57 != (-1 : Int)) = false := by rw [hv.1, hdig]; rfl
                have hpi := parseInt_digits fld.value hdig
                cases hpn : parseInt fld.value with
                | none =>
                  rw [hpn] at hpi
                  have hb : ((strconvParseInt fld.value).2 != none) = true := by
                    cases h2 : (strconvParseInt fld.value).2 with
                    | none => exact absurd h2 hpi
                    | some e => rfl
                  simp [hnx, parserI_st, fieldOf, nameBytes, hname, fData, fEvent, fId, fRetry, hne, hb, pure, Except.pure]
                | some nn =>
                  rw [hpn] at hpi
                  have hb : ((strconvParseInt fld.value).2 != none) = false := by rw [hpi]; rfl
                  have hval : (strconvParseInt fld.value).1 = nn := by rw [hpi]
                  have hc : (decide (nn ≥ 0) && (onRetryOf conn).isSome) = false := by
                    rw [onRetry_isSome]
                    rw [Bool.eq_false_iff]; intro hc
                    simp only [Bool.and_eq_true, decide_eq_true_eq] at hc
                    exact hgo ⟨hdig, nn, hpn, hc.1, hc.2⟩
                  simp [hnx, parserI_st, fieldOf, nameBytes, hname, fData, fEvent, fId, fRetry, hne, hb, hval, hc, pure, Except.pure]
              · have hdig' : fld.value.all isDigit = false := by simpa using hdig
                have hne : (stringsIndexOutside fld.value 48 57 != (-1 : Int)) = true := by rw [hv.1, hdig']; rfl
                simp [hnx, parserI_st, fieldOf, nameBytes, hname, fData, fEvent, fId, fRetry, hne, pure, Except.pure]
            rw [hrf]
            simp only [List.isEmpty_nil, Bool.not_true, Bool.false_and, Bool.false_eq_true, if_false, List.append_nil]
            unfold loopM; rw [hstep]
            exact ih p' _ outs (fieldOf fld) k hI' hM' (by omega) hns
        | comment =>
          exact rloop_dispatch conn stopAt fuel dy hdy n ih p p' st outs f fld k hI' hM' hF hns hnx (Or.inl hname)
        | none =>
          exact rloop_dispatch conn stopAt fuel dy hdy n ih p p' st outs f fld k hI' hM' hF hns hnx (Or.inr hname)

/-! ## `read` -/

/-- the function literal `doYield` of `read`, as translated (`read_unfold` below is closed by `rfl`) -/
def dyLit {κ : Type} (yield : Gen.Event → Option String → κ → GoM (Bool × κ)) :
    Bytes → Bytes → Bytes → κ → GoM (Bool × κ) :=
  fun data lastEventID typ cst_5 => do
    let acc := cst_5
    if (data != ([] : Bytes)) then do
      let s_6 ← sliceTo data ((len data) - (1 : Int))
      let data : Bytes := s_6
      let y_7 ← yield ({ LastEventID := lastEventID, Type' := typ, Data := data } : Gen.Event) none acc
      let acc := y_7.2
      pure (y_7.1, acc)
    else do
      let y_8 ← yield ({ LastEventID := lastEventID, Type' := typ, Data := data } : Gen.Event) none acc
      let acc := y_8.2
      pure (y_8.1, acc)

theorem read_unfold {π κ : Type} (fuel : Nat) (pf : GoM (ParserI Gen.Field π)) (lastEventID : Bytes)
    (onRetry : Option (Int → κ → GoM κ)) (ignoreEOF : Bool) (yield : Gen.Event → Option String → κ → GoM (Bool × κ)) (acc : κ) :
    Gen.read fuel pf lastEventID onRetry ignoreEOF yield acc = (do
      let th_1 ← pf
      let p : (ParserI Gen.Field π) := th_1
      let typ : Bytes := ([] : Bytes)
      let sb : Bytes := ([] : Bytes)
      let dirty : Bool := false
      let f : Gen.Field := ({ Name := ([] : Bytes), Value := ([] : Bytes) } : Gen.Field)
      let l_14 ← loopM (Gen.read_loop1 fuel onRetry (dyLit yield)) fuel (lastEventID, p, typ, sb, dirty, f, acc)
      match l_14 with
      | .inr r => do
        pure r
      | .inl st_9 => do
        let lastEventID := st_9.1
        let p := st_9.2.1
        let typ := st_9.2.2.1
        let sb := st_9.2.2.2.1
        let dirty := st_9.2.2.2.2.1
        let acc := st_9.2.2.2.2.2.2
        let err_1 : (Option String) := ((p).err (p).st)
        let isEOF : Bool := (err_1 == (some "io.EOF"))
        if (dirty && isEOF) then do
          let cl_15 ← dyLit yield sb lastEventID typ acc
          let acc : κ := (cl_15.2)
          if (!cl_15.1) then do
            pure acc
          else do
            if ((err_1 != none) && (!(ignoreEOF && isEOF))) then do
              let y_16 ← yield ({ LastEventID := ([] : Bytes), Type' := ([] : Bytes), Data := ([] : Bytes) } : Gen.Event) err_1 acc
              let acc := y_16.2
              pure acc
            else do
              pure acc
        else do
          if ((err_1 != none) && (!(ignoreEOF && isEOF))) then do
            let y_17 ← yield ({ LastEventID := ([] : Bytes), Type' := ([] : Bytes), Data := ([] : Bytes) } : Gen.Event) err_1 acc
            let acc := y_17.2
            pure acc
          else do
            pure acc) := rfl

theorem dyLit_spec (stopAt : Option Nat) : DoYieldSpec stopAt (dyLit (yieldOf stopAt)) := by
  intro sb lid typ outs
  unfold dyLit
  cases sb with
  | nil => simp [yieldOf, bind, Except.bind, pure, Except.pure]
  | cons c t =>
    have hsl : sliceTo (c :: t) (len (c :: t) - 1) = .ok ((c :: t).dropLast) := by
      unfold sliceTo len
      have : (0 : Int) ≤ (((c :: t).length : Nat) : Int) - 1 ∧ (((c :: t).length : Nat) : Int) - 1 ≤ ((c :: t).length : Nat) := by
        simp; omega
      simp only [this, and_self, if_true, pure, Except.pure]
      rw [List.dropLast_eq_take]
      congr 2
      simp
    simp [hsl, yieldOf, bind, Except.bind, pure, Except.pure]

/-- the model's run from a given parser: `implRun` without the construction of the scanner and the count of bytes
pulled (`implRun_runFrom`) -/
def runFrom (conn : Bool) (stopAt : Option Nat) (lastID : Bytes) (p0 : Model.Parser) (n : Nat) : List Out × PErr :=
  let r := readLoop conn stopAt n p0 { lastID := lastID } []
  if r.2.2.2 then (r.2.2.1, .none) else
  let e := r.1.err
  if r.2.1.dirty && e == .eof then
    let outs := r.2.2.1 ++ [.event (doYield r.2.1)]
    if stopped stopAt outs then (outs, .none)
    else (outs, if !conn then .none else e)
  else (r.2.2.1, if e == .eof && !conn then .none else e)

theorem implRun_runFrom (conn : Bool) (lastID : Bytes) (src : Source) (cfg : Option (Nat × Int)) (stopAt : Option Nat) :
    ((implRun conn lastID src cfg stopAt).1, (implRun conn lastID src cfg stopAt).2.1) =
      runFrom conn stopAt lastID { sc := mkScanner src cfg } (src.size + 4) := by
  unfold implRun runFrom
  simp only []
  split <;> (try split) <;> (try split) <;> rfl

theorem perrStr_eof (e : PErr) : (perrStr e == some "io.EOF") = (e == .eof) := by
  cases e <;> rfl

theorem perrStr_none (e : PErr) : (perrStr e != none) = (e != .none) := by
  cases e <;> rfl

/-- event.go's `read` as translated, reading from the model's parser and delivering to the recording consumer: the
consumer ends up with exactly the events and retry values of the model's run and is handed the model's final error
(none when the run ends cleanly for `Read`, or when the consumer stopped it); no panic, the loop ends. `n` is the
model's fuel (any value above the parser's measure), `fuel` the translated loop's. -/
theorem read_eq (conn : Bool) (stopAt : Option Nat) (lastID : Bytes) (p0 : Model.Parser) (n fuel : Nat)
    (hI : SInv p0.sc) (hM : M3 p0 + 1 ≤ n) (hF : n < fuel) (hs : stopped stopAt [] = false) :
    Gen.read fuel (pure (parserI p0)) lastID (onRetryOf conn) (!conn) (yieldOf stopAt) {} =
      .ok { outs := (runFrom conn stopAt lastID p0 n).1, err := perrStr (runFrom conn stopAt lastID p0 n).2 } := by
  rw [read_unfold]
  simp only [bind, Except.bind, pure, Except.pure]
  have hl := rloop_eq conn stopAt fuel (dyLit (yieldOf stopAt)) (dyLit_spec stopAt) n p0 { lastID := lastID } []
    ({ Name := [], Value := [] } : Gen.Field) fuel hI hM hF hs
  unfold rstate at hl
  unfold runFrom
  generalize hr : readLoop conn stopAt n p0 { lastID := lastID } [] = r at hl
  obtain ⟨p', st', outs', fl⟩ := r
  unfold RLoopAgrees at hl
  cases fl with
  | true =>
    simp only [if_true] at hl
    rw [hl]
    simp [perrStr]
  | false =>
    simp only [Bool.false_eq_true, if_false] at hl
    obtain ⟨f', hl'⟩ := hl
    rw [hl']
    unfold rstate
    have herr : (parserI p').err (parserI p').st = perrStr p'.err := rfl
    simp only [herr, perrStr_eof, perrStr_none, Bool.false_eq_true, if_false]
    have hy := dyLit_spec stopAt st'.sb st'.lastID st'.typ outs'
    have hev : doYield st' = { lastEventID := st'.lastID, type := st'.typ, data := st'.sb.dropLast } := rfl
    by_cases hde : (st'.dirty && p'.err == .eof) = true
    · simp only [hde, if_true, hy, hev]
      have heof : p'.err = .eof := by
        simp only [Bool.and_eq_true, beq_iff_eq] at hde; exact hde.2
      by_cases hst : stopped stopAt (outs' ++ [.event { lastEventID := st'.lastID, type := st'.typ, data := st'.sb.dropLast }]) = true
      · simp [hst, perrStr]
      · have hst' : stopped stopAt (outs' ++ [.event { lastEventID := st'.lastID, type := st'.typ, data := st'.sb.dropLast }]) = false := by
          simpa using hst
        cases conn <;> simp [hst', heof, perrStr, yieldOf, pure, Except.pure]
    · have hde' : (st'.dirty && p'.err == .eof) = false := by simpa using hde
      simp only [hde', Bool.false_eq_true, if_false]
      cases he : p'.err <;> cases conn <;> simp [he, perrStr, yieldOf, pure, Except.pure]

end GoSSE.GenEquiv
