import GoSSE.Proofs.JoeStep
/-!
The delivery invariant of Joe's transition system: what has been sent live to a subscription
is exactly the matching part of its window of the publication log.
-/
namespace GoSSE.Proofs.Joe
open GoSSE.Model.Joe

def pubsOf (cs : List Call) : List PubId :=
  cs.filterMap fun c => match c with | .send p _ => some p | _ => none

/-- publications sent live (after replay) to a subscription, in order, incl. a failed last one -/
def livePubs (st : SubSt) : List PubId := pubsOf (st.calls.drop st.replayed)

def matchesP (c : Cfg) (i : SubId) (p : PubId) : Bool := topicsIntersect (c.subTopics i) (c.pubTopics p)

/-- the part of the log during which the subscription was registered -/
def window (s : St) (i : SubId) : List PubId :=
  match (s.subs i).regAt with
  | none => []
  | some a => (s.log.take ((s.subs i).endAt.getD s.log.length)).drop a

def expected (c : Cfg) (s : St) (i : SubId) : List PubId := (window s i).filter (matchesP c i)

def restOf : JoePc → Option (PubId × List SubId)
  | .fanout p rest => some (p, rest)
  | .failed p _ rest => some (p, rest)
  | _ => none

/-- the publication being fanned out, if subscription i is still to be visited -/
def pendingFor (s : St) (i : SubId) : List PubId :=
  match restOf s.joe with
  | some (p, rest) => if i ∈ rest then [p] else []
  | none => []

@[simp] theorem pubsOf_nil : pubsOf [] = [] := rfl
theorem pubsOf_append (a b : List Call) : pubsOf (a ++ b) = pubsOf a ++ pubsOf b := by
  simp [pubsOf, List.filterMap_append]

structure DInv (c : Cfg) (s : St) : Prop where
  fresh : ∀ i, ((s.subs i).pc = .idle ∨ (s.subs i).pc = .start) →
    (s.subs i).calls = [] ∧ (s.subs i).replayed = 0 ∧ (s.subs i).regAt = none ∧ (s.subs i).endAt = none
  lenOK : ∀ i, (s.subs i).replayed ≤ (s.subs i).calls.length
  bounds : ∀ i a, (s.subs i).regAt = some a → a ≤ s.log.length ∧
    ∀ b, (s.subs i).endAt = some b → a ≤ b ∧ b ≤ s.log.length
  mem : ∀ i ∈ s.subscribers, (s.subs i).regAt ≠ none ∧
    ((s.subs i).endAt = none ∨ ∃ p rest, s.joe = .failed p i rest)
  nonmem : ∀ i, i ∉ s.subscribers → (s.subs i).regAt ≠ none → (s.subs i).endAt ≠ none
  failedEnd : ∀ p i rest, s.joe = .failed p i rest → (s.subs i).endAt ≠ none
  cur : ∀ p rest, restOf s.joe = some (p, rest) →
    s.log.getLast? = some p ∧ ∀ i ∈ rest, matchesP c i p = true ∧ (s.subs i).endAt = none
  main : ∀ i, livePubs (s.subs i) ++ pendingFor s i = expected c s i

theorem dinv_init {c : Cfg} {s : St} (h : IsInit s) : DInv c s := by
  obtain ⟨hj, hs, _, _, _, hlog, hsub, _, _⟩ := h
  refine ⟨?_, ?_, ?_, by simp [hs], ?_, by simp [hj], by simp [hj, restOf], ?_⟩
  · intro i _; exact ⟨(hsub i).2.2.2.1, (hsub i).2.2.2.2.1, (hsub i).2.2.2.2.2.1, (hsub i).2.2.2.2.2.2⟩
  · intro i; simp [(hsub i).2.2.2.2.1]
  · intro i a ha; simp [(hsub i).2.2.2.2.2.1] at ha
  · intro i _ hr; exact absurd (hsub i).2.2.2.2.2.1 hr
  · intro i
    simp [livePubs, pendingFor, expected, window, hj, restOf, (hsub i).2.2.2.1, (hsub i).2.2.2.2.2.1]

def GhostEq (a b : SubSt) : Prop :=
  a.calls = b.calls ∧ a.replayed = b.replayed ∧ a.regAt = b.regAt ∧ a.endAt = b.endAt

/-- transitions that touch neither the loop, the log, the subscriber set nor any ghost field -/
theorem dinv_frame {c : Cfg} {s s' : St} (h : DInv c s) (hj : s'.joe = s.joe)
    (hsubs : s'.subscribers = s.subscribers) (hlog : s'.log = s.log)
    (hg : ∀ k, GhostEq (s'.subs k) (s.subs k))
    (hpc : ∀ k, ((s'.subs k).pc = .idle ∨ (s'.subs k).pc = .start) → ((s.subs k).pc = .idle ∨ (s.subs k).pc = .start)) :
    DInv c s' := by
  refine ⟨?_, ?_, ?_, ?_, ?_, ?_, ?_, ?_⟩
  · intro i hi
    obtain ⟨a, b, c', d⟩ := hg i
    rw [a, b, c', d]; exact h.fresh i (hpc i hi)
  · intro i; obtain ⟨a, b, _, _⟩ := hg i; rw [a, b]; exact h.lenOK i
  · intro i a ha
    obtain ⟨_, _, c', d⟩ := hg i
    rw [c'] at ha; rw [hlog, d]; exact h.bounds i a ha
  · intro i hi
    obtain ⟨_, _, c', d⟩ := hg i
    rw [hsubs] at hi; rw [c', d, hj]; exact h.mem i hi
  · intro i hi hr
    obtain ⟨_, _, c', d⟩ := hg i
    rw [hsubs] at hi; rw [c'] at hr; rw [d]; exact h.nonmem i hi hr
  · intro p i rest hf
    obtain ⟨_, _, _, d⟩ := hg i
    rw [hj] at hf; rw [d]; exact h.failedEnd p i rest hf
  · intro p rest hr
    rw [hj] at hr
    obtain ⟨h1, h2⟩ := h.cur p rest hr
    refine ⟨by rw [hlog]; exact h1, fun i hi => ⟨(h2 i hi).1, ?_⟩⟩
    obtain ⟨_, _, _, d⟩ := hg i
    rw [d]; exact (h2 i hi).2
  · intro i
    obtain ⟨a, b, c', d⟩ := hg i
    have := h.main i
    simp only [livePubs, pendingFor, expected, window] at this ⊢
    rw [a, b, c', d, hj, hlog]; exact this


theorem take_append_of_le {α} (l : List α) (x : α) (b : Nat) (h : b ≤ l.length) :
    (l ++ [x]).take b = l.take b := by
  rw [List.take_append_of_le_length h]

theorem window_drop_append {α} (l : List α) (x : α) (a : Nat) (h : a ≤ l.length) :
    ((l ++ [x]).take (l.length + 1)).drop a = l.drop a ++ [x] := by
  have : (l ++ [x]).take (l.length + 1) = l ++ [x] := by
    apply List.take_of_length_le; simp
  rw [this, List.drop_append_of_le_length h]

theorem step_dinv_pubAccept {c : Cfg} {s s' : St} (hi : Inv s) (h : DInv c s) (p : PubId) (o : POutcome)
    (hs : step c s (.pubAccept p o) = some s') : DInv c s' := by
  simp only [step] at hs
  split at hs
  · rename_i hg
    split at hs
    · simp at hs
    · simp only [Option.some.injEq] at hs; subst hs
      have hj := hg.2.1
      have hnf : ∀ p' k rest', s.joe ≠ .failed p' k rest' := by simp [hj]
      have hend : ∀ k ∈ s.subscribers, (s.subs k).endAt = none := by
        intro k hk
        rcases (h.mem k hk).2 with e | ⟨p', rest', hf⟩
        · exact e
        · exact absurd hf (hnf p' k rest')
      refine ⟨h.fresh, h.lenOK, ?_, ?_, h.nonmem, by simp, ?_, ?_⟩
      · intro i a ha
        obtain ⟨h1, h2⟩ := h.bounds i a ha
        refine ⟨by simp [setPub]; omega, fun b hb => ?_⟩
        obtain ⟨h3, h4⟩ := h2 b hb
        exact ⟨h3, by simp [setPub]; omega⟩
      · intro i hi'
        exact ⟨(h.mem i hi').1, Or.inl (hend i hi')⟩
      · intro p' rest' hr
        simp only [restOf, setPub, Option.some.injEq, Prod.mk.injEq] at hr
        obtain ⟨rfl, rfl⟩ := hr
        refine ⟨by simp [setPub], fun i hi' => ?_⟩
        obtain ⟨hm, hmat⟩ := List.mem_filter.mp hi'
        exact ⟨hmat, hend i hm⟩
      · intro i
        have hmain := h.main i
        simp only [livePubs, pendingFor, expected, window, hj, restOf, List.append_nil] at hmain
        simp only [livePubs, pendingFor, expected, window, restOf, setPub]
        cases hreg : (s.subs i).regAt with
        | none =>
          rw [hreg] at hmain
          have hni : i ∉ s.subscribers := fun hm => (h.mem i hm).1 hreg
          have : i ∉ s.subscribers.filter (fun k => topicsIntersect (c.subTopics k) (c.pubTopics p)) :=
            fun hm => hni (List.mem_filter.mp hm).1
          simp [this]; simpa using hmain
        | some a =>
          rw [hreg] at hmain
          obtain ⟨hale, hb⟩ := h.bounds i a hreg
          by_cases hm : i ∈ s.subscribers
          · have he := hend i hm
            rw [he] at hmain
            simp only [Option.getD_none, List.take_length] at hmain
            simp only [he, Option.getD_none, List.length_append, List.length_singleton]
            rw [window_drop_append _ _ _ hale, List.filter_append, hmain]
            by_cases hmat : matchesP c i p = true
            · have : i ∈ s.subscribers.filter (fun k => topicsIntersect (c.subTopics k) (c.pubTopics p)) :=
                List.mem_filter.mpr ⟨hm, hmat⟩
              simp [this, hmat]
            · have : i ∉ s.subscribers.filter (fun k => topicsIntersect (c.subTopics k) (c.pubTopics p)) :=
                fun hx => hmat (List.mem_filter.mp hx).2
              simp [this, hmat]
          · have hne := h.nonmem i hm (by simp [hreg])
            obtain ⟨b, hbe⟩ := Option.ne_none_iff_exists'.mp hne
            obtain ⟨_, hble⟩ := hb b hbe
            rw [hbe] at hmain
            have : i ∉ s.subscribers.filter (fun k => topicsIntersect (c.subTopics k) (c.pubTopics p)) :=
              fun hx => hm (List.mem_filter.mp hx).1
            simp only [hbe, Option.getD_some, this, if_false, List.append_nil]
            rw [take_append_of_le _ _ _ hble]
            simpa using hmain
  · simp at hs


theorem sendChan_ok (s : St) (i : SubId) (e : Err) (hc : (s.subs i).ch.closed = false)
    (hb : (s.subs i).ch.buf = none) :
    sendChan s i e = setSub s i { s.subs i with ch := ⟨some e, false⟩ } := by
  simp only [sendChan, hc, hb, Bool.false_eq_true, if_false, Option.isSome_none, setSub]

/-- the ghost effect of visiting subscriber `k` during the fan-out of `p` -/
theorem livePubs_visit (st : SubSt) (p : PubId) (a b : Bool) (hl : st.replayed ≤ st.calls.length) :
    livePubs { st with calls := st.calls ++ [Call.send p a] ++ (if a then [Call.flush b] else []) } = livePubs st ++ [p] := by
  simp only [livePubs]
  rw [List.append_assoc, List.drop_append_of_le_length hl, pubsOf_append]
  cases a <;> simp [pubsOf]

theorem step_dinv_fanStep {c : Cfg} {s s' : St} (hi : Inv s) (h : DInv c s) (k : SubId) (a b : Bool)
    (hs : step c s (.fanStep k a b) = some s') : DInv c s' := by
  simp only [step] at hs
  split at hs
  · rename_i p rest hj
    split at hs
    · rename_i hmem
      have hmem' : k ∈ rest := by simpa using hmem
      obtain ⟨hnd, hsubs⟩ := hi.fan p rest hj
      have hk : k ∈ s.subscribers := hsubs k hmem'
      have hnf : ∀ p' j rest', s.joe ≠ .failed p' j rest' := by simp [hj]
      have hcl := (hi.reg k hk).1
      have hbuf : (s.subs k).ch.buf = none := by
        rcases (hi.reg k hk).2 with hb | ⟨p', rest', hf⟩
        · exact hb
        · exact absurd hf (hnf p' k rest')
      have hpcK : ¬ ((s.subs k).pc = .idle ∨ (s.subs k).pc = .start) := fun hp => (hi.fresh k hp).2 hk
      obtain ⟨hlast, hcur⟩ := h.cur p rest (by simp [restOf, hj])
      have hendK := (hcur k hmem').2
      have hkne : k ∉ rest.erase k := List.Nodup.not_mem_erase hnd
      have hmemE : ∀ j, j ≠ k → (j ∈ rest.erase k ↔ j ∈ rest) := fun j hjk => List.mem_erase_of_ne hjk
      -- main equation for k before the visit: livePubs k ++ [p] = expected
      have hmainK := h.main k
      simp only [pendingFor, restOf, hj, hmem', if_true] at hmainK
      split at hs
      · -- Send and Flush succeeded
        simp only [Option.some.injEq] at hs; subst hs
        refine ⟨?_, ?_, ?_, ?_, ?_, by simp, ?_, ?_⟩
        · intro i hp
          by_cases hik : i = k
          · subst hik; simp only [setSub, upd_same] at hp; exact absurd hp hpcK
          · simp only [setSub, upd_other _ _ _ _ hik] at hp ⊢; exact h.fresh i hp
        · intro i
          by_cases hik : i = k
          · subst hik; simp only [setSub, upd_same, List.length_append]; have := h.lenOK i; omega
          · simp only [setSub, upd_other _ _ _ _ hik]; exact h.lenOK i
        · intro i x hx
          by_cases hik : i = k
          · subst hik; simp only [setSub, upd_same] at hx ⊢; exact h.bounds i x hx
          · simp only [setSub, upd_other _ _ _ _ hik] at hx ⊢; exact h.bounds i x hx
        · intro i him
          have := h.mem i him
          by_cases hik : i = k
          · subst hik; simp only [setSub, upd_same]; exact ⟨this.1, Or.inl hendK⟩
          · simp only [setSub, upd_other _ _ _ _ hik]
            refine ⟨this.1, ?_⟩
            rcases this.2 with e | ⟨p', rest', hf⟩
            · exact Or.inl e
            · exact absurd hf (hnf p' i rest')
        · intro i him hr
          by_cases hik : i = k
          · subst hik; exact absurd hk him
          · simp only [setSub, upd_other _ _ _ _ hik] at hr ⊢; exact h.nonmem i him hr
        · intro p' rest' hr
          simp only [restOf, Option.some.injEq, Prod.mk.injEq] at hr
          obtain ⟨rfl, rfl⟩ := hr
          refine ⟨hlast, fun i hie => ?_⟩
          have hik : i ≠ k := fun e => hkne (e ▸ hie)
          simp only [setSub, upd_other _ _ _ _ hik]
          exact hcur i ((hmemE i hik).mp hie)
        · intro i
          by_cases hik : i = k
          · subst hik
            simp only [pendingFor, restOf, hkne, if_false, List.append_nil, expected, window, setSub, upd_same]
            rw [livePubs_visit _ _ _ _ (h.lenOK i)]
            simpa [expected, window] using hmainK
          · have := h.main i
            simp only [pendingFor, restOf, hj, expected, window] at this
            simp only [pendingFor, restOf, expected, window, setSub, upd_other _ _ _ _ hik]
            simp only [hmemE i hik]
            exact this
      · -- Send or Flush failed: the error is placed in k's channel
        simp only [Option.some.injEq] at hs; subst hs
        rw [sendChan_ok _ _ _ (by simpa [setSub] using hcl) (by simpa [setSub] using hbuf)]
        have hnb : bad (setSub (setSub s k { s.subs k with calls := (s.subs k).calls ++ [Call.send p a] ++ (if a then [Call.flush b] else []) }) k
            { (setSub s k { s.subs k with calls := (s.subs k).calls ++ [Call.send p a] ++ (if a then [Call.flush b] else []) }).subs k with ch := ⟨some (.own k), false⟩ }) = false := by
          simp [bad, setSub, hj]
        rw [hnb]
        simp only [Bool.false_eq_true, if_false, setSub, upd_same]
        refine ⟨?_, ?_, ?_, ?_, ?_, ?_, ?_, ?_⟩
        · intro i hp
          by_cases hik : i = k
          · subst hik; simp only [upd_same] at hp; exact absurd hp hpcK
          · simp only [upd, hik, if_false] at hp ⊢; exact h.fresh i hp
        · intro i
          by_cases hik : i = k
          · subst hik; simp only [upd_same, List.length_append]; have := h.lenOK i; omega
          · simp only [upd, hik, if_false]; exact h.lenOK i
        · intro i x hx
          by_cases hik : i = k
          · subst hik
            simp only [upd_same] at hx ⊢
            obtain ⟨h1, _⟩ := h.bounds i x hx
            refine ⟨h1, fun y hy => ?_⟩
            simp only [Option.some.injEq] at hy; subst hy
            exact ⟨h1, Nat.le_refl _⟩
          · simp only [upd, hik, if_false] at hx ⊢; exact h.bounds i x hx
        · intro i him
          have := h.mem i him
          by_cases hik : i = k
          · subst hik; simp only [upd_same]; exact ⟨this.1, Or.inr ⟨p, rest.erase i, rfl⟩⟩
          · simp only [upd, hik, if_false]
            refine ⟨this.1, ?_⟩
            rcases this.2 with e | ⟨p', rest', hf⟩
            · exact Or.inl e
            · exact absurd hf (hnf p' i rest')
        · intro i him hr
          by_cases hik : i = k
          · subst hik; exact absurd hk him
          · simp only [upd, hik, if_false] at hr ⊢; exact h.nonmem i him hr
        · intro p' i rest' hf
          simp only [JoePc.failed.injEq] at hf
          obtain ⟨_, rfl, _⟩ := hf
          simp
        · intro p' rest' hr
          simp only [restOf, Option.some.injEq, Prod.mk.injEq] at hr
          obtain ⟨rfl, rfl⟩ := hr
          refine ⟨hlast, fun i hie => ?_⟩
          have hik : i ≠ k := fun e => hkne (e ▸ hie)
          simp only [upd, hik, if_false]
          exact hcur i ((hmemE i hik).mp hie)
        · intro i
          by_cases hik : i = k
          · subst hik
            simp only [pendingFor, restOf, hkne, if_false, List.append_nil, expected, window, upd_same]
            have := livePubs_visit (s.subs i) p a b (h.lenOK i)
            simp only [livePubs] at this ⊢
            rw [this]
            simpa [expected, window, hendK, livePubs] using hmainK
          · have := h.main i
            simp only [pendingFor, restOf, hj, expected, window] at this
            simp only [pendingFor, restOf, expected, window, upd, hik, if_false]
            simp only [hmemE i hik]
            exact this
    · simp at hs
  · simp at hs


/-- registering a fresh subscription -/
theorem dinv_register {c : Cfg} {s : St} (hi : Inv s) (h : DInv c s) (i : SubId) (rc : List Call)
    (hpc : (s.subs i).pc = .start) (hj : s.joe = .idle) :
    DInv c { setSub s i { s.subs i with pc := .waiting, calls := (s.subs i).calls ++ rc, replayed := rc.length, regAt := some s.log.length, storeAt := s.store } with subscribers := i :: s.subscribers } := by
  obtain ⟨hcalls, hrep, hreg, hend⟩ := h.fresh i (Or.inr hpc)
  have hni : i ∉ s.subscribers := (hi.fresh i (Or.inr hpc)).2
  have hnf : ∀ p' k rest', s.joe ≠ .failed p' k rest' := by simp [hj]
  refine ⟨?_, ?_, ?_, ?_, ?_, by simp [setSub, hj], by simp [setSub, hj, restOf], ?_⟩
  · intro k hp
    by_cases hk : k = i
    · subst hk; simp [setSub] at hp
    · simp only [setSub, upd_other _ _ _ _ hk] at hp ⊢; exact h.fresh k hp
  · intro k
    by_cases hk : k = i
    · subst hk; simp [setSub, hcalls]
    · simp only [setSub, upd_other _ _ _ _ hk]; exact h.lenOK k
  · intro k x hx
    by_cases hk : k = i
    · subst hk
      simp only [setSub, upd_same, Option.some.injEq] at hx ⊢; subst hx
      exact ⟨Nat.le_refl _, fun y hy => by rw [hend] at hy; simp at hy⟩
    · simp only [setSub, upd_other _ _ _ _ hk] at hx ⊢; exact h.bounds k x hx
  · intro k hkm
    by_cases hk : k = i
    · subst hk; simp [setSub, hend]
    · have hkm' : k ∈ s.subscribers := by
        rcases List.mem_cons.mp hkm with e | e
        · exact absurd e hk
        · exact e
      simp only [setSub, upd_other _ _ _ _ hk]
      refine ⟨(h.mem k hkm').1, ?_⟩
      rcases (h.mem k hkm').2 with e | ⟨p', rest', hf⟩
      · exact Or.inl e
      · exact absurd hf (hnf p' k rest')
  · intro k hkm hr
    have hk : k ≠ i := fun e => hkm (by simp [e])
    have hkm' : k ∉ s.subscribers := fun e => hkm (by simp [e])
    simp only [setSub, upd_other _ _ _ _ hk] at hr ⊢; exact h.nonmem k hkm' hr
  · intro k
    by_cases hk : k = i
    · subst hk
      simp [livePubs, pendingFor, restOf, expected, window, setSub, hj, hcalls, hend]
    · have := h.main k
      simp only [pendingFor, restOf, hj, expected, window] at this
      simp only [pendingFor, restOf, hj, expected, window, setSub, upd_other _ _ _ _ hk]
      exact this

theorem dinv_congr {c : Cfg} {s s' : St} (h : DInv c s) (hj : s'.joe = s.joe) (hs : s'.subscribers = s.subscribers)
    (hsub : s'.subs = s.subs) (hlog : s'.log = s.log) : DInv c s' :=
  dinv_frame h hj hs hlog (fun k => by rw [hsub]; exact ⟨rfl, rfl, rfl, rfl⟩) (fun k hk => by rw [hsub] at hk; exact hk)

theorem step_dinv_subAccept {c : Cfg} {s s' : St} (hi : Inv s) (h : DInv c s) (i : SubId) (rc : List Call) (o : ROutcome)
    (hs : step c s (.subAccept i rc o) = some s') : DInv c s' := by
  simp only [step] at hs
  split at hs
  · rename_i hg
    obtain ⟨hpc, hj⟩ := hg
    obtain ⟨hcalls, hrep, hreg, hend⟩ := h.fresh i (Or.inr hpc)
    obtain ⟨hch0, hni⟩ := hi.fresh i (Or.inr hpc)
    split at hs
    · cases o with
      | ok =>
        simp only [Option.some.injEq] at hs; subst hs
        exact dinv_register hi h i rc hpc hj
      | panic =>
        simp only [Option.some.injEq] at hs; subst hs
        exact dinv_congr (dinv_register hi h i rc hpc hj) rfl rfl rfl rfl
      | err =>
        simp only [Option.some.injEq] at hs; subst hs
        simp only [sendChan, closeChan, setSub, upd_same, hch0]
        simp only [Bool.false_eq_true, if_false, Option.isSome_none, upd_same]
        refine ⟨?_, ?_, ?_, ?_, ?_, by simp [hj], ?_, ?_⟩
        · intro k hp
          by_cases hk : k = i
          · subst hk; simp [upd] at hp
          · simp only [upd, hk, if_false] at hp ⊢; exact h.fresh k hp
        · intro k
          by_cases hk : k = i
          · subst hk; simp [upd, hcalls]
          · simp only [upd, hk, if_false]; exact h.lenOK k
        · intro k x hx
          by_cases hk : k = i
          · subst hk; simp [upd, hreg] at hx
          · simp only [upd, hk, if_false] at hx ⊢; exact h.bounds k x hx
        · intro k hkm
          have hk : k ≠ i := fun e => hni (e ▸ hkm)
          simp only [upd, hk, if_false]; exact h.mem k hkm
        · intro k hkm hr
          by_cases hk : k = i
          · subst hk; simp [upd, hreg] at hr
          · simp only [upd, hk, if_false] at hr ⊢; exact h.nonmem k hkm hr
        · intro p rest hr
          simp [hj, restOf] at hr
        · intro k
          by_cases hk : k = i
          · subst hk
            simp [livePubs, pendingFor, restOf, expected, window, hj, hcalls, hreg, upd]
          · have := h.main k
            simp only [pendingFor, restOf, hj, expected, window] at this
            simp only [pendingFor, restOf, hj, expected, window, upd, hk, if_false]
            exact this
    · split at hs
      · rename_i hg2
        simp only [Option.some.injEq] at hs; subst hs
        exact dinv_register hi h i rc hpc hj
      · simp at hs
  · simp at hs


@[simp] theorem closedSub_replayed (st : SubSt) (n : Nat) : (closedSub st n).replayed = st.replayed := rfl
@[simp] theorem closedSub_regAt (st : SubSt) (n : Nat) : (closedSub st n).regAt = st.regAt := rfl
@[simp] theorem closedSub_endAt (st : SubSt) (n : Nat) : (closedSub st n).endAt = st.endAt.or (some n) := rfl

/-- removing a subscriber while the loop is idle -/
theorem dinv_remove_idle {c : Cfg} {s : St} (hi : Inv s) (h : DInv c s) (hj : s.joe = .idle) (i : SubId) :
    DInv c (removeSubscriber s i) := by
  by_cases him : i ∈ s.subscribers
  · have hc := (hi.reg i him).1
    have hnf : ∀ p' k rest', s.joe ≠ .failed p' k rest' := by simp [hj]
    have hendI : (s.subs i).endAt = none := by
      rcases (h.mem i him).2 with e | ⟨p', rest', hf⟩
      · exact e
      · exact absurd hf (hnf p' i rest')
    have hpcI : ¬ ((s.subs i).pc = .idle ∨ (s.subs i).pc = .start) := fun hp => (hi.fresh i hp).2 him
    rw [remove_mem i him hc]
    refine ⟨?_, ?_, ?_, ?_, ?_, by simp [hj], by simp [hj, restOf], ?_⟩
    · intro k hp
      by_cases hk : k = i
      · subst hk; simp only [upd_same, closedSub_pc] at hp; exact absurd hp hpcI
      · simp only [upd_other _ _ _ _ hk] at hp ⊢; exact h.fresh k hp
    · intro k
      by_cases hk : k = i
      · subst hk; simp only [upd_same, closedSub_calls, closedSub_replayed]; exact h.lenOK k
      · simp only [upd_other _ _ _ _ hk]; exact h.lenOK k
    · intro k x hx
      by_cases hk : k = i
      · subst hk
        simp only [upd_same, closedSub_regAt, closedSub_endAt, hendI] at hx ⊢
        obtain ⟨h1, _⟩ := h.bounds k x hx
        refine ⟨h1, fun y hy => ?_⟩
        simp at hy; subst hy; exact ⟨h1, Nat.le_refl _⟩
      · simp only [upd_other _ _ _ _ hk] at hx ⊢; exact h.bounds k x hx
    · intro k hkm
      have hkm' : k ∈ s.subscribers := List.mem_of_mem_erase hkm
      have hk : k ≠ i := by intro e; subst e; exact (List.Nodup.not_mem_erase hi.nodup) hkm
      simp only [upd_other _ _ _ _ hk]
      exact h.mem k hkm'
    · intro k hkm hr
      by_cases hk : k = i
      · subst hk; simp [hendI]
      · simp only [upd_other _ _ _ _ hk] at hr ⊢
        exact h.nonmem k (fun e => hkm ((List.mem_erase_of_ne hk).mpr e)) hr
    · intro k
      have := h.main k
      simp only [pendingFor, restOf, hj, expected, window] at this
      by_cases hk : k = i
      · subst hk
        simp only [pendingFor, restOf, hj, expected, window, upd_same, closedSub_regAt, closedSub_endAt, hendI, livePubs,
          closedSub_calls, closedSub_replayed]
        simpa [hendI, livePubs] using this
      · simp only [pendingFor, restOf, hj, expected, window, upd_other _ _ _ _ hk]; exact this
  · rw [remove_not_mem i him]; exact h

theorem dinv_closeAll {c : Cfg} {s : St} (hi : Inv s) (h : DInv c s) (hj : s.joe = .idle) (l : List SubId) :
    DInv c (closeAll l s) := by
  induction l generalizing s with
  | nil => exact h
  | cons i is ih =>
    obtain ⟨h1, hj1, _, _⟩ := inv_remove_idle hi hj i
    exact ih h1 (dinv_remove_idle hi h hj i) hj1

theorem closeAll_log (l : List SubId) (s : St) : (closeAll l s).log = s.log := by
  induction l generalizing s with
  | nil => rfl
  | cons i is ih =>
    show (closeAll is (removeSubscriber s i)).log = _
    rw [ih]
    unfold removeSubscriber closeChan
    split
    · split <;> simp [setSub]
    · rfl


theorem step_dinv_fanRemove {c : Cfg} {s s' : St} (hi : Inv s) (h : DInv c s)
    (hs : step c s .fanRemove = some s') : DInv c s' := by
  simp only [step] at hs
  split at hs
  · rename_i p i rest hj
    obtain ⟨him, hnd, hsub, hni⟩ := hi.fail p i rest hj
    have hc := (hi.reg i him).1
    obtain ⟨_, hnb⟩ := inv_fanRemove hi hj
    simp only [Bool.not_eq_true] at hnb
    simp only [Option.some.injEq] at hs; subst hs
    simp only [hnb, Bool.false_eq_true, if_false]
    have hendI : (s.subs i).endAt ≠ none := h.failedEnd p i rest hj
    obtain ⟨e, he⟩ := Option.ne_none_iff_exists'.mp hendI
    have hpcI : ¬ ((s.subs i).pc = .idle ∨ (s.subs i).pc = .start) := fun hp => (hi.fresh i hp).2 him
    obtain ⟨hlast, hcur⟩ := h.cur p rest (by simp [restOf, hj])
    rw [remove_mem i him hc]
    refine ⟨?_, ?_, ?_, ?_, ?_, by simp, ?_, ?_⟩
    · intro k hp
      by_cases hk : k = i
      · subst hk; simp only [upd_same, closedSub_pc] at hp; exact absurd hp hpcI
      · simp only [upd_other _ _ _ _ hk] at hp ⊢; exact h.fresh k hp
    · intro k
      by_cases hk : k = i
      · subst hk; simp only [upd_same, closedSub_calls, closedSub_replayed]; exact h.lenOK k
      · simp only [upd_other _ _ _ _ hk]; exact h.lenOK k
    · intro k x hx
      by_cases hk : k = i
      · subst hk
        simp only [upd_same, closedSub_regAt, closedSub_endAt, he, Option.or_some] at hx ⊢
        have := h.bounds k x hx
        rw [he] at this
        simpa using this
      · simp only [upd_other _ _ _ _ hk] at hx ⊢; exact h.bounds k x hx
    · intro k hkm
      have hkm' : k ∈ s.subscribers := List.mem_of_mem_erase hkm
      have hk : k ≠ i := by intro e'; subst e'; exact (List.Nodup.not_mem_erase hi.nodup) hkm
      simp only [upd_other _ _ _ _ hk]
      refine ⟨(h.mem k hkm').1, ?_⟩
      rcases (h.mem k hkm').2 with e' | ⟨p', rest', hf⟩
      · exact Or.inl e'
      · rw [hj] at hf; injection hf with _ e' _; exact absurd e'.symm hk
    · intro k hkm hr
      by_cases hk : k = i
      · subst hk; simp [he]
      · simp only [upd_other _ _ _ _ hk] at hr ⊢
        exact h.nonmem k (fun e' => hkm ((List.mem_erase_of_ne hk).mpr e')) hr
    · intro p' rest' hr
      simp only [restOf, Option.some.injEq, Prod.mk.injEq] at hr
      obtain ⟨rfl, rfl⟩ := hr
      refine ⟨hlast, fun k hk => ?_⟩
      have hki : k ≠ i := fun e' => hni (e' ▸ hk)
      simp only [upd_other _ _ _ _ hki]; exact hcur k hk
    · intro k
      have := h.main k
      simp only [pendingFor, restOf, hj, expected, window] at this
      by_cases hk : k = i
      · subst hk
        simp only [pendingFor, restOf, expected, window, upd_same, closedSub_regAt, closedSub_endAt, he, Option.or_some, livePubs,
          closedSub_calls, closedSub_replayed]
        simpa [he, livePubs] using this
      · simp only [pendingFor, restOf, expected, window, upd_other _ _ _ _ hk]; exact this
  · simp at hs

theorem ghostEq_refl (a : SubSt) : GhostEq a a := ⟨rfl, rfl, rfl, rfl⟩

/-- every transition preserves the delivery invariant -/
theorem step_dinv {c : Cfg} {s s' : St} (hi : Inv s) (h : DInv c s) (l : Label) (hs : step c s l = some s') : DInv c s' := by
  have frameSub : ∀ (k : SubId) (st : SubSt), GhostEq st (s.subs k) →
      ((st.pc = .idle ∨ st.pc = .start) → ((s.subs k).pc = .idle ∨ (s.subs k).pc = .start)) →
      DInv c (setSub s k st) := by
    intro k st hg hp
    refine dinv_frame h rfl rfl rfl (fun j => ?_) (fun j hjp => ?_)
    · by_cases hjk : j = k
      · subst hjk; simpa [setSub] using hg
      · simp only [setSub, upd_other _ _ _ _ hjk]; exact ghostEq_refl _
    · by_cases hjk : j = k
      · subst hjk; simp only [setSub, upd_same] at hjp; exact hp hjp
      · simpa only [setSub, upd_other _ _ _ _ hjk] using hjp
  cases l with
  | subCall k =>
    simp only [step] at hs; split at hs <;> simp at hs; subst hs
    rename_i hpc
    exact frameSub k _ ⟨rfl, rfl, rfl, rfl⟩ (fun _ => Or.inl hpc)
  | subAccept k rc o => exact step_dinv_subAccept hi h k rc o hs
  | subClosedEarly k =>
    simp only [step] at hs; split at hs <;> simp at hs; subst hs
    exact frameSub k _ ⟨rfl, rfl, rfl, rfl⟩ (by simp)
  | subSeeCancel k =>
    simp only [step] at hs; split at hs <;> simp at hs; subst hs
    exact frameSub k _ ⟨rfl, rfl, rfl, rfl⟩ (by simp)
  | subRecv k =>
    simp only [step] at hs
    split at hs
    · split at hs
      · simp only [Option.some.injEq] at hs; subst hs
        exact frameSub k _ ⟨rfl, rfl, rfl, rfl⟩ (by simp)
      · split at hs
        · simp only [Option.some.injEq] at hs; subst hs
          exact frameSub k _ ⟨rfl, rfl, rfl, rfl⟩ (by simp)
        · simp at hs
    · simp at hs
  | unsubAccept k =>
    simp only [step] at hs; split at hs <;> simp at hs; subst hs
    rename_i hg
    have h1 := dinv_remove_idle hi h hg.2 k
    refine dinv_frame h1 rfl rfl rfl (fun j => ?_) (fun j hjp => ?_)
    · by_cases hjk : j = k
      · subst hjk; simp only [setSub, upd_same]; exact ⟨rfl, rfl, rfl, rfl⟩
      · simp only [setSub, upd_other _ _ _ _ hjk]; exact ghostEq_refl _
    · by_cases hjk : j = k
      · subst hjk; simp [setSub] at hjp
      · simpa only [setSub, upd_other _ _ _ _ hjk] using hjp
  | cancel k =>
    simp only [step] at hs; split at hs <;> simp at hs; subst hs
    exact frameSub k _ ⟨rfl, rfl, rfl, rfl⟩ (fun x => x)
  | pubCall p =>
    simp only [step] at hs; split at hs <;> simp at hs; subst hs
    exact dinv_congr h rfl rfl rfl rfl
  | pubNoTopic p =>
    simp only [step] at hs; split at hs <;> simp at hs; subst hs
    exact dinv_congr h rfl rfl rfl rfl
  | pubAccept p o => exact step_dinv_pubAccept hi h p o hs
  | pubClosedEarly p =>
    simp only [step] at hs; split at hs <;> simp at hs; subst hs
    exact dinv_congr h rfl rfl rfl rfl
  | pubRecv p =>
    simp only [step] at hs; split at hs <;> simp at hs; subst hs
    exact dinv_congr h rfl rfl rfl rfl
  | fanStep k a b => exact step_dinv_fanStep hi h k a b hs
  | fanRemove => exact step_dinv_fanRemove hi h hs
  | fanDone =>
    simp only [step] at hs
    split at hs
    · rename_i p hj
      simp only [Option.some.injEq] at hs; subst hs
      have hnf : ∀ p' k rest', s.joe ≠ .failed p' k rest' := by simp [hj]
      refine ⟨h.fresh, h.lenOK, h.bounds, ?_, h.nonmem, by simp, by simp [restOf], ?_⟩
      · intro k hk
        refine ⟨(h.mem k hk).1, ?_⟩
        rcases (h.mem k hk).2 with e | ⟨p', rest', hf⟩
        · exact Or.inl e
        · exact absurd hf (hnf p' k rest')
      · intro k
        have := h.main k
        simp only [pendingFor, restOf, hj, List.not_mem_nil, if_false] at this
        simpa [pendingFor, restOf, expected, window] using this
    · simp at hs
  | loopExit =>
    simp only [step] at hs
    split at hs
    · rename_i hg
      simp only [Option.some.injEq] at hs; subst hs
      obtain ⟨h1, hj1, _⟩ := inv_closeAll hi hg.1 s.subscribers
      have hd1 := dinv_closeAll hi h hg.1 s.subscribers
      have hnb : bad (closeAll s.subscribers s) = false := by simp [bad, hj1]
      simp only [hnb, Bool.false_eq_true, if_false]
      have hnf : ∀ p' k rest', (closeAll s.subscribers s).joe ≠ .failed p' k rest' := by simp [hj1]
      refine ⟨hd1.fresh, hd1.lenOK, hd1.bounds, ?_, hd1.nonmem, by simp, by simp [restOf], ?_⟩
      · intro k hk
        refine ⟨(hd1.mem k hk).1, ?_⟩
        rcases (hd1.mem k hk).2 with e | ⟨p', rest', hf⟩
        · exact Or.inl e
        · exact absurd hf (hnf p' k rest')
      · intro k
        have := hd1.main k
        simp only [pendingFor, restOf, hj1] at this
        simpa [pendingFor, restOf, expected, window] using this
    · simp at hs
  | shutCall k =>
    simp only [step] at hs; split at hs <;> simp at hs; subst hs
    exact dinv_congr h rfl rfl rfl rfl
  | shutClose k =>
    simp only [step] at hs; split at hs <;> simp at hs; subst hs
    exact dinv_congr h rfl rfl rfl rfl
  | shutRecovered k =>
    simp only [step] at hs; split at hs <;> simp at hs; subst hs
    exact dinv_congr h rfl rfl rfl rfl
  | shutSeeClosed k =>
    simp only [step] at hs; split at hs <;> simp at hs; subst hs
    exact dinv_congr h rfl rfl rfl rfl
  | shutCtx k =>
    simp only [step] at hs; split at hs <;> simp at hs; subst hs
    exact dinv_congr h rfl rfl rfl rfl
  | shutCancel k =>
    simp only [step] at hs; split at hs <;> simp at hs; subst hs
    exact dinv_congr h rfl rfl rfl rfl

theorem reachable_dinv {c : Cfg} {s : St} (h : Reachable c s) : Inv s ∧ DInv c s := by
  induction h with
  | init hi => exact ⟨inv_init hi, dinv_init hi⟩
  | step _ hs ih => exact ⟨step_inv ih.1 _ hs, step_dinv ih.1 ih.2 _ hs⟩

end GoSSE.Proofs.Joe
