import GoSSE.Proofs.MessageLines
import GoSSE.Proofs.MessageWrite
/-!
Helper lemmas for C02: the wire form of well-formed messages is a sequence of LF-terminated,
CR/LF-free lines; the WHATWG splitter recovers exactly those lines; the WHATWG interpreter,
run over them, yields the expected events.
-/
namespace GoSSE.Proofs
open GoSSE GoSSE.Spec GoSSE.Model

/-! ### well-formed messages and what they describe -/

/-- what every message built through the public API satisfies -/
structure WF (m : Message) : Prop where
  chunks : ∀ c ∈ m.chunks, NlFree c.content
  id : m.id.set = true → NlFree m.id.value
  typ : m.typ.set = true → NlFree m.typ.value
  retry : RetryOK m

def dataOf (cs : List Chunk) : List Bytes := (cs.filter fun c => !c.isComment).map (·.content)

/-- the client-visible description of a message value -/
def builtOf (m : Message) : Built :=
  { id := if m.id.set then some m.id.value else none,
    typ := if m.typ.set then some m.typ.value else none,
    dataLines := dataOf m.chunks }

def chunkLine (c : Chunk) : Bytes := (if c.isComment then fieldBytesComment else fieldBytesData) ++ c.content

/-- the field lines of the wire form (without terminators and without the closing blank line) -/
def lines (m : Message) : List Bytes :=
  (if m.id.set then [fieldBytesID ++ m.id.value] else []) ++
  (if m.typ.set then [fieldBytesEvent ++ m.typ.value] else []) ++
  (if m.millis ≤ 0 then [] else [fieldBytesRetry ++ (retryDigits m.millis.toNat).getD []]) ++
  m.chunks.map chunkLine

/-- all lines of the wire form -/
def msgLines (m : Message) : List Bytes := if (lines m).isEmpty then [] else lines m ++ [[]]

def term (ls : List Bytes) : Bytes := ls.flatMap (· ++ [10])

theorem term_append (a b : List Bytes) : term (a ++ b) = term a ++ term b := by simp [term]

theorem flatMap_fieldWrites (cs : List Chunk) :
    (cs.flatMap fun c => fieldWrites (if c.isComment then fieldBytesComment else fieldBytesData) c.content).flatten =
      term (cs.map chunkLine) := by
  induction cs with
  | nil => simp [term]
  | cons c cs ih =>
    simp only [List.flatMap_cons, List.flatten_append, ih, List.map_cons, term]
    simp [fieldWrites, chunkLine, newline]

theorem bodyWrites_flatten (m : Message) : m.bodyWrites.flatten = term (lines m) := by
  unfold Message.bodyWrites lines
  simp only [List.flatten_append, term_append, flatMap_fieldWrites]
  congr 1
  · congr 1
    · congr 1
      · split <;> simp [fieldWrites, term, newline]
      · split <;> simp [fieldWrites, term, newline]
    · split <;> simp [fieldWrites, term, newline]

theorem bodyWrites_isEmpty (m : Message) : m.bodyWrites.isEmpty = (lines m).isEmpty := by
  unfold Message.bodyWrites lines
  by_cases h1 : m.id.set = true <;> by_cases h2 : m.typ.set = true <;> by_cases h3 : m.millis ≤ 0 <;>
    cases hc : m.chunks <;> simp [h1, h2, h3, fieldWrites]

/-- the wire form is the LF-terminated sequence of its lines -/
theorem encode_eq (m : Message) : m.encode = term (msgLines m) := by
  unfold Message.encode Message.writes msgLines
  rw [bodyWrites_isEmpty]
  by_cases h : (lines m).isEmpty = true
  · simp [h, term]
  · simp only [h, Bool.false_eq_true, if_false, List.flatten_append, bodyWrites_flatten, term_append]
    simp [term, newline]

/-! ### the splitter on LF-terminated lines -/

theorem splitLines_line (l rest acc : Bytes) (h : NlFree l) :
    splitLines (l ++ 10 :: rest) acc false =
      ((acc.reverse ++ l) :: (splitLines rest [] false).1, (splitLines rest [] false).2) := by
  induction l generalizing acc with
  | nil => simp [splitLines]
  | cons b t ih =>
    have hb := (nlFree_cons.1 h).1
    have h10 : (b == 10) = false := by simp [isNl] at hb; simp [hb.1]
    have h13 : (b == 13) = false := by simp [isNl] at hb; simp [hb.2]
    simp only [List.cons_append, splitLines, Bool.false_and, Bool.false_eq_true, if_false, h10, h13]
    rw [ih _ (nlFree_cons.1 h).2]
    simp

theorem splitLines_term (ls : List Bytes) (rest : Bytes) (h : ∀ l ∈ ls, NlFree l) :
    splitLines (term ls ++ rest) [] false =
      (ls ++ (splitLines rest [] false).1, (splitLines rest [] false).2) := by
  induction ls with
  | nil => simp [term]
  | cons l ls ih =>
    have hl := h l (List.mem_cons_self)
    have e : term (l :: ls) ++ rest = l ++ 10 :: (term ls ++ rest) := by simp [term]
    rw [e, splitLines_line l _ [] hl, ih (fun x hx => h x (List.mem_cons_of_mem _ hx))]
    simp

/-! ### lines of well-formed messages -/

theorem digits_nlFree (ds : Bytes) (h : ds.all isDigit = true) : NlFree ds := by
  intro b hb
  have := List.all_eq_true.1 h b hb
  simp only [isDigit, Bool.and_eq_true, decide_eq_true_eq] at this
  simp only [isNl, Bool.or_eq_false_iff, beq_eq_false_iff_ne]
  constructor
  · intro h'; subst h'; exact absurd this.1 (by decide)
  · intro h'; subst h'; exact absurd this.1 (by decide)

theorem retryDigits_nlFree (n : Nat) : NlFree ((retryDigits n).getD []) := by
  cases h : retryDigits n with
  | none => simp [nlFree_nil]
  | some ds =>
    rw [retryDigits_eq] at h
    exact digits_nlFree ds (accLoop_digits _ _ _ _ h (by simp))

theorem fieldBytes_nlFree : NlFree fieldBytesID ∧ NlFree fieldBytesEvent ∧ NlFree fieldBytesRetry ∧
    NlFree fieldBytesData ∧ NlFree fieldBytesComment := by
  refine ⟨?_, ?_, ?_, ?_, ?_⟩ <;> (intro b hb; revert b; decide)

theorem lines_nlFree (m : Message) (hm : WF m) : ∀ l ∈ lines m, NlFree l := by
  intro l hl
  have fb := fieldBytes_nlFree
  unfold lines at hl
  simp only [List.mem_append, List.mem_map] at hl
  rcases hl with ((hl | hl) | hl) | ⟨c, hc, rfl⟩
  · split at hl
    · simp at hl; subst hl; exact nlFree_append.2 ⟨fb.1, hm.id (by assumption)⟩
    · simp at hl
  · split at hl
    · simp at hl; subst hl; exact nlFree_append.2 ⟨fb.2.1, hm.typ (by assumption)⟩
    · simp at hl
  · split at hl
    · simp at hl
    · simp at hl; subst hl; exact nlFree_append.2 ⟨fb.2.2.1, retryDigits_nlFree _⟩
  · unfold chunkLine
    split
    · exact nlFree_append.2 ⟨fb.2.2.2.2, hm.chunks c hc⟩
    · exact nlFree_append.2 ⟨fb.2.2.2.1, hm.chunks c hc⟩

theorem msgLines_nlFree (m : Message) (hm : WF m) : ∀ l ∈ msgLines m, NlFree l := by
  intro l hl
  unfold msgLines at hl
  split at hl
  · simp at hl
  · simp only [List.mem_append, List.mem_singleton] at hl
    rcases hl with hl | hl
    · exact lines_nlFree m hm l hl
    · subst hl; exact nlFree_nil

theorem flatMap_encode (ms : List Message) : ms.flatMap Message.encode = term (ms.flatMap msgLines) := by
  induction ms with
  | nil => simp [term]
  | cons m ms ih => simp only [List.flatMap_cons, ih, encode_eq, term_append]

/-- the splitter recovers exactly the lines, with nothing left over -/
theorem splitLines_flatMap_encode (ms : List Message) (h : ∀ m ∈ ms, WF m) :
    splitLines (ms.flatMap Message.encode) [] false = (ms.flatMap msgLines, []) := by
  rw [flatMap_encode]
  have := splitLines_term (ms.flatMap msgLines) [] (by
    intro l hl
    simp only [List.mem_flatMap] at hl
    obtain ⟨m, hm, hl⟩ := hl
    exact msgLines_nlFree m (h m hm) l hl)
  simpa [splitLines] using this

/-! ### no BOM at the start -/

theorem encode_head (m : Message) : m.encode = [] ∨ ∃ b t, m.encode = b :: t ∧ b ≠ 0xEF := by
  rw [encode_eq]
  unfold msgLines
  by_cases h : (lines m).isEmpty = true
  · simp [h, term]
  · right
    simp only [h, Bool.false_eq_true, if_false]
    unfold lines at h ⊢
    by_cases h1 : m.id.set = true
    · simp [h1, term, fieldBytesID, fId]
    · by_cases h2 : m.typ.set = true
      · simp [h1, h2, term, fieldBytesEvent, fEvent]
      · by_cases h3 : m.millis ≤ 0
        · cases hc : m.chunks with
          | nil => simp [h1, h2, h3, hc] at h
          | cons c cs =>
            by_cases hcm : c.isComment = true <;>
              simp [h1, h2, h3, hcm, term, chunkLine, fieldBytesComment, fieldBytesData, fData]
        · simp [h1, h2, h3, term, fieldBytesRetry, fRetry]

theorem stripBOM_flatMap_encode (ms : List Message) : stripBOM (ms.flatMap Message.encode) = ms.flatMap Message.encode := by
  induction ms with
  | nil => simp [stripBOM, bom, List.isPrefixOf]
  | cons m ms ih =>
    simp only [List.flatMap_cons]
    rcases encode_head m with h | ⟨b, t, h, hb⟩
    · rw [h]; simpa using ih
    · rw [h]
      simp only [stripBOM, bom, List.cons_append, List.isPrefixOf]
      have : ((0xEF : UInt8) == b) = false := by simp; exact fun h' => hb h'.symm
      simp [this]

/-! ### the interpreter on the lines of one message -/

theorem interp_append (mode : Mode) (conn : Bool) (st : IState) (a b : List Bytes) :
    interp mode conn st (a ++ b) =
      ((interp mode conn (interp mode conn st a).1 b).1,
       (interp mode conn st a).2 ++ (interp mode conn (interp mode conn st a).1 b).2) := by
  induction a generalizing st with
  | nil => simp [interp]
  | cons l ls ih => simp only [List.cons_append, interp, ih, List.append_assoc]

theorem interp_one (mode : Mode) (conn : Bool) (st : IState) (l : Bytes) :
    interp mode conn st [l] = procLine mode conn st l := by
  simp [interp]

theorem procLine_id (mode : Mode) (st : IState) (v : Bytes) :
    procLine mode false st (fieldBytesID ++ v) =
      (if v.contains 0 then st else { st with lastID := v, dirty := true }, []) := by
  have hp : parseLine (fieldBytesID ++ v) = some (fId, v) := by
    simp [parseLine, fieldBytesID, fId, List.span, List.span.loop, dropOneSpace]
  have h1 : (fId == fData) = false := by decide
  have h2 : (fId == fEvent) = false := by decide
  unfold procLine
  rw [hp]
  simp only [h1, h2, Bool.false_eq_true, if_false, beq_self_eq_true, if_true]
  have : (fieldBytesID ++ v).isEmpty = false := by simp [fieldBytesID, fId]
  simp only [this, Bool.false_eq_true, if_false]
  split <;> simp_all

theorem procLine_event (mode : Mode) (st : IState) (v : Bytes) :
    procLine mode false st (fieldBytesEvent ++ v) = ({ st with typ := v, dirty := true }, []) := by
  have hp : parseLine (fieldBytesEvent ++ v) = some (fEvent, v) := by
    simp [parseLine, fieldBytesEvent, fEvent, List.span, List.span.loop, dropOneSpace]
  have h1 : (fEvent == fData) = false := by decide
  unfold procLine
  rw [hp]
  have : (fieldBytesEvent ++ v).isEmpty = false := by simp [fieldBytesEvent, fEvent]
  simp [this, h1]

theorem procLine_data (mode : Mode) (st : IState) (v : Bytes) :
    procLine mode false st (fieldBytesData ++ v) = ({ st with data := st.data ++ v ++ [10], dirty := true }, []) := by
  have hp : parseLine (fieldBytesData ++ v) = some (fData, v) := by
    simp [parseLine, fieldBytesData, fData, List.span, List.span.loop, dropOneSpace]
  unfold procLine
  rw [hp]
  have : (fieldBytesData ++ v).isEmpty = false := by simp [fieldBytesData, fData]
  simp [this]

theorem procLine_comment (mode : Mode) (st : IState) (v : Bytes) :
    procLine mode false st (fieldBytesComment ++ v) = (st, []) := by
  have hp : parseLine (fieldBytesComment ++ v) = none := by
    simp [parseLine, fieldBytesComment, List.span, List.span.loop]
  unfold procLine
  rw [hp]
  have : (fieldBytesComment ++ v).isEmpty = false := by simp [fieldBytesComment]
  simp [this]

theorem procLine_retry (mode : Mode) (st : IState) (v : Bytes) :
    procLine mode false st (fieldBytesRetry ++ v) = (st, []) := by
  have hp : parseLine (fieldBytesRetry ++ v) = some (fRetry, v) := by
    simp [parseLine, fieldBytesRetry, fRetry, List.span, List.span.loop, dropOneSpace]
  have h1 : (fRetry == fData) = false := by decide
  have h2 : (fRetry == fEvent) = false := by decide
  have h3 : (fRetry == fId) = false := by decide
  unfold procLine
  rw [hp]
  have : (fieldBytesRetry ++ v).isEmpty = false := by simp [fieldBytesRetry, fRetry]
  simp only [this, h1, h2, h3, Bool.false_eq_true, if_false, beq_self_eq_true, if_true]
  cases retryVal v <;> simp

theorem interp_chunks (mode : Mode) (st : IState) (cs : List Chunk) :
    interp mode false st (cs.map chunkLine) =
      ({ st with data := st.data ++ term (dataOf cs), dirty := st.dirty || !(dataOf cs).isEmpty }, []) := by
  induction cs generalizing st with
  | nil => simp [interp, dataOf, term]
  | cons c cs ih =>
    simp only [List.map_cons, interp]
    by_cases hc : c.isComment = true
    · simp only [chunkLine, hc, if_true, procLine_comment, ih, List.nil_append]
      simp [dataOf, hc]
    · simp only [chunkLine, hc, Bool.false_eq_true, if_false, procLine_data, ih, List.nil_append]
      simp [dataOf, hc, term, List.append_assoc]

theorem term_dropLast (ls : List Bytes) : (term ls).dropLast = joinLF ls := by
  induction ls with
  | nil => simp [term, joinLF]
  | cons l ls ih =>
    cases ls with
    | nil => simp [term, joinLF]
    | cons l2 ls2 =>
      have hne : term (l2 :: ls2) ≠ [] := by simp [term]
      have : term (l :: l2 :: ls2) = (l ++ [10]) ++ term (l2 :: ls2) := by simp [term]
      rw [this, List.dropLast_append_of_ne_nil hne, ih]
      simp [joinLF]

theorem term_isEmpty (ls : List Bytes) : (term ls).isEmpty = ls.isEmpty := by
  cases ls <;> simp [term]

/-- the state a clean interpreter is in -/
def clean (id : Bytes) : IState := { lastID := id }

/-- one message, from a clean interpreter: at most one event, as `expected` says, and clean again -/
theorem interp_msgLines (mode : Mode) (id₀ : Bytes) (m : Message) :
    interp mode false (clean id₀) (msgLines m) =
      (clean ((builtOf m).effID.getD id₀), expected mode id₀ [builtOf m]) := by
  unfold msgLines
  by_cases he : (lines m).isEmpty = true
  · -- nothing on the wire: nothing set
    simp only [he, if_true, interp]
    unfold lines at he
    have h1 : m.id.set = false := by
      cases h : m.id.set with
      | false => rfl
      | true => simp [h] at he
    have h2 : m.typ.set = false := by
      cases h : m.typ.set with
      | false => rfl
      | true => simp [h] at he
    have h4 : m.chunks = [] := by
      cases h : m.chunks with
      | nil => rfl
      | cons c cs => simp [h] at he
    have hd0 : dataOf [] = [] := rfl
    simp [expected, builtOf, Built.effID, Built.dispatches, h1, h2, h4]
    cases mode <;> simp [hd0]
  · simp only [he, Bool.false_eq_true, if_false]
    unfold lines
    simp only [interp_append, interp_one]
    -- ID
    have e1 : interp mode false (clean id₀) (if m.id.set then [fieldBytesID ++ m.id.value] else []) =
        (if m.id.set && !m.id.value.contains 0 then { clean id₀ with lastID := m.id.value, dirty := true } else clean id₀, []) := by
      by_cases h : m.id.set = true
      · simp only [h, if_true, interp_one, procLine_id, Bool.true_and]
        by_cases hz : m.id.value.contains 0 = true <;> simp [hz]
      · simp [h, interp]
    rw [e1]
    simp only [List.nil_append]
    generalize hs1 : (if m.id.set && !m.id.value.contains 0 then { clean id₀ with lastID := m.id.value, dirty := true } else clean id₀) = s1
    have e2 : interp mode false s1 (if m.typ.set then [fieldBytesEvent ++ m.typ.value] else []) =
        (if m.typ.set then { s1 with typ := m.typ.value, dirty := true } else s1, []) := by
      by_cases h : m.typ.set = true
      · simp [h, interp_one, procLine_event]
      · simp [h, interp]
    rw [e2]
    simp only [List.nil_append]
    generalize hs2 : (if m.typ.set then { s1 with typ := m.typ.value, dirty := true } else s1) = s2
    have e3 : interp mode false s2 (if m.millis ≤ 0 then [] else [fieldBytesRetry ++ (retryDigits m.millis.toNat).getD []]) = (s2, []) := by
      by_cases h : m.millis ≤ 0
      · simp [h, interp]
      · simp [h, interp_one, procLine_retry]
    rw [e3, interp_chunks]
    simp only [List.nil_append]
    -- the closing blank line
    simp only [procLine, List.isEmpty_nil, if_true]
    subst hs2 hs1
    clear e1 e2 e3
    by_cases hi : m.id.set = true <;> by_cases hz : (0 : Byte) ∈ m.id.value <;>
      by_cases ht : m.typ.set = true <;> cases hdl : (dataOf m.chunks) <;> cases mode <;>
      simp [hi, hz, ht, hdl, clean, dispatchable, mkEvent, expected, builtOf, Built.effID, Built.dispatches,
        term_dropLast, term_isEmpty] <;>
      try simp [term]

theorem expected_cons (mode : Mode) (id₀ : Bytes) (b : Built) (bs : List Built) :
    expected mode id₀ (b :: bs) = expected mode id₀ [b] ++ expected mode (b.effID.getD id₀) bs := by
  simp [expected]

/-- any sequence of messages, from a clean interpreter -/
theorem interp_flatMap_msgLines (mode : Mode) (id₀ : Bytes) (ms : List Message) :
    ∃ id', interp mode false (clean id₀) (ms.flatMap msgLines) = (clean id', expected mode id₀ (ms.map builtOf)) := by
  induction ms generalizing id₀ with
  | nil => exact ⟨id₀, by simp [interp, expected]⟩
  | cons m ms ih =>
    obtain ⟨id', h⟩ := ih ((builtOf m).effID.getD id₀)
    refine ⟨id', ?_⟩
    simp only [List.flatMap_cons, interp_append, interp_msgLines, h, List.map_cons]
    simp [expected]

/-- message level form of C02's headline -/
theorem run_flatMap_encode (mode : Mode) (id₀ : Bytes) (ms : List Message) (h : ∀ m ∈ ms, WF m) :
    Spec.run mode false id₀ (ms.flatMap Message.encode) .eof = (expected mode id₀ (ms.map builtOf), .clean) := by
  unfold Spec.run
  rw [stripBOM_flatMap_encode, splitLines_flatMap_encode ms h]
  obtain ⟨id', hi⟩ := interp_flatMap_msgLines mode id₀ ms
  have : ({ lastID := id₀ } : IState) = clean id₀ := rfl
  simp only [this, hi]
  cases mode <;> simp [clean, dispatchable]

end GoSSE.Proofs
