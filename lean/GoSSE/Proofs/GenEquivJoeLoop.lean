import GoSSE.Gen.JoeLoop
import GoSSE.Proofs.GenEquiv
/-!
# Joe's loop, the parts that touch the subscribers, as translated from joe.go

`removeSubscriber`, `closeSubscribers` and the fan-out of a published message (the `range` statement of `start`'s
message case, translated as a definition of its own, `Gen.Joe_fanout`). In the translated text a channel is a number
and what is done to it is appended to the log the `Joe` value carries (`chlog`); the map of subscribers is an
association list and the order in which a `range` visits its keys is a parameter (`order`: any list — a key that is no
longer in the map when its turn comes is skipped, as Go does); a subscriber's `MessageWriter` is a state and what `Send`
and `Flush` answer (`GoRT.MsgWriter`), written back to the map entry after every call (the writer is an object every
copy of the `Subscription` refers to).

Each translated loop is the fold of a one-key step (`removeSpec`, `fanStep`); the properties of the folds are proved in
`Props/C03.lean`, `C17.lean`.
-/
set_option linter.unusedSimpArgs false
set_option linter.unusedVariables false
namespace GoSSE.GenEquiv
open GoSSE GoSSE.GoRT GoSSE.Model

variable {σ : Type}

/-- `removeSubscriber`: a registered subscriber is taken out of the map and its channel closed; anything else is left alone -/
def removeSpec (j : Gen.Joe σ) (k : Nat) : Gen.Joe σ :=
  if (mapGet j.subscribers k).isSome then
    { j with subscribers := mapDel j.subscribers k, chlog := j.chlog ++ [ChanOp.close k] }
  else j

theorem removeSubscriber_eq (fuel : Nat) (j : Gen.Joe σ) (k : Nat) :
    Gen.Joe_removeSubscriber fuel j k = .ok (removeSpec j k) := by
  unfold Gen.Joe_removeSubscriber removeSpec
  cases h : (mapGet j.subscribers k).isSome <;> simp [h, pure, Except.pure]

theorem idx_mid {α} [Inhabited α] (pre suf : List α) (k : α) :
    idx (pre ++ k :: suf) (pre.length : Int) = .ok k := by
  rw [idx_ok (pre ++ k :: suf) pre.length (by simp)]
  simp

theorem lt_len_mid {α} (pre suf : List α) (k : α) : ((pre.length : Int) < len (pre ++ k :: suf)) := by
  simp [len]; omega

theorem not_lt_len_end {α} (pre : List α) : ¬ ((pre.length : Int) < len pre) := by
  simp [len]

theorem cast_succ (n : Nat) : ((n : Int) + 1) = ((n + 1 : Nat) : Int) := by omega

/-- one round of `closeSubscribers`' loop at a key -/
theorem close_body (fuel : Nat) (pre suf : List Nat) (k : Nat) (j : Gen.Joe σ) :
    Gen.Joe_closeSubscribers_loop1 fuel (pre ++ k :: suf) ((pre.length : Int), j) =
      .ok (.next (((pre.length + 1 : Nat) : Int), removeSpec j k)) := by
  unfold Gen.Joe_closeSubscribers_loop1
  simp only [lt_len_mid pre suf k, if_true, bind, Except.bind, idx_mid pre suf k, removeSubscriber_eq, cast_succ]
  cases h : mapGet j.subscribers k with
  | none => simp [removeSpec, h, pure, Except.pure]
  | some v => simp [h, pure, Except.pure]

/-- … and past the last key -/
theorem close_body_end (fuel : Nat) (xs : List Nat) (j : Gen.Joe σ) :
    Gen.Joe_closeSubscribers_loop1 fuel xs ((xs.length : Int), j) = .ok (.brk ((xs.length : Int), j)) := by
  unfold Gen.Joe_closeSubscribers_loop1
  simp [not_lt_len_end xs, pure, Except.pure]

/-- the loop of `closeSubscribers` from position `pre.length` on: the fold of `removeSpec` over the keys still to come -/
theorem closeLoop_eq (fuel : Nat) (xs : List Nat) : ∀ (suf pre : List Nat) (j : Gen.Joe σ) (n : Nat), xs = pre ++ suf → suf.length < n →
    loopM (Gen.Joe_closeSubscribers_loop1 fuel xs) n ((pre.length : Int), j) =
      .ok (.inl ((xs.length : Int), suf.foldl removeSpec j)) := by
  intro suf
  induction suf with
  | nil =>
    intro pre j n hx hn
    obtain ⟨n', rfl⟩ : ∃ n', n = n' + 1 := ⟨n - 1, by omega⟩
    have hx' : xs = pre := by simpa using hx
    subst hx'
    simp only [loopM, close_body_end, List.foldl_nil]
    rfl
  | cons k suf ih =>
    intro pre j n hx hn
    obtain ⟨n', rfl⟩ : ∃ n', n = n' + 1 := ⟨n - 1, by omega⟩
    have hn' : suf.length < n' := by simp at hn; omega
    have hrec := ih (pre ++ [k]) (removeSpec j k) n' (by simp [hx]) hn'
    simp only [List.length_append, List.length_cons, List.length_nil, Nat.zero_add] at hrec
    subst hx
    simp only [loopM, close_body, List.foldl_cons]
    exact hrec

/-- **`closeSubscribers` as translated**: whatever the order the map is ranged over, the fold of `removeSpec` over it -/
theorem closeSubscribers_eq (fuel : Nat) (j : Gen.Joe σ) (order : List Nat) (hf : order.length < fuel) :
    Gen.Joe_closeSubscribers fuel j order = .ok (order.foldl removeSpec j) := by
  unfold Gen.Joe_closeSubscribers
  have h := closeLoop_eq fuel order order [] j fuel (by simp) hf
  simp only [List.length_nil] at h
  have h0 : ((0 : Nat) : Int) = (0 : Int) := rfl
  rw [h0] at h
  simp only [bind, Except.bind, h, pure, Except.pure]

/-! ## The fan-out -/

/-- the subscriber's error is put on its channel, then it is removed (and its channel closed) -/
def failSub (j : Gen.Joe σ) (k : Nat) (e : Option String) : Gen.Joe σ :=
  removeSpec { j with chlog := j.chlog ++ [ChanOp.send k e] } k

def setWriter (s : Gen.Subscription σ) (st : σ) : Gen.Subscription σ := { s with Client := { s.Client with st := st } }

/-- what the fan-out does when it comes to key `k`: nothing if `k` is no longer a subscriber or its topics do not meet
the message's; otherwise one `Send` and, if that succeeded, one `Flush`; the first error is handed over and the
subscriber removed -/
def fanStep (msg : Gen.publishedMessage) (j : Gen.Joe σ) (k : Nat) : Gen.Joe σ :=
  match mapGet j.subscribers k with
  | none => j
  | some sub =>
    if topicsIntersect sub.Topics msg.messageWithTopics.topics then
      let r1 := sub.Client.send sub.Client.st msg.messageWithTopics.message
      let sub1 := setWriter sub r1.2
      let j1 : Gen.Joe σ := { j with subscribers := mapSet j.subscribers k sub1 }
      match r1.1 with
      | some e => failSub j1 k (some e)
      | none =>
        let r2 := sub1.Client.flush r1.2
        let sub2 := setWriter sub1 r2.2
        let j2 : Gen.Joe σ := { j1 with subscribers := mapSet j1.subscribers k sub2 }
        match r2.1 with
        | some e => failSub j2 k (some e)
        | none => j2
    else j

/-- the topic lists are shorter than the fuel (the translated `topicsIntersect` is a loop) -/
def TopicsFit (fuel : Nat) (msg : Gen.publishedMessage) (j : Gen.Joe σ) : Prop :=
  msg.messageWithTopics.topics.length < fuel ∧ ∀ e ∈ j.subscribers, e.2.Topics.length < fuel

theorem mapGet_mem {κ ν : Type} [BEq κ] [LawfulBEq κ] (m : List (κ × ν)) (k : κ) (v : ν) (h : mapGet m k = some v) : (k, v) ∈ m := by
  unfold mapGet at h
  cases hf : m.find? (fun e => e.1 == k) with
  | none => simp [hf] at h
  | some e =>
    simp [hf] at h
    have hm := List.mem_of_find?_eq_some hf
    have hk := List.find?_some hf
    simp at hk
    subst h
    have : e = (k, e.2) := by cases e; simp at hk ⊢; exact hk
    rw [this] at hm; exact hm

theorem topicsFit_of_sub {fuel : Nat} {msg : Gen.publishedMessage} {j j' : Gen.Joe σ} (h : TopicsFit fuel msg j)
    (hs : ∀ e ∈ j'.subscribers, ∃ e' ∈ j.subscribers, e.2.Topics = e'.2.Topics) : TopicsFit fuel msg j' := by
  refine ⟨h.1, ?_⟩
  intro e he
  obtain ⟨e', he', ht⟩ := hs e he
  rw [ht]; exact h.2 e' he'

theorem mem_mapDel {κ ν : Type} [BEq κ] (m : List (κ × ν)) (k : κ) (e : κ × ν) (h : e ∈ mapDel m k) : e ∈ m := by
  unfold mapDel at h
  exact (List.mem_filter.1 h).1

theorem mem_mapSet_topics (m : List (Nat × Gen.Subscription σ)) (k : Nat) (v : Gen.Subscription σ) (sub : Gen.Subscription σ)
    (hk : (k, sub) ∈ m) (hv : v.Topics = sub.Topics) (e : Nat × Gen.Subscription σ) (h : e ∈ mapSet m k v) :
    ∃ e' ∈ m, e.2.Topics = e'.2.Topics := by
  unfold mapSet at h
  obtain ⟨e0, he0, rfl⟩ := List.mem_map.1 h
  by_cases hc : (e0.1 == k) = true
  · simp only [hc, if_true]
    exact ⟨(k, sub), hk, hv⟩
  · simp only [hc, if_false]
    exact ⟨e0, he0, rfl⟩

theorem removeSpec_subs (j : Gen.Joe σ) (k : Nat) (e : Nat × Gen.Subscription σ) (h : e ∈ (removeSpec j k).subscribers) :
    e ∈ j.subscribers := by
  unfold removeSpec at h
  split at h
  · exact mem_mapDel _ _ _ h
  · exact h

/-- the step keeps every remaining subscriber's topics: the fuel still fits -/
theorem fanStep_fit (fuel : Nat) (msg : Gen.publishedMessage) (j : Gen.Joe σ) (k : Nat) (h : TopicsFit fuel msg j) :
    TopicsFit fuel msg (fanStep msg j k) := by
  unfold fanStep
  cases hg : mapGet j.subscribers k with
  | none => exact h
  | some sub =>
    have hk := mapGet_mem _ _ _ hg
    simp only
    split
    · -- the topics meet
      have s1 : ∀ e ∈ mapSet j.subscribers k (setWriter sub (sub.Client.send sub.Client.st msg.messageWithTopics.message).2),
          ∃ e' ∈ j.subscribers, e.2.Topics = e'.2.Topics :=
        fun e he => mem_mapSet_topics j.subscribers k (setWriter sub (sub.Client.send sub.Client.st msg.messageWithTopics.message).2) sub hk rfl e he
      split
      · apply topicsFit_of_sub h
        intro e he
        exact s1 e (removeSpec_subs _ _ _ he)
      · have s2 : ∀ e ∈ mapSet (mapSet j.subscribers k (setWriter sub (sub.Client.send sub.Client.st msg.messageWithTopics.message).2)) k
              (setWriter (setWriter sub (sub.Client.send sub.Client.st msg.messageWithTopics.message).2)
                ((setWriter sub (sub.Client.send sub.Client.st msg.messageWithTopics.message).2).Client.flush
                  (sub.Client.send sub.Client.st msg.messageWithTopics.message).2).2),
            ∃ e' ∈ j.subscribers, e.2.Topics = e'.2.Topics := by
          intro e he
          unfold mapSet at he
          obtain ⟨e0, he0, rfl⟩ := List.mem_map.1 he
          obtain ⟨e1, he1, ht⟩ := s1 e0 he0
          by_cases hc : (e0.1 == k) = true
          · simp only [hc, if_true]
            exact ⟨(k, sub), hk, rfl⟩
          · simp only [hc, if_false]
            exact ⟨e1, he1, ht⟩
        split
        · apply topicsFit_of_sub h
          intro e he
          exact s2 e (removeSpec_subs _ _ _ he)
        · exact topicsFit_of_sub h s2
    · exact h

/-- one round of the fan-out loop at a key: `fanStep` -/
theorem fan_body (fuel : Nat) (pre suf : List Nat) (k : Nat) (j : Gen.Joe σ) (msg : Gen.publishedMessage)
    (hfit : TopicsFit fuel msg j) :
    Gen.Joe_fanout_loop1 fuel (pre ++ k :: suf) ((pre.length : Int), j, msg) =
      .ok (.next (((pre.length + 1 : Nat) : Int), fanStep msg j k, msg)) := by
  unfold Gen.Joe_fanout_loop1 fanStep
  simp only [lt_len_mid pre suf k, if_true, bind, Except.bind, idx_mid pre suf k, cast_succ]
  cases hg : mapGet j.subscribers k with
  | none => simp [pure, Except.pure]
  | some sub =>
    have hk := mapGet_mem _ _ _ hg
    have ht := topicsIntersect_eq fuel sub.Topics msg.messageWithTopics.topics (hfit.2 _ hk) hfit.1
    simp only [Option.isNone_some, Bool.false_eq_true, if_false, derefPtr, pure, Except.pure, ht]
    cases hti : topicsIntersect sub.Topics msg.messageWithTopics.topics with
    | false => simp
    | true =>
      simp only [if_true]
      cases h1 : (sub.Client.send sub.Client.st msg.messageWithTopics.message).1 with
      | some e =>
        simp [h1, failSub, removeSubscriber_eq, setWriter, bind, Except.bind]
      | none =>
        simp only [h1, beq_self_eq_true, if_true, setWriter]
        cases h2 : (sub.Client.flush (sub.Client.send sub.Client.st msg.messageWithTopics.message).2).1 with
        | some e => simp [h2, failSub, removeSubscriber_eq, bind, Except.bind]
        | none => simp [h2]

theorem fan_body_end (fuel : Nat) (xs : List Nat) (j : Gen.Joe σ) (msg : Gen.publishedMessage) :
    Gen.Joe_fanout_loop1 fuel xs ((xs.length : Int), j, msg) = .ok (.brk ((xs.length : Int), j, msg)) := by
  unfold Gen.Joe_fanout_loop1
  simp [not_lt_len_end xs, pure, Except.pure]

theorem foldl_fit (fuel : Nat) (msg : Gen.publishedMessage) (ks : List Nat) (j : Gen.Joe σ) (h : TopicsFit fuel msg j) :
    TopicsFit fuel msg (ks.foldl (fanStep msg) j) := by
  induction ks generalizing j with
  | nil => exact h
  | cons k ks ih => exact ih _ (fanStep_fit fuel msg j k h)

theorem fanLoop_eq (fuel : Nat) (msg : Gen.publishedMessage) (xs : List Nat) : ∀ (suf pre : List Nat) (j : Gen.Joe σ) (n : Nat),
    xs = pre ++ suf → suf.length < n → TopicsFit fuel msg j →
    loopM (Gen.Joe_fanout_loop1 fuel xs) n ((pre.length : Int), j, msg) =
      .ok (.inl ((xs.length : Int), suf.foldl (fanStep msg) j, msg)) := by
  intro suf
  induction suf with
  | nil =>
    intro pre j n hx hn _
    obtain ⟨n', rfl⟩ : ∃ n', n = n' + 1 := ⟨n - 1, by omega⟩
    have hx' : xs = pre := by simpa using hx
    subst hx'
    simp only [loopM, fan_body_end, List.foldl_nil]
    rfl
  | cons k suf ih =>
    intro pre j n hx hn hfit
    obtain ⟨n', rfl⟩ : ∃ n', n = n' + 1 := ⟨n - 1, by omega⟩
    have hn' : suf.length < n' := by simp at hn; omega
    have hrec := ih (pre ++ [k]) (fanStep msg j k) n' (by simp [hx]) hn' (fanStep_fit fuel msg j k hfit)
    simp only [List.length_append, List.length_cons, List.length_nil, Nat.zero_add] at hrec
    subst hx
    simp only [loopM, fan_body fuel pre suf k j msg hfit, List.foldl_cons]
    exact hrec

/-- **The fan-out of a published message as translated**: whatever the order in which the map of subscribers is ranged
over, the fold of `fanStep` over it; it does not panic and its loop ends. -/
theorem fanout_eq (fuel : Nat) (j : Gen.Joe σ) (msg : Gen.publishedMessage) (order : List Nat)
    (hf : order.length < fuel) (hfit : TopicsFit fuel msg j) :
    Gen.Joe_fanout fuel j msg order = .ok (order.foldl (fanStep msg) j) := by
  unfold Gen.Joe_fanout
  have h := fanLoop_eq fuel msg order order [] j fuel (by simp) hf hfit
  simp only [List.length_nil] at h
  have h0 : ((0 : Nat) : Int) = (0 : Int) := rfl
  rw [h0] at h
  simp only [bind, Except.bind, h, pure, Except.pure]

end GoSSE.GenEquiv
