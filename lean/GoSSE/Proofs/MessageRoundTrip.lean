import GoSSE.Proofs.MessageBuild
/-!
Helper lemmas for C15's round trip: `UnmarshalText` run over the wire form of a well-formed
message reads back its lines one by one.
-/
namespace GoSSE.Proofs
open GoSSE GoSSE.Spec GoSSE.Model

set_option linter.unusedSimpArgs false

variable {σ ε : Type}

/-- every logged call is what the writer answered in some state -/
theorem writeAll_log_faithful (w : Writer σ ε) (r : WR σ ε) (ps : List Bytes)
    (h : ∀ c ∈ r.log, ∃ s, c.2.1 = (w.write s c.1).1 ∧ c.2.2 = (w.write s c.1).2.1) :
    ∀ c ∈ (writeAll w r ps).log, ∃ s, c.2.1 = (w.write s c.1).1 ∧ c.2.2 = (w.write s c.1).2.1 := by
  induction ps generalizing r with
  | nil => simpa [writeAll] using h
  | cons p ps ih =>
    simp only [writeAll]
    split
    · exact h
    · apply ih
      intro c hc
      simp only [WR.write, List.mem_append, List.mem_singleton] at hc
      rcases hc with hc | hc
      · exact h c hc
      · subst hc; exact ⟨r.st, rfl, rfl⟩

/-- unset fields are the zero field (true of every value the routes of C14 produce) -/
structure Canon (m : Message) : Prop where
  id : m.id.set = false → m.id = {}
  typ : m.typ.set = false → m.typ = {}

theorem canon_apply (m : Message) (hm : Canon m) (op : BuildOp) : Canon (m.apply op) := by
  have hn : ∀ v, (newID v).1.set = false → (newID v).1 = {} := by
    intro v; unfold newID newMessageField; split <;> simp
  cases op with
  | appendData s =>
    have hf := appendText_fields m false s
    exact ⟨by simp only [Message.apply, Message.appendData, hf.1]; exact hm.id,
           by simp only [Message.apply, Message.appendData, hf.2.1]; exact hm.typ⟩
  | appendComment s =>
    have hf := appendText_fields m true s
    exact ⟨by simp only [Message.apply, Message.appendComment, hf.1]; exact hm.id,
           by simp only [Message.apply, Message.appendComment, hf.2.1]; exact hm.typ⟩
  | setID v => exact ⟨hn v, hm.typ⟩
  | setType v => exact ⟨hm.id, hn v⟩
  | setRetry d => exact ⟨hm.id, hm.typ⟩

theorem canon_build (ops : List BuildOp) : Canon (build ops) := by
  unfold build
  have : ∀ (m : Message), Canon m → Canon (ops.foldl Message.apply m) := by
    induction ops with
    | nil => exact fun m h => h
    | cons op ops ih => exact fun m h => ih _ (canon_apply m h op)
  exact this {} ⟨fun _ => rfl, fun _ => rfl⟩

theorem retry_foldl (ops : List BuildOp) : ∀ (m : Message), m.retry ≤ (maxInt64 : Int) →
    (∀ op ∈ ops, BuildOp.Valid op) → (ops.foldl Message.apply m).retry ≤ (maxInt64 : Int) := by
  induction ops with
  | nil => exact fun m h _ => h
  | cons op ops ih =>
    intro m h hv
    refine ih _ ?_ (fun o ho => hv o (List.mem_cons_of_mem _ ho))
    have hop := hv op List.mem_cons_self
    cases op with
    | appendData s => show (m.appendText false s).retry ≤ _; rw [(appendText_fields m false s).2.2]; exact h
    | appendComment s => show (m.appendText true s).retry ≤ _; rw [(appendText_fields m true s).2.2]; exact h
    | setID v => exact h
    | setType v => exact h
    | setRetry d => exact hop

theorem build_retry_le (ops : List BuildOp) (hv : ∀ op ∈ ops, BuildOp.Valid op) : (build ops).retry ≤ (maxInt64 : Int) :=
  retry_foldl ops {} (by simp [maxInt64]) hv

/-! ### one step of `FieldParser.Next` on an LF-terminated line -/

theorem newlineIndex_line (l rest : Bytes) (h : NlFree l) : newlineIndex (l ++ 10 :: rest) = (l.length, 1) := by
  induction l with
  | nil => simp [newlineIndex, isNl]
  | cons b t ih =>
    have hb := (nlFree_cons.1 h).1
    simp only [List.cons_append, newlineIndex, hb, Bool.false_eq_true, if_false, ih (nlFree_cons.1 h).2, List.length_cons]

theorem nextChunk_line (l rest : Bytes) (h : NlFree l) : nextChunk (l ++ 10 :: rest) = (l, rest, true) := by
  simp [nextChunk, newlineIndex_line l rest h]

theorem FP_next_line (n : Nat) (fp : FP) (l rest : Bytes) (fld : Field) (hd : fp.data = l ++ 10 :: rest)
    (hl : NlFree l) (hs : scanSegment fp.keepComments l = some fld) :
    FP.next (n + 1) fp = (some fld, { fp with started := true, data := rest }) := by
  unfold FP.next
  have hne : (l ++ 10 :: rest).isEmpty = false := by cases l <;> rfl
  simp only [hd, hne, Bool.false_eq_true, if_false, nextChunk_line l rest hl, Bool.not_true, hs]

theorem scan_id (v : Bytes) : scanSegment true (fieldBytesID ++ v) = some ⟨.id, v⟩ := by
  simp [scanSegment, indexByte, fieldBytesID, fId, List.findIdx_cons, getFieldName, fData, fEvent, fRetry, maxFieldNameLength, trimFirstSpace]
theorem scan_event (v : Bytes) : scanSegment true (fieldBytesEvent ++ v) = some ⟨.event, v⟩ := by
  simp [scanSegment, indexByte, fieldBytesEvent, fId, List.findIdx_cons, getFieldName, fData, fEvent, fRetry, maxFieldNameLength, trimFirstSpace]
theorem scan_retry (v : Bytes) : scanSegment true (fieldBytesRetry ++ v) = some ⟨.retry, v⟩ := by
  simp [scanSegment, indexByte, fieldBytesRetry, fId, List.findIdx_cons, getFieldName, fData, fEvent, fRetry, maxFieldNameLength, trimFirstSpace]
theorem scan_data (v : Bytes) : scanSegment true (fieldBytesData ++ v) = some ⟨.data, v⟩ := by
  simp [scanSegment, indexByte, fieldBytesData, fId, List.findIdx_cons, getFieldName, fData, fEvent, fRetry, maxFieldNameLength, trimFirstSpace]
theorem scan_comment (v : Bytes) : scanSegment true (fieldBytesComment ++ v) = some ⟨.comment, v⟩ := by
  simp [scanSegment, indexByte, fieldBytesComment, fId, List.findIdx_cons, getFieldName, fData, fEvent, fRetry, maxFieldNameLength, trimFirstSpace]
theorem scan_blank : scanSegment true [] = some ⟨.none, []⟩ := by decide

/-- the loop's step on a line that scans to `fld` -/
theorem loop_step (n : Nat) (fp : FP) (acc : Message) (l rest : Bytes) (fld : Field) (hd : fp.data = l ++ 10 :: rest)
    (hk : fp.keepComments = true) (hl : NlFree l) (hs : scanSegment true l = some fld) :
    FP.next (fp.data.length + 1) fp = (some fld, { fp with started := true, data := rest }) :=
  FP_next_line _ fp l rest fld hd hl (by rw [hk]; exact hs)

/-! ### the chunk lines and the closing blank line -/

theorem loop_chunks (cs : List Chunk) (hcs : ∀ c ∈ cs, NlFree c.content) (n : Nat) (fp : FP) (acc : Message) (tail : Bytes)
    (hd : fp.data = term (cs.map chunkLine) ++ 10 :: tail) (hk : fp.keepComments = true) (hn : cs.length < n) :
    unmarshalLoop n fp acc =
      ({ acc with chunks := acc.chunks ++ cs }, { fp with started := true, data := tail }, .nil) := by
  induction cs generalizing n fp acc with
  | nil =>
    cases n with
    | zero => omega
    | succ n =>
      have hd' : fp.data = [] ++ 10 :: tail := by simpa [term] using hd
      unfold unmarshalLoop
      rw [loop_step n fp acc [] tail _ hd' hk nlFree_nil scan_blank]
      simp
  | cons c cs ih =>
    cases n with
    | zero => omega
    | succ n =>
      have fb := fieldBytes_nlFree
      have hc := hcs c List.mem_cons_self
      have hd' : fp.data = chunkLine c ++ 10 :: (term (cs.map chunkLine) ++ 10 :: tail) := by
        rw [hd]; simp [term]
      have hnl : NlFree (chunkLine c) := by
        unfold chunkLine; split
        · exact nlFree_append.2 ⟨fb.2.2.2.2, hc⟩
        · exact nlFree_append.2 ⟨fb.2.2.2.1, hc⟩
      unfold unmarshalLoop
      by_cases hcm : c.isComment = true
      · have hs : scanSegment true (chunkLine c) = some ⟨.comment, c.content⟩ := by
          simp only [chunkLine, hcm, if_true]; exact scan_comment _
        rw [loop_step n fp acc _ _ _ hd' hk hnl hs]
        simp only
        rw [ih (fun x hx => hcs x (List.mem_cons_of_mem _ hx)) n { fp with started := true, data := term (cs.map chunkLine) ++ 10 :: tail } _ rfl hk (by simp at hn; omega)]
        have : (⟨c.content, true⟩ : Chunk) = c := by cases c; simp at hcm; simp [hcm]
        simp [this, List.append_assoc]
      · have hs : scanSegment true (chunkLine c) = some ⟨.data, c.content⟩ := by
          simp only [chunkLine, hcm, Bool.false_eq_true, if_false]; exact scan_data _
        rw [loop_step n fp acc _ _ _ hd' hk hnl hs]
        simp only
        rw [ih (fun x hx => hcs x (List.mem_cons_of_mem _ hx)) n { fp with started := true, data := term (cs.map chunkLine) ++ 10 :: tail } _ rfl hk (by simp at hn; omega)]
        have : (⟨c.content, false⟩ : Chunk) = c := by cases c; simp at hcm; simp [hcm]
        simp [this, List.append_assoc]

/-! ### retry -/

theorem parseInt_digits_cons (ds : Bytes) (d : Byte) (t : Bytes) (hdt : ds = d :: t) (hdig : ds.all isDigit = true)
    (hle : digitsVal ds ≤ maxInt64) : parseInt ds = some (digitsVal ds : Int) := by
  subst hdt
  have hd : isDigit d = true := by simp at hdig; exact hdig.1
  have h43 : d ≠ 43 := by intro h; subst h; revert hd; decide
  have h45 : d ≠ 45 := by intro h; subst h; revert hd; decide
  unfold parseInt
  split
  · rename_i h; simp at h; exact absurd h.1 h43
  · rename_i h; simp at h; exact absurd h.1 h45
  · simp [hdig, hle]

theorem millis_facts (m : Message) (hr : m.retry ≤ (maxInt64 : Int)) (h0 : ¬ m.millis ≤ 0) :
    1 ≤ m.millis.toNat ∧ m.millis.toNat ≤ 9223372036854 ∧ ((m.millis.toNat : Nat) : Int) = m.millis ∧
      m.millis * 1000000 ≤ (maxInt64 : Int) ∧ 0 ≤ m.millis * 1000000 := by
  unfold Message.millis at h0 ⊢
  have hpos : 0 ≤ m.retry := by
    by_cases hneg : m.retry < 0
    · exact absurd (tdiv_nonpos m.retry (by omega)) h0
    · omega
  rw [Int.tdiv_eq_ediv_of_nonneg hpos] at h0 ⊢
  unfold maxInt64 at hr ⊢
  refine ⟨by omega, by omega, by omega, by omega, by omega⟩

theorem wrap64_id (x : Int) (h0 : 0 ≤ x) (h1 : x ≤ (maxInt64 : Int)) : wrap64 x = x := by
  unfold wrap64; unfold maxInt64 at h1; omega

/-! ### the whole message -/

/-- `UnmarshalText` over the wire form of a well-formed message with at least one field and a
NUL-free ID reproduces the message, retry rounded down to whole milliseconds. -/
theorem unmarshal_encode (m : Message) (hm : WF m) (hc : Canon m) (hr : m.retry ≤ (maxInt64 : Int))
    (hf : hasField m = true) (hnul : m.id.set = true → m.id.value.contains 0 = false) :
    Message.unmarshalText m.encode = (normalise m, .nil) := by
  have fb := fieldBytes_nlFree
  -- the wire form
  have hne : (lines m).isEmpty = false := by
    unfold lines
    simp only [hasField, Bool.or_eq_true, decide_eq_true_eq, Bool.not_eq_true', List.isEmpty_eq_false_iff] at hf
    rcases hf with ((h | h) | h) | h
    · simp [h]
    · simp [h]
    · have : ¬ m.millis ≤ 0 := by omega
      simp [this]
    · cases hcs : m.chunks with
      | nil => exact absurd hcs h
      | cons c cs => simp
  have henc : m.encode = term (lines m) ++ [10] := by
    rw [encode_eq]; unfold msgLines; simp [hne, term]
  unfold Message.unmarshalText
  -- no BOM
  have hbom : (({ data := m.encode, keepComments := true } : FP).setRemoveBOM true) =
      { data := m.encode, keepComments := true, removeBOM := true } := by
    unfold FP.setRemoveBOM FP.doRemoveBOM
    rcases encode_head m with h | ⟨b, t, h, hb⟩
    · simp [h, bom, List.isPrefixOf]
    · have : ((0xEF : UInt8) == b) = false := by simp; exact fun h' => hb h'.symm
      simp [h, bom, List.isPrefixOf, this]
  rw [hbom]
  -- enough fuel: one iteration per line
  have hfuel : (lines m).length + 1 ≤ m.encode.length := by
    rw [henc]
    have : ∀ ls : List Bytes, ls.length ≤ (term ls).length := by
      intro ls; induction ls with
      | nil => simp [term]
      | cons l ls ih => simp [term] at ih ⊢; omega
    have := this (lines m)
    simp; omega
  generalize hN : m.encode.length + 1 = N
  have hNge : (lines m).length + 2 ≤ N := by omega
  -- run the loop over ID, type, retry, chunks, blank line
  have key : ∀ (n : Nat) (fp : FP) (acc : Message), fp.keepComments = true →
      fp.data = term (lines m) ++ [10] → (lines m).length + 2 ≤ n →
      ∃ fpF, fpF.err = fp.err ∧ unmarshalLoop n fp acc =
        ({ chunks := acc.chunks ++ m.chunks,
           id := if m.id.set then { value := m.id.value, set := true } else acc.id,
           typ := if m.typ.set then { value := m.typ.value, set := true } else acc.typ,
           retry := if m.millis ≤ 0 then acc.retry else m.millis * 1000000 },
         fpF, .nil) := by
    intro n fp acc hk hd hn
    unfold lines at hd hn
    -- ID
    have step1 : ∃ n1 fp1 acc1, unmarshalLoop n fp acc = unmarshalLoop n1 fp1 acc1 ∧ fp1.keepComments = true ∧
        fp1.err = fp.err ∧
        fp1.data = term ((if m.typ.set then [fieldBytesEvent ++ m.typ.value] else []) ++
          (if m.millis ≤ 0 then [] else [fieldBytesRetry ++ (retryDigits m.millis.toNat).getD []]) ++ m.chunks.map chunkLine) ++ [10] ∧
        ((if m.typ.set then 1 else 0) + (if m.millis ≤ 0 then 0 else 1) + m.chunks.length + 2 ≤ n1) ∧
        acc1 = { acc with id := if m.id.set then { value := m.id.value, set := true } else acc.id } := by
      by_cases h : m.id.set = true
      · cases n with
        | zero => omega
        | succ n =>
          refine ⟨n, { fp with started := true, data := _ }, _, ?_, hk, rfl, rfl, ?_, rfl⟩
          · have hd' : fp.data = (fieldBytesID ++ m.id.value) ++ 10 :: (term ((if m.typ.set then [fieldBytesEvent ++ m.typ.value] else []) ++
                (if m.millis ≤ 0 then [] else [fieldBytesRetry ++ (retryDigits m.millis.toNat).getD []]) ++ m.chunks.map chunkLine) ++ [10]) := by
              rw [hd]; simp [h, term, List.append_assoc]
            conv => lhs; unfold unmarshalLoop
            rw [loop_step n fp acc _ _ _ hd' hk (nlFree_append.2 ⟨fb.1, hm.id h⟩) (scan_id _)]
            have hz : (0 : Byte) ∉ m.id.value := by simpa using hnul h
            simp [hz, h]
          · simp [h] at hn ⊢; split <;> split <;> simp_all <;> omega
      · have h' : m.id.set = false := by simpa using h
        refine ⟨n, fp, acc, rfl, hk, rfl, ?_, ?_, by simp [h']⟩
        · rw [hd]; simp [h']
        · simp [h'] at hn ⊢; split <;> split <;> simp_all <;> omega
    obtain ⟨n1, fp1, acc1, e1, hk1, herr1, hd1, hn1, hacc1⟩ := step1
    -- type
    have step2 : ∃ n2 fp2 acc2, unmarshalLoop n1 fp1 acc1 = unmarshalLoop n2 fp2 acc2 ∧ fp2.keepComments = true ∧ fp2.err = fp1.err ∧
        fp2.data = term ((if m.millis ≤ 0 then [] else [fieldBytesRetry ++ (retryDigits m.millis.toNat).getD []]) ++ m.chunks.map chunkLine) ++ [10] ∧
        ((if m.millis ≤ 0 then 0 else 1) + m.chunks.length + 2 ≤ n2) ∧
        acc2 = { acc1 with typ := if m.typ.set then { value := m.typ.value, set := true } else acc1.typ } := by
      by_cases h : m.typ.set = true
      · cases n1 with
        | zero => omega
        | succ n1 =>
          refine ⟨n1, { fp1 with started := true, data := _ }, _, ?_, hk1, rfl, rfl, ?_, rfl⟩
          · have hd' : fp1.data = (fieldBytesEvent ++ m.typ.value) ++ 10 :: (term ((if m.millis ≤ 0 then [] else [fieldBytesRetry ++ (retryDigits m.millis.toNat).getD []]) ++ m.chunks.map chunkLine) ++ [10]) := by
              rw [hd1]; simp [h, term, List.append_assoc]
            conv => lhs; unfold unmarshalLoop
            rw [loop_step n1 fp1 acc1 _ _ _ hd' hk1 (nlFree_append.2 ⟨fb.2.1, hm.typ h⟩) (scan_event _)]
            simp [h]
          · simp [h] at hn1 ⊢; split <;> simp_all <;> omega
      · have h' : m.typ.set = false := by simpa using h
        refine ⟨n1, fp1, acc1, rfl, hk1, rfl, ?_, ?_, by simp [h']⟩
        · rw [hd1]; simp [h']
        · simp [h'] at hn1 ⊢; split <;> simp_all <;> omega
    obtain ⟨n2, fp2, acc2, e2, hk2, herr2, hd2, hn2, hacc2⟩ := step2
    -- retry
    have step3 : ∃ n3 fp3 acc3, unmarshalLoop n2 fp2 acc2 = unmarshalLoop n3 fp3 acc3 ∧ fp3.keepComments = true ∧ fp3.err = fp2.err ∧
        fp3.data = term (m.chunks.map chunkLine) ++ [10] ∧ (m.chunks.length + 1 < n3) ∧
        acc3 = { acc2 with retry := if m.millis ≤ 0 then acc2.retry else m.millis * 1000000 } := by
      by_cases h : m.millis ≤ 0
      · refine ⟨n2, fp2, acc2, rfl, hk2, rfl, ?_, ?_, by simp [h]⟩
        · rw [hd2]; simp [h]
        · simp [h] at hn2; omega
      · cases n2 with
        | zero => omega
        | succ n2 =>
          have mf := millis_facts m hr h
          have hs := accLoop_isSome 13 m.millis.toNat [] (by omega)
          rw [← retryDigits_eq] at hs
          cases hdg : retryDigits m.millis.toNat with
          | none => simp [hdg] at hs
          | some ds =>
            have hdg' := hdg
            rw [retryDigits_eq] at hdg'
            have hv := accLoop_val _ _ _ _ hdg'
            have hdig := accLoop_digits _ _ _ _ hdg' (by simp)
            obtain ⟨d, t, hdt, _⟩ := accLoop_head _ _ _ _ hdg' (by omega)
            have hv' : digitsVal ds = m.millis.toNat := by simpa [digitsVal] using hv
            have hpi := parseInt_digits_cons ds d t hdt hdig (by rw [hv']; unfold maxInt64; omega)
            refine ⟨n2, { fp2 with started := true, data := _ }, _, ?_, hk2, rfl, rfl, ?_, rfl⟩
            · have hd' : fp2.data = (fieldBytesRetry ++ ds) ++ 10 :: (term (m.chunks.map chunkLine) ++ [10]) := by
                rw [hd2]; simp [h, hdg, term, List.append_assoc]
              conv => lhs; unfold unmarshalLoop
              rw [loop_step n2 fp2 acc2 _ _ _ hd' hk2 (nlFree_append.2 ⟨fb.2.2.1, digits_nlFree ds hdig⟩) (scan_retry _)]
              simp only [hdig, Bool.not_true, Bool.false_eq_true, if_false, hpi]
              rw [hv', mf.2.2.1, wrap64_id _ mf.2.2.2.2 mf.2.2.2.1]
              simp [h]
            · simp [h] at hn2; omega
    obtain ⟨n3, fp3, acc3, e3, hk3, herr3, hd3, hn3, hacc3⟩ := step3
    rw [e1, e2, e3]
    have hd3' : fp3.data = term (m.chunks.map chunkLine) ++ 10 :: [] := by simpa using hd3
    rw [loop_chunks m.chunks hm.chunks n3 fp3 acc3 [] hd3' hk3 (by omega)]
    subst hacc3 hacc2 hacc1
    exact ⟨_, by simp [herr3, herr2, herr1], rfl⟩
  obtain ⟨fpF, hFerr, hF⟩ := key N { data := m.encode, keepComments := true, removeBOM := true } {} rfl henc hNge
  have hFe : fpF.err = false := by rw [hFerr]
  have hidm : (if m.id.set then ({ value := m.id.value, set := true } : MField) else {}) = m.id := by
    by_cases h : m.id.set = true
    · simp only [h, if_true]
      cases hmi : m.id with
      | mk v s => rw [hmi] at h; simp at h; simp [h]
    · have h' : m.id.set = false := by simpa using h
      simp only [h', Bool.false_eq_true, if_false]; exact (hc.id h').symm
  have htyp : (if m.typ.set then ({ value := m.typ.value, set := true } : MField) else {}) = m.typ := by
    by_cases h : m.typ.set = true
    · simp only [h, if_true]
      cases hmi : m.typ with
      | mk v s => rw [hmi] at h; simp at h; simp [h]
    · have h' : m.typ.set = false := by simpa using h
      simp only [h', Bool.false_eq_true, if_false]; exact (hc.typ h').symm
  have hret : (if m.millis ≤ 0 then (0 : Int) else m.millis * 1000000) = normaliseRetry m.retry := by
    unfold normaliseRetry Message.millis; rfl
  have hM : ({ chunks := ({} : Message).chunks ++ m.chunks,
               id := if m.id.set then { value := m.id.value, set := true } else ({} : Message).id,
               typ := if m.typ.set then { value := m.typ.value, set := true } else ({} : Message).typ,
               retry := if m.millis ≤ 0 then ({} : Message).retry else m.millis * 1000000 } : Message) = normalise m := by
    show ({ chunks := [] ++ m.chunks,
            id := if m.id.set then { value := m.id.value, set := true } else {},
            typ := if m.typ.set then { value := m.typ.value, set := true } else {},
            retry := if m.millis ≤ 0 then 0 else m.millis * 1000000 } : Message) = normalise m
    rw [hidm, htyp, hret]; simp [normalise]
  rw [hM] at hF
  have hnil : (UErr.nil != UErr.nil) = false := by decide
  have hnonempty : ((normalise m).chunks.isEmpty && !(normalise m).typ.set && (normalise m).retry == 0 && !(normalise m).id.set) = false := by
    simp only [hasField, Bool.or_eq_true, decide_eq_true_eq, Bool.not_eq_true', List.isEmpty_eq_false_iff] at hf
    simp only [normalise]
    rcases hf with ((h | h) | h) | h
    · simp [h]
    · simp [h]
    · have h0 : ¬ m.millis ≤ 0 := by omega
      have mf := millis_facts m hr h0
      have : normaliseRetry m.retry ≠ 0 := by
        rw [← hret]; simp only [h0, if_false]; omega
      simp [this]
    · cases hcs : m.chunks with
      | nil => exact absurd hcs h
      | cons c cs => simp
  simp only [hF, hnil, Bool.false_eq_true, if_false, hFe, Bool.or_false, hnonempty]

end GoSSE.Proofs
