import GoSSE.Proofs.GenEquiv
import GoSSE.Proofs.ParserScan
import GoSSE.Gen.Bufio
/-!
# `bufio.Scanner.Scan`, as translated from the toolchain's own source, is the model's `Scanner.scan`

`GoSSE/Gen/Bufio.lean` is `(*Scanner).Scan` (with `advance`, `setErr`, `Err`) of `$GOROOT/src/bufio/scan.go`,
translated on every run like the repository's own leaf functions. `Model.Scanner.scan` is the hand-written
re-model the parser theorems (C01, C11, C20) are stated over. This file proves that, for a scanner whose split
function is go-sse's (translated) `splitFunc` and whose reader never returns `0, nil`, one call of the translated
`Scan` returns exactly what the model's `scan` returns — token or not, and the same scanner state (`Rel`) — and in
particular never panics (no slice expression out of range, no "too many empty tokens") and never runs out of fuel.
-/
set_option linter.unusedSimpArgs false
namespace GoSSE.GenEquiv
open GoSSE GoSSE.GoRT GoSSE.Model GoSSE.Proofs

/-- the sticky error of the translated scanner for the model's -/
def errOf : Option SErr → Option String
  | none => none
  | some .eof => some "io.EOF"
  | some .read => some "verif.errRead"
  | some .tooLong => some "ErrTooLong"

def toReader (s : Source) : Reader := { chunks := s.chunks, endErr := s.endErr, errWithLast := s.errWithLast }

/-- go-sse's split function, as the `split` field of the translated scanner -/
def genSplit (F : Nat) : Bytes → Bool → GoM (Int × Option Bytes × Option String) :=
  fun d e => Gen.splitFunc F d e

/-- the translated scanner `g` stands for the model scanner `m` -/
structure Rel (F : Nat) (g : Gen.Scanner) (m : Scanner) : Prop where
  split : g.split = genSplit F
  done : g.done = false
  start : g.start = (m.start : Int)
  end' : g.end' = ((m.start + m.data.length : Nat) : Int)
  len : g.buf.length = m.bufLen
  data : (g.buf.take (m.start + m.data.length)).drop m.start = m.data
  maxTok : g.maxTokenSize = m.maxTok
  r : g.r = toReader m.src
  err : g.err = errOf m.err

/-- side conditions: sizes below the fuel of the split function and below `maxInt/2`; the reader contract -/
structure Bnd (F : Nat) (m : Scanner) : Prop where
  fits : m.start + m.data.length ≤ m.bufLen
  lenF : m.bufLen < F
  maxF : m.maxTok < (F : Int)
  big : F ≤ 4611686018427387903
  nonempty : ∀ c ∈ m.src.chunks, c ≠ []

theorem errOf_none (e : Option SErr) : (errOf e == none) = !e.isSome := by
  cases e with
  | none => rfl
  | some x => cases x <;> rfl

theorem errOf_ne_none (e : Option SErr) : (errOf e != none) = e.isSome := by
  cases e with
  | none => rfl
  | some x => cases x <;> rfl

theorem readerRead_eq (src : Source) (free : Nat) :
    readerRead (toReader src) (free : Int) =
      .ok ((src.read free).1, errOf (src.read free).2.1, toReader (src.read free).2.2) := by
  unfold readerRead Source.read toReader
  have h0 : ¬ ((free : Int) < 0) := by omega
  simp only [h0, if_false, Int.toNat_natCast]
  cases hc : src.chunks with
  | nil => cases src.endErr <;> simp [pure, Except.pure, errOf, hc]
  | cons c rest =>
    simp only
    by_cases hfit : c.length ≤ free
    · simp only [hfit, if_true]
      by_cases hlast : (rest.isEmpty && src.errWithLast) = true
      · simp only [hlast, if_true]
        cases src.endErr <;> simp [pure, Except.pure, errOf]
      · simp only [hlast, Bool.false_eq_true, if_false, pure, Except.pure, errOf]
    · simp only [hfit, if_false, pure, Except.pure, errOf]

theorem setErr_none (F : Nat) (g : Gen.Scanner) (e : Option String) (h : g.err = none) :
    Gen.Scanner_setErr F g e = .ok { g with err := e } := by
  unfold Gen.Scanner_setErr
  simp [h, pure, Except.pure]

theorem read_len_le (src : Source) (free : Nat) : (src.read free).1.length ≤ free := (read_spec src free).2.2.2.1

/-- with a reader that never returns `0, nil` and room in the buffer, a read yields bytes or an error -/
theorem read_progress (src : Source) (free : Nat) (hf : 0 < free) (hne : ∀ c ∈ src.chunks, c ≠ []) :
    0 < (src.read free).1.length ∨ (src.read free).2.1.isSome = true := by
  unfold Source.read
  cases hc : src.chunks with
  | nil => simp
  | cons c rest =>
    have hcne : c ≠ [] := hne c (by simp [hc])
    have hpos : 0 < c.length := List.length_pos_iff.mpr hcne
    simp only
    by_cases hfit : c.length ≤ free
    · simp only [hfit, if_true]
      by_cases hlast : (rest.isEmpty && src.errWithLast) = true
      · simp [hlast]
      · simp [hlast, hpos]
    · simp only [hfit, if_false]
      left; simp only [List.length_take]; omega

theorem read_nonempty (src : Source) (free : Nat) (hf : 0 < free) (hne : ∀ c ∈ src.chunks, c ≠ []) :
    ∀ c ∈ (src.read free).2.2.chunks, c ≠ [] := by
  unfold Source.read
  cases hc : src.chunks with
  | nil => intro c hcm; exact hne c hcm
  | cons c0 rest =>
    have hr : ∀ c ∈ rest, c ≠ [] := fun c hcm => hne c (by simp [hc, hcm])
    simp only
    by_cases hfit : c0.length ≤ free
    · simp only [hfit, if_true]
      by_cases hlast : (rest.isEmpty && src.errWithLast) = true
      · simp [hlast]
      · simpa [hlast] using hr
    · simp only [hfit, if_false]
      intro c hcm
      simp only [List.mem_cons] at hcm
      rcases hcm with h | h
      · subst h
        intro he
        have := congrArg List.length he
        simp at this; omega
      · exact hr c h

/-- the translated scanner after one `Read` that stored `d` at offset `E` and reported `e` -/
def afterRead (g : Gen.Scanner) (r : Reader) (buf : Bytes) (E : Nat) (e : Option SErr) : Gen.Scanner :=
  { g with r := r, buf := buf, end' := (E : Int), err := errOf e, empties := if e.isSome then g.empties else 0 }

/-- one iteration of the inner read loop: a `Read` that makes progress stores its bytes and leaves the loop -/
theorem loop2_step (F : Nat) (g : Gen.Scanner) (m : Scanner) (E : Nat) (q : Bytes × Option SErr × Source) (loop : Int)
    (hE : m.start + m.data.length = E) (hend : g.end' = (E : Int)) (hlen : g.buf.length = m.bufLen)
    (hr : g.r = toReader m.src) (hgerr : g.err = none) (hEle : E ≤ g.buf.length)
    (hq : m.src.read (m.bufLen - E) = q) (hql : q.1.length ≤ m.bufLen - E)
    (hprog : 0 < q.1.length ∨ q.2.1.isSome = true) :
    Gen.Scanner_Scan_loop2 F (g, loop) =
      .ok (.brk (afterRead g (toReader q.2.2) (g.buf.take E ++ q.1 ++ g.buf.drop (E + q.1.length)) (E + q.1.length) q.2.1,
                 loop)) := by
  generalize hb : g.buf.take E ++ q.1 ++ g.buf.drop (E + q.1.length) = buf'
  have hbuf'len : buf'.length = m.bufLen := by
    rw [← hb]; simp only [List.length_append, List.length_take, List.length_drop]; omega
  unfold Gen.Scanner_Scan_loop2
  have e1 : len g.buf = ((g.buf.length : Nat) : Int) := rfl
  have e2 : ((g.buf.length : Nat) : Int) - ((E : Nat) : Int) = ((m.bufLen - E : Nat) : Int) := by omega
  have hslice := slice_ok g.buf E g.buf.length hEle (Nat.le_refl _)
  simp only [bind, Except.bind, hend, e1, hslice, e2, hr, readerRead_eq, hq]
  have hcopy : copyInto g.buf ((E : Nat) : Int) q.1 = .ok (buf', ((q.1.length : Nat) : Int)) := by
    unfold copyInto len
    have : (0 : Int) ≤ (E : Nat) ∧ ((E : Nat) : Int) ≤ (g.buf.length : Nat) := ⟨by omega, by omega⟩
    have hmin : min (g.buf.length - E) q.1.length = q.1.length := by omega
    simp only [this, and_self, if_true, Int.toNat_natCast, hmin, pure, Except.pure, List.take_length, hb]
  simp only [hcopy, pure, Except.pure]
  have c1 : ¬ (len q.1 < 0) := by unfold len; omega
  have hlb : len buf' = ((m.bufLen : Nat) : Int) := by unfold len; rw [hbuf'len]
  have c2 : ¬ (len buf' - ((E : Nat) : Int) < len q.1) := by rw [hlb]; unfold len; omega
  simp only [c1, c2, decide_false, Bool.or_self, Bool.false_eq_true, if_false]
  have e3 : ((E : Nat) : Int) + len q.1 = ((E + q.1.length : Nat) : Int) := by unfold len; omega
  rw [e3]
  cases hqe : q.2.1 with
  | some e =>
    have c3 : (errOf (some e) != none) = true := by rw [errOf_ne_none]; rfl
    simp only [c3, if_true]
    rw [setErr_none _ _ _ (by exact hgerr)]
    simp [pure, Except.pure, afterRead, hqe]
  | none =>
    have c3 : (errOf (none : Option SErr) != none) = false := by rw [errOf_ne_none]; rfl
    have hpos : 0 < q.1.length := by
      rcases hprog with h | h
      · exact h
      · rw [hqe] at h; simp at h
    have c4 : len q.1 > 0 := by unfold len; omega
    simp only [c3, Bool.false_eq_true, if_false, c4, decide_true, if_true]
    simp [pure, Except.pure, errOf, afterRead, hqe, hgerr]

/-- the inner read loop (join point 3): one `Read`, which always makes progress, then round the outer loop again -/
theorem j3_eq (F : Nat) (g : Gen.Scanner) (m : Scanner) (hR : Rel F g m) (hB : Bnd F m) (herr : m.err = none)
    (hroom : m.start + m.data.length < m.bufLen) (hF : 0 < F) :
    ∃ g', Gen.Scanner_Scan_j3 F g = .ok (.next g') ∧ Rel F g' (fill m) ∧ Bnd F (fill m) := by
  obtain ⟨hsplit, hdone, hstart, hend, hlen, hdata, hmax, hr, herr'⟩ := hR
  have hfits := hB.fits
  obtain ⟨E, hE⟩ : ∃ E, m.start + m.data.length = E := ⟨_, rfl⟩
  rw [hE] at hend hdata hroom hfits
  have hsE : m.start ≤ E := by omega
  have hfree : 0 < m.bufLen - E := by omega
  generalize hq : m.src.read (m.bufLen - E) = q
  have hql : q.1.length ≤ m.bufLen - E := by rw [← hq]; exact read_len_le _ _
  have hprog := read_progress m.src _ hfree hB.nonempty
  rw [hq] at hprog
  have hne' := read_nonempty m.src _ hfree hB.nonempty
  rw [hq] at hne'
  have hgerr : g.err = none := by rw [herr', herr]; rfl
  have hEle : E ≤ g.buf.length := by rw [hlen]; exact hfits
  generalize hb : g.buf.take E ++ q.1 ++ g.buf.drop (E + q.1.length) = buf'
  have hbuf'len : buf'.length = m.bufLen := by
    rw [← hb]; simp only [List.length_append, List.length_take, List.length_drop]; omega
  refine ⟨afterRead g (toReader q.2.2) buf' (E + q.1.length) q.2.1, ?_, ?_, ?_⟩
  · -- the translated code computes this state
    unfold Gen.Scanner_Scan_j3
    obtain ⟨F', rfl⟩ : ∃ F', F = F' + 1 := ⟨F - 1, by omega⟩
    simp only [bind, Except.bind]
    unfold loopM
    rw [loop2_step (F' + 1) g m E q 0 hE hend hlen hr hgerr hEle hq hql hprog, hb]
    simp [pure, Except.pure]
  · -- it stands for the model's `fill`
    unfold fill
    rw [hE, hq]
    refine ⟨hsplit, hdone, hstart, ?_, ?_, ?_, hmax, rfl, rfl⟩
    · simp only [List.length_append]; show ((E + q.1.length : Nat) : Int) = _; congr 1; omega
    · show buf'.length = m.bufLen; exact hbuf'len
    · show (buf'.take (m.start + (m.data ++ q.1).length)).drop m.start = m.data ++ q.1
      have hEq : m.start + (m.data ++ q.1).length = E + q.1.length := by simp only [List.length_append]; omega
      rw [hEq]
      have ht : buf'.take (E + q.1.length) = g.buf.take E ++ q.1 := by
        rw [← hb, List.append_assoc, List.take_append]
        simp only [List.length_take, Nat.min_eq_left hEle, List.take_take, Nat.min_eq_right (Nat.le_add_right E _)]
        have : E + q.1.length - E = q.1.length := by omega
        rw [this, List.take_append]
        simp
      rw [ht, List.drop_append]
      have hsl : m.start ≤ (g.buf.take E).length := by simp only [List.length_take]; omega
      have : m.start - (g.buf.take E).length = 0 := by omega
      rw [this, List.drop_zero, hdata]
  · -- and the side conditions survive
    unfold fill
    rw [hE, hq]
    refine ⟨?_, hB.lenF, hB.maxF, hB.big, hne'⟩
    simp only [List.length_append]; omega

/-- the translated scanner after the buffer was replaced by a new one holding the pending data at its start -/
def afterMove (g : Gen.Scanner) (buf : Bytes) (n : Nat) : Gen.Scanner :=
  { g with buf := buf, end' := (n : Int), start := 0 }

theorem makeSlice_bytes (n : Nat) : makeSlice (0 : UInt8) (n : Int) = .ok (List.replicate n (0 : UInt8)) := by
  unfold makeSlice
  have : (0 : Int) ≤ n := by omega
  simp only [this, if_true, pure, Except.pure, Int.toNat_natCast]

theorem copyInto0_bytes (dst src : Bytes) (h : src.length ≤ dst.length) :
    copyInto dst (0 : Int) src = .ok (src ++ dst.drop src.length, (src.length : Int)) := by
  unfold copyInto len
  have h0 : (0 : Int) ≤ 0 ∧ (0 : Int) ≤ (dst.length : Int) := ⟨by omega, by omega⟩
  have hmin : min (dst.length - 0) src.length = src.length := by omega
  simp only [h0, and_self, if_true, Int.toNat_zero, List.take_zero, List.nil_append, hmin, List.take_length,
    Nat.zero_add, pure, Except.pure]

/-- moving the pending data to the start of a (new or the same) buffer leaves a scanner that stands for the model's
with `start = 0` and the given buffer length -/
theorem rel_afterMove (F : Nat) (g : Gen.Scanner) (m : Scanner) (hR : Rel F g m) (rest : Bytes) (n : Nat)
    (hn : (m.data ++ rest).length = n) :
    Rel F (afterMove g (m.data ++ rest) m.data.length) { m with bufLen := n, start := 0 } := by
  obtain ⟨hsplit, hdone, hstart, hend, hlen, hdata, hmax, hr, herr'⟩ := hR
  refine ⟨hsplit, hdone, rfl, ?_, hn, ?_, hmax, hr, herr'⟩
  · show ((m.data.length : Nat) : Int) = ((0 + m.data.length : Nat) : Int); simp
  · show ((m.data ++ rest).take (0 + m.data.length)).drop 0 = m.data
    simp

/-- join point 2: a full buffer is grown (or the scan gives up with `ErrTooLong`), then the read -/
theorem j2_eq (F : Nat) (g : Gen.Scanner) (m : Scanner) (hR : Rel F g m) (hB : Bnd F m) (herr : m.err = none)
    (hF : 0 < F) :
    if m.start + m.data.length == m.bufLen then
      if (m.bufLen : Int) ≥ m.maxTok then
        ∃ g', Gen.Scanner_Scan_j2 F g = .ok (.ret (false, g')) ∧ Rel F g' { m with err := some .tooLong }
      else ∃ g', Gen.Scanner_Scan_j2 F g = .ok (.next g') ∧ Rel F g' (fill (grow m)) ∧ Bnd F (fill (grow m))
    else ∃ g', Gen.Scanner_Scan_j2 F g = .ok (.next g') ∧ Rel F g' (fill m) ∧ Bnd F (fill m) := by
  have hR0 := hR
  obtain ⟨hsplit, hdone, hstart, hend, hlen, hdata, hmax, hr, herr'⟩ := hR
  have hgerr : g.err = none := by rw [herr', herr]; rfl
  have hfits := hB.fits
  unfold Gen.Scanner_Scan_j2
  have e1 : len g.buf = ((m.bufLen : Nat) : Int) := by unfold len; rw [hlen]
  by_cases hfull : m.start + m.data.length = m.bufLen
  · have c1 : (g.end' == len g.buf) = true := by rw [hend, e1, hfull]; simp
    have c1' : (m.start + m.data.length == m.bufLen) = true := by simp [hfull]
    simp only [c1, c1', if_true]
    by_cases hbig : (m.bufLen : Int) ≥ m.maxTok
    · have c2 : (decide (len g.buf ≥ g.maxTokenSize) || decide (len g.buf > 4611686018427387903)) = true := by
        rw [e1, hmax]; simp [hbig]
      simp only [c2, hbig, if_true, bind, Except.bind, setErr_none _ _ _ hgerr, pure, Except.pure]
      exact ⟨_, rfl, hsplit, hdone, hstart, hend, hlen, hdata, hmax, hr, rfl⟩
    · have hlt : (m.bufLen : Int) < m.maxTok := by omega
      have hBF := hB.lenF
      have hbigF := hB.big
      have c2 : (decide (len g.buf ≥ g.maxTokenSize) || decide (len g.buf > 4611686018427387903)) = false := by
        rw [e1, hmax]
        have : ¬ ((m.bufLen : Int) > 4611686018427387903) := by omega
        simp [hbig, this]
      simp only [c2, hbig, Bool.false_eq_true, if_false]
      -- the new size, as the model computes it
      obtain ⟨n, hn⟩ : ∃ n, min (if m.bufLen * 2 == 0 then startBufSize else m.bufLen * 2) m.maxTok.toNat = n := ⟨_, rfl⟩
      have hnlt : m.bufLen < n := by
        rw [← hn]
        by_cases h0 : m.bufLen = 0
        · simp [h0, startBufSize]; omega
        · have : (m.bufLen * 2 == 0) = false := by simp; omega
          simp only [this, Bool.false_eq_true, if_false]; omega
      have hnle : (n : Int) ≤ m.maxTok := by rw [← hn]; omega
      have hgrow : grow m = { m with bufLen := n, start := 0 } := by unfold grow; rw [hn]
      have hsl := slice_ok g.buf m.start (m.start + m.data.length) (Nat.le_add_right _ _) (by rw [hlen]; exact hfits)
      rw [hdata] at hsl
      have hdl : m.data.length ≤ (List.replicate n (0 : UInt8)).length := by simp; omega
      have hcp := copyInto0_bytes (List.replicate n (0 : UInt8)) m.data hdl
      have hnewlen : (m.data ++ (List.replicate n (0 : UInt8)).drop m.data.length).length = n := by
        simp; omega
      have hRel2 := rel_afterMove F g m hR0 ((List.replicate n (0 : UInt8)).drop m.data.length) n hnewlen
      rw [← hgrow] at hRel2
      have hB2 : Bnd F (grow m) := by
        rw [hgrow]
        exact ⟨by simp; omega, by show n < F; have := hB.maxF; omega, hB.maxF, hB.big, hB.nonempty⟩
      have hroom2 : (grow m).start + (grow m).data.length < (grow m).bufLen := by rw [hgrow]; simp; omega
      obtain ⟨g', hj3, hR3, hB3⟩ := j3_eq F _ (grow m) hRel2 hB2 (by rw [hgrow]; exact herr) hroom2 hF
      refine ⟨g', ?_, hR3, hB3⟩
      rw [← hj3]
      have e5 : ((m.start + m.data.length : Nat) : Int) - ((m.start : Nat) : Int) = ((m.data.length : Nat) : Int) := by omega
      by_cases h0 : m.bufLen = 0
      · have c3 : (len g.buf * 2 == 0) = true := by rw [e1, h0]; rfl
        have hn4 : n = min 4096 m.maxTok.toNat := by rw [← hn, h0]; simp [startBufSize]
        have e4 : min (4096 : Int) g.maxTokenSize = ((n : Nat) : Int) := by rw [hmax, hn4]; omega
        simp only [c3, if_true, bind, Except.bind, e4, makeSlice_bytes, hstart, hend, hsl, hcp, pure, Except.pure, e5]
        rfl
      · have c3 : (len g.buf * 2 == 0) = false := by rw [e1]; rw [beq_eq_false_iff_ne]; omega
        have hn2 : n = min (m.bufLen * 2) m.maxTok.toNat := by
          rw [← hn]
          have : (m.bufLen * 2 == 0) = false := by simp; omega
          simp [this]
        have e4 : min (len g.buf * 2) g.maxTokenSize = ((n : Nat) : Int) := by rw [e1, hmax, hn2]; omega
        simp only [c3, Bool.false_eq_true, if_false, bind, Except.bind, e4, makeSlice_bytes, hstart, hend, hsl, hcp, pure,
          Except.pure, e5]
        rfl
  · have c1 : (g.end' == len g.buf) = false := by
      rw [hend, e1, beq_eq_false_iff_ne]; omega
    have c1' : (m.start + m.data.length == m.bufLen) = false := by rw [beq_eq_false_iff_ne]; exact hfull
    simp only [c1, c1', Bool.false_eq_true, if_false]
    exact j3_eq F g m hR0 hB herr (by omega) hF

/-- what the rest of an iteration does once the split function has produced no token (the model's `scanRest`) -/
def RestSpec (F : Nat) (r : GoM (Step Gen.Scanner (Bool × Gen.Scanner))) (m : Scanner) : Prop :=
  if m.err.isSome then ∃ g', r = .ok (.ret (false, g')) ∧ Rel F g' { m with start := 0, data := [] }
  else
    if (shift m).start + (shift m).data.length == (shift m).bufLen then
      if ((shift m).bufLen : Int) ≥ (shift m).maxTok then
        ∃ g', r = .ok (.ret (false, g')) ∧ Rel F g' { shift m with err := some .tooLong }
      else ∃ g', r = .ok (.next g') ∧ Rel F g' (fill (grow (shift m))) ∧ Bnd F (fill (grow (shift m)))
    else ∃ g', r = .ok (.next g') ∧ Rel F g' (fill (shift m)) ∧ Bnd F (fill (shift m))

/-- join point 1: give up if the input has ended, else shift the pending data to the start of the buffer if that
makes room, then grow / read -/
theorem j1_eq (F : Nat) (g : Gen.Scanner) (m : Scanner) (hR : Rel F g m) (hB : Bnd F m) (hF : 0 < F) :
    RestSpec F (Gen.Scanner_Scan_j1 F g) m := by
  have hR0 := hR
  obtain ⟨hsplit, hdone, hstart, hend, hlen, hdata, hmax, hr, herr'⟩ := hR
  have hfits := hB.fits
  unfold RestSpec Gen.Scanner_Scan_j1
  cases herr : m.err with
  | some e =>
    have c1 : (g.err != none) = true := by rw [herr', herr, errOf_ne_none]; rfl
    simp only [c1, if_true, Option.isSome_some, pure, Except.pure]
    refine ⟨_, rfl, hsplit, hdone, rfl, rfl, hlen, ?_, hmax, hr, ?_⟩
    · show (g.buf.take (0 + 0)).drop 0 = []; simp
    · show g.err = errOf (some e); rw [herr', herr]
  | none =>
    have c1 : (g.err != none) = false := by rw [herr', herr, errOf_ne_none]; rfl
    simp only [c1, Bool.false_eq_true, if_false, Option.isSome_none]
    have e1 : len g.buf = ((m.bufLen : Nat) : Int) := by unfold len; rw [hlen]
    have ediv : Int.tdiv ((m.bufLen : Nat) : Int) 2 = ((m.bufLen / 2 : Nat) : Int) := by
      rw [Int.natCast_tdiv_eq_ediv]; omega
    by_cases hsh : (m.start > 0 ∧ (m.start + m.data.length = m.bufLen ∨ m.start > m.bufLen / 2))
    · have c2 : (decide (((m.start : Nat) : Int) > 0) && (((m.start + m.data.length : Nat) : Int) == len g.buf || decide (((m.start : Nat) : Int) > Int.tdiv (len g.buf) 2))) = true := by
        rw [e1, ediv]
        rcases hsh with ⟨h1, h2 | h2⟩
        · simp [h2]; omega
        · have : ((m.start : Nat) : Int) > ((m.bufLen / 2 : Nat) : Int) := by omega
          simp [this]; omega
      have hshift : shift m = { m with start := 0 } := by
        unfold shift
        have : (decide (m.start > 0) && (m.start + m.data.length == m.bufLen || decide (m.start > m.bufLen / 2))) = true := by
          rcases hsh with ⟨h1, h2 | h2⟩
          · simp [h1, h2]
          · simp [h1, h2]
        rw [if_pos this]
      have hsl := slice_ok g.buf m.start (m.start + m.data.length) (Nat.le_add_right _ _) (by rw [hlen]; exact hfits)
      rw [hdata] at hsl
      have hdl : m.data.length ≤ g.buf.length := by rw [hlen]; omega
      have hcp := copyInto0_bytes g.buf m.data hdl
      have hnewlen : (m.data ++ g.buf.drop m.data.length).length = m.bufLen := by
        simp only [List.length_append, List.length_drop]; omega
      have hRel2 := rel_afterMove F g m hR0 (g.buf.drop m.data.length) m.bufLen hnewlen
      have hm2 : ({ m with bufLen := m.bufLen, start := 0 } : Scanner) = shift m := by rw [hshift]
      rw [hm2] at hRel2
      have hB2 : Bnd F (shift m) := by
        rw [hshift]; exact ⟨by show 0 + m.data.length ≤ m.bufLen; omega, hB.lenF, hB.maxF, hB.big, hB.nonempty⟩
      have hj2 := j2_eq F _ (shift m) hRel2 hB2 (by rw [hshift]; exact herr) hF
      have e5 : ((m.start + m.data.length : Nat) : Int) - ((m.start : Nat) : Int) = ((m.data.length : Nat) : Int) := by omega
      simp only [hstart, hend, c2, if_true, bind, Except.bind, hsl, hcp, pure, Except.pure, e5]
      exact hj2
    · have c2 : (decide (((m.start : Nat) : Int) > 0) && (((m.start + m.data.length : Nat) : Int) == len g.buf || decide (((m.start : Nat) : Int) > Int.tdiv (len g.buf) 2))) = false := by
        rw [e1, ediv]
        rw [Bool.and_eq_false_iff]
        by_cases h1 : m.start > 0
        · right
          have h2 : ¬ (m.start + m.data.length = m.bufLen) := fun h => hsh ⟨h1, .inl h⟩
          have h3 : ¬ (m.start > m.bufLen / 2) := fun h => hsh ⟨h1, .inr h⟩
          have h3' : ¬ (((m.start : Nat) : Int) > ((m.bufLen / 2 : Nat) : Int)) := by omega
          simp [h3']; omega
        · left; simp; omega
      have hshift : shift m = m := by
        unfold shift
        have : (decide (m.start > 0) && (m.start + m.data.length == m.bufLen || decide (m.start > m.bufLen / 2))) = false := by
          rw [Bool.and_eq_false_iff]
          by_cases h1 : m.start > 0
          · right
            have h2 : ¬ (m.start + m.data.length = m.bufLen) := fun h => hsh ⟨h1, .inl h⟩
            have h3 : ¬ (m.start > m.bufLen / 2) := fun h => hsh ⟨h1, .inr h⟩
            simp [h2, h3]
          · left; simp; omega
        rw [if_neg (by rw [this]; simp)]
      simp only [hstart, hend, c2, Bool.false_eq_true, if_false, hshift]
      exact j2_eq F g m hR0 hB herr hF

theorem advance_ok (F : Nat) (g : Gen.Scanner) (n : Nat) (d : Nat) (hd : g.end' - g.start = (d : Int)) (hn : n ≤ d) :
    Gen.Scanner_advance F g (n : Int) = .ok (true, { g with start := g.start + (n : Int) }) := by
  unfold Gen.Scanner_advance
  have c1 : ¬ ((n : Int) < 0) := by omega
  have c2 : ¬ ((n : Int) > g.end' - g.start) := by rw [hd]; omega
  simp only [c1, c2, decide_false, Bool.false_eq_true, if_false, pure, Except.pure]

/-- one iteration of the outer loop of the translated `Scan`, against the model's `trySplit` / `scanRest` -/
theorem loop1_step (F : Nat) (g : Gen.Scanner) (m : Scanner) (hR : Rel F g m) (hB : Bnd F m) (hF : 0 < F) :
    match (trySplit m).1 with
    | some t => ∃ g', Gen.Scanner_Scan_loop1 F g = .ok (.ret (true, g')) ∧ Rel F g' (trySplit m).2 ∧
        g'.token = some t.2
    | none => RestSpec F (Gen.Scanner_Scan_loop1 F g) m := by
  have hR0 := hR
  obtain ⟨hsplit, hdone, hstart, hend, hlen, hdata, hmax, hr, herr'⟩ := hR
  have hfits := hB.fits
  have hdF : m.data.length < F := by have := hB.lenF; omega
  unfold Gen.Scanner_Scan_loop1 trySplit
  have ccond : (decide (g.end' > g.start) || (g.err != none)) = (!m.data.isEmpty || m.err.isSome) := by
    rw [hend, hstart, herr', errOf_ne_none]
    cases hd : m.data with
    | nil => simp
    | cons b t => simp; omega
  simp only [ccond]
  by_cases hc : (!m.data.isEmpty || m.err.isSome) = true
  · simp only [hc, if_true]
    have hsl := slice_ok g.buf m.start (m.start + m.data.length) (Nat.le_add_right _ _) (by rw [hlen]; exact hfits)
    rw [hdata] at hsl
    have hsp : g.split m.data (g.err != none) =
        .ok (((splitFunc m.data m.err.isSome).1 : Int), (splitFunc m.data m.err.isSome).2, none) := by
      rw [hsplit, herr', errOf_ne_none]
      exact splitFunc_eq F m.data m.err.isSome hdF
    have hadvle := sf_adv_le m.data m.err.isSome
    have hdiff : g.end' - g.start = ((m.data.length : Nat) : Int) := by rw [hend, hstart]; omega
    simp only [bind, Except.bind, hstart, hend, hsl]
    rw [← hstart, ← hend, hsp]
    simp only [bne_self_eq_false, Bool.false_eq_true, if_false, advance_ok F g _ _ hdiff hadvle, Bool.not_true]
    cases htok : (splitFunc m.data m.err.isSome).2 with
    | some tok =>
      obtain ⟨hpos, _, _, _⟩ := GoSSE.Proofs.splitFunc_token_range m.data m.err.isSome tok htok
      have c3 : (((splitFunc m.data m.err.isSome).1 : Int) > 0) := by omega
      simp only [c3, decide_true, Bool.or_true, if_true, pure, Except.pure]
      generalize hadv : (splitFunc m.data m.err.isSome).1 = adv at hpos hadvle c3 ⊢
      refine ⟨_, rfl, ⟨hsplit, hdone, ?_, ?_, hlen, ?_, hmax, hr, herr'⟩, rfl⟩
      · show g.start + (adv : Int) = ((m.start + adv : Nat) : Int); rw [hstart]; omega
      · show g.end' = (((m.start + adv) + (m.data.drop adv).length : Nat) : Int)
        rw [hend, List.length_drop]; congr 1; omega
      · show (g.buf.take ((m.start + adv) + (m.data.drop adv).length)).drop (m.start + adv) = m.data.drop adv
        have e : (m.start + adv) + (m.data.drop adv).length = m.start + m.data.length := by
          rw [List.length_drop]; omega
        rw [e]
        conv => rhs; rw [← hdata]
        rw [List.drop_drop]
    | none =>
      obtain ⟨h0, _⟩ := splitFunc_none m.data m.err.isSome htok
      have hadv0 : (splitFunc m.data m.err.isSome).1 = 0 := by rw [h0]
      simp only [hadv0]
      -- the scanner is as before (apart from the `token` field): the rest of the iteration
      have hR2 : Rel F { g with start := g.start + ((0 : Nat) : Int), token := none } m :=
        ⟨hsplit, hdone, by show g.start + _ = _; rw [hstart]; omega, hend, hlen, hdata, hmax, hr, herr'⟩
      exact j1_eq F _ m hR2 hB hF
  · have hc' : (!m.data.isEmpty || m.err.isSome) = false := by simpa using hc
    simp only [hc', Bool.false_eq_true, if_false]
    exact j1_eq F g m hR0 hB hF

theorem shift_fields (m : Scanner) : (shift m).data = m.data ∧ (shift m).bufLen = m.bufLen ∧ (shift m).maxTok = m.maxTok ∧
    (shift m).src = m.src ∧ (shift m).err = m.err ∧ (shift m).start ≤ m.start := by
  unfold shift; split <;> simp

/-- the outer loop of the translated `Scan` and the model's `scan`, with the same (sufficient) fuel -/
theorem scan_loop_eq (F : Nat) (hF : 0 < F) :
    ∀ (k : Nat) (g : Gen.Scanner) (m : Scanner), Rel F g m → Bnd F m → SInv m →
      (if m.err.isSome then 1 else m.src.size + 2) ≤ k →
      ∃ g', loopM (Gen.Scanner_Scan_loop1 F) k g = .ok (.inr ((Scanner.scan k m).1.isSome, g')) ∧
        Rel F g' (Scanner.scan k m).2 ∧ (∀ t, (Scanner.scan k m).1 = some t → g'.token = some t.2) ∧
        Bnd F (Scanner.scan k m).2 := by
  intro k
  induction k with
  | zero => intro g m _ _ _ h; split at h <;> omega
  | succ k ih =>
    intro g m hR hB hI hk
    have hstep := loop1_step F g m hR hB hF
    unfold loopM
    rw [scan_succ]
    cases hts : (trySplit m).1 with
    | some t =>
      rw [hts] at hstep
      obtain ⟨g', hg, hR', htok⟩ := hstep
      rw [hg]
      refine ⟨g', rfl, hR', (fun t' ht' => by cases ht'; exact htok), ?_⟩
      show Bnd F (trySplit m).2
      -- the side conditions after a token was cut off the pending bytes
      have hle : (trySplit m).2.start + (trySplit m).2.data.length ≤ m.start + m.data.length ∧
          (trySplit m).2.bufLen = m.bufLen ∧ (trySplit m).2.maxTok = m.maxTok ∧ (trySplit m).2.src = m.src := by
        have hadv := sf_adv_le m.data m.err.isSome
        unfold trySplit
        split
        · split
          · refine ⟨?_, rfl, rfl, rfl⟩
            show m.start + (splitFunc m.data m.err.isSome).1 + (m.data.drop (splitFunc m.data m.err.isSome).1).length ≤ _
            rw [List.length_drop]; omega
          · exact ⟨Nat.le_refl _, rfl, rfl, rfl⟩
        · exact ⟨Nat.le_refl _, rfl, rfl, rfl⟩
      obtain ⟨h1, h2, h3, h4⟩ := hle
      have hfitsB := hB.fits
      exact ⟨by rw [h2]; omega, by rw [h2]; exact hB.lenF, by rw [h3]; exact hB.maxF, hB.big,
        by rw [h4]; exact hB.nonempty⟩
    | none =>
      rw [hts] at hstep
      simp only
      unfold RestSpec at hstep
      unfold scanRest
      obtain ⟨hd, hbl, hmt, hsrc, herrS, hst⟩ := shift_fields m
      by_cases herr : m.err.isSome = true
      · rw [if_pos herr] at hstep ⊢
        obtain ⟨g', hg, hR'⟩ := hstep
        rw [hg]
        refine ⟨g', rfl, hR', (fun t' ht' => by cases ht'), ?_⟩
        exact Bnd.mk (by show 0 + 0 ≤ m.bufLen; omega) hB.lenF hB.maxF hB.big hB.nonempty
      · rw [if_neg herr] at hstep ⊢
        have hnone : m.err = none := by simpa using herr
        have hkk : m.src.size + 1 ≤ k := by simp [hnone] at hk; omega
        have hfitS : (shift m).start + (shift m).data.length ≤ (shift m).bufLen := by
          rw [hd, hbl]; have := hB.fits; omega
        -- what the next iteration needs, for a scanner `s` that is about to be filled
        have next : ∀ (s : Scanner) (g' : Gen.Scanner), s.src = m.src → s.err = none →
            s.start + s.data.length < s.bufLen →
            loopM (Gen.Scanner_Scan_loop1 F) (k + 1) g = loopM (Gen.Scanner_Scan_loop1 F) k g' →
            Rel F g' (fill s) → Bnd F (fill s) →
            ∃ g'', loopM (Gen.Scanner_Scan_loop1 F) (k + 1) g = .ok (.inr ((Scanner.scan k (fill s)).1.isSome, g'')) ∧
              Rel F g'' (Scanner.scan k (fill s)).2 ∧ (∀ t, (Scanner.scan k (fill s)).1 = some t → g''.token = some t.2) ∧
              Bnd F (Scanner.scan k (fill s)).2 := by
          intro s g' hs he hroom hloop hRf hBf
          obtain ⟨_, hI', _, hprog, _⟩ := fill_spec s (by omega) he
          have hk' : (if (fill s).err.isSome then 1 else (fill s).src.size + 2) ≤ k := by
            rcases hprog hroom with h | h
            · rw [if_pos h]; omega
            · split
              · omega
              · rw [hs] at h; omega
          obtain ⟨g'', h1, h2, h3, h4⟩ := ih g' (fill s) hRf hBf hI' hk'
          exact ⟨g'', by rw [hloop, h1], h2, h3, h4⟩
        by_cases hfull : ((shift m).start + (shift m).data.length == (shift m).bufLen) = true
        · rw [if_pos hfull] at hstep ⊢
          by_cases hbig : ((shift m).bufLen : Int) ≥ (shift m).maxTok
          · rw [if_pos hbig] at hstep ⊢
            obtain ⟨g', hg, hR'⟩ := hstep
            rw [hg]
            refine ⟨g', rfl, hR', (fun t' ht' => by cases ht'), ?_⟩
            exact Bnd.mk hfitS (by rw [hbl]; exact hB.lenF) (by rw [hmt]; exact hB.maxF) hB.big (by rw [hsrc]; exact hB.nonempty)
          · rw [if_neg hbig] at hstep ⊢
            obtain ⟨g', hg, hR', hB'⟩ := hstep
            have hroom : (grow (shift m)).start + (grow (shift m)).data.length < (grow (shift m)).bufLen := by
              unfold grow
              simp only
              have hfl : (shift m).start + (shift m).data.length = (shift m).bufLen := by simpa using hfull
              have hlt : ((shift m).bufLen : Int) < (shift m).maxTok := by omega
              by_cases h0 : (shift m).bufLen = 0
              · simp [h0, startBufSize]; omega
              · have : ((shift m).bufLen * 2 == 0) = false := by simp; omega
                simp only [this, Bool.false_eq_true, if_false]; omega
            have hloop : loopM (Gen.Scanner_Scan_loop1 F) (k + 1) g = loopM (Gen.Scanner_Scan_loop1 F) k g' := by
              conv => lhs; unfold loopM
              rw [hg]
            have := next (grow (shift m)) g' (by unfold grow; exact hsrc) (by unfold grow; rw [herrS]; exact hnone)
              hroom hloop hR' hB'
            unfold loopM at this
            exact this
        · rw [if_neg hfull] at hstep ⊢
          obtain ⟨g', hg, hR', hB'⟩ := hstep
          have hroom : (shift m).start + (shift m).data.length < (shift m).bufLen := by
            have : (shift m).start + (shift m).data.length ≠ (shift m).bufLen := by simpa using hfull
            omega
          have hloop : loopM (Gen.Scanner_Scan_loop1 F) (k + 1) g = loopM (Gen.Scanner_Scan_loop1 F) k g' := by
            conv => lhs; unfold loopM
            rw [hg]
          have := next (shift m) g' hsrc (by rw [herrS]; exact hnone) hroom hloop hR' hB'
          unfold loopM at this
          exact this

/-- **`(*bufio.Scanner).Scan`, as translated from the toolchain's source, is the model's `Scanner.scan`.**
For a scanner that stands for the model scanner `m` (`Rel`: go-sse's translated `splitFunc` as split function, same
pending bytes, buffer length, limit, reader and sticky error), with the sizes below the fuel and a reader that
never returns `0, nil` (`Bnd`), one call returns `true` exactly when the model's `scan` yields a token, leaves that
token in `s.token`, and leaves a scanner that stands for the model's new state. In particular the translated code
does not panic and its loops end. -/
theorem Scan_eq (F : Nat) (g : Gen.Scanner) (m : Scanner) (hR : Rel F g m) (hB : Bnd F m) (hI : SInv m)
    (hk : (if m.err.isSome then 1 else m.src.size + 2) ≤ F) :
    ∃ g', Gen.Scanner_Scan F g = .ok ((Scanner.scan F m).1.isSome, g') ∧ Rel F g' (Scanner.scan F m).2 ∧
      (∀ t, (Scanner.scan F m).1 = some t → g'.token = some t.2) ∧ Bnd F (Scanner.scan F m).2 := by
  have hF : 0 < F := by split at hk <;> omega
  have hR2 : Rel F { g with scanCalled := true } m :=
    ⟨hR.split, hR.done, hR.start, hR.end', hR.len, hR.data, hR.maxTok, hR.r, hR.err⟩
  obtain ⟨g', h1, h2, h3, h4⟩ := scan_loop_eq F hF F _ m hR2 hB hI hk
  refine ⟨g', ?_, h2, h3, h4⟩
  unfold Gen.Scanner_Scan
  have hd := hR.done
  simp only [hd] at h1
  simp only [hd, Bool.false_eq_true, if_false, bind, Except.bind, h1, pure, Except.pure]

/-- `(*bufio.Scanner).Err`: `io.EOF` is not reported -/
theorem ScannerErr_eq (F : Nat) (g : Gen.Scanner) (m : Scanner) (hR : Rel F g m) :
    Gen.Scanner_Err F g = .ok (errOf (match m.err with | some .eof => none | e => e), g) := by
  unfold Gen.Scanner_Err
  rw [hR.err]
  cases hm : m.err with
  | none => simp [errOf, pure, Except.pure]
  | some e => cases e <;> simp [errOf, pure, Except.pure]

/-- the translated scanner as `bufio.NewScanner(r)` + `Split(splitFunc)` (+ `Buffer(buf, max)`: `buf[0:cap(buf)]`,
whose contents are irrelevant) leave it -/
def newGenScanner (F : Nat) (src : Source) (buf : Bytes) (max : Int) : Gen.Scanner :=
  { r := toReader src, split := genSplit F, maxTokenSize := max, token := none, buf := buf, start := 0, end' := 0, err := none, empties := 0, scanCalled := false, done := false }

/-- the hypotheses of `Scan_eq` hold of a freshly made scanner: `Scan_eq` is not vacuous, and since it re-establishes
`Rel` (and `scan_loop_eq` `Bnd`) it applies to every later call as well -/
theorem rel_initial (F : Nat) (src : Source) (buf : Bytes) (max : Int) :
    Rel F (newGenScanner F src buf max) (mkScanner src (some (buf.length, max))) :=
  ⟨rfl, rfl, rfl, rfl, rfl, by simp [mkScanner], rfl, rfl, rfl⟩

theorem rel_initial_default (F : Nat) (src : Source) :
    Rel F (newGenScanner F src [] 65536) (mkScanner src none) :=
  ⟨rfl, rfl, rfl, rfl, rfl, by simp [mkScanner], rfl, rfl, rfl⟩

example : Bnd 70000 (mkScanner { chunks := [[100, 58, 120, 10, 10]], endErr := false } none) ∧
    SInv (mkScanner { chunks := [[100, 58, 120, 10, 10]], endErr := false } none) :=
  ⟨⟨by decide, by decide, by decide, by decide, by simp [mkScanner]⟩, ⟨by decide, by simp [mkScanner]⟩⟩

end GoSSE.GenEquiv
