import GoSSE.Proofs.MessageDecode
/-!
Helper lemmas tying the public API (`build ops`) to well-formedness and to the
specification-side description (`describe ops`).
-/
namespace GoSSE.Proofs
open GoSSE GoSSE.Spec GoSSE.Model

/-- Go's `time.Duration` is an `int64` -/
def BuildOp.Valid : BuildOp → Prop
  | .setRetry d => d ≤ (maxInt64 : Int)
  | _ => True

theorem tdiv_nonpos (d : Int) (h : d ≤ 0) : Int.tdiv d 1000000 ≤ 0 := by
  have h1 : 0 ≤ Int.tdiv (-d) 1000000 := Int.tdiv_nonneg (by omega) (by omega)
  rw [Int.neg_tdiv] at h1
  omega

theorem retryOK_of_le (m : Message) (h : m.retry ≤ (maxInt64 : Int)) : RetryOK m := by
  unfold RetryOK
  by_cases h0 : m.millis ≤ 0
  · exact Or.inl h0
  · right
    rw [retryDigits_eq]
    apply accLoop_isSome
    unfold Message.millis at h0 ⊢
    have hpos : 0 ≤ m.retry := by
      by_cases hneg : m.retry < 0
      · exact absurd (tdiv_nonpos m.retry (by omega)) h0
      · omega
    rw [Int.tdiv_eq_ediv_of_nonneg hpos]
    unfold maxInt64 at h
    omega

theorem appendText_fields (m : Message) (ic : Bool) (strs : List Bytes) :
    (m.appendText ic strs).id = m.id ∧ (m.appendText ic strs).typ = m.typ ∧ (m.appendText ic strs).retry = m.retry := by
  unfold Message.appendText
  induction strs generalizing m with
  | nil => simp
  | cons s ss ih => simp only [List.foldl_cons]; have := ih { m with chunks := appendLoop ic s.length s m.chunks }; simpa using this

/-- `appendText` appends exactly the lines of its arguments, in order -/
theorem appendText_chunks (m : Message) (ic : Bool) (strs : List Bytes) :
    (m.appendText ic strs).chunks = m.chunks ++ (strs.flatMap linesOf).map (fun l => ⟨l, ic⟩) := by
  unfold Message.appendText
  induction strs generalizing m with
  | nil => simp
  | cons s ss ih =>
    simp only [List.foldl_cons]
    rw [ih]
    simp [appendLoop_eq ic s.length s m.chunks (Nat.le_refl _), List.append_assoc]

theorem millis_appendText (m : Message) (ic : Bool) (strs : List Bytes) : (m.appendText ic strs).millis = m.millis := by
  unfold Message.millis; rw [(appendText_fields m ic strs).2.2]

theorem wf_appendText (m : Message) (hm : WF m) (ic : Bool) (strs : List Bytes) : WF (m.appendText ic strs) := by
  have hf := appendText_fields m ic strs
  refine ⟨?_, ?_, ?_, ?_⟩
  · intro c hc
    rw [appendText_chunks] at hc
    simp only [List.mem_append, List.mem_map, List.mem_flatMap] at hc
    rcases hc with hc | ⟨l, ⟨s, _, hl⟩, rfl⟩
    · exact hm.chunks c hc
    · exact linesOf_nlFree s l hl
  · rw [hf.1]; exact hm.id
  · rw [hf.2.1]; exact hm.typ
  · have := hm.retry
    unfold RetryOK at this ⊢
    rw [millis_appendText]; exact this

theorem newID_wf (v : Bytes) : (newID v).1.set = true → NlFree (newID v).1.value := by
  unfold newID newMessageField
  by_cases h : isSingleLine v = true
  · simp [h]; exact (isSingleLine_iff v).1 h
  · simp [h]

theorem wf_empty : WF {} := by
  exact { chunks := by intro c hc; simp at hc
          id := by intro h; simp at h
          typ := by intro h; simp at h
          retry := Or.inl (by decide) }

theorem wf_apply (m : Message) (hm : WF m) (op : BuildOp) (hv : BuildOp.Valid op) : WF (m.apply op) := by
  cases op with
  | appendData s => exact wf_appendText m hm false s
  | appendComment s => exact wf_appendText m hm true s
  | setID v => exact ⟨hm.chunks, newID_wf v, hm.typ, hm.retry⟩
  | setType v => exact ⟨hm.chunks, hm.id, newID_wf v, hm.retry⟩
  | setRetry d => exact ⟨hm.chunks, hm.id, hm.typ, retryOK_of_le _ hv⟩

theorem wf_foldl (ops : List BuildOp) (m : Message) (hm : WF m) (hv : ∀ op ∈ ops, BuildOp.Valid op) :
    WF (ops.foldl Message.apply m) := by
  induction ops generalizing m with
  | nil => exact hm
  | cons op ops ih =>
    exact ih _ (wf_apply m hm op (hv op List.mem_cons_self)) (fun o ho => hv o (List.mem_cons_of_mem _ ho))

/-- every message built through the API is well formed -/
theorem wf_build (ops : List BuildOp) (hv : ∀ op ∈ ops, BuildOp.Valid op) : WF (build ops) :=
  wf_foldl ops {} wf_empty hv

theorem newID_built (v : Bytes) :
    (if (newID v).1.set then some (newID v).1.value else none) = (if hasNewline v then none else some v) := by
  unfold newID newMessageField
  by_cases h : isSingleLine v = true
  · have : hasNewline v = false := hasNewline_eq_false.2 ((isSingleLine_iff v).1 h)
    simp [h, this]
  · have : hasNewline v = true := by
      cases hh : hasNewline v with
      | true => rfl
      | false => exact absurd ((isSingleLine_iff v).2 (hasNewline_eq_false.1 hh)) h
    simp [h, this]

theorem dataOf_append (a b : List Chunk) : dataOf (a ++ b) = dataOf a ++ dataOf b := by
  simp [dataOf]

theorem dataOf_map (ls : List Bytes) (ic : Bool) :
    dataOf (ls.map fun l => (⟨l, ic⟩ : Chunk)) = if ic then [] else ls := by
  cases ic <;> simp [dataOf, List.filter_map, Function.comp_def]

theorem builtOf_apply (m : Message) (op : BuildOp) : builtOf (m.apply op) = (builtOf m).apply op := by
  cases op with
  | appendData s =>
    have hf := appendText_fields m false s
    simp only [Message.apply, Message.appendData, Built.apply, builtOf, hf.1, hf.2.1, appendText_chunks, dataOf_append, dataOf_map]
    simp
  | appendComment s =>
    have hf := appendText_fields m true s
    simp only [Message.apply, Message.appendComment, Built.apply, builtOf, hf.1, hf.2.1, appendText_chunks, dataOf_append, dataOf_map]
    simp
  | setID v =>
    show ({ id := if (newID v).1.set then some (newID v).1.value else none,
            typ := if m.typ.set then some m.typ.value else none, dataLines := dataOf m.chunks } : Built) = _
    rw [newID_built]; rfl
  | setType v =>
    show ({ id := if m.id.set then some m.id.value else none,
            typ := if (newID v).1.set then some (newID v).1.value else none, dataLines := dataOf m.chunks } : Built) = _
    rw [newID_built]; rfl
  | setRetry d => rfl

theorem builtOf_foldl (ops : List BuildOp) (m : Message) :
    builtOf (ops.foldl Message.apply m) = ops.foldl Built.apply (builtOf m) := by
  induction ops generalizing m with
  | nil => rfl
  | cons op ops ih => simp only [List.foldl_cons, ih, builtOf_apply]

/-- the model's message and the specification's description agree on what a client may see -/
theorem builtOf_build (ops : List BuildOp) : builtOf (build ops) = describe ops := by
  unfold build describe
  rw [builtOf_foldl]
  rfl

end GoSSE.Proofs
