import GoSSE.Gen.Server
/-!
# `getTopics` of server.go as translated: no topics given means the default topic

`Server.Publish(m, topics...)` hands `getTopics(topics)` to the provider: the topics as given, or — when none are given —
the one-element list holding `DefaultTopic` (the empty name).
-/
namespace GoSSE.GenEquiv
open GoSSE GoSSE.GoRT

theorem getTopics_eq (fuel : Nat) (l : List Bytes) :
    Gen.getTopics fuel l = .ok (if l.isEmpty then [[]] else l) := by
  unfold Gen.getTopics
  cases l with
  | nil => simp [len, pure, Except.pure]
  | cons a t =>
    simp [len, pure, Except.pure]
    intro h
    omega

end GoSSE.GenEquiv
