import GoSSE.Gen.Server
import GoSSE.Model.Server
/-!
# `getTopics` of server.go as translated: no topics given means the default topic

`Server.Publish(m, topics...)` hands `getTopics(topics)` to the provider: the topics as given, or — when none are given —
the one-element list holding `DefaultTopic` (the empty name).
-/
set_option linter.unusedSimpArgs false
namespace GoSSE.GenEquiv
open GoSSE GoSSE.GoRT

theorem getTopics_eq (fuel : Nat) (l : List Bytes) :
    Gen.getTopics fuel l = .ok (if l.isEmpty then [[]] else l) := by
  unfold Gen.getTopics
  cases l with
  | nil => simp [len, pure, Except.pure]
  | cons a t =>
    simp [len, pure, Except.pure]
    intro h
    omega

/-- **`Server.getSubscription` as translated** (`OnSession`, the caller's callback, is a parameter: `none` = the field is
nil; how the `*Session` is seen through the `MessageWriter` interface is a parameter too): the subscription is for this
very session and its `LastEventID`; its topics and the verdict are the model's `getSubscription` of what the callback
answered when it was given the session's writer and request — the default topic unless the callback approved *and* named
at least one topic. No fault, the server and the session untouched. -/
theorem getSubscription_eq {σ : Type} (fuel : Nat) (s : Gen.Server) (sess : Gen.Session σ)
    (asW : Gen.Session σ → MsgWriter Gen.Message σ) (onS : Option (ResW σ → Option HttpReq → (List Bytes × Bool))) :
    Gen.Server_getSubscription fuel s sess asW onS =
      .ok (({ Client := asW sess, LastEventID := sess.LastEventID,
              Topics := (Model.Server.getSubscription none (onS.map fun f => f sess.Res sess.Req)).1.topics } : Gen.Subscription σ),
           (Model.Server.getSubscription none (onS.map fun f => f sess.Res sess.Req)).2, s, sess) := by
  unfold Gen.Server_getSubscription Model.Server.getSubscription
  cases onS with
  | none => simp [pure, Except.pure, Model.Server.defaultTopicSlice, Model.Server.defaultTopic]
  | some f =>
    simp only [Option.isSome_some, if_true, derefPtr, bind, Except.bind, pure, Except.pure, Option.map_some]
    cases hr : f sess.Res sess.Req with
    | mk topics ok =>
      cases ok with
      | false => simp [pure, Except.pure, Model.Server.defaultTopicSlice, Model.Server.defaultTopic]
      | true =>
        cases topics with
        | nil => simp [len, pure, Except.pure, Model.Server.defaultTopicSlice, Model.Server.defaultTopic]
        | cons a t =>
          have : (len (a :: t) > (0 : Int)) := by simp [len] <;> omega
          simp [this, pure, Except.pure]

end GoSSE.GenEquiv
