import GoSSE.Proofs.GenEquivWrite
import GoSSE.Proofs.MessageWrite
import GoSSE.Proofs.MessageBuild
/-!
# `Message.MarshalText` and `Message.String` as translated: `WriteTo` into a buffer

(`strings.Builder` / `bytes.Buffer` are the bytes written so far; handed to `WriteTo` as an `io.Writer` they are the
writer `GoRT.bufWriter`, which appends and never fails.)
-/
set_option linter.unusedSimpArgs false
namespace GoSSE.GenEquiv
open GoSSE GoSSE.GoRT GoSSE.Model GoSSE.Spec GoSSE.Proofs

/-! ## `MarshalText` and `String`: `WriteTo` into a buffer -/

/-- the model's buffer writer with `String` errors (it never returns one) -/
def bufW : Model.Writer Bytes String := ⟨fun st p => (p.length, none, st ++ p)⟩

theorem bufW_obeys : bufW.Obeys := by
  intro st p; simp [bufW]

theorem toGenW_bufW (st : Bytes) : toGenW bufW st = GoRT.bufWriter st := rfl

theorem bufW_writeAll (r : WR Bytes String) (ps : List Bytes) (he : r.err = none) :
    (writeAll bufW r ps).st = r.st ++ ps.flatten ∧ (writeAll bufW r ps).err = none ∧
      (writeAll bufW r ps).n = r.n + ps.flatten.length := by
  induction ps generalizing r with
  | nil => simp [writeAll, he]
  | cons p ps ih =>
    simp only [writeAll, he, Option.isSome_none, Bool.false_eq_true, if_false]
    have := ih (r.write bufW p) (by simp [WR.write, bufW])
    simp only [WR.write, bufW] at this ⊢
    simp [this, List.append_assoc, Nat.add_assoc]

/-- `WriteTo` into the buffer writer: the encoding, no error, no panic -/
theorem writeTo_bufW (m : Message) (hm : m.retry ≤ (maxInt64 : Int)) :
    (m.writeTo bufW []).st = m.encode ∧ (m.writeTo bufW []).err = none ∧ (m.writeTo bufW []).panic = false := by
  have e := writeTo_eq_writeAll bufW bufW_obeys [] m (retryOK_of_le m hm)
  have b := bufW_writeAll (r0 []) m.writes rfl
  rw [e]
  simp only [r0, List.nil_append, Nat.zero_add] at b
  refine ⟨b.1, b.2.1, ?_⟩
  -- (as `Props.C02.writeTo_never_panics`; proved here again so that this module depends on no property file)
  have hp : (m.writeTo bufW []).panic = false := by
    rw [writeTo_body bufW [] m (retryOK_of_le m hm)]
    simp only
    have hp : (writeAll bufW (r0 []) m.bodyWrites).panic = false := by rw [writeAll_panic]; rfl
    split
    · exact hp
    · split
      · exact hp
      · simpa [WR.write] using hp
  rw [e] at hp; exact hp

/-- `String()` as translated: the encoding (`strings.Builder` is the bytes written so far) -/
theorem MessageString_eq (fuel : Nat) (m : Message) (hf : 13 < fuel) (hc : m.chunks.length < fuel) (hm : m.retry ≤ (maxInt64 : Int)) :
    Gen.Message_String fuel (toGenMsg m) = .ok (m.encode, toGenMsg m) := by
  unfold Gen.Message_String
  simp only [bind, Except.bind]
  rw [← toGenW_bufW, WriteTo_eq fuel bufW [] m hf hc]
  obtain ⟨h1, h2, h3⟩ := writeTo_bufW m hm
  simp [okOrPanic, okOf, h3, h1, bind, Except.bind, pure, Except.pure]

/-- `MarshalText()` as translated: the encoding and no error -/
theorem MarshalText_eq (fuel : Nat) (m : Message) (hf : 13 < fuel) (hc : m.chunks.length < fuel) (hm : m.retry ≤ (maxInt64 : Int)) :
    Gen.Message_MarshalText fuel (toGenMsg m) = .ok (m.encode, none, toGenMsg m) := by
  unfold Gen.Message_MarshalText
  simp only [bind, Except.bind]
  rw [← toGenW_bufW, WriteTo_eq fuel bufW [] m hf hc]
  obtain ⟨h1, h2, h3⟩ := writeTo_bufW m hm
  simp [okOrPanic, okOf, h3, h1, h2, bind, Except.bind, pure, Except.pure]

end GoSSE.GenEquiv
