import GoSSE.Gen.Reset
import GoSSE.Model.Connection
/-!
# `resetRequestBody` and `Connection.resetRequest` as translated from client_connection.go = the model's

What a reconnection attempt does to the request: nothing before the first attempt; afterwards the body is re-obtained
through `GetBody` (a nil or `http.NoBody` body is left alone, a missing `GetBody` is `ErrNoGetBody`, its own error is
returned) and the `Last-Event-ID` header is set to the last dispatched ID or removed when that is empty.

The translated code works on `GoRT.HttpReq` (body, `GetBody` as the answers of its calls, header map); `toGenReq` is a
model request as such a value, with any other headers `rest` beside the one the model tracks.
-/
set_option linter.unusedSimpArgs false
set_option linter.unusedVariables false
namespace GoSSE.GenEquiv
open GoSSE GoSSE.GoRT GoSSE.Spec.Client GoSSE.Model.Client

/-- the canonical form of the key the source text uses, `"Last-Event-ID"` -/
def leidKey : Bytes := [76, 97, 115, 116, 45, 69, 118, 101, 110, 116, 45, 73, 100]

theorem canonKey_leid : canonKey [76, 97, 115, 116, 45, 69, 118, 101, 110, 116, 45, 73, 68] = leidKey := by decide

def toGenBody : BodyRef → BodyV
  | .none => .nil
  | .noBody => .noBody
  | .orig => .tag 0
  | .fresh k => .tag k

/-- the request's `GetBody` as the answers of its calls: call number `k` fails when the model says so, and otherwise
returns the body the model calls `fresh (k + 1)` -/
def toGenGetBody : Spec.Client.GetBody → Option (Nat → BodyV × Option String)
  | .absent => none
  | .present failAt => some fun k => if failAt == some k then (.nil, some "GetBody") else (.tag (k + 1), none)

def toGenHdr (rest : List (Bytes × List Bytes)) : Option Bytes → List (Bytes × List Bytes)
  | none => rest
  | some v => rest ++ [(leidKey, [v])]

def toGenReq (rest : List (Bytes × List Bytes)) (r : Req) : HttpReq :=
  { Body := toGenBody r.body, GetBody := toGenGetBody r.getBody, gbCalls := r.getBodyCalls, Header := toGenHdr rest r.header }

def resetErrS : Option ErrV → Option String
  | none => none
  | some .noGetBody => some "ErrNoGetBody"
  | some _ => some "GetBody"

/-- `resetRequestBody` as translated: the model's request and error -/
theorem resetRequestBody_eq (fuel : Nat) (rest : List (Bytes × List Bytes)) (r : Req) :
    Gen.resetRequestBody fuel (toGenReq rest r) =
      .ok (resetErrS (resetRequestBody r).2, toGenReq rest (resetRequestBody r).1) := by
  unfold Gen.resetRequestBody resetRequestBody
  cases hb : r.body with
  | none => simp [toGenReq, toGenBody, hb, pure, Except.pure, resetErrS]
  | noBody => simp [toGenReq, toGenBody, hb, pure, Except.pure, resetErrS]
  | orig =>
    cases hg : r.getBody with
    | absent => simp [toGenReq, toGenBody, toGenGetBody, hb, hg, pure, Except.pure, resetErrS]
    | present failAt =>
      by_cases hf : failAt = some r.getBodyCalls
      · simp [toGenReq, toGenBody, toGenGetBody, hb, hg, hf, httpGetBody, bind, Except.bind, pure, Except.pure, resetErrS]
      · have hf' : (failAt == some r.getBodyCalls) = false := by simpa using hf
        simp [toGenReq, toGenBody, toGenGetBody, hb, hg, hf, hf', httpGetBody, bind, Except.bind, pure, Except.pure, resetErrS]
  | fresh k =>
    cases hg : r.getBody with
    | absent => simp [toGenReq, toGenBody, toGenGetBody, hb, hg, pure, Except.pure, resetErrS]
    | present failAt =>
      by_cases hf : failAt = some r.getBodyCalls
      · simp [toGenReq, toGenBody, toGenGetBody, hb, hg, hf, httpGetBody, bind, Except.bind, pure, Except.pure, resetErrS]
      · have hf' : (failAt == some r.getBodyCalls) = false := by simpa using hf
        simp [toGenReq, toGenBody, toGenGetBody, hb, hg, hf, hf', httpGetBody, bind, Except.bind, pure, Except.pure, resetErrS]

theorem headerDel_toGenHdr (rest : List (Bytes × List Bytes)) (h : Option Bytes) (hrest : ∀ e ∈ rest, e.1 ≠ leidKey) :
    headerDel (toGenHdr rest h) [76, 97, 115, 116, 45, 69, 118, 101, 110, 116, 45, 73, 68] = rest := by
  unfold headerDel
  rw [canonKey_leid]
  have hr : rest.filter (fun e => e.1 != leidKey) = rest := by
    apply List.filter_eq_self.2
    intro e he
    simpa using hrest e he
  cases h with
  | none => simpa [toGenHdr] using hr
  | some v => simp [toGenHdr, List.filter_append, hr]

/-- a model connection as the translated struct: its request, last event ID and `isRetry` (the other fields are
opaque to the translated functions: `Unit`) -/
def gOf (rest : List (Bytes × List Bytes)) (c : Conn) : Gen.Connection :=
  { mu := (), request := some (toGenReq rest c.req), callbacks := [], callbacksAll := [], lastEventID := c.lastEventID,
    client := (), buf := (), bufMaxSize := (), callbackID := 0, isRetry := c.isRetry, cblog := [] }

/-- `Connection.resetRequest` as translated: the model's error and the model's connection afterwards -/
theorem resetRequest_eq (fuel : Nat) (rest : List (Bytes × List Bytes)) (hrest : ∀ e ∈ rest, e.1 ≠ leidKey) (c : Conn) :
    Gen.Connection_resetRequest fuel (gOf rest c) = .ok (resetErrS (resetRequest c).2, gOf rest (resetRequest c).1) := by
  unfold Gen.Connection_resetRequest resetRequest
  cases hr : c.isRetry with
  | false => simp [gOf, hr, pure, Except.pure, resetErrS]
  | true =>
    simp only [gOf, hr, Bool.not_true, Bool.false_eq_true, if_false, derefPtr, bind, Except.bind, pure, Except.pure,
      resetRequestBody_eq fuel rest c.req]
    cases he : (resetRequestBody c.req).2 with
    | some e => cases e <;> simp [resetErrS, hr]
    | none =>
      simp only [resetErrS, bne_self_eq_false, Bool.false_eq_true, if_false]
      have hd := headerDel_toGenHdr rest (resetRequestBody c.req).1.header hrest
      by_cases hl : c.lastEventID = []
      · simp [hl, toGenReq, toGenHdr, hr]
        simpa [toGenHdr] using hd
      · have hl' : (c.lastEventID == ([] : Bytes)) = false := by simpa using hl
        have hl2 : c.lastEventID.isEmpty = false := by simpa [List.isEmpty_iff] using hl
        simp [hl', hl2, toGenReq, headerSet, canonKey_leid, toGenHdr, hr]
        simpa [toGenHdr] using hd

end GoSSE.GenEquiv
