import GoSSE.Proofs.JoeInv
/-! Every transition preserves the invariant. -/
namespace GoSSE.Proofs.Joe
open GoSSE.Model.Joe

theorem step_inv_subCall {c : Cfg} {s s' : St} (h : Inv s) (i : SubId) (hs : step c s (.subCall i) = some s') : Inv s' := by
  simp only [step] at hs
  split at hs
  · rename_i hpc
    simp only [Option.some.injEq] at hs; subst hs
    exact inv_setSub h i _ rfl (fun _ => Or.inl hpc) (by simp)
  · simp at hs

theorem step_inv_subClosedEarly {c : Cfg} {s s' : St} (h : Inv s) (i : SubId) (hs : step c s (.subClosedEarly i) = some s') : Inv s' := by
  simp only [step] at hs
  split at hs
  · rename_i hg
    simp only [Option.some.injEq] at hs; subst hs
    exact inv_setSub h i _ rfl (by simp) (fun _ _ => Or.inl (h.fresh i (Or.inr hg.1)).2)
  · simp at hs

theorem step_inv_subSeeCancel {c : Cfg} {s s' : St} (h : Inv s) (i : SubId) (hs : step c s (.subSeeCancel i) = some s') : Inv s' := by
  simp only [step] at hs
  split at hs
  · simp only [Option.some.injEq] at hs; subst hs
    exact inv_setSub h i _ rfl (by simp) (by simp)
  · simp at hs

theorem step_inv_cancel {c : Cfg} {s s' : St} (h : Inv s) (i : SubId) (hs : step c s (.cancel i) = some s') : Inv s' := by
  simp only [step] at hs; split at hs <;> simp at hs; subst hs
  exact inv_setSub h i _ rfl (fun x => x) (fun r hr => h.ret i r hr)

theorem step_inv_subRecv {c : Cfg} {s s' : St} (h : Inv s) (i : SubId) (hs : step c s (.subRecv i) = some s') : Inv s' := by
  simp only [step] at hs
  split at hs
  · rename_i hpc
    split at hs
    · rename_i e hbuf
      simp only [Option.some.injEq] at hs; subst hs
      have hret : i ∉ s.subscribers ∨ ∃ p rest, s.joe = .failed p i rest := by
        by_cases hi : i ∈ s.subscribers
        · rcases (h.reg i hi).2 with hb | hf
          · rw [hbuf] at hb; simp at hb
          · exact Or.inr hf
        · exact Or.inl hi
      refine ⟨h.ok, h.nodup, ?_, ?_, h.fan, h.fail, ?_⟩
      · intro k hk
        by_cases hki : k = i
        · subst hki; simp only [setSub, upd_same]; exact ⟨(h.reg k hk).1, by simp⟩
        · simp only [setSub, upd_other _ _ _ _ hki]; exact h.reg k hk
      · intro k hk
        by_cases hki : k = i
        · subst hki; simp [setSub] at hk
        · simp only [setSub, upd_other _ _ _ _ hki] at hk ⊢; exact h.fresh k hk
      · intro k r hr
        by_cases hki : k = i
        · subst hki; exact hret
        · simp only [setSub, upd_other _ _ _ _ hki] at hr; exact h.ret k r hr
    · rename_i hbuf
      split at hs
      · rename_i hcl
        simp only [Option.some.injEq] at hs; subst hs
        refine inv_setSub h i _ rfl (by simp) (fun _ _ => Or.inl ?_)
        intro hi
        have := (h.reg i hi).1
        rw [hcl] at this; simp at this
      · simp at hs
  · simp at hs

theorem step_inv_unsubAccept {c : Cfg} {s s' : St} (h : Inv s) (i : SubId) (hs : step c s (.unsubAccept i) = some s') : Inv s' := by
  simp only [step] at hs
  split at hs
  · rename_i hg
    simp only [Option.some.injEq] at hs; subst hs
    obtain ⟨h1, _, hsubs, _⟩ := inv_remove_idle h hg.2 i
    refine inv_setSub h1 i _ rfl (by simp) (fun _ _ => Or.inl ?_)
    rw [hsubs]; exact List.Nodup.not_mem_erase h.nodup
  · simp at hs


/-- registering a fresh subscription (shared by the three registering branches of `subAccept`) -/
theorem inv_register {s : St} (h : Inv s) (i : SubId) (st : SubSt) (hpc : (s.subs i).pc = .start)
    (hj : s.joe = .idle) (hst : st.pc = .waiting) (hch : st.ch = (s.subs i).ch) :
    Inv { setSub s i st with subscribers := i :: s.subscribers } := by
  obtain ⟨hch0, hni⟩ := h.fresh i (Or.inr hpc)
  refine ⟨by simp [setSub, hj], List.nodup_cons.mpr ⟨hni, h.nodup⟩, ?_, ?_, by simp [setSub, hj], by simp [setSub, hj], ?_⟩
  · intro k hk
    by_cases hki : k = i
    · subst hki; simp [setSub, hch, hch0]
    · have hk' : k ∈ s.subscribers := by
        rcases List.mem_cons.mp hk with e | e
        · exact absurd e hki
        · exact e
      have := h.reg k hk'
      simp only [setSub, upd_other _ _ _ _ hki]
      refine ⟨this.1, ?_⟩
      rcases this.2 with hb | ⟨p, rest, hf⟩
      · exact Or.inl hb
      · simp [hj] at hf
  · intro k hk
    by_cases hki : k = i
    · subst hki; simp [setSub, hst] at hk
    · simp only [setSub, upd_other _ _ _ _ hki] at hk ⊢
      exact ⟨(h.fresh k hk).1, by simp [hki, (h.fresh k hk).2]⟩
  · intro k r hr
    left
    by_cases hki : k = i
    · subst hki; simp [setSub, hst] at hr
    · simp only [setSub, upd_other _ _ _ _ hki] at hr
      rcases h.ret k r hr with hn | ⟨p, rest, hf⟩
      · simp [hki, hn]
      · simp [hj] at hf

theorem step_inv_subAccept {c : Cfg} {s s' : St} (h : Inv s) (i : SubId) (rc : List Call) (o : ROutcome)
    (hs : step c s (.subAccept i rc o) = some s') : Inv s' := by
  simp only [step] at hs
  split at hs
  · rename_i hg
    obtain ⟨hpc, hj⟩ := hg
    obtain ⟨hch0, hni⟩ := h.fresh i (Or.inr hpc)
    split at hs
    · cases o with
      | ok =>
        simp only [Option.some.injEq] at hs; subst hs
        exact inv_register h i _ hpc hj rfl rfl
      | panic =>
        simp only [Option.some.injEq] at hs; subst hs
        have := inv_register h i { s.subs i with pc := .waiting, calls := (s.subs i).calls ++ rc, replayed := rc.length, regAt := some s.log.length, storeAt := s.store } hpc hj rfl rfl
        exact inv_congr this rfl rfl rfl
      | err =>
        simp only [Option.some.injEq] at hs; subst hs
        -- the channel is fresh: the send and the close succeed
        simp only [sendChan, closeChan, setSub, upd_same, hch0]
        simp only [Bool.false_eq_true, if_false, Option.isSome_none, upd_same]
        refine ⟨h.ok, h.nodup, ?_, ?_, h.fan, h.fail, ?_⟩
        · intro k hk
          have hki : k ≠ i := fun e => hni (e ▸ hk)
          simp only [upd, hki, if_false]; exact h.reg k hk
        · intro k hk
          by_cases hki : k = i
          · subst hki; simp [upd] at hk
          · simp only [upd, hki, if_false] at hk ⊢; exact h.fresh k hk
        · intro k r hr
          by_cases hki : k = i
          · subst hki; exact Or.inl hni
          · simp only [upd, hki, if_false] at hr; exact h.ret k r hr
    · split at hs
      · simp only [Option.some.injEq] at hs; subst hs
        exact inv_register h i _ hpc hj rfl rfl
      · simp at hs
  · simp at hs

theorem step_inv_pubAccept {c : Cfg} {s s' : St} (h : Inv s) (p : PubId) (o : POutcome)
    (hs : step c s (.pubAccept p o) = some s') : Inv s' := by
  simp only [step] at hs
  split at hs
  · rename_i hg
    split at hs
    · simp at hs
    · simp only [Option.some.injEq] at hs; subst hs
      have hj := hg.2.1
      have := inv_joe h (.fanout p (s.subscribers.filter fun i => topicsIntersect (c.subTopics i) (c.pubTopics p)))
        (by simp [hj]) (by simp)
        (by
          intro p' rest' e
          simp only [JoePc.fanout.injEq] at e
          obtain ⟨_, rfl⟩ := e
          exact ⟨h.nodup.filter _, fun k hk => (List.mem_filter.mp hk).1⟩)
        (by simp)
      exact inv_congr this rfl rfl rfl
  · simp at hs


theorem step_inv_fanStep {c : Cfg} {s s' : St} (h : Inv s) (i : SubId) (a b : Bool)
    (hs : step c s (.fanStep i a b) = some s') : Inv s' := by
  simp only [step] at hs
  split at hs
  · rename_i p rest hj
    split at hs
    · rename_i hmem
      have hmem' : i ∈ rest := by simpa using hmem
      obtain ⟨hnd, hsubs⟩ := h.fan p rest hj
      have hi : i ∈ s.subscribers := hsubs i hmem'
      have hnf : ∀ p' k rest', s.joe ≠ .failed p' k rest' := by simp [hj]
      have hcl := (h.reg i hi).1
      have hbuf : (s.subs i).ch.buf = none := by
        rcases (h.reg i hi).2 with hb | ⟨p', rest', hf⟩
        · exact hb
        · exact absurd hf (hnf p' i rest')
      have hpcI : ¬ ((s.subs i).pc = .idle ∨ (s.subs i).pc = .start) := fun hp => (h.fresh i hp).2 hi
      -- the subscription after the calls were recorded
      have h1 : Inv (setSub s i { s.subs i with calls := (s.subs i).calls ++ [Call.send p a] ++ (if a then [Call.flush b] else []) }) :=
        inv_setSub h i _ rfl (fun x => x) (fun r hr => h.ret i r hr)
      split at hs
      · simp only [Option.some.injEq] at hs; subst hs
        exact inv_joe h1 _ (by simpa [setSub] using hnf) (by simp)
          (by
            intro p' rest' e
            simp only [JoePc.fanout.injEq] at e
            obtain ⟨_, rfl⟩ := e
            exact ⟨hnd.erase i, fun k hk => hsubs k (List.mem_of_mem_erase hk)⟩)
          (by simp)
      · simp only [Option.some.injEq] at hs; subst hs
        -- the channel is open and empty: placing the error succeeds
        have hsend : sendChan (setSub s i { s.subs i with calls := (s.subs i).calls ++ [Call.send p a] ++ (if a then [Call.flush b] else []) }) i (.own i)
            = setSub s i { s.subs i with calls := (s.subs i).calls ++ [Call.send p a] ++ (if a then [Call.flush b] else []), ch := ⟨some (.own i), false⟩ } := by
          simp only [sendChan, setSub, upd_same, hcl, hbuf, Bool.false_eq_true, if_false, Option.isSome_none]
          congr 1
          funext k
          by_cases hk : k = i
          · subst hk; simp [upd]
          · simp [upd, hk]
        rw [hsend]
        have hnb : bad (setSub s i { s.subs i with calls := (s.subs i).calls ++ [Call.send p a] ++ (if a then [Call.flush b] else []), ch := ⟨some (.own i), false⟩ }) = false := by
          simp [bad, setSub, hj]
        rw [hnb]
        simp only [Bool.false_eq_true, if_false, setSub, upd_same]
        refine ⟨by simp, h.nodup, ?_, ?_, by simp, ?_, ?_⟩
        · intro k hk
          by_cases hki : k = i
          · subst hki; simp [upd]
          · simp only [upd, hki, if_false]
            refine ⟨(h.reg k hk).1, ?_⟩
            rcases (h.reg k hk).2 with hb | ⟨p', rest', hf⟩
            · exact Or.inl hb
            · exact absurd hf (hnf p' k rest')
        · intro k hk
          by_cases hki : k = i
          · subst hki; simp only [upd, if_true] at hk; exact absurd hk hpcI
          · simp only [upd, hki, if_false] at hk ⊢; exact h.fresh k hk
        · intro p' k rest' e
          simp only [JoePc.failed.injEq] at e
          obtain ⟨_, rfl, rfl⟩ := e
          exact ⟨hi, hnd.erase _, fun k hk => hsubs k (List.mem_of_mem_erase hk), List.Nodup.not_mem_erase hnd⟩
        · intro k r hr
          by_cases hki : k = i
          · subst hki; exact Or.inr ⟨p, rest.erase k, rfl⟩
          · simp only [upd, hki, if_false] at hr
            rcases h.ret k r hr with hn | ⟨p', rest', hf⟩
            · exact Or.inl hn
            · exact absurd hf (hnf p' k rest')
    · simp at hs
  · simp at hs

theorem step_inv_fanRemove {c : Cfg} {s s' : St} (h : Inv s) (hs : step c s .fanRemove = some s') : Inv s' := by
  simp only [step] at hs
  split at hs
  · rename_i p i rest hj
    obtain ⟨h1, hnb⟩ := inv_fanRemove h hj
    simp only [Option.some.injEq] at hs; subst hs
    simp only [Bool.not_eq_true] at hnb
    simp only [hnb, Bool.false_eq_true, if_false]
    exact h1
  · simp at hs

theorem step_inv_fanDone {c : Cfg} {s s' : St} (h : Inv s) (hs : step c s .fanDone = some s') : Inv s' := by
  simp only [step] at hs
  split at hs
  · rename_i p hj
    simp only [Option.some.injEq] at hs; subst hs
    exact inv_joe h .idle (by simp [hj]) (by simp) (by simp) (by simp)
  · simp at hs

theorem step_inv_loopExit {c : Cfg} {s s' : St} (h : Inv s) (hs : step c s .loopExit = some s') : Inv s' := by
  simp only [step] at hs
  split at hs
  · rename_i hg
    obtain ⟨h1, hj1, _⟩ := inv_closeAll h hg.1 s.subscribers
    simp only [Option.some.injEq] at hs; subst hs
    have hnb : bad (closeAll s.subscribers s) = false := by simp [bad, hj1]
    simp only [hnb, Bool.false_eq_true, if_false]
    exact inv_congr (inv_joe h1 .exited (by simp [hj1]) (by simp) (by simp) (by simp)) rfl rfl rfl
  · simp at hs

/-- every transition preserves the invariant -/
theorem step_inv {c : Cfg} {s s' : St} (h : Inv s) (l : Label) (hs : step c s l = some s') : Inv s' := by
  cases l with
  | subCall i => exact step_inv_subCall h i hs
  | subAccept i rc o => exact step_inv_subAccept h i rc o hs
  | subClosedEarly i => exact step_inv_subClosedEarly h i hs
  | subSeeCancel i => exact step_inv_subSeeCancel h i hs
  | subRecv i => exact step_inv_subRecv h i hs
  | unsubAccept i => exact step_inv_unsubAccept h i hs
  | cancel i => exact step_inv_cancel h i hs
  | pubCall p =>
    simp only [step] at hs
    split at hs
    · simp only [Option.some.injEq] at hs; subst hs; exact inv_setPub h _ _
    · simp at hs
  | pubNoTopic p =>
    simp only [step] at hs
    split at hs
    · simp only [Option.some.injEq] at hs; subst hs; exact inv_setPub h _ _
    · simp at hs
  | pubAccept p o => exact step_inv_pubAccept h p o hs
  | pubClosedEarly p =>
    simp only [step] at hs
    split at hs
    · simp only [Option.some.injEq] at hs; subst hs; exact inv_setPub h _ _
    · simp at hs
  | pubRecv p =>
    simp only [step] at hs
    split at hs
    · simp only [Option.some.injEq] at hs; subst hs; exact inv_setPub h _ _
    · simp at hs
  | fanStep i a b => exact step_inv_fanStep h i a b hs
  | fanRemove => exact step_inv_fanRemove h hs
  | fanDone => exact step_inv_fanDone h hs
  | loopExit => exact step_inv_loopExit h hs
  | shutCall k =>
    simp only [step] at hs
    split at hs
    · simp only [Option.some.injEq] at hs; subst hs; exact inv_setShut h _ _
    · simp at hs
  | shutClose k =>
    simp only [step] at hs
    split at hs
    · simp only [Option.some.injEq] at hs; subst hs
      exact inv_congr (inv_setShut h k { s.shuts k with pc := .waiting }) rfl rfl rfl
    · simp at hs
  | shutRecovered k =>
    simp only [step] at hs
    split at hs
    · simp only [Option.some.injEq] at hs; subst hs; exact inv_setShut h _ _
    · simp at hs
  | shutSeeClosed k =>
    simp only [step] at hs
    split at hs
    · simp only [Option.some.injEq] at hs; subst hs; exact inv_setShut h _ _
    · simp at hs
  | shutCtx k =>
    simp only [step] at hs
    split at hs
    · simp only [Option.some.injEq] at hs; subst hs; exact inv_setShut h _ _
    · simp at hs
  | shutCancel k =>
    simp only [step] at hs; split at hs <;> simp at hs; subst hs; exact inv_setShut h _ _

theorem reachable_inv {c : Cfg} {s : St} (h : Reachable c s) : Inv s := by
  induction h with
  | init hi => exact inv_init hi
  | step _ hs ih => exact step_inv ih _ hs

end GoSSE.Proofs.Joe
