import GoSSE.Model.Connection
/-!
Helper lemmas for C12: one step of the back-off controller, iterated steps, what a connection does
to the controller, and the correspondence with the specification's closed forms.
-/
namespace GoSSE.Proofs.ClientBackoff
open GoSSE GoSSE.Spec GoSSE.Spec.Client GoSSE.Model GoSSE.Model.Client

/-- the base after `b` -/
def growI (cfg : Cfg) (fl : Floats) (b : Int) : Int := growInterval fl b cfg.maxInterval

def iter (f : Int → Int) : Nat → Int → Int
  | 0, b => b
  | k + 1, b => iter f k (f b)

theorem iter_succ' (f : Int → Int) (k : Nat) (b : Int) : iter f (k + 1) b = f (iter f k b) := by
  induction k generalizing b with
  | zero => rfl
  | succ k ih => simp only [iter] at ih ⊢; rw [ih]

/-- the retry limit refuses: nothing changes -/
def limitHit (cfg : Cfg) (c : Ctl) : Bool :=
  cfg.maxRetries < 0 || (cfg.maxRetries > 0 && c.numRetries == cfg.maxRetries)

theorem next_limit (cfg : Cfg) (fl : Floats) (c : Ctl) (now draw : Int) (h : limitHit cfg c = true) :
    c.next cfg fl now draw = (c, none) := by
  unfold Ctl.next; unfold limitHit at h; simp [h]

/-- everything `next` does when the retry limit does not refuse -/
theorem next_step (cfg : Cfg) (fl : Floats) (c : Ctl) (now draw : Int) (h : limitHit cfg c = false) :
    (c.next cfg fl now draw).1 = { c with numRetries := c.numRetries + 1, interval := growI cfg fl c.interval } ∧
    (c.next cfg fl now draw).2 =
      if cfg.maxElapsedTime > 0 && now - c.start + nextInterval cfg fl c.interval draw > cfg.maxElapsedTime then none
      else some (nextInterval cfg fl c.interval draw) := by
  unfold Ctl.next; unfold limitHit at h
  simp only [h, Bool.false_eq_true, if_false]
  constructor <;> split <;> simp_all [growI]

theorem next_some (cfg : Cfg) (fl : Floats) (c : Ctl) (now draw w : Int)
    (h : (c.next cfg fl now draw).2 = some w) :
    limitHit cfg c = false ∧
    w = nextInterval cfg fl c.interval draw ∧
    (c.next cfg fl now draw).1 = { c with numRetries := c.numRetries + 1, interval := growI cfg fl c.interval } ∧
    (cfg.maxElapsedTime > 0 → now - c.start + w ≤ cfg.maxElapsedTime) := by
  cases hl : limitHit cfg c with
  | true => rw [next_limit _ _ _ _ _ hl] at h; cases h
  | false =>
    have hs := next_step cfg fl c now draw hl
    rw [hs.2] at h
    split at h
    · cases h
    · rename_i hcond
      have hw : w = nextInterval cfg fl c.interval draw := by simpa using h.symm
      refine ⟨rfl, hw, hs.1, ?_⟩
      intro hpos
      subst hw
      simp only [Bool.and_eq_true, decide_eq_true_eq, not_and, Int.not_lt] at hcond
      exact Int.not_lt.mp (fun hgt => by have := hcond hpos; omega)

/-- consecutive `next` calls: `(now, draw)` per call -/
def nexts (cfg : Cfg) (fl : Floats) : Ctl → List (Int × Int) → List (Option Int)
  | _, [] => []
  | c, s :: rest => (c.next cfg fl s.1 s.2).2 :: nexts cfg fl (c.next cfg fl s.1 s.2).1 rest

theorem nexts_all_some (cfg : Cfg) (fl : Floats) (c : Ctl) (steps : List (Int × Int))
    (hall : ∀ r ∈ nexts cfg fl c steps, r.isSome = true) (k : Nat) (hk : k < steps.length) :
    (nexts cfg fl c steps)[k]? = some (some (nextInterval cfg fl (iter (growI cfg fl) k c.interval) (steps[k]).2)) := by
  induction steps generalizing c k with
  | nil => simp at hk
  | cons s rest ih =>
    have h0 : ((c.next cfg fl s.1 s.2).2).isSome = true := hall _ (by simp [nexts])
    obtain ⟨w, hw⟩ := Option.isSome_iff_exists.mp h0
    obtain ⟨_, hwv, hst, _⟩ := next_some cfg fl c s.1 s.2 w hw
    cases k with
    | zero => simp [nexts, hw, hwv, iter]
    | succ k =>
      have := ih (c.next cfg fl s.1 s.2).1 (fun r hr => hall r (by simp [nexts, hr])) k (by simpa using hk)
      simp only [nexts, List.getElem?_cons_succ, List.getElem_cons_succ]
      rw [this, hst]
      simp [iter]

/-! ## what a connection does to the controller -/

theorem applyRetries_fold (cfg : Cfg) (c : Ctl) (outs : List Out) (now : Int) (h0 : c.numRetries = 0) (h1 : c.start = now) :
    let r := outs.foldl (fun ctl o => match o with
      | .retry n => Ctl.reset cfg ctl (wrap64 ((n : Int) * 1000000)) now
      | _ => ctl) c
    r.numRetries = 0 ∧ r.start = now ∧
    r.interval = outs.foldl (fun cur o => match o with
      | .retry n => let d := wrap64 ((n : Int) * 1000000); if d > 0 then d else cfg.initialInterval
      | _ => cur) c.interval := by
  induction outs generalizing c with
  | nil => exact ⟨h0, h1, rfl⟩
  | cons o outs ih =>
    simp only [List.foldl_cons]
    cases o with
    | event e => exact ih c h0 h1
    | retry n =>
      have := ih (Ctl.reset cfg c (wrap64 ((n : Int) * 1000000)) now) (by simp [Ctl.reset]) (by simp [Ctl.reset])
      simpa [Ctl.reset] using this

/-- after a successful connection: count 0, series restarted, base = the server's last positive
retry value or `InitialInterval` (`retryInterval` of `Model/Parser.lean`) -/
theorem applyRetries_spec (cfg : Cfg) (ctl : Ctl) (outs : List Out) (now : Int) :
    (applyRetries cfg ctl outs now).numRetries = 0 ∧
    (applyRetries cfg ctl outs now).start = now ∧
    (applyRetries cfg ctl outs now).interval = retryInterval cfg.initialInterval outs := by
  have := applyRetries_fold cfg (ctl.reset cfg 0 now) outs now (by simp [Ctl.reset]) (by simp [Ctl.reset])
  have hi : (ctl.reset cfg 0 now).interval = cfg.initialInterval := by simp [Ctl.reset]
  rw [hi] at this
  unfold applyRetries retryInterval
  exact this

/-- the model's `retryInterval` is the specification's `retryBase`: the last retry field decides -/
theorem retryInterval_eq_retryBase (initial : Int) (outs : List Out) :
    retryInterval initial outs = retryBase initial outs := by
  have gen : ∀ (outs : List Out) (cur : Int),
      outs.foldl (fun cur o => match o with
        | .retry n => let d := wrap64 ((n : Int) * 1000000); if d > 0 then d else initial
        | _ => cur) cur =
      match (outs.filterMap fun o => match o with | .retry n => some (n : Int) | _ => none).getLast? with
      | none => cur
      | some n =>
        let d := ((n * 1000000 + 9223372036854775808) % 18446744073709551616) - 9223372036854775808
        if d > 0 then d else initial := by
    intro outs
    induction outs with
    | nil => intro cur; simp
    | cons o outs ih =>
      intro cur
      simp only [List.foldl_cons]
      rw [ih]
      cases o with
      | event e => simp
      | retry n =>
        simp only [List.filterMap_cons]
        cases hl : (List.filterMap (fun o => match o with | .retry n => some (n : Int) | _ => none) outs).getLast? with
        | none =>
          have : List.filterMap (fun o => match o with | .retry n => some (n : Int) | _ => none) outs = [] := by
            simpa [List.getLast?_eq_none_iff] using hl
          simp [this, wrap64]
        | some m =>
          have hne : List.filterMap (fun o => match o with | .retry n => some (n : Int) | _ => none) outs ≠ [] := by
            intro e; rw [e] at hl; simp at hl
          rw [List.getLast?_cons_of_ne_nil hne, hl]
  unfold retryInterval retryBase
  exact gen outs initial

/-! ## specification closed forms -/

/-- the configuration as the specification sees it, for `Multiplier` realised by `fl.grow` -/
def scfg (cfg : Cfg) (fl : Floats) : SCfg :=
  { initialInterval := cfg.initialInterval, maxInterval := cfg.maxInterval, maxElapsedTime := cfg.maxElapsedTime,
    maxRetries := cfg.maxRetries, jitterOff := cfg.jitterOff, mul := fl.grow }

/-- the float comparison of `growInterval` agrees with the product it guards -/
def CapOK (fl : Floats) : Prop := ∀ c m : Int, m > 0 → (fl.capped c m = true ↔ m ≤ fl.grow c)

theorem growI_eq_nextBase (cfg : Cfg) (fl : Floats) (h : CapOK fl) (b : Int) :
    growI cfg fl b = nextBase (scfg cfg fl) b := by
  unfold growI growInterval nextBase scfg
  by_cases hm : cfg.maxInterval > 0
  · by_cases hc : fl.capped b cfg.maxInterval = true
    · have := (h b cfg.maxInterval hm).mp hc
      simp [hm, hc]; omega
    · have : ¬ cfg.maxInterval ≤ fl.grow b := fun hle => hc ((h b cfg.maxInterval hm).mpr hle)
      simp [hm, hc]; omega
  · simp [hm]

theorem iter_eq_baseAt (cfg : Cfg) (fl : Floats) (h : CapOK fl) (b1 : Int) (k : Nat) :
    iter (growI cfg fl) k b1 = baseAt (scfg cfg fl) b1 k := by
  induction k with
  | zero => rfl
  | succ k ih => rw [iter_succ', ih, growI_eq_nextBase cfg fl h]; rfl

/-- the exact-arithmetic instance used by the driver satisfies `CapOK` (non-vacuity) -/
theorem exactFloats_capOK (mn : Int) (md : Nat) (jn : Int) (jd : Nat) (hmd : 0 < md) (hmn : 0 ≤ mn) :
    ∀ c m : Int, 0 ≤ c → m > 0 → ((exactFloats mn md jn jd).capped c m = true ↔ m ≤ (exactFloats mn md jn jd).grow c) := by
  intro c m hc hm
  simp only [exactFloats, decide_eq_true_eq, ge_iff_le]
  have hpos : (0 : Int) < md := by exact_mod_cast hmd
  have hnn : 0 ≤ c * mn := Int.mul_nonneg hc hmn
  rw [Int.tdiv_eq_ediv_of_nonneg hnn]
  exact (Int.le_ediv_iff_mul_le hpos).symm

/-- the exact-arithmetic `jitter` stays within `Jitter · b` (rounded up) of its base `b`, `+1` above -/
theorem exactFloats_jitter_bounds (mn : Int) (md : Nat) (jn : Int) (jd : Nat) (hjd : 0 < jd) (hjn : 0 ≤ jn) (hlt : jn < jd)
    (c u : Int) (hc : 0 ≤ c) (hu0 : 0 ≤ u) (hu : u < 9007199254740992) :
    c - (jn * c / jd + 1) ≤ (exactFloats mn md jn jd).jitter c u ∧
    (exactFloats mn md jn jd).jitter c u ≤ c + (jn * c / jd + 1) + 1 := by
  simp only [exactFloats]
  have hjdp : (0 : Int) < jd := by exact_mod_cast hjd
  have hD : (0 : Int) < (jd : Int) * 9007199254740992 := by omega
  -- q, r
  have hq := Int.mul_ediv_add_emod (jn * c) jd
  have hr0 := Int.emod_nonneg (jn * c) (by omega : (jd : Int) ≠ 0)
  have hr1 := Int.emod_lt_of_pos (jn * c) hjdp
  generalize hqd : jn * c / (jd : Int) = q at *
  generalize hrd : jn * c % (jd : Int) = r at *
  have hX : 0 < 2 * jn * c + jd := by
    have : 0 ≤ jn * c := Int.mul_nonneg hjn hc
    have e : 2 * jn * c = 2 * (jn * c) := by rw [Int.mul_assoc]
    omega
  have hP0 : 0 ≤ u * (2 * jn * c + jd) := Int.mul_nonneg hu0 (by omega)
  have hP1 : u * (2 * jn * c + jd) < 9007199254740992 * (2 * jn * c + jd) := Int.mul_lt_mul_of_pos_right hu hX
  have hN0 : 0 ≤ (c * jd - jn * c) * 9007199254740992 + u * (2 * jn * c + jd) := by
    have : 0 ≤ c * jd - jn * c := by
      have : jn * c ≤ jd * c := Int.mul_le_mul_of_nonneg_right (by omega) hc
      have e : (jd : Int) * c = c * jd := Int.mul_comm _ _
      omega
    have := Int.mul_nonneg this (by decide : (0 : Int) ≤ 9007199254740992)
    omega
  rw [Int.tdiv_eq_ediv_of_nonneg hN0]
  constructor
  · rw [Int.le_ediv_iff_mul_le hD]
    have e : (c - (q + 1)) * ((jd : Int) * 9007199254740992) = (c * jd - jd * q - jd) * 9007199254740992 := by grind
    rw [e]
    have e2 : 2 * jn * c = 2 * (jn * c) := by rw [Int.mul_assoc]
    have : (c * jd - jd * q - jd) * 9007199254740992 ≤ (c * jd - jn * c) * 9007199254740992 := by
      apply Int.mul_le_mul_of_nonneg_right _ (by decide)
      omega
    omega
  · have : ((c * jd - jn * c) * 9007199254740992 + u * (2 * jn * c + jd)) / ((jd : Int) * 9007199254740992) < c + (q + 1) + 1 + 1 := by
      rw [Int.ediv_lt_iff_lt_mul hD]
      have e : (c + (q + 1) + 1 + 1) * ((jd : Int) * 9007199254740992) = (c * jd + jd * q + 3 * jd) * 9007199254740992 := by grind
      rw [e]
      have e2 : 2 * jn * c = 2 * (jn * c) := by rw [Int.mul_assoc]
      have e3 : (9007199254740992 : Int) * (2 * jn * c + jd) = (2 * (jn * c) + jd) * 9007199254740992 := by grind
      have e4 : (c * jd - jn * c) * 9007199254740992 + (2 * (jn * c) + jd) * 9007199254740992 = (c * jd + jn * c + jd) * 9007199254740992 := by grind
      have : (c * jd + jn * c + jd) * 9007199254740992 ≤ (c * jd + jd * q + 3 * jd) * 9007199254740992 := by
        apply Int.mul_le_mul_of_nonneg_right _ (by decide)
        omega
      omega
    omega

theorem retryInterval_nonneg (initial : Int) (h0 : 0 ≤ initial) (outs : List Out) : 0 ≤ retryInterval initial outs := by
  rw [retryInterval_eq_retryBase]
  unfold retryBase
  split
  · exact h0
  · simp only []
    split <;> omega

theorem growI_nonneg_exact (cfg : Cfg) (mn : Int) (md : Nat) (jn : Int) (jd : Nat) (hmn : 0 ≤ mn) (b : Int) (hb : 0 ≤ b) :
    0 ≤ growI cfg (exactFloats mn md jn jd) b := by
  unfold growI growInterval
  split
  · rename_i h
    simp only [Bool.and_eq_true, decide_eq_true_eq] at h
    omega
  · simp only [exactFloats]
    exact Int.tdiv_nonneg (Int.mul_nonneg hb hmn) (Int.natCast_nonneg md)

end GoSSE.Proofs.ClientBackoff
