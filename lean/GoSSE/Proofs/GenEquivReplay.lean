import GoSSE.Proofs.GenEquivQueue
import GoSSE.Proofs.GenEquivFields
import GoSSE.Proofs.QueueNum
import GoSSE.Proofs.MessageLines
import GoSSE.Gen.Replay
import GoSSE.Model.Finite
import GoSSE.Model.Valid
/-!
# The translated replayers (`replay.go`) compute the model's

`GoSSE/Gen/Replay.lean` holds `ensureID`, `queue.each`, `findIDInQueue`, `FiniteReplayer.Put/Replay`,
`ValidReplayer.shouldGC/doGC/GC/Put/Replay` (with `Message.Clone`, `ID`, `must`) as translated from /repo's current
source. This file relates them to `Model/Queue.lean`, `Model/Finite.lean`, `Model/Valid.lean`.
-/
set_option linter.unusedSimpArgs false
namespace GoSSE.GenEquiv
open GoSSE GoSSE.GoRT GoSSE.Model GoSSE.Spec GoSSE.Proofs

/-! ## strconv -/

theorem formatDigits_eq (fuel u : Nat) (acc : Bytes) : formatDigits fuel u acc = formatBits fuel u acc := by
  induction fuel generalizing u acc with
  | zero => rfl
  | succ f ih => unfold formatDigits formatBits; simp only [ih]

theorem strconvFormatUint_eq (n : Nat) (h : n < 18446744073709551616) :
    strconvFormatUint (UInt64.ofNat n) = fmtUint n := by
  unfold strconvFormatUint fmtUint
  have : (UInt64.ofNat n).toNat = n := by
    simp [UInt64.toNat_ofNat']; omega
  rw [this, formatDigits_eq]

theorem parseUintDigits_eq (s : Bytes) (n : Nat) :
    (parseUintDigits s n).1 = (parseUintLoop s n).1 ∧ (parseUintDigits s n).2.isSome = (parseUintLoop s n).2 := by
  induction s generalizing n with
  | nil => exact ⟨rfl, rfl⟩
  | cons c t ih =>
    unfold parseUintDigits parseUintLoop
    by_cases hd : isDigit c = true
    · have hd' : (48 ≤ c && c ≤ 57) = true := by simpa [isDigit] using hd
      simp only [hd, hd', Bool.not_true, Bool.false_eq_true, if_false]
      by_cases ho : n * 10 + (c.toNat - 48) > maxUint64
      · have ho' : n * 10 + (c.toNat - 48) > 18446744073709551615 := ho
        simp [ho, ho']; rfl
      · have ho' : ¬ n * 10 + (c.toNat - 48) > 18446744073709551615 := ho
        simp only [ho, ho', if_false]
        exact ih _
    · have hd' : (48 ≤ c && c ≤ 57) = false := by
        have : isDigit c = false := by simpa using hd
        simpa [isDigit] using this
      simp [hd, hd']

theorem strconvParseUint_eq (s : Bytes) :
    (strconvParseUint s).1 = UInt64.ofNat (parseUint s).1 ∧ (strconvParseUint s).2.isSome = (parseUint s).2 := by
  unfold strconvParseUint parseUint
  cases s with
  | nil => simp
  | cons c t =>
    have h := parseUintDigits_eq (c :: t) 0
    simp only [List.isEmpty_cons, Bool.false_eq_true, if_false]
    exact ⟨by rw [h.1], h.2⟩

/-! ## event IDs and messages -/

/-- the translated `EventID` of a model ID (`none` = unset) -/
def genID : EventID → Gen.EventID
  | none => { messageField := { value := [], set := false } }
  | some v => { messageField := { value := v, set := true } }

theorem genID_inj {a b : EventID} : genID a = genID b ↔ a = b := by
  cases a <;> cases b <;> simp [genID]

@[simp] theorem genID_beq (a b : EventID) : (genID a == genID b) = decide (a = b) := by
  by_cases h : a = b
  · subst h; simp
  · have : genID a ≠ genID b := fun e => h (genID_inj.mp e)
    simp [h, this]

@[simp] theorem IsSet_genID (fuel : Nat) (id : EventID) :
    Gen.messageField_IsSet fuel (genID id).messageField = .ok id.isSome := by
  cases id <;> rfl

@[simp] theorem String_genID (fuel : Nat) (id : EventID) :
    Gen.messageField_String fuel (genID id).messageField = .ok (id.getD []) := by
  cases id <;> rfl

theorem isDigit_not_nl (b : Byte) (h : isDigit b = true) : isNl b = false := by
  simp only [isDigit, Bool.and_eq_true, decide_eq_true_eq] at h
  have h1 : 48 ≤ b.toNat := by have := h.1; exact UInt8.le_iff_toNat_le.mp this
  simp only [isNl, Bool.or_eq_false_iff, beq_eq_false_iff_ne, ne_eq]
  constructor <;> intro e <;> subst e <;> simp at h1

theorem nlFree_decimal (n : Nat) : NlFree (decimal n) := by
  intro b hb
  have := (decimal_spec n).1
  rw [List.all_eq_true] at this
  exact isDigit_not_nl b (this b hb)

theorem newID_nlFree (v : Bytes) (h : NlFree v) : newID v = ({ value := v, set := true }, false) := by
  unfold newID newMessageField
  simp [(isSingleLine_iff v).mpr h]

/-- `ID(strconv.FormatUint(n, 10))` never panics -/
theorem ID_digits (fuel : Nat) (n : Nat) (hf : (fmtUint n).length < fuel) :
    Gen.ID fuel (fmtUint n) = .ok (genID (some (fmtUint n))) := by
  unfold Gen.ID
  obtain ⟨err, h1, h2⟩ := NewID_eq fuel (fmtUint n) hf
  have hn : newID (fmtUint n) = ({ value := fmtUint n, set := true }, false) := by
    rw [formatUint_eq]; exact newID_nlFree _ (nlFree_decimal n)
  rw [hn] at h1 h2
  have he : err = none := by cases err <;> simp_all
  subst he
  simp only [bind, Except.bind, h1, Gen.must]
  rfl

theorem sliceTo_len {α} (s : List α) : sliceTo s (len s) = .ok s := by
  unfold sliceTo len
  have : (0 : Int) ≤ (s.length : Int) ∧ (s.length : Int) ≤ s.length := ⟨by omega, by omega⟩
  simp [this, pure, Except.pure]

@[simp] theorem Clone_eq (fuel : Nat) (m : Gen.Message) : Gen.Message_Clone fuel m = .ok (m, m) := by
  unfold Gen.Message_Clone
  simp [bind, Except.bind, sliceTo_len, pure, Except.pure]

def putErrStr : PutErr → String
  | .noTopic => "ErrNoTopic"
  | .noID => "message has no ID"
  | .hasID => "message already has an ID, can't use generated ID"

/-- the counter cell of a model counter -/
def genCur (cur : Option Nat) : Option UInt64 := cur.map UInt64.ofNat

/-- `ensureID`: the same verdict; with automatic IDs a copy of the message that differs in its ID only, and the counter
one further (no wrap-around: `cur + 1 < 2^64`) -/
theorem ensureID_eq (fuel : Nat) (m : Gen.Message) (id : EventID) (hm : m.ID = genID id) (cur : Option Nat)
    (hc : ∀ c, cur = some c → c + 1 < 18446744073709551616) (hf : ∀ c, cur = some c → (fmtUint c).length < fuel) :
    Gen.ensureID fuel m (genCur cur) =
      match Model.ensureID id cur with
      | .error e => .ok (none, some (putErrStr e), genCur cur)
      | .ok (id', cur') => .ok (some { m with ID := genID id' }, none, genCur cur') := by
  unfold Gen.ensureID Model.ensureID
  cases cur with
  | none =>
    simp only [genCur, Option.map_none, beq_self_eq_true, if_true, bind, Except.bind, hm, IsSet_genID]
    cases id with
    | none => simp [pure, Except.pure, putErrStr]
    | some v =>
      simp only [Option.isSome_some, Bool.not_true, Bool.false_eq_true, if_false, pure, Except.pure]
      rw [← hm]; rfl
  | some c =>
    have hc' := hc c rfl
    have hf' := hf c rfl
    have hne : (genCur (some c) == none) = false := by simp [genCur]
    simp only [hne, Bool.false_eq_true, if_false, bind, Except.bind, hm, IsSet_genID]
    cases id with
    | some v => simp [pure, Except.pure, putErrStr]
    | none =>
      have h1 : strconvFormatUint (UInt64.ofNat c) = fmtUint c := strconvFormatUint_eq c (by omega)
      have h2 := ID_digits fuel c hf'
      have h3 : UInt64.ofNat c + 1 = UInt64.ofNat (c + 1) := by
        rw [UInt64.ofNat_add]; rfl
      simp only [Option.isSome_none, Bool.false_eq_true, if_false, Clone_eq, genCur, Option.map_some, derefPtr,
        pure, Except.pure, h1, h2, h3]

/-! ## `queue.each` -/

/-- the translated queue over any slot representation `g` -/
def toGenQ {T : Type} (g : Slot → T) (q : Queue) : Gen.queue T :=
  { buf := q.buf.map g, head := (q.head : Int), tail := (q.tail : Int), count := (q.count : Int) }

/-- a translated computation agrees with a model outcome: the same value (through `v`), or a panic on both sides -/
def AgreesV {α β : Type} (v : α → β) (g : GoM β) (m : QRes α) : Prop :=
  match m with
  | .ok a => g = .ok (v a)
  | .panic => ∃ msg, g = .error (.panic msg)

/-- the three loops of `each` are one loop with a different bound -/
def eachBody {T κ : Type} [Inhabited T] (bound : Int) (q : Gen.queue T) (yield : Int → T → κ → GoM (Bool × κ))
    (st : Int × κ) : GoM (Step (Int × κ) (Gen.queue T × κ)) := do
  if decide (st.1 < bound) then do
    let b ← idx q.buf st.1
    let y ← yield st.1 b st.2
    if !y.1 then pure (Step.ret (q, y.2)) else pure (Step.next (st.1 + 1, y.2))
  else pure (Step.brk (st.1, st.2))

theorem each_loop1_is {T κ : Type} [Inhabited T] (fuel : Nat) (q : Gen.queue T) (yield : Int → T → κ → GoM (Bool × κ)) :
    Gen.queue_each_loop1 fuel q yield = eachBody q.tail q yield := by
  funext st; rfl

theorem each_loop2_is {T κ : Type} [Inhabited T] (fuel : Nat) (q : Gen.queue T) (yield : Int → T → κ → GoM (Bool × κ)) :
    Gen.queue_each_loop2 fuel q yield = eachBody (len q.buf) q yield := by
  funext st; rfl

theorem each_loop3_is {T κ : Type} [Inhabited T] (fuel : Nat) (q : Gen.queue T) (yield : Int → T → κ → GoM (Bool × κ)) :
    Gen.queue_each_loop3 fuel q yield = eachBody q.tail q yield := by
  funext st; rfl

theorem idx_map_ok {T : Type} [Inhabited T] (g : Slot → T) (buf : List Slot) (i : Nat) (x : Slot) (h : buf[i]? = some x) :
    idx (buf.map g) (i : Int) = .ok (g x) := by
  have hi : i < buf.length := by
    rcases Nat.lt_or_ge i buf.length with h' | h'
    · exact h'
    · rw [List.getElem?_eq_none h'] at h; cases h
  unfold idx len
  have : (0 : Int) ≤ i ∧ (i : Int) < ((buf.map g).length : Nat) := ⟨by omega, by simp; omega⟩
  simp only [this, and_self, if_true, pure, Except.pure, Int.toNat_natCast]
  have hx : buf[i] = x := by
    rw [List.getElem?_eq_getElem hi] at h; exact Option.some.inj h
  simp [List.getD_eq_getElem?_getD, hi, hx]

theorem idx_map_panic {T : Type} [Inhabited T] (g : Slot → T) (buf : List Slot) (i : Nat) (h : buf[i]? = none) :
    idx (buf.map g) (i : Int) = .error (.panic "index out of range") := by
  have hi : buf.length ≤ i := by
    rcases Nat.lt_or_ge i buf.length with h' | h'
    · rw [List.getElem?_eq_getElem h'] at h; cases h
    · exact h'
  unfold idx len
  have : ¬ ((0 : Int) ≤ i ∧ (i : Int) < ((buf.map g).length : Nat)) := by simp; omega
  rw [if_neg this]; rfl

/-- what the callback of the model and the function literal of the translated code have to do with each other -/
def YieldAgrees {T κ σ : Type} (buf : List Slot) (P : σ → Prop) (g : Slot → T) (r : σ → κ)
    (yield : Int → T → κ → GoM (Bool × κ)) (f : σ → Nat → Slot → QRes (σ × Bool)) : Prop :=
  ∀ (s : σ) (i : Nat) (x : Slot), x ∈ buf → P s →
    AgreesV (fun (p : σ × Bool) => (p.2, r p.1)) (yield (i : Int) (g x) (r s)) (f s i x) ∧
    ∀ s', f s i x = .ok (s', true) → P s'

/-- how a loop of the translated `each` ends, for an outcome of the model's `eachLoop` -/
def EachAgrees {T κ σ : Type} (P : σ → Prop) (r : σ → κ) (gq : Gen.queue T) (stop : Int) (res : QRes (σ × Bool))
    (lhs : GoM ((Int × κ) ⊕ (Gen.queue T × κ))) : Prop :=
  match res with
  | .ok (s', true) => lhs = .ok (.inl (stop, r s')) ∧ P s'
  | .ok (s', false) => lhs = .ok (.inr (gq, r s'))
  | .panic => ∃ msg, lhs = .error (.panic msg)

/-- one loop of `each`: `bound - i` iterations from `i` -/
theorem eachLoop_eq {T κ σ : Type} [Inhabited T] (P : σ → Prop) (g : Slot → T) (r : σ → κ)
    (yield : Int → T → κ → GoM (Bool × κ))
    (f : σ → Nat → Slot → QRes (σ × Bool)) (q : Queue) (hy : YieldAgrees q.buf P g r yield f) (bound : Nat) :
    ∀ (n i : Nat) (s : σ) (fuel : Nat), P s → n = bound - i → n < fuel →
      EachAgrees P r (toGenQ g q) ((max i bound : Nat) : Int) (Queue.eachLoop q.buf f n i s)
        (loopM (eachBody (bound : Int) (toGenQ g q) yield) fuel ((i : Int), r s)) := by
  intro n
  induction n with
  | zero =>
    intro i s fuel hP hn hf
    obtain ⟨k, rfl⟩ : ∃ k, fuel = k + 1 := ⟨fuel - 1, by omega⟩
    have hc : ¬ ((i : Int) < (bound : Int)) := by omega
    have hstep : eachBody (bound : Int) (toGenQ g q) yield ((i : Int), r s) = .ok (Step.brk ((i : Int), r s)) := by
      unfold eachBody; simp [hc, pure, Except.pure]
    have : max i bound = i := by omega
    unfold Queue.eachLoop loopM EachAgrees
    rw [hstep]
    simp [pure, Except.pure, this, hP]
  | succ n ih =>
    intro i s fuel hP hn hf
    obtain ⟨k, rfl⟩ : ∃ k, fuel = k + 1 := ⟨fuel - 1, by omega⟩
    have hc : ((i : Int) < (bound : Int)) := by omega
    unfold Queue.eachLoop
    cases hb : q.buf[i]? with
    | none =>
      have hstep : eachBody (bound : Int) (toGenQ g q) yield ((i : Int), r s) = .error (.panic "index out of range") := by
        unfold eachBody; simp [hc, toGenQ, bind, Except.bind, idx_map_panic g q.buf i hb]
      refine ⟨"index out of range", ?_⟩
      unfold loopM; rw [hstep]
    | some x =>
      have hi := idx_map_ok g q.buf i x hb
      have hmem : x ∈ q.buf := List.mem_of_getElem? hb
      have hyx := (hy s i x hmem hP).1
      have hPn := (hy s i x hmem hP).2
      show EachAgrees P r (toGenQ g q) _ (match f s i x with
        | .panic => .panic
        | .ok (s', cont) => if cont then Queue.eachLoop q.buf f n (i + 1) s' else .ok (s', false)) _
      cases hfx : f s i x with
      | panic =>
        rw [hfx] at hyx
        obtain ⟨msg, hm⟩ := hyx
        have hstep : eachBody (bound : Int) (toGenQ g q) yield ((i : Int), r s) = .error (.panic msg) := by
          unfold eachBody; simp [hc, toGenQ, bind, Except.bind, hi, hm]
        refine ⟨msg, ?_⟩
        unfold loopM; rw [hstep]
      | ok p =>
        obtain ⟨s', cont⟩ := p
        rw [hfx] at hyx
        have hm : yield (i : Int) (g x) (r s) = .ok (cont, r s') := hyx
        cases cont with
        | false =>
          have hstep : eachBody (bound : Int) (toGenQ g q) yield ((i : Int), r s) = .ok (Step.ret (toGenQ g q, r s')) := by
            unfold eachBody; simp [hc, toGenQ, bind, Except.bind, hi, hm, pure, Except.pure]
          show EachAgrees P r (toGenQ g q) _ (.ok (s', false)) _
          unfold EachAgrees loopM; rw [hstep]; rfl
        | true =>
          have hstep : eachBody (bound : Int) (toGenQ g q) yield ((i : Int), r s) = .ok (Step.next (((i + 1 : Nat) : Int), r s')) := by
            unfold eachBody; simp [hc, toGenQ, bind, Except.bind, hi, hm, pure, Except.pure]
          show EachAgrees P r (toGenQ g q) _ (Queue.eachLoop q.buf f n (i + 1) s') _
          have := ih (i + 1) s' k (hPn s' hfx) (by omega) (by omega)
          have hmax : max (i + 1) bound = max i bound := by omega
          rw [hmax] at this
          unfold loopM; rw [hstep]
          exact this

/-- `q.each(startAt)(literal)`: the translated iterator, given a literal that agrees with the model's callback, ends
in the model's state (through `r`) with the queue untouched, and panics exactly where the model does -/
theorem each_eq {T κ σ : Type} [Inhabited T] (P : σ → Prop) (g : Slot → T) (r : σ → κ)
    (yield : Int → T → κ → GoM (Bool × κ))
    (f : σ → Nat → Slot → QRes (σ × Bool)) (q : Queue) (hy : YieldAgrees q.buf P g r yield f) (startAt : Nat) (s : σ) (hP : P s)
    (fuel : Nat) (hf : q.tail + q.buf.length + 1 < fuel) :
    AgreesV (fun s' => (toGenQ g q, r s')) (Gen.queue_each fuel (toGenQ g q) (startAt : Int) yield (r s))
      (Queue.each q startAt f s) := by
  unfold Gen.queue_each Queue.each
  have hlen : len (toGenQ g q).buf = (q.buf.length : Int) := by simp [toGenQ, len]
  by_cases hlt : startAt < q.tail
  · have hc : decide ((startAt : Int) < (toGenQ g q).tail) = true := by simp [toGenQ]; omega
    simp only [hc, if_true, hlt, each_loop1_is, bind, Except.bind]
    have h := eachLoop_eq P g r yield f q hy q.tail (q.tail - startAt) startAt s fuel hP rfl (by omega)
    have htl : (toGenQ g q).tail = (q.tail : Int) := rfl
    rw [htl]
    cases hr : Queue.eachLoop q.buf f (q.tail - startAt) startAt s with
    | panic =>
      rw [hr] at h
      obtain ⟨msg, hm⟩ := h
      exact ⟨msg, by rw [hm]⟩
    | ok p =>
      obtain ⟨s', cont⟩ := p
      rw [hr] at h
      cases cont with
      | true => have h' : _ = _ := h.1; simp only [AgreesV]; rw [h']; rfl
      | false => have h' : _ = _ := h; simp only [AgreesV]; rw [h']; rfl
  · have hc : decide ((startAt : Int) < (toGenQ g q).tail) = false := by simp [toGenQ]; omega
    simp only [hc, Bool.false_eq_true, if_false, hlt, each_loop2_is, each_loop3_is, bind, Except.bind, hlen]
    have h := eachLoop_eq P g r yield f q hy q.buf.length (q.buf.length - startAt) startAt s fuel hP rfl (by omega)
    cases hr : Queue.eachLoop q.buf f (q.buf.length - startAt) startAt s with
    | panic =>
      rw [hr] at h
      obtain ⟨msg, hm⟩ := h
      exact ⟨msg, by rw [hm]⟩
    | ok p =>
      obtain ⟨s1, cont⟩ := p
      rw [hr] at h
      cases cont with
      | false => have h' : _ = _ := h; simp only [AgreesV]; rw [h']; rfl
      | true =>
        have h' : _ = _ := h.1
        have hP1 := h.2
        rw [h']
        simp only [Bool.not_true, Bool.false_eq_true, if_false]
        have htl : (toGenQ g q).tail = (q.tail : Int) := rfl
        rw [htl]
        have h3 := eachLoop_eq P g r yield f q hy q.tail q.tail 0 s1 fuel hP1 (by omega) (by omega)
        cases hr3 : Queue.eachLoop q.buf f q.tail 0 s1 with
        | panic =>
          rw [hr3] at h3
          obtain ⟨msg, hm⟩ := h3
          exact ⟨msg, by simp only [Int.natCast_zero] at hm; rw [hm]⟩
        | ok p3 =>
          obtain ⟨s3, c3⟩ := p3
          rw [hr3] at h3
          cases c3 with
          | true => have h'' : _ = _ := h3.1; simp only [AgreesV]; simp only [Int.natCast_zero] at h''; rw [h'']; rfl
          | false => have h'' : _ = _ := h3; simp only [AgreesV]; simp only [Int.natCast_zero] at h''; rw [h'']; rfl

/-! ## `findIDInQueue` -/

theorem u64_toNat (n : Nat) (h : n < 18446744073709551616) : (UInt64.ofNat n).toNat = n :=
  UInt64.toNat_ofNat_of_lt' h

theorem u64_ge (a b : Nat) (ha : a < 18446744073709551616) (hb : b < 18446744073709551616) :
    (UInt64.ofNat a ≥ UInt64.ofNat b) ↔ a ≥ b := by
  show UInt64.ofNat b ≤ UInt64.ofNat a ↔ _
  rw [UInt64.le_iff_toNat_le, u64_toNat a ha, u64_toNat b hb]

theorem u64_sub (a b : Nat) (ha : a < 18446744073709551616) (hb : b < 18446744073709551616) (h : b ≤ a) :
    UInt64.ofNat a - UInt64.ofNat b = UInt64.ofNat (a - b) := by
  apply UInt64.toNat_inj.mp
  rw [UInt64.toNat_sub_of_le _ _ ((u64_ge a b ha hb).mpr h), u64_toNat a ha, u64_toNat b hb, u64_toNat (a - b) (by omega)]

theorem u64OfInt_nat (n : Nat) (h : n < 18446744073709551616) : u64OfInt (n : Int) = UInt64.ofNat n := by
  unfold u64OfInt
  have : ((n : Int) % 18446744073709551616).toNat = n := by omega
  rw [this]

theorem intOfU64_nat (n : Nat) (h : n < 9223372036854775808) : intOfU64 (UInt64.ofNat n) = (n : Int) := by
  unfold intOfU64
  rw [u64_toNat n (by omega)]
  simp [h]

theorem parseUintLoop_le (s : Bytes) (n : Nat) (hn : n ≤ maxUint64) : (parseUintLoop s n).1 ≤ maxUint64 := by
  induction s generalizing n with
  | nil => exact hn
  | cons c t ih =>
    unfold parseUintLoop
    by_cases hd : isDigit c = true
    · simp only [hd, Bool.not_true, Bool.false_eq_true, if_false]
      by_cases ho : n * 10 + (c.toNat - 48) > maxUint64
      · simp [ho]
      · simp only [ho, if_false]; exact ih _ (by omega)
    · simp [hd]

theorem parseUint_lt (s : Bytes) : (parseUint s).1 < 18446744073709551616 := by
  unfold parseUint
  cases s with
  | nil => simp
  | cons c t =>
    have := parseUintLoop_le (c :: t) 0 (by unfold maxUint64; omega)
    simp only [List.isEmpty_cons, Bool.false_eq_true, if_false]
    unfold maxUint64 at this; omega

@[simp] theorem toGenQ_head {T : Type} (g : Slot → T) (q : Queue) : (toGenQ g q).head = (q.head : Int) := rfl
@[simp] theorem toGenQ_tail {T : Type} (g : Slot → T) (q : Queue) : (toGenQ g q).tail = (q.tail : Int) := rfl
@[simp] theorem toGenQ_count {T : Type} (g : Slot → T) (q : Queue) : (toGenQ g q).count = (q.count : Int) := rfl
@[simp] theorem toGenQ_buf {T : Type} (g : Slot → T) (q : Queue) : (toGenQ g q).buf = q.buf.map g := rfl

/-- the method dictionary agrees with the model's `m.ID()` -/
def IDAgrees {T : Type} (g : Slot → T) (M_ID : Nat → T → GoM Gen.EventID) : Prop :=
  ∀ (fuel : Nat) (x : Slot), AgreesV genID (M_ID fuel (g x)) (slotID x)

theorem findLit_agrees {T : Type} (buf : List Slot) (g : Slot → T) (M_ID : Nat → T → GoM Gen.EventID) (hid : IDAgrees g M_ID)
    (fuel : Nat) (id : EventID) :
    YieldAgrees buf (fun _ => True) g (fun (x : Int) => x)
      (fun (j : Int) (m : T) (cst : Int) => (do
        let m_29 ← M_ID fuel m
        if (m_29 == genID id) then pure (false, j) else pure (true, cst) : GoM (Bool × Int)))
      (findStep id) := by
  intro s i x _ _
  refine ⟨?_, fun _ _ => trivial⟩
  have h := hid fuel x
  unfold findStep
  cases hs : slotID x with
  | panic =>
    rw [hs] at h
    obtain ⟨msg, hm⟩ := h
    exact ⟨msg, by simp [bind, Except.bind, hm]⟩
  | ok mid =>
    rw [hs] at h
    have hm : M_ID fuel (g x) = .ok (genID mid) := h
    by_cases he : mid = id
    · simp [AgreesV, bind, Except.bind, hm, he, pure, Except.pure]
    · simp [AgreesV, bind, Except.bind, hm, he, pure, Except.pure]

theorem findIDInQueue_manual_eq {T : Type} [Inhabited T] (g : Slot → T) (M_ID : Nat → T → GoM Gen.EventID)
    (hid : IDAgrees g M_ID) (q : Queue) (id : EventID) (fuel : Nat) (hf : q.tail + q.buf.length + 1 < fuel) :
    AgreesV (fun i => (i, toGenQ g q)) (Gen.findIDInQueue fuel M_ID (toGenQ g q) (genID id) false)
      (Model.findIDInQueue q id false) := by
  unfold Gen.findIDInQueue Model.findIDInQueue
  by_cases hc : q.count = 0
  · have : ((toGenQ g q).count == (0 : Int)) = true := by simp [hc]
    simp only [this, if_true, hc, pure, Except.pure, AgreesV]
  · have : ((toGenQ g q).count == (0 : Int)) = false := by simp; omega
    simp only [this, Bool.false_eq_true, if_false, hc, bind, Except.bind, toGenQ_head]
    have h := each_eq (fun _ => True) g (fun (x : Int) => x) _ (findStep id) q (findLit_agrees q.buf g M_ID hid fuel id) q.head (-1 : Int) trivial fuel hf
    cases hr : Queue.each q q.head (findStep id) (-1 : Int) with
    | panic =>
      rw [hr] at h
      obtain ⟨msg, hm⟩ := h
      refine ⟨msg, ?_⟩
      simp only [bind, Except.bind] at hm
      rw [hm]
    | ok i =>
      rw [hr] at h
      have hm : _ = _ := h
      simp only [bind, Except.bind] at hm
      rw [hm]
      simp only [AgreesV, Gen.findIDInQueue_j3, toGenQ_tail, toGenQ_buf, len, List.length_map, pure, Except.pure]
      by_cases hi : i = -1
      · simp [hi]
      · have : (i != (-1 : Int)) = true := by simp [hi]
        simp only [this, if_true, hi, if_false, ne_eq, not_false_eq_true]
        by_cases hw : i + 1 = (q.buf.length : Int)
        · have hw' : (i + 1 == (q.buf.length : Int)) = true := by simp [hw]
          simp only [hw', if_true, hw]
          by_cases ht : (0 : Int) = (q.tail : Int)
          · have ht' : ((0 : Int) == (q.tail : Int)) = true := by simp [ht]
            simp [ht', ht]
          · have ht' : ((0 : Int) == (q.tail : Int)) = false := by simp [ht]
            simp [ht', ht]
        · have hw' : (i + 1 == (q.buf.length : Int)) = false := by simp [hw]
          simp only [hw', Bool.false_eq_true, if_false, hw]
          by_cases ht : i + 1 = (q.tail : Int)
          · have ht' : (i + 1 == (q.tail : Int)) = true := by simp [ht]
            simp [ht', ht]
          · have ht' : (i + 1 == (q.tail : Int)) = false := by simp [ht]
            simp [ht', ht]

theorem findIDInQueue_auto_eq {T : Type} [Inhabited T] (g : Slot → T) (M_ID : Nat → T → GoM Gen.EventID)
    (hid : IDAgrees g M_ID) (q : Queue) (id : EventID) (fuel : Nat) (hcount : q.count < 9223372036854775808) :
    AgreesV (fun i => (i, toGenQ g q)) (Gen.findIDInQueue fuel M_ID (toGenQ g q) (genID id) true)
      (Model.findIDInQueue q id true) := by
  unfold Gen.findIDInQueue Model.findIDInQueue
  by_cases hc : q.count = 0
  · have : ((toGenQ g q).count == (0 : Int)) = true := by simp [hc]
    simp only [this, if_true, hc, pure, Except.pure, AgreesV]
  · have : ((toGenQ g q).count == (0 : Int)) = false := by simp; omega
    simp only [this, Bool.false_eq_true, if_false, hc, if_true, bind, Except.bind, String_genID, toGenQ_head, toGenQ_buf]
    obtain ⟨hp1, hp2⟩ := strconvParseUint_eq (id.getD [])
    by_cases hperr : (parseUint (id.getD [])).2 = true
    · have : ((strconvParseUint (id.getD [])).2 != none) = true := by
        rw [hperr] at hp2
        cases h : (strconvParseUint (id.getD [])).2 <;> simp_all
      simp only [this, if_true, hperr, pure, Except.pure, AgreesV]
    · have hperr' : (parseUint (id.getD [])).2 = false := by simpa using hperr
      have : ((strconvParseUint (id.getD [])).2 != none) = false := by
        rw [hperr'] at hp2
        cases h : (strconvParseUint (id.getD [])).2 <;> simp_all
      simp only [this, Bool.false_eq_true, if_false, hperr']
      cases hb : q.buf[q.head]? with
      | none =>
        simp only [idx_map_panic g q.buf q.head hb]
        exact ⟨_, rfl⟩
      | some slot =>
        simp only [idx_map_ok g q.buf q.head slot hb]
        have hs := hid fuel slot
        cases hsl : slotID slot with
        | panic =>
          rw [hsl] at hs
          obtain ⟨msg, hm⟩ := hs
          simp only [hm]
          exact ⟨_, rfl⟩
        | ok fid =>
          rw [hsl] at hs
          have hm : M_ID fuel (g slot) = .ok (genID fid) := hs
          simp only [hm, String_genID]
          obtain ⟨hf1, _⟩ := strconvParseUint_eq (fid.getD [])
          rw [hp1, hf1]
          have ha := parseUint_lt (id.getD [])
          have hb' := parseUint_lt (fid.getD [])
          generalize (parseUint (id.getD [])).1 = a at *
          generalize (parseUint (fid.getD [])).1 = b at *
          have hcnt : u64OfInt ((q.count : Int) - 1) = UInt64.ofNat (q.count - 1) := by
            have : ((q.count : Int) - 1) = ((q.count - 1 : Nat) : Int) := by omega
            rw [this]; exact u64OfInt_nat _ (by omega)
          simp only [toGenQ_count, hcnt, Gen.findIDInQueue_j1, Gen.findIDInQueue_j2, toGenQ_head, toGenQ_buf, len,
            List.length_map, pure, Except.pure, AgreesV]
          by_cases hge : a ≥ b
          · have h1 : decide (UInt64.ofNat a ≥ UInt64.ofNat b) = true := by
              simp only [decide_eq_true_eq]; exact (u64_ge a b ha hb').mpr hge
            rw [u64_sub a b ha hb' hge]
            simp only [h1, if_true]
            by_cases hd : a - b ≥ q.count - 1
            · have h2 : decide (UInt64.ofNat (a - b) ≥ UInt64.ofNat (q.count - 1)) = true := by
                simp only [decide_eq_true_eq]; exact (u64_ge _ _ (by omega) (by omega)).mpr hd
              simp [h2, hge, hd]
            · have h2 : decide (UInt64.ofNat (a - b) ≥ UInt64.ofNat (q.count - 1)) = false := by
                simp only [decide_eq_false_iff_not]; intro h; exact hd ((u64_ge _ _ (by omega) (by omega)).mp h)
              have h3 : intOfU64 (UInt64.ofNat (a - b)) = ((a - b : Nat) : Int) := intOfU64_nat _ (by omega)
              simp only [h2, Bool.false_eq_true, if_false, h3, hge, hd, and_false, if_true]
              by_cases hw : ((a - b : Nat) : Int) + (q.head : Int) + 1 ≥ (q.buf.length : Int)
              · simp [hw]
              · simp [hw]
          · have h1 : decide (UInt64.ofNat a ≥ UInt64.ofNat b) = false := by
              simp only [decide_eq_false_iff_not]; intro h; exact hge ((u64_ge a b ha hb').mp h)
            simp only [h1, Bool.false_eq_true, if_false, hge, false_and]
            by_cases hw : (-1 : Int) + (q.head : Int) + 1 ≥ (q.buf.length : Int)
            · simp [hw]
            · simp [hw]

/-- `findIDInQueue`: the same index (−1 = nothing to replay) or a panic on both sides; the queue comes back untouched -/
theorem findIDInQueue_eq {T : Type} [Inhabited T] (g : Slot → T) (M_ID : Nat → T → GoM Gen.EventID)
    (hid : IDAgrees g M_ID) (q : Queue) (id : EventID) (auto : Bool) (fuel : Nat)
    (hf : q.tail + q.buf.length + 1 < fuel) (hcount : q.count < 9223372036854775808) :
    AgreesV (fun i => (i, toGenQ g q)) (Gen.findIDInQueue fuel M_ID (toGenQ g q) (genID id) auto)
      (Model.findIDInQueue q id auto) := by
  cases auto
  · exact findIDInQueue_manual_eq g M_ID hid q id fuel hf
  · exact findIDInQueue_auto_eq g M_ID hid q id fuel hcount

/-! ## the ring buffer at any slot representation

`GenEquivQueue` relates the translated `enqueue / dequeue / resize` at `T = Slot` to the model. They are generic in
`T`, and commute with any map `g` of the slots that sends the zero slot to the zero value — which carries those
theorems over to the slot types the replayers really use (`messageWithTopics`, `messageWithTopicsAndExpiry`). -/

def mapQ {T : Type} (g : Slot → T) (q : Gen.queue Slot) : Gen.queue T :=
  { buf := q.buf.map g, head := q.head, tail := q.tail, count := q.count }

theorem toGenQ_eq_mapQ {T : Type} (g : Slot → T) (q : Queue) : toGenQ g q = mapQ g (toGen q) := rfl

theorem setIdx_map {α β : Type} (g : α → β) (l : List α) (i : Int) (v : α) :
    setIdx (l.map g) i (g v) = Except.map (List.map g) (setIdx l i v) := by
  unfold setIdx len
  simp only [List.length_map]
  split <;> simp [pure, Except.pure, Except.map, List.map_set, throw, throwThe, MonadExceptOf.throw]

theorem makeSlice_map {α β : Type} (g : α → β) (z : α) (n : Int) :
    makeSlice (g z) n = Except.map (List.map g) (makeSlice z n) := by
  unfold makeSlice
  split <;> simp [pure, Except.pure, Except.map, throw, throwThe, MonadExceptOf.throw]

theorem slice_map {α β : Type} (g : α → β) (l : List α) (i j : Int) :
    slice (l.map g) i j = Except.map (List.map g) (slice l i j) := by
  unfold slice len
  simp only [List.length_map]
  split <;> simp [pure, Except.pure, Except.map, throw, throwThe, MonadExceptOf.throw, List.map_drop, List.map_take]

theorem sliceFrom_map {α β : Type} (g : α → β) (l : List α) (i : Int) :
    sliceFrom (l.map g) i = Except.map (List.map g) (sliceFrom l i) := by
  unfold sliceFrom len
  simp only [List.length_map]
  split <;> simp [pure, Except.pure, Except.map, throw, throwThe, MonadExceptOf.throw, List.map_drop]

theorem sliceTo_map {α β : Type} (g : α → β) (l : List α) (j : Int) :
    sliceTo (l.map g) j = Except.map (List.map g) (sliceTo l j) := by
  unfold sliceTo len
  simp only [List.length_map]
  split <;> simp [pure, Except.pure, Except.map, throw, throwThe, MonadExceptOf.throw, List.map_take]

theorem copyInto_map {α β : Type} (g : α → β) (dst : List α) (off : Int) (src : List α) :
    copyInto (dst.map g) off (src.map g) = Except.map (fun p => (p.1.map g, p.2)) (copyInto dst off src) := by
  unfold copyInto len
  simp only [List.length_map]
  split <;> simp [pure, Except.pure, Except.map, throw, throwThe, MonadExceptOf.throw, List.map_drop, List.map_take]

theorem enqueue_param {T : Type} [Inhabited T] (g : Slot → T) (fuel : Nat) (q : Gen.queue Slot) (v : Slot) :
    Gen.queue_enqueue fuel (mapQ g q) (g v) = Except.map (mapQ g) (Gen.queue_enqueue fuel q v) := by
  unfold Gen.queue_enqueue mapQ
  simp only [bind, Except.bind, setIdx_map]
  cases setIdx q.buf q.tail v with
  | error e => rfl
  | ok l =>
    simp only [Except.map, len, List.length_map]
    by_cases hc1 : (decide (q.tail + 1 > q.head) && q.count == (l.length : Int)) = true <;>
      by_cases hc2 : (q.tail + 1 == (l.length : Int)) = true <;>
      simp [hc1, hc2, pure, Except.pure]

theorem dequeue_param {T : Type} [Inhabited T] (g : Slot → T) (hg : g none = default) (fuel : Nat) (q : Gen.queue Slot) :
    Gen.queue_dequeue fuel (mapQ g q) = Except.map (mapQ g) (Gen.queue_dequeue fuel q) := by
  unfold Gen.queue_dequeue mapQ
  have : (default : T) = g (default : Slot) := hg.symm
  simp only [bind, Except.bind, this, setIdx_map]
  cases setIdx q.buf q.head (default : Slot) with
  | error e => rfl
  | ok l =>
    simp only [Except.map, len, List.length_map]
    by_cases hc2 : (q.head + 1 == (l.length : Int)) = true <;> simp [hc2, pure, Except.pure]

theorem resize_param {T : Type} [Inhabited T] (g : Slot → T) (hg : g none = default) (fuel : Nat) (q : Gen.queue Slot)
    (n : Int) : Gen.queue_resize fuel (mapQ g q) n = Except.map (mapQ g) (Gen.queue_resize fuel q n) := by
  unfold Gen.queue_resize mapQ
  have hd : (default : T) = g (default : Slot) := hg.symm
  have hmk := makeSlice_map g (default : Slot) n
  simp only [bind, Except.bind, hd, hmk, slice_map, sliceFrom_map, sliceTo_map]
  cases makeSlice (default : Slot) n with
  | error e => rfl
  | ok buf =>
    simp only [Except.map]
    by_cases hlt : decide (q.head < q.tail) = true
    · simp only [hlt, if_true]
      cases slice q.buf q.head q.tail with
      | error e => rfl
      | ok s1 =>
        simp only [copyInto_map]
        cases copyInto buf 0 s1 with
        | error e => rfl
        | ok cp => rfl
    · simp only [hlt, Bool.false_eq_true, if_false]
      cases sliceFrom q.buf q.head with
      | error e => rfl
      | ok s1 =>
        simp only [copyInto_map]
        cases copyInto buf 0 s1 with
        | error e => rfl
        | ok cp =>
          simp only [Except.map]
          cases sliceTo q.buf q.tail with
          | error e => rfl
          | ok s2 =>
            simp only [Except.map, copyInto_map]
            cases copyInto cp.1 cp.2 s2 with
            | error e => rfl
            | ok cp2 => rfl

theorem agrees_map {T : Type} (g : Slot → T) (x : GoM (Gen.queue Slot)) (m : QRes Queue) (h : Agrees x m) :
    AgreesV (toGenQ g) (Except.map (mapQ g) x) m := by
  unfold Agrees at h
  unfold AgreesV
  cases m with
  | ok q' => simp only at h ⊢; rw [h]; rfl
  | panic => obtain ⟨msg, hm⟩ := h; exact ⟨msg, by rw [hm]; rfl⟩

theorem enqueue_eqG {T : Type} [Inhabited T] (g : Slot → T) (fuel : Nat) (q : Queue) (v : Entry) :
    AgreesV (toGenQ g) (Gen.queue_enqueue fuel (toGenQ g q) (g (some v))) (Queue.enqueue q v) := by
  rw [toGenQ_eq_mapQ, enqueue_param]
  exact agrees_map g _ _ (enqueue_eq fuel q v)

theorem dequeue_eqG {T : Type} [Inhabited T] (g : Slot → T) (hg : g none = default) (fuel : Nat) (q : Queue)
    (hc : 0 < q.count) : AgreesV (toGenQ g) (Gen.queue_dequeue fuel (toGenQ g q)) (Queue.dequeue q) := by
  rw [toGenQ_eq_mapQ, dequeue_param g hg]
  exact agrees_map g _ _ (dequeue_eq fuel q hc)

theorem resize_eqG {T : Type} [Inhabited T] (g : Slot → T) (hg : g none = default) (fuel : Nat) (q : Queue) (n : Nat) :
    AgreesV (toGenQ g) (Gen.queue_resize fuel (toGenQ g q) (n : Int)) (Queue.resize q n) := by
  rw [toGenQ_eq_mapQ, resize_param g hg]
  exact agrees_map g _ _ (resize_eq fuel q n)

/-! ## `FiniteReplayer` -/

/-- the translated slot of a model slot; `mk` says which message an entry stands for -/
def gSlot (mk : Entry → Gen.Message) : Slot → Gen.messageWithTopics
  | none => { message := none, topics := [] }
  | some e => { message := some (mk e), topics := e.topics }

theorem gSlot_none (mk : Entry → Gen.Message) : gSlot mk none = default := rfl

/-- `mk` gives every entry a message that carries the entry's ID -/
def CarriesID (mk : Entry → Gen.Message) : Prop := ∀ e, (mk e).ID = genID e.id

theorem idAgrees_gSlot (mk : Entry → Gen.Message) (hmk : CarriesID mk) : IDAgrees (gSlot mk) Gen.messageWithTopics_ID := by
  intro fuel x
  cases x with
  | none => exact ⟨_, rfl⟩
  | some e =>
    show Gen.messageWithTopics_ID fuel (gSlot mk (some e)) = .ok (genID e.id)
    unfold Gen.messageWithTopics_ID gSlot
    simp [bind, Except.bind, derefPtr, pure, Except.pure, hmk e]

def toGenFin (mk : Entry → Gen.Message) (f : Finite) : Gen.FiniteReplayer :=
  { currentID := genCur f.currentID, buf := toGenQ (gSlot mk) f.buf }

/-- what the translated `Put` returns, for an outcome of the model's `put` (`toG`: the replayer's representation) -/
def PutAgrees {F G : Type} (mk : Entry → Gen.Message) (toG : F → G) (res : QRes (Except PutErr Entry × F))
    (lhs : GoM (Option Gen.Message × Option String × G)) : Prop :=
  match res with
  | .panic => ∃ msg, lhs = .error (.panic msg)
  | .ok (.error e, f') => lhs = .ok (none, some (putErrStr e), toG f')
  | .ok (.ok entry, f') => lhs = .ok (some (mk entry), none, toG f')

theorem len_eq_zero_iff {α} (l : List α) : (len l == (0 : Int)) = l.isEmpty := by
  cases l <;> simp [len]
  omega

/-- `FiniteReplayer.Put`: the caller's message `m` (tag `k`, ID `id`) goes in; the verdict, the stored message and the
replayer afterwards are the model's. The caller's `m` itself is an input only: nothing is handed back for it. -/
theorem finitePut_eq (mk : Entry → Gen.Message) (f : Finite) (k : Nat) (id : EventID) (topics : List Bytes)
    (m : Gen.Message) (hm : m.ID = genID id)
    (hmk : ∀ id', mk { msg := k, id := id', topics := topics, exp := 0 } = { m with ID := genID id' })
    (hc : ∀ c, f.currentID = some c → c + 1 < 18446744073709551616) (fuel : Nat)
    (hf : ∀ c, f.currentID = some c → (fmtUint c).length < fuel) :
    PutAgrees mk (toGenFin mk) (Finite.put f k id topics) (Gen.FiniteReplayer_Put fuel (toGenFin mk f) (some m) topics) := by
  unfold Gen.FiniteReplayer_Put Finite.put
  rw [len_eq_zero_iff]
  cases ht : topics.isEmpty with
  | true => simp only [if_true]; rfl
  | false =>
    simp only [Bool.false_eq_true, if_false, bind, Except.bind, derefPtr, pure, Except.pure]
    have he := ensureID_eq fuel m id hm f.currentID hc hf
    have hcur : (toGenFin mk f).currentID = genCur f.currentID := rfl
    rw [hcur, he]
    cases hr : Model.ensureID id f.currentID with
    | error e =>
      simp only [PutAgrees]
      rfl
    | ok p =>
      obtain ⟨id', cur'⟩ := p
      simp only [bne_self_eq_false, Bool.false_eq_true, if_false]
      have hslot : ({ message := some { m with ID := genID id' }, topics := topics } : Gen.messageWithTopics) =
          gSlot mk (some { msg := k, id := id', topics := topics, exp := 0 }) := by
        simp [gSlot, hmk id']
      have hq : ({ toGenFin mk f with currentID := genCur cur' } : Gen.FiniteReplayer).buf = toGenQ (gSlot mk) f.buf := rfl
      rw [hq, hslot]
      have hen := enqueue_eqG (gSlot mk) fuel f.buf { msg := k, id := id', topics := topics, exp := 0 }
      cases hq' : f.buf.enqueue { msg := k, id := id', topics := topics, exp := 0 } with
      | panic =>
        rw [hq'] at hen
        obtain ⟨msg, hmsg⟩ := hen
        exact ⟨msg, by rw [hmsg]⟩
      | ok q' =>
        rw [hq'] at hen
        have hen' : _ = _ := hen
        rw [hen']
        simp only [PutAgrees, gSlot, hmk id']
        rfl

/-! ### the subscriber -/

/-- what a recording subscriber saw -/
inductive GCall
  | send (m : Option Gen.Message)
  | flush

/-- the model's subscriber as a `MessageWriter`: the state is the list of calls so far (before a failure only Sends:
its length is the index of the next Send); its `failAt`-th Send fails, its Flush may -/
def recW (failAt : Option Nat) (flushFails : Bool) (st : List GCall) : MsgWriter Gen.Message (List GCall) :=
  { st := st,
    send := fun st m => (if failAt = some st.length then some "SEND" else none, st ++ [GCall.send m]),
    flush := fun st => (if flushFails then some "FLUSH" else none, st ++ [GCall.flush]) }

def gSub (sub : Sub) (st : List GCall) : Gen.Subscription (List GCall) :=
  { Client := recW sub.failAt sub.flushFails st, LastEventID := genID sub.lastEventID, Topics := sub.topics }

def gCall (mk : Entry → Gen.Message) : Call → GCall
  | .send e => .send (some (mk e))
  | .flush => .flush

def errOf : RErr → Option String
  | .nil => none
  | .send => some "SEND"
  | .flush => some "FLUSH"

/-- what the translated `Replay` returns, for an outcome of the model's `replay` -/
def ReplayAgrees {G : Type} (mk : Entry → Gen.Message) (sub : Sub) (g : G) (res : QRes ReplayOut)
    (lhs : GoM (Option String × G × Gen.Subscription (List GCall))) : Prop :=
  match res with
  | .panic => ∃ msg, lhs = .error (.panic msg)
  | .ok out => lhs = .ok (errOf out.err, g, gSub sub (out.calls.map (gCall mk)))

/-- the state of the literal in `Replay`, for a state of the model's callback that has seen no failure -/
def sendR (mk : Entry → Gen.Message) (sub : Sub) (st : SendSt) : Gen.Subscription (List GCall) × Option String :=
  (gSub sub (st.calls.map (gCall mk)), if st.failed then some "SEND" else none)

/-- no Send has failed so far -/
def SendInv (st : SendSt) : Prop := st.failed = false

/-- the function literal of `FiniteReplayer.Replay`, as translated (`FiniteReplayer_Replay` below is checked to contain
exactly this: `finiteReplay_unfold` is closed by `rfl`) -/
def finiteLit (fuel : Nat) : Int → Gen.messageWithTopics → (Gen.Subscription (List GCall) × Option String) →
    GoM (Bool × (Gen.Subscription (List GCall) × Option String)) :=
  fun _blank m cst_38 => do
    let subscription := cst_38.1
    let err := cst_38.2
    let r_39 ← Gen.topicsIntersect fuel (subscription).Topics (m).topics
    if r_39 then do
      let w_40 := ((subscription).Client).send ((subscription).Client).st (m).message
      let subscription := { subscription with Client := { (subscription).Client with st := w_40.2 } }
      let err : (Option String) := w_40.1
      if (err != none) then do
        pure (false, subscription, err)
      else do
        pure (true, subscription, err)
    else do
      pure (true, subscription, err)

theorem finiteReplay_unfold (fuel : Nat) (f : Gen.FiniteReplayer) (subscription : Gen.Subscription (List GCall)) :
    Gen.FiniteReplayer_Replay fuel f subscription = (do
      let m_36 ← Gen.findIDInQueue fuel Gen.messageWithTopics_ID (f).buf (subscription).LastEventID ((f).currentID != none)
      let f := { f with buf := m_36.2 }
      let i : Int := m_36.1
      if (decide (i < (0 : Int))) then do
        pure (none, f, subscription)
      else do
        let err : (Option String) := (none : Option String)
        let it_41 ← Gen.queue_each fuel (f).buf i (finiteLit fuel) (subscription, err)
        let subscription : (Gen.Subscription (List GCall)) := (it_41.2).1
        let err : (Option String) := (it_41.2).2
        if (err != none) then do
          pure (err, f, subscription)
        else do
          let w_42 := ((subscription).Client).flush ((subscription).Client).st
          let subscription := { subscription with Client := { (subscription).Client with st := w_42.2 } }
          pure (w_42.1, f, subscription)) := rfl

/-- every stored entry's topic list, and the subscription's, are shorter than the fuel -/
def TopicsFuel (fuel : Nat) (buf : List Slot) (sub : Sub) : Prop :=
  sub.topics.length < fuel ∧ ∀ e, some e ∈ buf → e.topics.length < fuel

theorem finiteLit_agrees (mk : Entry → Gen.Message) (sub : Sub) (buf : List Slot) (fuel : Nat) (hft : TopicsFuel fuel buf sub) :
    YieldAgrees buf SendInv (gSlot mk) (sendR mk sub) (finiteLit fuel)
      (sendStep sub fun e => topicsIntersect sub.topics e.topics) := by
  intro st i x hx hP
  unfold SendInv at hP
  have hfuel : 0 < fuel := by have := hft.1; omega
  cases x with
  | none =>
    have hs : sendStep sub (fun e => topicsIntersect sub.topics e.topics) st i none = .ok (st, true) := rfl
    rw [hs]
    refine ⟨?_, fun s' h => ?_⟩
    · show finiteLit fuel (i : Int) (gSlot mk none) (sendR mk sub st) = .ok (true, sendR mk sub st)
      unfold finiteLit gSlot sendR gSub
      have := topicsIntersect_eq fuel sub.topics [] hft.1 (by simpa using hfuel)
      simp only [bind, Except.bind, this]
      have h0 : topicsIntersect sub.topics [] = false := by
        unfold topicsIntersect; simp
      simp [h0, pure, Except.pure]
    · cases h; exact hP
  | some e =>
    have hte := topicsIntersect_eq fuel sub.topics e.topics hft.1 (hft.2 e hx)
    cases hcond : topicsIntersect sub.topics e.topics with
    | false =>
      have hs : sendStep sub (fun e => topicsIntersect sub.topics e.topics) st i (some e) = .ok (st, true) := by
        simp [sendStep, hcond]
      rw [hs]
      refine ⟨?_, fun s' h => ?_⟩
      · show finiteLit fuel (i : Int) (gSlot mk (some e)) (sendR mk sub st) = .ok (true, sendR mk sub st)
        unfold finiteLit gSlot sendR gSub
        simp only [bind, Except.bind, hte, hcond]
        simp [pure, Except.pure]
      · cases h; exact hP
    | true =>
      by_cases hfail : sub.failAt = some st.calls.length
      · have hs : sendStep sub (fun e => topicsIntersect sub.topics e.topics) st i (some e) =
            .ok ({ calls := st.calls ++ [.send e], failed := true }, false) := by
          simp [sendStep, hcond, hfail]
        rw [hs]
        refine ⟨?_, fun s' h => ?_⟩
        · show finiteLit fuel (i : Int) (gSlot mk (some e)) (sendR mk sub st) =
              .ok (false, sendR mk sub { calls := st.calls ++ [.send e], failed := true })
          unfold finiteLit gSlot sendR gSub recW
          simp only [bind, Except.bind, hte, hcond, if_true, List.length_map, hfail]
          simp [pure, Except.pure, gCall]
        · cases h
      · have hs : sendStep sub (fun e => topicsIntersect sub.topics e.topics) st i (some e) =
            .ok ({ st with calls := st.calls ++ [.send e] }, true) := by
          simp [sendStep, hcond, hfail]
        rw [hs]
        refine ⟨?_, fun s' h => ?_⟩
        · show finiteLit fuel (i : Int) (gSlot mk (some e)) (sendR mk sub st) =
              .ok (true, sendR mk sub { st with calls := st.calls ++ [.send e] })
          unfold finiteLit gSlot sendR gSub recW
          simp only [bind, Except.bind, hte, hcond, if_true, List.length_map, hfail, if_false]
          simp [pure, Except.pure, gCall, hP]
        · cases h; exact hP

/-- `FiniteReplayer.Replay`: the subscriber sees the model's calls in the model's order and `Replay` returns the
model's error; the replayer is unchanged; a panic exactly where the model has one -/
theorem finiteReplay_eq (mk : Entry → Gen.Message) (hmk : CarriesID mk) (f : Finite) (sub : Sub) (fuel : Nat)
    (hf : f.buf.tail + f.buf.buf.length + 1 < fuel) (hcount : f.buf.count < 9223372036854775808)
    (hft : TopicsFuel fuel f.buf.buf sub) :
    ReplayAgrees mk sub (toGenFin mk f) (Finite.replay f sub)
      (Gen.FiniteReplayer_Replay fuel (toGenFin mk f) (gSub sub [])) := by
  rw [finiteReplay_unfold]
  unfold Finite.replay
  have hfind := findIDInQueue_eq (gSlot mk) Gen.messageWithTopics_ID (idAgrees_gSlot mk hmk) f.buf sub.lastEventID
    f.currentID.isSome fuel hf hcount
  have hauto : ((toGenFin mk f).currentID != none) = f.currentID.isSome := by
    cases h : f.currentID <;> simp [toGenFin, genCur, h]
  have hbuf : (toGenFin mk f).buf = toGenQ (gSlot mk) f.buf := rfl
  have hlast : (gSub sub []).LastEventID = genID sub.lastEventID := rfl
  simp only [bind, Except.bind, hauto, hbuf, hlast]
  cases hfi : findIDInQueue f.buf sub.lastEventID f.currentID.isSome with
  | panic =>
    rw [hfi] at hfind
    obtain ⟨msg, hm⟩ := hfind
    exact ⟨msg, by rw [hm]⟩
  | ok i =>
    rw [hfi] at hfind
    have hm : _ = _ := hfind
    rw [hm]
    have hf' : ({ toGenFin mk f with buf := toGenQ (gSlot mk) f.buf } : Gen.FiniteReplayer) = toGenFin mk f := rfl
    simp only [hf']
    by_cases hneg : i < 0
    · simp only [hneg, decide_true, if_true, pure, Except.pure, ReplayAgrees, errOf, List.map_nil]
    · have hi : ((i.toNat : Nat) : Int) = i := by omega
      simp only [hneg, decide_false, Bool.false_eq_true, if_false, hbuf]
      have he := each_eq SendInv (gSlot mk) (sendR mk sub) (finiteLit fuel)
        (sendStep sub fun e => topicsIntersect sub.topics e.topics) f.buf (finiteLit_agrees mk sub f.buf.buf fuel hft)
        i.toNat { calls := [], failed := false } rfl fuel hf
      rw [hi] at he
      have hr0 : sendR mk sub { calls := [], failed := false } = (gSub sub [], (none : Option String)) := rfl
      rw [hr0] at he
      cases hea : f.buf.each i.toNat (sendStep sub fun e => topicsIntersect sub.topics e.topics) { calls := [], failed := false } with
      | panic =>
        rw [hea] at he
        obtain ⟨msg, hm2⟩ := he
        exact ⟨msg, by rw [hm2]⟩
      | ok st =>
        rw [hea] at he
        have hm2 : _ = _ := he
        rw [hm2]
        simp only [ReplayAgrees, finishReplay, sendR]
        by_cases hfl : st.failed = true
        · simp [hfl, pure, Except.pure, errOf]
        · by_cases hff : sub.flushFails = true <;>
            simp [hfl, pure, Except.pure, errOf, gSub, recW, gCall, hff]

/-- `NewFiniteReplayer` -/
theorem newFinite_eq (mk : Entry → Gen.Message) (fuel : Nat) (count : Nat) (auto : Bool) :
    Gen.NewFiniteReplayer fuel (count : Int) auto = .ok (match newFinite count auto with
      | none => (none, some "count must be at least 2")
      | some f => (some (toGenFin mk f), none)) := by
  unfold Gen.NewFiniteReplayer newFinite
  by_cases hc : count < 2
  · have : decide ((count : Int) < 2) = true := by simp; omega
    simp [this, hc, pure, Except.pure]
  · have : decide ((count : Int) < 2) = false := by simp; omega
    have hmk : makeSlice ({ message := none, topics := [] } : Gen.messageWithTopics) (count : Int) =
        .ok (List.replicate count { message := none, topics := [] }) := by
      unfold makeSlice
      have : (0 : Int) ≤ count := by omega
      simp [this, pure, Except.pure]
    simp only [this, Bool.false_eq_true, if_false, hc, bind, Except.bind, hmk]
    cases auto <;> simp [pure, Except.pure, toGenFin, toGenQ, genCur, gSlot]

/-! ## `ValidReplayer` -/

def gSlotV (mk : Entry → Gen.Message) : Slot → Gen.messageWithTopicsAndExpiry
  | none => { exp := 0, messageWithTopics := { message := none, topics := [] } }
  | some e => { exp := e.exp, messageWithTopics := { message := some (mk e), topics := e.topics } }

theorem gSlotV_none (mk : Entry → Gen.Message) : gSlotV mk none = default := rfl

/-- the translated replayer of a model replayer whose clock reads `now`; the model's `lastGC = none` is the zero Time -/
def toGenValid (mk : Entry → Gen.Message) (now : Int) (v : Valid) : Gen.ValidReplayer :=
  { lastGC := v.lastGC.getD 0, Now := pure now, currentID := genCur v.currentID,
    messages := toGenQ (gSlotV mk) v.messages, ttl := v.ttl, GCInterval := v.gcInterval }

theorem shouldGC_eq (mk : Entry → Gen.Message) (fuel : Nat) (now clock : Int) (v : Valid) :
    Gen.ValidReplayer_shouldGC fuel (toGenValid mk clock v) now = .ok (v.shouldGC now, toGenValid mk clock v) := rfl

/-- with the queue replaced -/
theorem toGenValid_messages (mk : Entry → Gen.Message) (clock : Int) (v : Valid) (q : Queue) :
    ({ toGenValid mk clock v with messages := toGenQ (gSlotV mk) q } : Gen.ValidReplayer) =
      toGenValid mk clock { v with messages := q } := rfl

def slotLive (now : Int) : Slot → Bool
  | some e => decide (e.exp > now)
  | none => false

/-- how the translated collection loop ends, for an outcome of the model's -/
def GcAgrees (mk : Entry → Gen.Message) (clock : Int) (v : Valid) (res : QRes Queue)
    (lhs : GoM (Gen.ValidReplayer ⊕ Gen.ValidReplayer)) : Prop :=
  match res with
  | .ok q' => lhs = .ok (.inl (toGenValid mk clock { v with messages := q' }))
  | .panic => ∃ msg, lhs = .error (.panic msg)

/-- the collection loop of `doGC`: `count` iterations at most (the instants are after the zero Time: `0 < now`) -/
theorem gcLoop_eq (mk : Entry → Gen.Message) (now clock : Int) (hnow : 0 < now) (v : Valid) :
    ∀ (n : Nat) (q : Queue) (fuel F : Nat), n = q.count → n < F →
      GcAgrees mk clock v (Valid.gcLoop n now q)
        (loopM (Gen.ValidReplayer_doGC_loop1 fuel now) F (toGenValid mk clock { v with messages := q })) := by
  intro n
  induction n with
  | zero =>
    intro q fuel F hn hF
    obtain ⟨k, rfl⟩ : ∃ k, F = k + 1 := ⟨F - 1, by omega⟩
    have hstep : Gen.ValidReplayer_doGC_loop1 fuel now (toGenValid mk clock { v with messages := q }) =
        .ok (Step.brk (toGenValid mk clock { v with messages := q })) := by
      unfold Gen.ValidReplayer_doGC_loop1
      have : decide (((toGenValid mk clock { v with messages := q }).messages.count) > (0 : Int)) = false := by
        simp [toGenValid]; omega
      simp [this, pure, Except.pure]
    unfold Valid.gcLoop loopM GcAgrees
    rw [hstep]; rfl
  | succ n ih =>
    intro q fuel F hn hF
    obtain ⟨k, rfl⟩ : ∃ k, F = k + 1 := ⟨F - 1, by omega⟩
    have hcnt : q.count > 0 := by omega
    have hc : decide (((toGenValid mk clock { v with messages := q }).messages.count) > (0 : Int)) = true := by
      simp [toGenValid]; omega
    unfold Valid.gcLoop
    simp only [hcnt, if_true]
    cases hb : q.buf[q.head]? with
    | none =>
      have hstep : Gen.ValidReplayer_doGC_loop1 fuel now (toGenValid mk clock { v with messages := q }) =
          .error (.panic "index out of range") := by
        unfold Gen.ValidReplayer_doGC_loop1
        simp only [hc, if_true, bind, Except.bind]
        have : idx (toGenValid mk clock { v with messages := q }).messages.buf (toGenValid mk clock { v with messages := q }).messages.head =
            .error (.panic "index out of range") := idx_map_panic (gSlotV mk) q.buf q.head hb
        rw [this]
      refine ⟨"index out of range", ?_⟩
      unfold loopM; rw [hstep]
    | some slot =>
      have hidx : idx (toGenValid mk clock { v with messages := q }).messages.buf (toGenValid mk clock { v with messages := q }).messages.head =
          .ok (gSlotV mk slot) := idx_map_ok (gSlotV mk) q.buf q.head slot hb
      show GcAgrees mk clock v (if slotLive now slot = true then .ok q else
        match q.dequeue with
        | .panic => .panic
        | .ok q' => Valid.gcLoop n now q') _
      have hg : decide ((gSlotV mk slot).exp > now) = slotLive now slot := by
        cases slot with
        | none => simp [gSlotV, slotLive]; omega
        | some e => simp [gSlotV, slotLive]
      cases hexp : slotLive now slot with
      | true =>
        rw [hexp] at hg
        have hstep : Gen.ValidReplayer_doGC_loop1 fuel now (toGenValid mk clock { v with messages := q }) =
            .ok (Step.brk (toGenValid mk clock { v with messages := q })) := by
          unfold Gen.ValidReplayer_doGC_loop1
          simp only [hc, if_true, bind, Except.bind, hidx, hg, pure, Except.pure]
        simp only [if_true]
        unfold loopM GcAgrees; rw [hstep]; rfl
      | false =>
        rw [hexp] at hg
        simp only [Bool.false_eq_true, if_false]
        have hdq := dequeue_eqG (gSlotV mk) (gSlotV_none mk) fuel q hcnt
        cases hd : q.dequeue with
        | panic =>
          rw [hd] at hdq
          obtain ⟨msg, hm⟩ := hdq
          have hstep : Gen.ValidReplayer_doGC_loop1 fuel now (toGenValid mk clock { v with messages := q }) =
              .error (.panic msg) := by
            unfold Gen.ValidReplayer_doGC_loop1
            simp only [hc, if_true, bind, Except.bind, hidx, hg, Bool.false_eq_true, if_false]
            have : Gen.queue_dequeue fuel (toGenValid mk clock { v with messages := q }).messages = .error (.panic msg) := hm
            rw [this]
          refine ⟨msg, ?_⟩
          unfold loopM; rw [hstep]
        | ok q' =>
          rw [hd] at hdq
          have hm : Gen.queue_dequeue fuel (toGenValid mk clock { v with messages := q }).messages = .ok (toGenQ (gSlotV mk) q') := hdq
          have hstep : Gen.ValidReplayer_doGC_loop1 fuel now (toGenValid mk clock { v with messages := q }) =
              .ok (Step.next (toGenValid mk clock { v with messages := q' })) := by
            unfold Gen.ValidReplayer_doGC_loop1
            simp only [hc, if_true, bind, Except.bind, hidx, hg, Bool.false_eq_true, if_false, hm, pure, Except.pure]
            rfl
          have hq'c : q'.count = q.count - 1 := by
            unfold Queue.dequeue at hd
            split at hd
            · cases hd; rfl
            · cases hd
          have := ih q' fuel k (by omega) (by omega)
          show GcAgrees mk clock v (Valid.gcLoop n now q') _
          unfold loopM; rw [hstep]
          exact this

theorem tdiv_nat (L k : Nat) : Int.tdiv (L : Int) (k : Int) = ((L / k : Nat) : Int) := by
  rw [Int.natCast_tdiv_eq_ediv]; rfl

theorem toGenValid_len (mk : Entry → Gen.Message) (clock : Int) (v : Valid) :
    len (toGenValid mk clock v).messages.buf = (v.messages.buf.length : Int) := by
  simp [toGenValid, len]

/-- `doGC(now)`: collect from the head, then shrink if at most a quarter is in use -/
theorem doGC_eq (mk : Entry → Gen.Message) (now clock : Int) (hnow : 0 < now) (v : Valid) (fuel : Nat)
    (hf : v.messages.count < fuel) :
    AgreesV (toGenValid mk clock) (Gen.ValidReplayer_doGC fuel (toGenValid mk clock v) now) (v.doGC now) := by
  unfold Gen.ValidReplayer_doGC Valid.doGC Valid.doGCq
  have hl := gcLoop_eq mk now clock hnow v v.messages.count v.messages fuel fuel rfl hf
  have hv : ({ v with messages := v.messages } : Valid) = v := rfl
  rw [hv] at hl
  simp only [bind, Except.bind]
  cases hg : Valid.gcLoop v.messages.count now v.messages with
  | panic =>
    rw [hg] at hl
    obtain ⟨msg, hm⟩ := hl
    exact ⟨msg, by rw [hm]⟩
  | ok q =>
    rw [hg] at hl
    have hm : _ = _ := hl
    rw [hm]
    simp only [toGenValid_len]
    have hcq : (toGenValid mk clock { v with messages := q }).messages.count = (q.count : Int) := rfl
    have h4 : Int.tdiv (q.buf.length : Int) (4 : Int) = ((q.buf.length / 4 : Nat) : Int) := tdiv_nat q.buf.length 4
    have h2 : Int.tdiv (q.buf.length : Int) (2 : Int) = ((q.buf.length / 2 : Nat) : Int) := tdiv_nat q.buf.length 2
    rw [hcq, h4, h2]
    by_cases hsh : q.count ≤ q.buf.length / 4
    · have c1 : decide ((q.count : Int) ≤ ((q.buf.length / 4 : Nat) : Int)) = true := by simp; omega
      simp only [c1, if_true, hsh]
      by_cases hmin : q.buf.length / 2 < minCap
      · have c2 : decide ((((q.buf.length / 2 : Nat) : Int)) < (4 : Int)) = true := by
          unfold minCap at hmin; simp; omega
        simp only [c2, if_true, hmin]
        have hr := resize_eqG (gSlotV mk) (gSlotV_none mk) fuel q minCap
        have hmc : ((minCap : Nat) : Int) = (4 : Int) := rfl
        rw [hmc] at hr
        cases hrz : q.resize minCap with
        | panic => rw [hrz] at hr; obtain ⟨msg, hm2⟩ := hr; exact ⟨msg, by
            have : Gen.queue_resize fuel (toGenValid mk clock { v with messages := q }).messages 4 = .error (.panic msg) := hm2
            rw [this]⟩
        | ok q' =>
          rw [hrz] at hr
          have : Gen.queue_resize fuel (toGenValid mk clock { v with messages := q }).messages 4 = .ok (toGenQ (gSlotV mk) q') := hr
          rw [this]; rfl
      · have c2 : decide ((((q.buf.length / 2 : Nat) : Int)) < (4 : Int)) = false := by
          unfold minCap at hmin; simp; omega
        simp only [c2, Bool.false_eq_true, if_false, hmin]
        have hr := resize_eqG (gSlotV mk) (gSlotV_none mk) fuel q (q.buf.length / 2)
        cases hrz : q.resize (q.buf.length / 2) with
        | panic => rw [hrz] at hr; obtain ⟨msg, hm2⟩ := hr; exact ⟨msg, by
            have : Gen.queue_resize fuel (toGenValid mk clock { v with messages := q }).messages ((q.buf.length / 2 : Nat) : Int) = .error (.panic msg) := hm2
            rw [this]⟩
        | ok q' =>
          rw [hrz] at hr
          have : Gen.queue_resize fuel (toGenValid mk clock { v with messages := q }).messages ((q.buf.length / 2 : Nat) : Int) = .ok (toGenQ (gSlotV mk) q') := hr
          rw [this]; rfl
    · have c1 : decide ((q.count : Int) ≤ ((q.buf.length / 4 : Nat) : Int)) = false := by simp; omega
      simp only [c1, Bool.false_eq_true, if_false, hsh, pure, Except.pure, AgreesV]

/-- `GC()` -/
theorem GC_eq (mk : Entry → Gen.Message) (now : Int) (hnow : 0 < now) (v : Valid) (fuel : Nat)
    (hf : v.messages.count < fuel) :
    AgreesV (toGenValid mk now) (Gen.ValidReplayer_GC fuel (toGenValid mk now v)) (v.gc now) := by
  unfold Gen.ValidReplayer_GC Valid.gc
  have hn : (toGenValid mk now v).Now = .ok now := rfl
  simp only [bind, Except.bind, hn]
  have h := doGC_eq mk now now hnow v fuel hf
  cases hd : v.doGC now with
  | panic => rw [hd] at h; obtain ⟨msg, hm⟩ := h; exact ⟨msg, by rw [hm]⟩
  | ok v' => rw [hd] at h; have hm : _ = _ := h; rw [hm]; rfl

/-- the end of `Put`: the entry goes into the ring -/
theorem put_j3_eq (mk : Entry → Gen.Message) (clock now : Int) (v : Valid) (k : Nat) (id' : EventID) (topics : List Bytes)
    (m : Gen.Message)
    (hmk : ∀ id' ex, mk { msg := k, id := id', topics := topics, exp := ex } = { m with ID := genID id' }) (fuel : Nat) :
    AgreesV (fun q' => (some (mk { msg := k, id := id', topics := topics, exp := now + v.ttl }), (none : Option String),
        toGenValid mk clock { v with messages := q' }))
      (Gen.ValidReplayer_Put_j3 fuel (toGenValid mk clock v) (some { m with ID := genID id' }) topics now)
      (v.messages.enqueue { msg := k, id := id', topics := topics, exp := now + v.ttl }) := by
  unfold Gen.ValidReplayer_Put_j3
  have hslot : ({ exp := now + (toGenValid mk clock v).ttl, messageWithTopics := { message := some { m with ID := genID id' }, topics := topics } } : Gen.messageWithTopicsAndExpiry) = gSlotV mk (some { msg := k, id := id', topics := topics, exp := now + v.ttl }) := by
    simp [gSlotV, hmk id' (now + v.ttl), toGenValid]
  have hq : (toGenValid mk clock v).messages = toGenQ (gSlotV mk) v.messages := rfl
  rw [hslot, hq]
  have hen := enqueue_eqG (gSlotV mk) fuel v.messages { msg := k, id := id', topics := topics, exp := now + v.ttl }
  simp only [bind, Except.bind]
  cases he : v.messages.enqueue { msg := k, id := id', topics := topics, exp := now + v.ttl } with
  | panic => rw [he] at hen; obtain ⟨msg, hm⟩ := hen; exact ⟨msg, by rw [hm]⟩
  | ok q' =>
    rw [he] at hen
    have hm : _ = _ := hen
    rw [hm]
    simp only [AgreesV, pure, Except.pure, hmk id' (now + v.ttl)]
    rfl

/-- the second half of `Put` (`putStore`): `ensureID`, grow when full, store with `exp = now + ttl` -/
theorem putStore_eq (mk : Entry → Gen.Message) (clock now : Int) (v : Valid) (k : Nat) (id : EventID) (topics : List Bytes)
    (m : Gen.Message) (hm : m.ID = genID id)
    (hmk : ∀ id' ex, mk { msg := k, id := id', topics := topics, exp := ex } = { m with ID := genID id' })
    (hc : ∀ c, v.currentID = some c → c + 1 < 18446744073709551616) (fuel : Nat)
    (hf : ∀ c, v.currentID = some c → (fmtUint c).length < fuel) :
    PutAgrees mk (toGenValid mk clock) (v.putStore now k id topics)
      (Gen.ValidReplayer_Put_j2 fuel (toGenValid mk clock v) (some m) topics now) := by
  unfold Gen.ValidReplayer_Put_j2 Valid.putStore
  simp only [bind, Except.bind, derefPtr, pure, Except.pure]
  have he := ensureID_eq fuel m id hm v.currentID hc hf
  have hcur : (toGenValid mk clock v).currentID = genCur v.currentID := rfl
  rw [hcur, he]
  cases hr : Model.ensureID id v.currentID with
  | error e => simp only [PutAgrees]; rfl
  | ok p =>
    obtain ⟨id', cur'⟩ := p
    simp only [bne_self_eq_false, Bool.false_eq_true, if_false, toGenValid, toGenQ_count, toGenQ_buf, len, List.length_map]
    unfold Valid.growIfFull
    have hres : ∀ (n : Nat), AgreesV (toGenQ (gSlotV mk))
        (Gen.queue_resize fuel (toGenQ (gSlotV mk) v.messages) (n : Int)) (v.messages.resize n) :=
      fun n => resize_eqG (gSlotV mk) (gSlotV_none mk) fuel v.messages n
    by_cases hfull : v.messages.count = v.messages.buf.length
    · have c1 : ((v.messages.count : Int) == (v.messages.buf.length : Int)) = true := by simp; omega
      simp only [c1, if_true, if_pos hfull]
      by_cases hmin : v.messages.buf.length * 2 < minCap
      · have c2 : decide ((v.messages.buf.length : Int) * 2 < 4) = true := by unfold minCap at hmin; simp; omega
        simp only [c2, if_true, if_pos hmin]
        have hr4 := hres minCap
        have hmc : ((minCap : Nat) : Int) = (4 : Int) := rfl
        rw [hmc] at hr4
        cases hrz : v.messages.resize minCap with
        | panic => rw [hrz] at hr4; obtain ⟨msg, hm2⟩ := hr4; exact ⟨msg, by rw [hm2]⟩
        | ok q =>
          rw [hrz] at hr4
          have hm2 : _ = _ := hr4
          rw [hm2]
          simp only []
          have hj3 := put_j3_eq mk clock now { v with currentID := cur', messages := q } k id' topics m hmk fuel
          cases hen : q.enqueue { msg := k, id := id', topics := topics, exp := now + v.ttl } with
          | panic => rw [show ({ v with currentID := cur', messages := q } : Valid).messages = q from rfl, hen] at hj3
                     obtain ⟨msg, hm3⟩ := hj3; exact ⟨msg, hm3⟩
          | ok q' => rw [show ({ v with currentID := cur', messages := q } : Valid).messages = q from rfl, hen] at hj3
                     exact hj3
      · have c2 : decide ((v.messages.buf.length : Int) * 2 < 4) = false := by unfold minCap at hmin; simp; omega
        simp only [c2, Bool.false_eq_true, if_false, if_neg hmin]
        have hr2 := hres (v.messages.buf.length * 2)
        have hcast : ((v.messages.buf.length * 2 : Nat) : Int) = (v.messages.buf.length : Int) * 2 := by omega
        rw [hcast] at hr2
        cases hrz : v.messages.resize (v.messages.buf.length * 2) with
        | panic => rw [hrz] at hr2; obtain ⟨msg, hm2⟩ := hr2; exact ⟨msg, by rw [hm2]⟩
        | ok q =>
          rw [hrz] at hr2
          have hm2 : _ = _ := hr2
          rw [hm2]
          simp only []
          have hj3 := put_j3_eq mk clock now { v with currentID := cur', messages := q } k id' topics m hmk fuel
          cases hen : q.enqueue { msg := k, id := id', topics := topics, exp := now + v.ttl } with
          | panic => rw [show ({ v with currentID := cur', messages := q } : Valid).messages = q from rfl, hen] at hj3
                     obtain ⟨msg, hm3⟩ := hj3; exact ⟨msg, hm3⟩
          | ok q' => rw [show ({ v with currentID := cur', messages := q } : Valid).messages = q from rfl, hen] at hj3
                     exact hj3
    · have c1 : ((v.messages.count : Int) == (v.messages.buf.length : Int)) = false := by simp; omega
      simp only [c1, Bool.false_eq_true, if_false, if_neg hfull]
      have hj3 := put_j3_eq mk clock now { v with currentID := cur' } k id' topics m hmk fuel
      cases hen : v.messages.enqueue { msg := k, id := id', topics := topics, exp := now + v.ttl } with
      | panic => rw [show ({ v with currentID := cur' } : Valid).messages = v.messages from rfl, hen] at hj3
                 obtain ⟨msg, hm3⟩ := hj3; exact ⟨msg, hm3⟩
      | ok q' => rw [show ({ v with currentID := cur' } : Valid).messages = v.messages from rfl, hen] at hj3
                 exact hj3

theorem doGC_currentID (v v' : Valid) (now : Int) (h : v.doGC now = .ok v') : v'.currentID = v.currentID := by
  unfold Valid.doGC at h
  cases hq : Valid.doGCq now v.messages with
  | panic => rw [hq] at h; cases h
  | ok q => rw [hq] at h; cases h; rfl

/-- `Put` from the collection on: `if shouldGC { doGC; lastGC = now }`, then `putStore` -/
theorem put_j1_eq (mk : Entry → Gen.Message) (now : Int) (hnow : 0 < now) (v1 : Valid)
    (k : Nat) (id : EventID) (topics : List Bytes) (m : Gen.Message) (hm : m.ID = genID id)
    (hmk : ∀ id' ex, mk { msg := k, id := id', topics := topics, exp := ex } = { m with ID := genID id' })
    (hc : ∀ c, v1.currentID = some c → c + 1 < 18446744073709551616) (fuel : Nat)
    (hf : ∀ c, v1.currentID = some c → (fmtUint c).length < fuel) (hfc : v1.messages.count < fuel) :
    PutAgrees mk (toGenValid mk now)
      (match (if v1.shouldGC now then
          (match v1.doGC now with
          | QRes.panic => (QRes.panic : QRes Valid)
          | QRes.ok v' => QRes.ok { v' with lastGC := some now })
        else QRes.ok v1) with
      | QRes.panic => QRes.panic
      | QRes.ok v2 => v2.putStore now k id topics)
      (Gen.ValidReplayer_Put_j1 fuel (toGenValid mk now v1) (some m) topics now) := by
  unfold Gen.ValidReplayer_Put_j1
  simp only [bind, Except.bind, shouldGC_eq]
  cases hs : v1.shouldGC now with
  | false =>
    simp only [Bool.false_eq_true, if_false]
    exact putStore_eq mk now now v1 k id topics m hm hmk hc fuel hf
  | true =>
    simp only [if_true]
    have hd := doGC_eq mk now now hnow v1 fuel hfc
    cases hdg : v1.doGC now with
    | panic => rw [hdg] at hd; obtain ⟨msg, hm2⟩ := hd; exact ⟨msg, by rw [hm2]⟩
    | ok v' =>
      rw [hdg] at hd
      have hm2 : _ = _ := hd
      rw [hm2]
      have hcur2 := doGC_currentID v1 v' now hdg
      simp only []
      exact putStore_eq mk now now { v' with lastGC := some now } k id topics m hm hmk
        (by show ∀ c, v'.currentID = some c → _; rw [hcur2]; exact hc) fuel
        (by show ∀ c, v'.currentID = some c → _; rw [hcur2]; exact hf)

/-- `ValidReplayer.Put` with `v.Now() = now`, an instant after the zero Time: the model's verdict, stored entry and
next state (`lastGC ≠ some 0`: the model's `none` is the only zero Time) -/
theorem validPut_eq (mk : Entry → Gen.Message) (now : Int) (hnow : 0 < now) (v : Valid) (hl : v.lastGC ≠ some 0)
    (k : Nat) (id : EventID) (topics : List Bytes) (m : Gen.Message) (hm : m.ID = genID id)
    (hmk : ∀ id' ex, mk { msg := k, id := id', topics := topics, exp := ex } = { m with ID := genID id' })
    (hc : ∀ c, v.currentID = some c → c + 1 < 18446744073709551616) (fuel : Nat)
    (hf : ∀ c, v.currentID = some c → (fmtUint c).length < fuel) (hfc : v.messages.count < fuel) :
    PutAgrees mk (toGenValid mk now) (v.put now k id topics)
      (Gen.ValidReplayer_Put fuel (toGenValid mk now v) (some m) topics) := by
  unfold Gen.ValidReplayer_Put Valid.put
  rw [len_eq_zero_iff]
  cases ht : topics.isEmpty with
  | true => simp only [if_true]; rfl
  | false =>
    have hn : (toGenValid mk now v).Now = .ok now := rfl
    simp only [Bool.false_eq_true, if_false, bind, Except.bind, hn]
    unfold Valid.gcIfDue
    cases hlg : v.lastGC with
    | none =>
      have : ((toGenValid mk now v).lastGC == (0 : Int)) = true := by simp [toGenValid, hlg]
      simp only [this, if_true, Option.isNone_none]
      exact put_j1_eq mk now hnow { v with lastGC := some now } k id topics m hm hmk hc fuel hf hfc
    | some t =>
      have ht0 : t ≠ 0 := fun e => hl (by rw [hlg, e])
      have : ((toGenValid mk now v).lastGC == (0 : Int)) = false := by simp [toGenValid, hlg, ht0]
      simp only [this, Bool.false_eq_true, if_false, Option.isNone_some]
      exact put_j1_eq mk now hnow v k id topics m hm hmk hc fuel hf hfc

theorem idAgrees_gSlotV (mk : Entry → Gen.Message) (hmk : CarriesID mk) :
    IDAgrees (gSlotV mk) (fun fuel x => Gen.messageWithTopics_ID fuel x.messageWithTopics) := by
  intro fuel x
  cases x with
  | none => exact ⟨_, rfl⟩
  | some e =>
    show Gen.messageWithTopics_ID fuel (gSlotV mk (some e)).messageWithTopics = .ok (genID e.id)
    unfold Gen.messageWithTopics_ID gSlotV
    simp [bind, Except.bind, derefPtr, pure, Except.pure, hmk e]

/-- the function literal of `ValidReplayer.Replay`, as translated (`validReplay_unfold` is closed by `rfl`) -/
def validLit (fuel : Nat) (now : Int) : Int → Gen.messageWithTopicsAndExpiry → (Gen.Subscription (List GCall) × Option String) →
    GoM (Bool × (Gen.Subscription (List GCall) × Option String)) :=
  fun _blank m cst_63 => do
    let subscription := cst_63.1
    let err := cst_63.2
    let c_65 ← (if (decide ((m).exp > now)) then do
        let r_64 ← Gen.topicsIntersect fuel (subscription).Topics (m).messageWithTopics.topics
        pure r_64
      else pure false)
    if c_65 then do
      let w_66 := ((subscription).Client).send ((subscription).Client).st (m).messageWithTopics.message
      let subscription := { subscription with Client := { (subscription).Client with st := w_66.2 } }
      let err : (Option String) := w_66.1
      if (err != none) then do
        pure (false, subscription, err)
      else do
        pure (true, subscription, err)
    else do
      pure (true, subscription, err)

theorem validReplay_unfold (fuel : Nat) (v : Gen.ValidReplayer) (subscription : Gen.Subscription (List GCall)) :
    Gen.ValidReplayer_Replay fuel v subscription = (do
      let m_60 ← Gen.findIDInQueue fuel (fun fuel x => Gen.messageWithTopics_ID fuel (x).messageWithTopics) (v).messages (subscription).LastEventID ((v).currentID != none)
      let v := { v with messages := m_60.2 }
      let i : Int := m_60.1
      if (decide (i < (0 : Int))) then do
        pure (none, v, subscription)
      else do
        let f_61 ← (v).Now
        let now : Int := f_61
        let err : (Option String) := (none : Option String)
        let it_67 ← Gen.queue_each fuel (v).messages i (validLit fuel now) (subscription, err)
        let subscription : (Gen.Subscription (List GCall)) := (it_67.2).1
        let err : (Option String) := (it_67.2).2
        if (err != none) then do
          pure (err, v, subscription)
        else do
          let w_68 := ((subscription).Client).flush ((subscription).Client).st
          let subscription := { subscription with Client := { (subscription).Client with st := w_68.2 } }
          pure (w_68.1, v, subscription)) := rfl

theorem validLit_agrees (mk : Entry → Gen.Message) (sub : Sub) (buf : List Slot) (fuel : Nat) (now : Int)
    (hft : TopicsFuel fuel buf sub) :
    YieldAgrees buf SendInv (gSlotV mk) (sendR mk sub) (validLit fuel now)
      (sendStep sub fun e => decide (e.exp > now) && topicsIntersect sub.topics e.topics) := by
  intro st i x hx hP
  unfold SendInv at hP
  have hfuel : 0 < fuel := by have := hft.1; omega
  cases x with
  | none =>
    have hs : sendStep sub (fun e => decide (e.exp > now) && topicsIntersect sub.topics e.topics) st i none = .ok (st, true) := rfl
    rw [hs]
    refine ⟨?_, fun s' h => ?_⟩
    · show validLit fuel now (i : Int) (gSlotV mk none) (sendR mk sub st) = .ok (true, sendR mk sub st)
      unfold validLit gSlotV sendR gSub
      have := topicsIntersect_eq fuel sub.topics [] hft.1 (by simpa using hfuel)
      have h0 : topicsIntersect sub.topics [] = false := by
        unfold topicsIntersect; simp
      by_cases hz : (0 : Int) > now
      · simp [hz, bind, Except.bind, this, h0, pure, Except.pure]
      · simp [hz, bind, Except.bind, pure, Except.pure]
    · cases h; exact hP
  | some e =>
    have hte := topicsIntersect_eq fuel sub.topics e.topics hft.1 (hft.2 e hx)
    have hcg : (if decide (e.exp > now) then (do
          let r_64 ← Gen.topicsIntersect fuel sub.topics e.topics
          pure r_64 : GoM Bool)
        else pure false) = .ok (decide (e.exp > now) && topicsIntersect sub.topics e.topics) := by
      by_cases hx' : e.exp > now
      · simp [hx', bind, Except.bind, hte, pure, Except.pure]
      · simp [hx', pure, Except.pure]
    cases hcond : (decide (e.exp > now) && topicsIntersect sub.topics e.topics) with
    | false =>
      have hs : sendStep sub (fun e => decide (e.exp > now) && topicsIntersect sub.topics e.topics) st i (some e) = .ok (st, true) := by
        simp only [sendStep, hcond]; rfl
      rw [hs]
      refine ⟨?_, fun s' h => ?_⟩
      · show validLit fuel now (i : Int) (gSlotV mk (some e)) (sendR mk sub st) = .ok (true, sendR mk sub st)
        unfold validLit gSlotV sendR gSub
        simp only [bind, Except.bind] at hcg ⊢
        rw [hcg]
        simp [hcond, pure, Except.pure]
      · cases h; exact hP
    | true =>
      by_cases hfail : sub.failAt = some st.calls.length
      · have hs : sendStep sub (fun e => decide (e.exp > now) && topicsIntersect sub.topics e.topics) st i (some e) =
            .ok ({ calls := st.calls ++ [.send e], failed := true }, false) := by
          simp only [sendStep, hcond, hfail]; rfl
        rw [hs]
        refine ⟨?_, fun s' h => ?_⟩
        · show validLit fuel now (i : Int) (gSlotV mk (some e)) (sendR mk sub st) =
              .ok (false, sendR mk sub { calls := st.calls ++ [.send e], failed := true })
          unfold validLit gSlotV sendR gSub recW
          simp only [bind, Except.bind] at hcg ⊢
          rw [hcg]
          simp only [hcond, if_true, List.length_map, hfail]
          simp [pure, Except.pure, gCall]
        · cases h
      · have hs : sendStep sub (fun e => decide (e.exp > now) && topicsIntersect sub.topics e.topics) st i (some e) =
            .ok ({ st with calls := st.calls ++ [.send e] }, true) := by
          simp only [sendStep, hcond, hfail]; rfl
        rw [hs]
        refine ⟨?_, fun s' h => ?_⟩
        · show validLit fuel now (i : Int) (gSlotV mk (some e)) (sendR mk sub st) =
              .ok (true, sendR mk sub { st with calls := st.calls ++ [.send e] })
          unfold validLit gSlotV sendR gSub recW
          simp only [bind, Except.bind] at hcg ⊢
          rw [hcg]
          simp only [hcond, if_true, List.length_map, hfail, if_false]
          simp [pure, Except.pure, gCall, hP]
        · cases h; exact hP

/-- `ValidReplayer.Replay` with `v.Now() = now`: the subscriber sees the model's calls in the model's order — only
entries that expire after `now` —, `Replay` returns the model's error, the replayer is unchanged -/
theorem validReplay_eq (mk : Entry → Gen.Message) (hmk : CarriesID mk) (now : Int) (v : Valid) (sub : Sub) (fuel : Nat)
    (hf : v.messages.tail + v.messages.buf.length + 1 < fuel) (hcount : v.messages.count < 9223372036854775808)
    (hft : TopicsFuel fuel v.messages.buf sub) :
    ReplayAgrees mk sub (toGenValid mk now v) (Valid.replay v now sub)
      (Gen.ValidReplayer_Replay fuel (toGenValid mk now v) (gSub sub [])) := by
  rw [validReplay_unfold]
  unfold Valid.replay
  have hfind := findIDInQueue_eq (gSlotV mk) (fun fuel x => Gen.messageWithTopics_ID fuel x.messageWithTopics)
    (idAgrees_gSlotV mk hmk) v.messages sub.lastEventID v.currentID.isSome fuel hf hcount
  have hauto : ((toGenValid mk now v).currentID != none) = v.currentID.isSome := by
    cases h : v.currentID <;> simp [toGenValid, genCur, h]
  have hbuf : (toGenValid mk now v).messages = toGenQ (gSlotV mk) v.messages := rfl
  have hlast : (gSub sub []).LastEventID = genID sub.lastEventID := rfl
  simp only [bind, Except.bind, hauto, hbuf, hlast]
  cases hfi : findIDInQueue v.messages sub.lastEventID v.currentID.isSome with
  | panic =>
    rw [hfi] at hfind
    obtain ⟨msg, hm⟩ := hfind
    exact ⟨msg, by rw [hm]⟩
  | ok i =>
    rw [hfi] at hfind
    have hm : _ = _ := hfind
    rw [hm]
    have hv' : ({ toGenValid mk now v with messages := toGenQ (gSlotV mk) v.messages } : Gen.ValidReplayer) = toGenValid mk now v := rfl
    simp only [hv']
    by_cases hneg : i < 0
    · simp only [hneg, decide_true, if_true, pure, Except.pure, ReplayAgrees, errOf, List.map_nil]
    · have hi : ((i.toNat : Nat) : Int) = i := by omega
      have hn : (toGenValid mk now v).Now = .ok now := rfl
      simp only [hneg, decide_false, Bool.false_eq_true, if_false, hbuf, hn]
      have he := each_eq SendInv (gSlotV mk) (sendR mk sub) (validLit fuel now)
        (sendStep sub fun e => decide (e.exp > now) && topicsIntersect sub.topics e.topics) v.messages
        (validLit_agrees mk sub v.messages.buf fuel now hft)
        i.toNat { calls := [], failed := false } rfl fuel hf
      rw [hi] at he
      have hr0 : sendR mk sub { calls := [], failed := false } = (gSub sub [], (none : Option String)) := rfl
      rw [hr0] at he
      cases hea : v.messages.each i.toNat (sendStep sub fun e => decide (e.exp > now) && topicsIntersect sub.topics e.topics) { calls := [], failed := false } with
      | panic =>
        rw [hea] at he
        obtain ⟨msg, hm2⟩ := he
        exact ⟨msg, by rw [hm2]⟩
      | ok st =>
        rw [hea] at he
        have hm2 : _ = _ := he
        rw [hm2]
        simp only [ReplayAgrees, finishReplay, sendR]
        by_cases hfl : st.failed = true
        · simp [hfl, pure, Except.pure, errOf]
        · by_cases hff : sub.flushFails = true <;>
            simp [hfl, pure, Except.pure, errOf, gSub, recW, gCall, hff]

end GoSSE.GenEquiv
