import GoSSE.Proofs.MessageRoundTrip
import GoSSE.Proofs.MessageFields
/-!
Helper lemmas for C19: the ownership invariant of the slice/heap model and the simulation of the
value-level specification, for every growth policy `extra`.
-/
namespace GoSSE.Proofs
open GoSSE GoSSE.Spec GoSSE.Model

/-- a slice lies within its backing array -/
def SliceOK (h : Heap) (s : Slice) : Prop := s.len ≤ s.cap ∧ s.cap ≤ (h.array s.arr).length

/-- The invariant: every slice lies within its array, and among the messages sharing an array
at most one has spare capacity (`len < cap`); every other one is full (`cap = len`) and no
longer than that one. -/
structure HInv (h : Heap) (fam : List HMsg) : Prop where
  ok : ∀ (i : Nat) (m : HMsg), fam[i]? = some m → SliceOK h m.sl
  own : ∀ (i j : Nat) (mi mj : HMsg), fam[i]? = some mi → fam[j]? = some mj → i ≠ j → mi.sl.arr = mj.sl.arr →
    mi.sl.len < mi.sl.cap → mj.sl.cap = mj.sl.len ∧ mj.sl.len ≤ mi.sl.len

theorem array_set_self (h : Heap) (a : Nat) (v : List Chunk) (ha : a < h.length) : Heap.array (h.set a v) a = v := by
  simp [Heap.array, List.getElem?_set, ha]

theorem array_set_ne (h : Heap) (a b : Nat) (v : List Chunk) (hab : a ≠ b) : Heap.array (h.set a v) b = Heap.array h b := by
  simp [Heap.array, List.getElem?_set, hab]

theorem array_append_lt (h : Heap) (v : List Chunk) (b : Nat) (hb : b < h.length) : Heap.array (h ++ [v]) b = Heap.array h b := by
  simp [Heap.array, List.getElem?_append_left hb]

theorem array_append_self (h : Heap) (v : List Chunk) : Heap.array (h ++ [v]) h.length = v := by
  simp [Heap.array]

theorem array_out_of_range (h : Heap) (b : Nat) (hb : h.length ≤ b) : Heap.array h b = [] := by
  simp [Heap.array, List.getElem?_eq_none hb]

theorem take_set_succ (l : List Chunk) (n : Nat) (x : Chunk) (hn : n < l.length) :
    (l.set n x).take (n + 1) = l.take n ++ [x] := by
  induction l generalizing n with
  | nil => simp at hn
  | cons a t ih =>
    cases n with
    | zero => simp
    | succ n => simp only [List.set_cons_succ, List.take_succ_cons, List.cons_append]; rw [ih n (by simpa using hn)]

theorem sliceOK_arr_lt (h : Heap) (s : Slice) (hs : SliceOK h s) (hc : 0 < s.cap) : s.arr < h.length := by
  rcases Nat.lt_or_ge s.arr h.length with hlt | hge
  · exact hlt
  · have := array_out_of_range h s.arr hge
    unfold SliceOK at hs; rw [this] at hs; simp at hs; omega

theorem getElem?_set_self' {α : Type} (l : List α) (i : Nat) (a x : α) (h : l[i]? = some x) : (l.set i a)[i]? = some a := by
  have hi : i < l.length := by
    rcases Nat.lt_or_ge i l.length with h1 | h1
    · exact h1
    · rw [List.getElem?_eq_none h1] at h; cases h
  simp [List.getElem?_set, hi]

/-- one `append` on member `i`: the invariant survives, member `i` gains exactly `x`, nobody else changes -/
theorem append_one (extra : Nat → Nat) (h : Heap) (fam : List HMsg) (i : Nat) (m : HMsg) (x : Chunk)
    (hinv : HInv h fam) (hi : fam[i]? = some m) :
    HInv (happend extra h m.sl x).1 (fam.set i { m with sl := (happend extra h m.sl x).2 }) ∧
    (view (happend extra h m.sl x).1 { m with sl := (happend extra h m.sl x).2 }).chunks = (view h m).chunks ++ [x] ∧
    (∀ (j : Nat) (mj : HMsg), j ≠ i → fam[j]? = some mj → view (happend extra h m.sl x).1 mj = view h mj) := by
  have hok := hinv.ok i m hi
  unfold happend
  by_cases hc : m.sl.len < m.sl.cap
  · -- in place
    simp only [hc, if_true]
    have ha : m.sl.arr < h.length := sliceOK_arr_lt h m.sl hok (by omega)
    have hlen : m.sl.len < (h.array m.sl.arr).length := by unfold SliceOK at hok; omega
    refine ⟨⟨?_, ?_⟩, ?_, ?_⟩
    · intro j mj hj
      rw [List.getElem?_set] at hj
      by_cases hij : i = j
      · subst hij
        simp only [if_true] at hj
        split at hj
        · simp at hj; subst hj
          unfold SliceOK at hok ⊢
          simp only [array_set_self h _ _ ha, List.length_set]; omega
        · cases hj
      · simp only [hij, if_false] at hj
        have := hinv.ok j mj hj
        unfold SliceOK at this ⊢
        by_cases hab : m.sl.arr = mj.sl.arr
        · rw [← hab, array_set_self h _ _ ha, List.length_set]; rw [← hab] at this; exact this
        · rw [array_set_ne h _ _ _ hab]; exact this
    · intro j k mj mk hj hk hjk harr hcap
      rw [List.getElem?_set] at hj hk
      by_cases hij : i = j
      · subst hij
        have hik : ¬ i = k := hjk
        simp only [if_true] at hj
        simp only [hik, if_false] at hk
        split at hj
        · simp at hj; subst hj
          have := hinv.own i k m mk hi hk hjk harr hc
          simp only at hcap ⊢
          omega
        · cases hj
      · simp only [hij, if_false] at hj
        by_cases hik : i = k
        · subst hik
          simp only [if_true] at hk
          split at hk
          · simp at hk; subst hk
            -- `j` has spare capacity on the array `i` also has spare capacity on: impossible
            have := hinv.own j i mj m hj hi hjk harr hcap
            omega
          · cases hk
        · simp only [hik, if_false] at hk
          exact hinv.own j k mj mk hj hk hjk harr hcap
    · simp only [view, array_set_self h _ _ ha]
      exact take_set_succ _ _ _ hlen
    · intro j mj hji hj
      simp only [view]
      by_cases hab : m.sl.arr = mj.sl.arr
      · have := hinv.own i j m mj hi hj (Ne.symm hji) hab hc
        rw [← hab, array_set_self h _ _ ha, List.take_set_of_le this.2]
      · rw [array_set_ne h _ _ _ hab]
  · -- reallocation, with any capacity ≥ len + 1
    simp only [hc, if_false]
    have htl : ((h.array m.sl.arr).take m.sl.len).length = m.sl.len := by
      unfold SliceOK at hok; simp; omega
    refine ⟨⟨?_, ?_⟩, ?_, ?_⟩
    · intro j mj hj
      rw [List.getElem?_set] at hj
      by_cases hij : i = j
      · subst hij
        simp only [if_true] at hj
        split at hj
        · simp at hj; subst hj
          unfold SliceOK
          simp only [array_append_self, List.length_append, htl, List.length_cons, List.length_nil, List.length_replicate]
          omega
        · cases hj
      · simp only [hij, if_false] at hj
        have hokj := hinv.ok j mj hj
        unfold SliceOK at hokj ⊢
        rcases Nat.lt_or_ge mj.sl.arr h.length with hlt | hge
        · rw [array_append_lt h _ _ hlt]; exact hokj
        · rw [array_out_of_range h _ hge] at hokj; simp at hokj; omega
    · intro j k mj mk hj hk hjk harr hcap
      rw [List.getElem?_set] at hj hk
      by_cases hij : i = j
      · subst hij
        have hik : ¬ i = k := hjk
        simp only [if_true] at hj
        simp only [hik, if_false] at hk
        split at hj
        · simp at hj; subst hj
          simp only at harr hcap ⊢
          have hokk := hinv.ok k mk hk
          unfold SliceOK at hokk
          rw [array_out_of_range h mk.sl.arr (by omega)] at hokk
          simp at hokk; omega
        · cases hj
      · simp only [hij, if_false] at hj
        by_cases hik : i = k
        · subst hik
          simp only [if_true] at hk
          split at hk
          · simp at hk; subst hk
            simp only at harr
            have hokj := hinv.ok j mj hj
            unfold SliceOK at hokj
            rw [array_out_of_range h mj.sl.arr (by omega)] at hokj
            simp at hokj; omega
          · cases hk
        · simp only [hik, if_false] at hk
          exact hinv.own j k mj mk hj hk hjk harr hcap
    · simp only [view, array_append_self]
      have hl : (List.take m.sl.len (h.array m.sl.arr) ++ [x]).length = m.sl.len + 1 := by simp [htl]
      rw [List.take_append_of_le_length (by omega), List.take_of_length_le (by omega)]
    · intro j mj hji hj
      simp only [view]
      have hokj := hinv.ok j mj hj
      rcases Nat.lt_or_ge mj.sl.arr h.length with hlt | hge
      · rw [array_append_lt h _ _ hlt]
      · unfold SliceOK at hokj
        rw [array_out_of_range h _ hge] at hokj
        simp at hokj
        have : mj.sl.len = 0 := by omega
        simp [this]

theorem set_self_of_getElem? {α : Type} (l : List α) (i : Nat) (x : α) (h : l[i]? = some x) : l.set i x = l := by
  induction l generalizing i with
  | nil => rfl
  | cons a t ih =>
    cases i with
    | zero => simp at h; simp [h]
    | succ i => simp at h; simp [ih i h]

/-- `appendText`'s appends on member `i`, one after the other -/
theorem append_all (extra : Nat → Nat) (xs : List Chunk) (h : Heap) (fam : List HMsg) (i : Nat) (m : HMsg)
    (hinv : HInv h fam) (hi : fam[i]? = some m) :
    HInv (happendAll extra h m.sl xs).1 (fam.set i { m with sl := (happendAll extra h m.sl xs).2 }) ∧
    (view (happendAll extra h m.sl xs).1 { m with sl := (happendAll extra h m.sl xs).2 }).chunks = (view h m).chunks ++ xs ∧
    (∀ (j : Nat) (mj : HMsg), j ≠ i → fam[j]? = some mj → view (happendAll extra h m.sl xs).1 mj = view h mj) := by
  induction xs generalizing h fam m with
  | nil =>
    have : ({ m with sl := m.sl } : HMsg) = m := by cases m; rfl
    simp only [happendAll, List.foldl_nil, this, set_self_of_getElem? fam i m hi, List.append_nil]
    exact ⟨hinv, trivial, fun _ _ _ _ => trivial⟩
  | cons x xs ih =>
    obtain ⟨h1, h2, h3⟩ := append_one extra h fam i m x hinv hi
    have hi1 := getElem?_set_self' fam i { m with sl := (happend extra h m.sl x).2 } m hi
    obtain ⟨k1, k2, k3⟩ := ih (happend extra h m.sl x).1 (fam.set i { m with sl := (happend extra h m.sl x).2 })
      { m with sl := (happend extra h m.sl x).2 } h1 hi1
    have hfold : happendAll extra h m.sl (x :: xs) =
        happendAll extra (happend extra h m.sl x).1 (happend extra h m.sl x).2 xs := by
      simp [happendAll]
    rw [hfold]
    refine ⟨?_, ?_, ?_⟩
    · simpa [List.set_set] using k1
    · rw [show (view h m).chunks ++ x :: xs = ((view h m).chunks ++ [x]) ++ xs by simp, ← h2]
      exact k2
    · intro j mj hji hj
      have hj1 : (fam.set i { m with sl := (happend extra h m.sl x).2 })[j]? = some mj := by
        rw [List.getElem?_set]; simp [Ne.symm hji, hj]
      rw [k3 j mj hji hj1, h3 j mj hji hj]

/-- changing fields other than the slice keeps the invariant -/
theorem hinv_set_fields (h : Heap) (fam : List HMsg) (i : Nat) (m m' : HMsg) (hinv : HInv h fam)
    (hi : fam[i]? = some m) (hsl : m'.sl = m.sl) : HInv h (fam.set i m') := by
  have hlt : i < fam.length := by
    rcases Nat.lt_or_ge i fam.length with h1 | h1
    · exact h1
    · rw [List.getElem?_eq_none h1] at hi; cases hi
  have get : ∀ (j : Nat) (mj : HMsg), (fam.set i m')[j]? = some mj → ∃ mj0 : HMsg, fam[j]? = some mj0 ∧ mj.sl = mj0.sl := by
    intro j mj hj
    rw [List.getElem?_set] at hj
    by_cases hij : i = j
    · subst hij; simp [hlt] at hj; subst hj; exact ⟨m, hi, hsl⟩
    · simp only [hij, if_false] at hj; exact ⟨mj, hj, rfl⟩
  refine ⟨?_, ?_⟩
  · intro j mj hj
    obtain ⟨mj0, h0, e⟩ := get j mj hj
    rw [e]; exact hinv.ok j mj0 h0
  · intro j k mj mk hj hk hjk harr hcap
    obtain ⟨mj0, hj0, ej⟩ := get j mj hj
    obtain ⟨mk0, hk0, ek⟩ := get k mk hk
    rw [ej] at harr hcap ⊢; rw [ek] at harr ⊢
    exact hinv.own j k mj0 mk0 hj0 hk0 hjk harr hcap

/-- resetting member `i` to the nil slice (and any fields) keeps the invariant -/
theorem hinv_set_nil (h : Heap) (fam : List HMsg) (i : Nat) (m m' : HMsg) (hinv : HInv h fam)
    (hi : fam[i]? = some m) (hsl : m'.sl = {}) : HInv h (fam.set i m') := by
  have hlt : i < fam.length := by
    rcases Nat.lt_or_ge i fam.length with h1 | h1
    · exact h1
    · rw [List.getElem?_eq_none h1] at hi; cases hi
  have get : ∀ (j : Nat) (mj : HMsg), (fam.set i m')[j]? = some mj → (j = i ∧ mj = m') ∨ (j ≠ i ∧ fam[j]? = some mj) := by
    intro j mj hj
    rw [List.getElem?_set] at hj
    by_cases hij : i = j
    · subst hij; simp [hlt] at hj; exact Or.inl ⟨rfl, hj.symm⟩
    · simp only [hij, if_false] at hj; exact Or.inr ⟨Ne.symm hij, hj⟩
  refine ⟨?_, ?_⟩
  · intro j mj hj
    rcases get j mj hj with ⟨_, e⟩ | ⟨_, e⟩
    · subst e; rw [hsl]; simp [SliceOK]
    · exact hinv.ok j mj e
  · intro j k mj mk hj hk hjk harr hcap
    rcases get j mj hj with ⟨_, ej⟩ | ⟨hji, ej⟩
    · subst ej; rw [hsl] at hcap; simp at hcap
    · rcases get k mk hk with ⟨_, ek⟩ | ⟨hki, ek⟩
      · subst ek; rw [hsl]; simp
      · exact hinv.own j k mj mk ej ek hjk harr hcap

/-- a clone (`[:len:len]`) of member `i` joins the family -/
theorem hinv_push_clone (h : Heap) (fam : List HMsg) (i : Nat) (m c : HMsg) (hinv : HInv h fam)
    (hi : fam[i]? = some m) (hc : c.sl = { arr := m.sl.arr, len := m.sl.len, cap := m.sl.len }) :
    HInv h (fam ++ [c]) := by
  have get : ∀ (j : Nat) (mj : HMsg), (fam ++ [c])[j]? = some mj → (j < fam.length ∧ fam[j]? = some mj) ∨ (j = fam.length ∧ mj = c) := by
    intro j mj hj
    rcases Nat.lt_or_ge j fam.length with hlt | hge
    · rw [List.getElem?_append_left hlt] at hj; exact Or.inl ⟨hlt, hj⟩
    · rw [List.getElem?_append_right hge] at hj
      have : j - fam.length = 0 := by
        rcases Nat.eq_zero_or_pos (j - fam.length) with h0 | h0
        · exact h0
        · rw [List.getElem?_eq_none (by simp; omega)] at hj; cases hj
      rw [this] at hj; simp at hj
      exact Or.inr ⟨by omega, hj.symm⟩
  have hlt : i < fam.length := by
    rcases Nat.lt_or_ge i fam.length with h1 | h1
    · exact h1
    · rw [List.getElem?_eq_none h1] at hi; cases hi
  have hokm := hinv.ok i m hi
  refine ⟨?_, ?_⟩
  · intro j mj hj
    rcases get j mj hj with ⟨_, h0⟩ | ⟨_, rfl⟩
    · exact hinv.ok j mj h0
    · unfold SliceOK at hokm ⊢; rw [hc]; simp only; omega
  · intro j k mj mk hj hk hjk harr hcap
    rcases get j mj hj with ⟨hjl, hj0⟩ | ⟨hje, rfl⟩
    · rcases get k mk hk with ⟨_, hk0⟩ | ⟨hke, rfl⟩
      · exact hinv.own j k mj mk hj0 hk0 hjk harr hcap
      · -- `j` has spare capacity on the clone's array
        rw [hc] at harr ⊢
        simp only at harr ⊢
        by_cases hji : j = i
        · subst hji; rw [hi] at hj0; cases hj0; exact ⟨trivial, Nat.le_refl _⟩
        · have := hinv.own j i mj m hj0 hi hji harr hcap
          exact ⟨trivial, this.2⟩
    · rw [hc] at hcap; simp at hcap

theorem view_clone (h : Heap) (m : HMsg) : view h m.clone = view h m := by
  simp [view, HMsg.clone]

/-! ### the simulation -/

/-- the heap-level family shows exactly the value-level family -/
structure Sim (st : FamState) (ps : PureState) : Prop where
  fam : ∀ j : Nat, (st.fam[j]?).map (view st.heap) = ps.fam[j]?
  ctr : st.ctr = ps.ctr
  puts : st.puts = ps.puts

theorem sim_length (st : FamState) (ps : PureState) (h : Sim st ps) : st.fam.length = ps.fam.length := by
  have h1 := h.fam st.fam.length
  have h2 := h.fam ps.fam.length
  rcases Nat.lt_trichotomy st.fam.length ps.fam.length with hlt | heq | hgt
  · rw [List.getElem?_eq_none (Nat.le_refl _)] at h1
    simp at h1; omega
  · exact heq
  · rw [List.getElem?_eq_none (Nat.le_refl _)] at h2
    simp at h2; omega

theorem sim_views (st : FamState) (ps : PureState) (h : Sim st ps) : st.views = ps.fam := by
  apply List.ext_getElem?
  intro j
  simp only [FamState.views, List.getElem?_map]
  exact h.fam j

theorem textChunks_eq (ic : Bool) (strs : List Bytes) :
    textChunks ic strs = (strs.flatMap linesOf).map (fun l => ⟨l, ic⟩) := by
  unfold textChunks
  induction strs with
  | nil => rfl
  | cons s ss ih =>
    simp only [List.flatMap_cons, List.map_append, ih]
    rw [appendLoop_eq ic s.length s [] (Nat.le_refl _)]; simp

theorem message_ext (a b : Message) (h1 : a.chunks = b.chunks) (h2 : a.id = b.id) (h3 : a.typ = b.typ) (h4 : a.retry = b.retry) : a = b := by
  cases a; cases b; simp_all

theorem digitsLoop_digits (f n : Nat) (acc : Bytes) (h : acc.all isDigit = true) : (digitsLoop f n acc).all isDigit = true := by
  induction f generalizing n acc with
  | zero => exact h
  | succ f ih =>
    unfold digitsLoop
    split
    · exact h
    · apply ih; simp only [List.all_cons, h, Bool.and_true]; exact digit_isDigit _ (Nat.mod_lt _ (by omega))

theorem formatUint_nlFree (n : Nat) : NlFree (formatUint n) := by
  apply digits_nlFree
  unfold formatUint
  split
  · decide
  · exact digitsLoop_digits _ _ _ (by simp)

theorem mustID_formatUint (n : Nat) : mustID (formatUint n) = some { value := formatUint n, set := true } := by
  simp [mustID, newID, newMessageField_single _ (formatUint_nlFree n)]

/-- one operation: invariant and simulation are preserved, for every growth policy -/
theorem step_sim (extra : Nat → Nat) (st : FamState) (ps : PureState) (op : FOp)
    (hinv : HInv st.heap st.fam) (hs : Sim st ps) :
    HInv (st.step extra op).heap (st.step extra op).fam ∧ Sim (st.step extra op) (ps.step op) := by
  have hlen := sim_length st ps hs
  -- the three shapes of operation
  have appendCase : ∀ (i : Nat) (ic : Bool) (s : List Bytes),
      HInv (st.appendText extra i ic s).heap (st.appendText extra i ic s).fam ∧
      Sim (st.appendText extra i ic s) (ps.modify i fun m => m.appendText ic s) := by
    intro i ic s
    unfold FamState.appendText PureState.modify
    have hsi := hs.fam i
    cases hm : st.fam[i]? with
    | none => rw [hm] at hsi; simp only [Option.map_none] at hsi; simp only [← hsi]; exact ⟨hinv, hs⟩
    | some m =>
      rw [hm] at hsi; simp only [Option.map_some] at hsi
      simp only [← hsi]
      obtain ⟨a1, a2, a3⟩ := append_all extra (textChunks ic s) st.heap st.fam i m hinv hm
      refine ⟨a1, ⟨?_, hs.ctr, hs.puts⟩⟩
      intro j
      have hlt : i < st.fam.length := by
        rcases Nat.lt_or_ge i st.fam.length with h1 | h1
        · exact h1
        · rw [List.getElem?_eq_none h1] at hm; cases hm
      simp only [List.getElem?_set]
      by_cases hij : i = j
      · subst hij
        simp only [if_true, hlt, ← hlen, Option.map_some]
        congr 1
        apply message_ext
        · rw [a2, appendText_chunks, textChunks_eq]
        · rw [(appendText_fields _ ic s).1]; rfl
        · rw [(appendText_fields _ ic s).2.1]; rfl
        · rw [(appendText_fields _ ic s).2.2]; rfl
      · simp only [hij, if_false]
        rw [← hs.fam j]
        cases hj : st.fam[j]? with
        | none => rfl
        | some mj => simp only [Option.map_some]; rw [a3 j mj (Ne.symm hij) hj]
  have modifyCase : ∀ (i : Nat) (f : HMsg → HMsg) (g : Message → Message),
      (∀ m, (f m).sl = m.sl) → (∀ h m, view h (f m) = g (view h m)) →
      HInv (st.modify i f).heap (st.modify i f).fam ∧ Sim (st.modify i f) (ps.modify i g) := by
    intro i f g hf hg
    unfold FamState.modify PureState.modify
    have hsi := hs.fam i
    cases hm : st.fam[i]? with
    | none => rw [hm] at hsi; simp only [Option.map_none] at hsi; simp only [← hsi]; exact ⟨hinv, hs⟩
    | some m =>
      rw [hm] at hsi; simp only [Option.map_some] at hsi
      simp only [← hsi]
      refine ⟨hinv_set_fields st.heap st.fam i m (f m) hinv hm (hf m), ⟨?_, hs.ctr, hs.puts⟩⟩
      intro j
      have hlt : i < st.fam.length := by
        rcases Nat.lt_or_ge i st.fam.length with h1 | h1
        · exact h1
        · rw [List.getElem?_eq_none h1] at hm; cases hm
      simp only [List.getElem?_set]
      by_cases hij : i = j
      · subst hij; simp only [if_true, hlt, ← hlen, Option.map_some, hg]
      · simp only [hij, if_false]; exact hs.fam j
  have pushCase : ∀ (i : Nat) (m c : HMsg) (pc : Message), st.fam[i]? = some m →
      c.sl = { arr := m.sl.arr, len := m.sl.len, cap := m.sl.len } → view st.heap c = pc →
      HInv st.heap (st.fam ++ [c]) ∧ (∀ j : Nat, ((st.fam ++ [c])[j]?).map (view st.heap) = (ps.fam ++ [pc])[j]?) := by
    intro i m c pc hm hc hv
    refine ⟨hinv_push_clone st.heap st.fam i m c hinv hm hc, ?_⟩
    intro j
    rcases Nat.lt_or_ge j st.fam.length with hlt | hge
    · rw [List.getElem?_append_left hlt, List.getElem?_append_left (by omega)]; exact hs.fam j
    · rw [List.getElem?_append_right hge, List.getElem?_append_right (by omega), hlen]
      cases hk : j - ps.fam.length with
      | zero => simp [hv]
      | succ k => simp
  cases op with
  | unmarshal i p =>
    simp only [FamState.step, PureState.step, FamState.unmarshal, PureState.modify]
    have hsi := hs.fam i
    cases hm : st.fam[i]? with
    | none => rw [hm] at hsi; simp only [Option.map_none] at hsi; simp only [← hsi]; exact ⟨hinv, hs⟩
    | some m =>
      rw [hm] at hsi; simp only [Option.map_some] at hsi
      simp only [← hsi]
      have hlt : i < st.fam.length := by
        rcases Nat.lt_or_ge i st.fam.length with h1 | h1
        · exact h1
        · rw [List.getElem?_eq_none h1] at hm; cases hm
      -- first the reset, then the appends
      let r := (Message.unmarshalText p).1
      let m0 : HMsg := { sl := {}, id := r.id, typ := r.typ, retry := r.retry }
      have h0 := hinv_set_nil st.heap st.fam i m m0 hinv hm rfl
      have hi0 : (st.fam.set i m0)[i]? = some m0 := getElem?_set_self' st.fam i m0 m hm
      obtain ⟨a1, a2, a3⟩ := append_all extra r.chunks st.heap (st.fam.set i m0) i m0 h0 hi0
      refine ⟨by simpa [List.set_set] using a1, ⟨?_, hs.ctr, hs.puts⟩⟩
      intro j
      simp only [List.getElem?_set]
      by_cases hij : i = j
      · subst hij
        simp only [if_true, hlt, ← hlen, Option.map_some]
        congr 1
        apply message_ext
        · rw [a2]; simp [view, m0, r]
        · rfl
        · rfl
        · rfl
      · simp only [hij, if_false]
        rw [← hs.fam j]
        cases hj : st.fam[j]? with
        | none => rfl
        | some mj =>
          simp only [Option.map_some]
          have hj0 : (st.fam.set i m0)[j]? = some mj := by rw [List.getElem?_set]; simp [hij, hj]
          rw [a3 j mj (Ne.symm hij) hj0]
  | appendData i s => exact appendCase i false s
  | appendComment i s => exact appendCase i true s
  | setID i v => exact modifyCase i _ _ (fun _ => rfl) (fun _ _ => rfl)
  | setType i v => exact modifyCase i _ _ (fun _ => rfl) (fun _ _ => rfl)
  | setRetry i d => exact modifyCase i _ _ (fun _ => rfl) (fun _ _ => rfl)
  | clone i =>
    simp only [FamState.step, PureState.step]
    have hsi := hs.fam i
    cases hm : st.fam[i]? with
    | none => rw [hm] at hsi; simp only [Option.map_none] at hsi; simp only [← hsi]; exact ⟨hinv, hs⟩
    | some m =>
      rw [hm] at hsi; simp only [Option.map_some] at hsi
      simp only [← hsi]
      obtain ⟨p1, p2⟩ := pushCase i m m.clone (view st.heap m) hm rfl (view_clone _ _)
      exact ⟨p1, ⟨p2, hs.ctr, hs.puts⟩⟩
  | put i rep =>
    simp only [FamState.step, PureState.step, FamState.ensureID]
    have hsi := hs.fam i
    cases hm : st.fam[i]? with
    | none => rw [hm] at hsi; simp only [Option.map_none] at hsi; simp only [← hsi]; exact ⟨hinv, hs⟩
    | some m =>
      rw [hm] at hsi; simp only [Option.map_some] at hsi
      simp only [← hsi]
      have hidset : (view st.heap m).id.set = m.id.set := rfl
      by_cases ha : autoIDs rep = true
      · simp only [ha, Bool.not_true, Bool.false_eq_true, if_false, hidset]
        by_cases hset : m.id.set = true
        · simp only [hset, if_true]
          exact ⟨hinv, ⟨hs.fam, hs.ctr, by simp [hs.puts]⟩⟩
        · simp only [hset, Bool.false_eq_true, if_false, mustID_formatUint]
          obtain ⟨p1, p2⟩ := pushCase i m { m.clone with id := { value := formatUint (st.ctr rep), set := true } }
            { view st.heap m with id := { value := formatUint (st.ctr rep), set := true } } hm rfl (by simp [view, HMsg.clone])
          refine ⟨p1, ⟨?_, ?_, ?_⟩⟩
          · simpa [hs.ctr] using p2
          · simp [hs.ctr]
          · simp [hs.puts, hlen]
      · have ha' : autoIDs rep = false := by simpa using ha
        simp only [ha', Bool.not_false, if_true, hidset]
        by_cases hset : m.id.set = true
        · simp only [hset, Bool.not_true, Bool.false_eq_true, if_false, if_true]
          exact ⟨hinv, ⟨hs.fam, hs.ctr, by simp [hs.puts]⟩⟩
        · simp only [hset, Bool.not_false, if_true, Bool.false_eq_true, if_false]
          exact ⟨hinv, ⟨hs.fam, hs.ctr, by simp [hs.puts]⟩⟩

theorem hinv_init : HInv ({} : FamState).heap ({} : FamState).fam := by
  refine ⟨?_, ?_⟩
  · intro i m hi
    have : m = {} := by
      cases i with
      | zero => simpa using hi.symm
      | succ i => simp at hi
    subst this; simp [SliceOK, Heap.array]
  · intro i j mi mj hi hj hij _ hcap
    have : mi = {} := by
      cases i with
      | zero => simpa using hi.symm
      | succ i => simp at hi
    subst this; simp at hcap

theorem sim_init : Sim {} {} := by
  refine ⟨?_, rfl, rfl⟩
  intro j
  cases j with
  | zero => simp [view, Heap.array]
  | succ j => simp

/-- any script: invariant and simulation hold at the end -/
theorem run_sim (extra : Nat → Nat) (ops : List FOp) (st : FamState) (ps : PureState)
    (hinv : HInv st.heap st.fam) (hs : Sim st ps) :
    HInv (st.run extra ops).heap (st.run extra ops).fam ∧ Sim (st.run extra ops) (ps.run ops) := by
  induction ops generalizing st ps with
  | nil => exact ⟨hinv, hs⟩
  | cons op ops ih =>
    obtain ⟨h1, h2⟩ := step_sim extra st ps op hinv hs
    exact ih _ _ h1 h2

/-! ### automatic IDs -/

theorem accLoop_eq_digitsLoop (j n : Nat) (acc : Bytes) (h : n < 10 ^ j) : accLoop j n acc = some (digitsLoop j n acc) := by
  induction j generalizing n acc with
  | zero => simp at h; simp [accLoop, digitsLoop, h]
  | succ j ih =>
    unfold accLoop digitsLoop
    by_cases hn : n = 0
    · simp [hn]
    · simp only [hn, if_false]
      apply ih
      rw [Nat.pow_succ] at h
      exact Nat.div_lt_of_lt_mul (by rw [Nat.mul_comm]; exact h)

theorem digitsVal_formatUint (n : Nat) : digitsVal (formatUint n) = n := by
  unfold formatUint
  by_cases hn : n = 0
  · subst hn; decide
  · simp only [hn, if_false]
    have h := accLoop_eq_digitsLoop n n [] (Nat.lt_pow_self (by omega))
    have := accLoop_val _ _ _ _ h
    simpa [digitsVal] using this

theorem pure_run_snoc (ps : PureState) (ops : List FOp) (op : FOp) : ps.run (ops ++ [op]) = (ps.run ops).step op := by
  simp [PureState.run, List.foldl_append]

/-- `k` publications of member `i` through a replayer with automatic IDs, at the value level -/
theorem pure_puts (ps : PureState) (i rep k : Nat) (m : Message) (ha : autoIDs rep = true)
    (hi : ps.fam[i]? = some m) (hid : m.id.set = false) :
    (ps.run (List.replicate k (.put i rep))).fam =
      ps.fam ++ (List.range k).map (fun n => { m with id := { value := formatUint (ps.ctr rep + n), set := true } }) ∧
    (ps.run (List.replicate k (.put i rep))).ctr rep = ps.ctr rep + k := by
  induction k with
  | zero => simp [PureState.run]
  | succ k ih =>
    rw [List.replicate_succ', pure_run_snoc]
    generalize hq : ps.run (List.replicate k (.put i rep)) = q at ih
    have hlt : i < ps.fam.length := by
      rcases Nat.lt_or_ge i ps.fam.length with h1 | h1
      · exact h1
      · rw [List.getElem?_eq_none h1] at hi; cases hi
    have hqi : q.fam[i]? = some m := by rw [ih.1, List.getElem?_append_left hlt]; exact hi
    simp only [PureState.step, hqi, ha, Bool.not_true, Bool.false_eq_true, if_false, hid]
    refine ⟨?_, ?_⟩
    · rw [ih.1, ih.2, List.range_succ, List.map_append, List.append_assoc]; rfl
    · simp [ih.2]; omega

end GoSSE.Proofs
