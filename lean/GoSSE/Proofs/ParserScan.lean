import GoSSE.Proofs.ParserSplit
/-!
The `bufio.Scanner` model: what one call of `Scanner.scan` returns, in terms of the bytes that
remain to be delivered.
-/
namespace GoSSE.Proofs
open GoSSE GoSSE.Spec GoSSE.Model

/-! ### `Source` -/

theorem foldl_size (l : List Bytes) (a : Nat) :
    l.foldl (fun n c => n + c.length + 1) a = a + l.foldl (fun n c => n + c.length + 1) 0 := by
  induction l generalizing a with
  | nil => simp
  | cons c t ih => simp only [List.foldl_cons]; rw [ih, ih (0 + c.length + 1)]; omega

theorem Source.size_cons (s : Source) (c : Bytes) (t : List Bytes) (h : s.chunks = c :: t) :
    s.size = c.length + 1 + ({ s with chunks := t } : Source).size := by
  simp only [Source.size, h, List.foldl_cons]; rw [foldl_size]; omega

/-- the error the source ends with -/
def endE (src : Source) : SErr := if src.endErr then .read else .eof

/-- all that `Source.read` does -/
theorem read_spec (src : Source) (free : Nat) :
    let q := src.read free
    q.1 ++ q.2.2.chunks.flatten = src.chunks.flatten ∧
    q.2.2.endErr = src.endErr ∧ q.2.2.errWithLast = src.errWithLast ∧
    q.1.length ≤ free ∧
    (∀ e, q.2.1 = some e → e = endE src ∧ q.2.2.chunks = []) ∧
    (1 ≤ free → q.2.1.isSome ∨ q.2.2.size < src.size) ∧
    q.2.2.size + q.1.length ≤ src.size := by
  unfold Source.read
  cases hc : src.chunks with
  | nil => simp [endE, hc]
  | cons c rest =>
    simp only
    by_cases hfit : c.length ≤ free
    · simp only [hfit, if_true]
      by_cases hlast : (rest.isEmpty && src.errWithLast) = true
      · simp only [hlast, if_true]
        have : rest = [] := by simp at hlast; exact hlast.1
        subst this
        simp [endE, hfit]
        rw [Source.size_cons src c [] hc]; simp [Source.size]
      · simp only [hlast, Bool.false_eq_true, if_false]
        have hsz := Source.size_cons src c rest hc
        refine ⟨by simp, trivial, trivial, hfit, by simp, fun _ => .inr ?_, ?_⟩
        · omega
        · omega
    · simp only [hfit, if_false]
      have hsz := Source.size_cons src c rest hc
      have hsz2 := Source.size_cons { src with chunks := c.drop free :: rest } (c.drop free) rest rfl
      simp only [List.length_drop] at hsz2
      refine ⟨by simp [← List.append_assoc], trivial, trivial, by simp; omega, by simp, fun h1 => .inr ?_, ?_⟩
      · omega
      · simp only [List.length_take]; omega

/-! ### one iteration of `Scanner.scan` -/

def trySplit (s : Scanner) : Option (Nat × Bytes) × Scanner :=
  if !s.data.isEmpty || s.err.isSome then
    match (splitFunc s.data s.err.isSome).2 with
    | some t => (some ((splitFunc s.data s.err.isSome).1, t),
        { s with start := s.start + (splitFunc s.data s.err.isSome).1, data := s.data.drop (splitFunc s.data s.err.isSome).1 })
    | none => (none, s)
  else (none, s)

def shift (s : Scanner) : Scanner :=
  if s.start > 0 && (s.start + s.data.length == s.bufLen || s.start > s.bufLen / 2) then { s with start := 0 } else s

def grow (s : Scanner) : Scanner :=
  { s with bufLen := min (if s.bufLen * 2 == 0 then startBufSize else s.bufLen * 2) s.maxTok.toNat, start := 0 }

def fill (s : Scanner) : Scanner :=
  let q := s.src.read (s.bufLen - (s.start + s.data.length))
  { s with data := s.data ++ q.1, err := q.2.1, src := q.2.2, pulled := s.pulled + q.1.length }

/-- the part of `Scanner.scan` after an unsuccessful split call -/
def scanRest (fuel : Nat) (s : Scanner) : Option (Nat × Bytes) × Scanner :=
  if s.err.isSome then (none, { s with start := 0, data := [] })
  else
    let s1 := shift s
    if s1.start + s1.data.length == s1.bufLen then
      if (s1.bufLen : Int) ≥ s1.maxTok then (none, { s1 with err := some .tooLong })
      else Scanner.scan fuel (fill (grow s1))
    else Scanner.scan fuel (fill s1)

theorem trySplit_none (s : Scanner) (h : (trySplit s).1 = none) : (trySplit s).2 = s := by
  unfold trySplit at h ⊢
  split
  · rename_i hc
    rw [if_pos hc] at h
    split
    · rename_i heq; rw [heq] at h; simp at h
    · rfl
  · rfl

theorem scan_succ (fuel : Nat) (s : Scanner) :
    Scanner.scan (fuel + 1) s =
      match (trySplit s).1 with
      | some t => (some t, (trySplit s).2)
      | none => scanRest fuel s := by
  have key : Scanner.scan (fuel + 1) s =
      match (trySplit s).1 with
      | some t => (some t, (trySplit s).2)
      | none => scanRest fuel (trySplit s).2 := by
    rw [Scanner.scan]; rfl
  rw [key]
  cases h : (trySplit s).1 with
  | some t => rfl
  | none => simp only [trySplit_none s h]

/-! ### what a call of `Scanner.scan` returns -/

/-- the bytes not yet turned into tokens -/
def remaining (s : Scanner) : Bytes := s.data ++ s.src.chunks.flatten

structure SInv (s : Scanner) : Prop where
  fits : s.start + s.data.length ≤ s.bufLen
  errEnd : ∀ e, s.err = some e → e = endE s.src ∧ s.src.chunks = []

/-- configuration carried along: limit, kind of end, buffer only grows, and only up to the limit -/
structure SameCfg (s s' : Scanner) : Prop where
  maxTok : s'.maxTok = s.maxTok
  endErr : s'.src.endErr = s.src.endErr
  bufLo : s.bufLen ≤ s'.bufLen
  bufHi : s'.bufLen ≤ max s.bufLen s.maxTok.toNat
  errMono : s.err.isSome = true → s'.err.isSome = true

/-- fuel measure of the scanner: what the source still holds (+1 per chunk) and the pending bytes -/
def weight (s : Scanner) : Nat := s.src.size + s.data.length

theorem SameCfg.refl (s : Scanner) : SameCfg s s := ⟨rfl, rfl, Nat.le_refl _, Nat.le_max_left _ _, id⟩

theorem SameCfg.trans {a b c : Scanner} (h1 : SameCfg a b) (h2 : SameCfg b c) : SameCfg a c := by
  refine ⟨h2.maxTok.trans h1.maxTok, h2.endErr.trans h1.endErr, Nat.le_trans h1.bufLo h2.bufLo, ?_,
    fun h => h2.errMono (h1.errMono h)⟩
  have := h2.bufHi; have := h1.bufHi; have := h1.maxTok; have := h1.bufLo
  rw [h1.maxTok] at *
  omega

inductive ScanRes (s : Scanner) : Option (Nat × Bytes) × Scanner → Prop
  /-- a token: `D` is the buffer content the successful split call saw -/
  | tok (D : Bytes) (adv : Nat) (tok : Bytes) (s' : Scanner)
      (hrem : remaining s = D ++ s'.src.chunks.flatten)
      (hsplit : splitFunc D s'.err.isSome = (adv, some tok))
      (hdata : s'.data = D.drop adv) (hinv : SInv s') (hcfg : SameCfg s s')
      (hwt : weight s' + adv ≤ weight s) :
      ScanRes s (some (adv, tok), s')
  /-- `ErrTooLong`: the buffer `D` is full, at the limit, and holds no complete token -/
  | tooLong (D : Bytes) (s' : Scanner) (herr : s'.err = some .tooLong) (hnone : s.err = none)
      (hrem : remaining s = D ++ s'.src.chunks.flatten)
      (hsplit : splitFunc D false = (0, none)) (hdata : s'.data = D)
      (hfull : D.length = s'.bufLen) (hlim : (s'.bufLen : Int) ≥ s'.maxTok) (hcfg : SameCfg s s') :
      ScanRes s (none, s')
  /-- the input is exhausted -/
  | done (s' : Scanner) (herr : s'.err = some (endE s.src)) (hrem : remaining s = [])
      (hdata : s'.data = []) (hsrc : s'.src.chunks = []) (hinv : SInv s') (hcfg : SameCfg s s') :
      ScanRes s (none, s')

theorem ScanRes.transport {s s2 : Scanner} {r} (h : ScanRes s2 r) (hrem : remaining s2 = remaining s)
    (hcfg : SameCfg s s2) (hw : weight s2 ≤ weight s) (hn : s.err = none) : ScanRes s r := by
  cases h with
  | tok D adv tok s' h1 h2 h3 h4 h5 h6 => exact .tok D adv tok s' (hrem ▸ h1) h2 h3 h4 (hcfg.trans h5) (by omega)
  | tooLong D s' h1 _ h2 h3 h4 h5 h6 h7 => exact .tooLong D s' h1 hn (hrem ▸ h2) h3 h4 h5 h6 (hcfg.trans h7)
  | done s' h1 h2 h3 h4 hi h5 =>
    refine .done s' ?_ (hrem ▸ h2) h3 h4 hi (hcfg.trans h5)
    rw [h1]; simp only [endE, hcfg.endErr]

theorem sf_adv_le (d : Bytes) (e : Bool) : (splitFunc d e).1 ≤ d.length := by
  cases splitFunc_cases d e with
  | empty hd hr => simp [hr]
  | more B T he hd hB hT _ hr => simp [hr]
  | tok B T nl rest hd hB hT hl hcr hnl _ hr => rw [hr, hd]; simp
  | final B T he hd hne hB hT _ hr => simp [hr]

theorem splitFunc_none (d : Bytes) (e : Bool) (h : (splitFunc d e).2 = none) :
    splitFunc d e = (0, none) ∧ (d = [] ∨ e = false) := by
  cases splitFunc_cases d e with
  | empty hd hr => exact ⟨hr, .inl hd⟩
  | more B T he hd hB hT _ hr => exact ⟨hr, .inr he⟩
  | tok B T nl rest hd hB hT hl hcr hnl _ hr => simp [hr] at h
  | final B T he hd hne hB hT _ hr => simp [hr] at h

theorem fill_spec (s : Scanner) (hfit : s.start + s.data.length ≤ s.bufLen) (_hnone : s.err = none) :
    remaining (fill s) = remaining s ∧ SInv (fill s) ∧ SameCfg s (fill s) ∧
    (s.start + s.data.length < s.bufLen → (fill s).err.isSome ∨ (fill s).src.size < s.src.size) ∧
    weight (fill s) ≤ weight s := by
  obtain ⟨h1, h2, _, h4, h5, h6, h7⟩ := read_spec s.src (s.bufLen - (s.start + s.data.length))
  refine ⟨?_, ⟨?_, ?_⟩, ⟨rfl, h2, Nat.le_refl _, Nat.le_max_left _ _, fun h => by rw [_hnone] at h; simp at h⟩, ?_, ?_⟩
  · simp only [remaining, fill, List.append_assoc, h1]
  · simp only [fill, List.length_append]; omega
  · intro e he
    have := h5 e he
    simpa only [fill, endE, h2] using this
  · intro hlt
    exact h6 (by omega)
  · simp only [weight, fill, List.length_append]; omega

theorem scan_spec (fuel : Nat) (s : Scanner) (hinv : SInv s)
    (hf : (if s.err.isSome then 1 else s.src.size + 2) ≤ fuel) : ScanRes s (Scanner.scan fuel s) := by
  induction fuel generalizing s with
  | zero => split at hf <;> omega
  | succ fuel ih =>
    rw [scan_succ]
    cases h : (trySplit s).1 with
    | some t =>
      simp only
      obtain ⟨adv, tok⟩ := t
      unfold trySplit at h ⊢
      split at h
      · rename_i hc
        rw [if_pos hc]
        split at h
        · rename_i x tok' heq
          simp only [Option.some.injEq, Prod.mk.injEq] at h
          obtain ⟨h1, h2⟩ := h
          subst h2
          have hle := sf_adv_le s.data s.err.isSome
          rw [h1] at hle ⊢
          refine .tok s.data adv tok' _ rfl ?_ rfl ⟨?_, hinv.errEnd⟩ ⟨rfl, rfl, Nat.le_refl _, Nat.le_max_left _ _, id⟩ ?_
          · rw [← h1, ← heq]
          · have := hinv.fits
            simp only [List.length_drop]; omega
          · simp only [weight, List.length_drop]; omega
        · simp at h
      · simp at h
    | none =>
      simp only
      have hsp : s.data = [] ∨ (splitFunc s.data s.err.isSome).2 = none := by
        unfold trySplit at h
        split at h
        · split at h
          · simp at h
          · rename_i heq; exact .inr heq
        · rename_i hc; simp at hc; exact .inl hc.1
      unfold scanRest
      by_cases herr : s.err.isSome = true
      · rw [if_pos herr]
        obtain ⟨e, he⟩ := Option.isSome_iff_exists.1 herr
        obtain ⟨he1, he2⟩ := hinv.errEnd e he
        have hdata : s.data = [] := by
          rcases hsp with h | h
          · exact h
          · rw [herr] at h
            rcases (splitFunc_none _ _ h).2 with h' | h'
            · exact h'
            · simp at h'
        refine .done _ (by simp [he, he1]) (by simp [remaining, hdata, he2]) rfl he2
          ⟨by simp, hinv.errEnd⟩ ⟨rfl, rfl, Nat.le_refl _, Nat.le_max_left _ _, id⟩
      · rw [if_neg herr]
        have hnone : s.err = none := by simpa using herr
        have hsf : splitFunc s.data false = (0, none) := by
          rcases hsp with h | h
          · simp [h, splitFunc]
          · rw [hnone] at h; exact (splitFunc_none _ _ h).1
        have hfuel : s.src.size + 1 ≤ fuel := by simp [hnone] at hf; omega
        -- the shifted scanner
        have hs1 : (shift s).data = s.data ∧ (shift s).bufLen = s.bufLen ∧ (shift s).maxTok = s.maxTok ∧
            (shift s).src = s.src ∧ (shift s).err = s.err ∧ (shift s).start ≤ s.start ∧
            ((shift s).start + s.data.length = s.bufLen → (shift s).start = 0) := by
          unfold shift
          split
          · simp
          · rename_i hc
            refine ⟨rfl, rfl, rfl, rfl, rfl, Nat.le_refl _, fun hfull => ?_⟩
            simp only [Bool.and_eq_true, decide_eq_true_eq, Bool.or_eq_true, beq_iff_eq, not_and] at hc
            by_cases h0 : s.start > 0
            · exact absurd (.inl hfull) (hc h0)
            · omega
        obtain ⟨hd1, hb1, hm1, hsrc1, he1, hst1, hfull1⟩ := hs1
        generalize hs1 : shift s = s1 at *
        have hfits1 : s1.start + s1.data.length ≤ s1.bufLen := by have := hinv.fits; rw [hd1, hb1]; omega
        have hrem1 : remaining s1 = remaining s := by simp [remaining, hd1, hsrc1]
        have hcfg1 : SameCfg s s1 := ⟨hm1, by rw [hsrc1], by rw [hb1]; exact Nat.le_refl _, by rw [hb1]; exact Nat.le_max_left _ _,
          by rw [he1]; exact id⟩
        simp only
        by_cases hfull : (s1.start + s1.data.length == s1.bufLen) = true
        · rw [if_pos hfull]
          have hfull' : s1.start + s.data.length = s.bufLen := by simpa [hd1, hb1] using hfull
          have hst0 := hfull1 hfull'
          by_cases hlim : (s1.bufLen : Int) ≥ s1.maxTok
          · rw [if_pos hlim]
            refine .tooLong s.data _ rfl hnone ?_ hsf hd1 ?_ hlim ⟨hm1, by rw [hsrc1], by simp [hb1], by simp [hb1]; exact Nat.le_max_left _ _, fun _ => rfl⟩
            · simp [remaining, hsrc1]
            · simp only; omega
          · rw [if_neg hlim]
            -- grow the buffer
            have hlt : s1.bufLen < s1.maxTok.toNat := by omega
            have hgrow : s1.bufLen + 1 ≤ (grow s1).bufLen ∧ (grow s1).bufLen ≤ s1.maxTok.toNat := by
              simp only [grow, startBufSize]
              by_cases hb0 : s1.bufLen = 0
              · simp [hb0] at hlt ⊢; omega
              · have : (s1.bufLen * 2 == 0) = false := by simp; omega
                simp only [this, Bool.false_eq_true, if_false]; omega
            have hg : (grow s1).start + (grow s1).data.length < (grow s1).bufLen := by
              have : (grow s1).start = 0 := rfl
              have : (grow s1).data = s1.data := rfl
              rw [‹(grow s1).start = 0›, ‹(grow s1).data = s1.data›, hd1]; omega
            have hgnone : (grow s1).err = none := by show s1.err = none; rw [he1, hnone]
            obtain ⟨f1, f2, f3, f4, f5⟩ := fill_spec (grow s1) (Nat.le_of_lt hg) hgnone
            have hcfgg : SameCfg s1 (grow s1) := ⟨rfl, rfl, by omega, by
              have := hgrow.2; omega, id⟩
            have hwg : weight (grow s1) = weight s := by
              show s1.src.size + s1.data.length = _; rw [hsrc1, hd1]; rfl
            refine (ih _ f2 ?_).transport (f1.trans (by simpa [remaining, grow] using hrem1)) (hcfg1.trans (hcfgg.trans f3))
              (by omega) hnone
            have hsz : (grow s1).src.size = s.src.size := by show s1.src.size = _; rw [hsrc1]
            rcases f4 hg with h | h
            · simp [h]; omega
            · split <;> omega
        · rw [if_neg hfull]
          have hlt : s1.start + s1.data.length < s1.bufLen := by
            have : s1.start + s1.data.length ≠ s1.bufLen := by simpa using hfull
            omega
          have h1none : s1.err = none := by rw [he1, hnone]
          obtain ⟨f1, f2, f3, f4, f5⟩ := fill_spec s1 hfits1 h1none
          have hw1 : weight s1 = weight s := by simp only [weight, hsrc1, hd1]
          refine (ih _ f2 ?_).transport (f1.trans hrem1) (hcfg1.trans f3) (by omega) hnone
          rcases f4 hlt with h | h
          · simp [h]; omega
          · rw [hsrc1] at h; split <;> omega

end GoSSE.Proofs
